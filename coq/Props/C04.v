(* C04 — property theorems only.  Each is closed by [exact <lemma>] and followed by
   Print Assumptions; the statements are pinned here so they cannot be quietly weakened.

   Vocabulary (coq/C04/Model.v, Text.v, Theory*.v):
   apply_option / apply_at / apply_to / diff / read  model the Rust functions apply_diff_option,
   MappingsDiff::apply_to (apply_at: after the namespace lookup), MappingsDiff::diff and
   tiny_v2_diff::read; print is our printer of the text form.
   class_entry n tns k od ot (likewise field_/meth_/param_entry) is the declarative table of ONE key:
   what the diff entry od (if any) says about the target entry ot (if any) — Ok None = absent
   afterwards, Err = refused (entry_apply, unfolded by C04_entry_table).
   cfind / cdfind … look a key up in a map (a list with pairwise distinct keys). *)
From FB Require Import C04.Model C04.Text C04.Theory C04.Theory2 C04.TextTheory C04.TextTheory2 C04.TextTheory3 C04.TextTheory4.

(* ---------------- apply_diff_option: the complete table ---------------- *)
Theorem C04_option_ok_iff : forall (d : action str) (t r : option str),
  apply_option str_eqb d t = Ok r <->
    (d = ANone /\ r = t)
    \/ (exists b, d = AAdd b /\ t = None /\ r = Some b)
    \/ (exists a, d = ARem a /\ t = Some a /\ r = None)
    \/ (exists a b, d = AEdit a b /\ t = Some a /\ r = Some b).
Proof. exact apply_option_ok_iff. Qed.
Print Assumptions C04_option_ok_iff.

Theorem C04_option_err_iff : forall (d : action str) (t : option str),
  apply_option str_eqb d t = Err <->
    (exists b x, d = AAdd b /\ t = Some x)
    \/ (exists a, d = ARem a /\ t <> Some a)
    \/ (exists a b, d = AEdit a b /\ t <> Some a).
Proof. exact apply_option_err_iff. Qed.
Print Assumptions C04_option_err_iff.

(* ---------------- one map level (apply_diff_map), for every level ---------------- *)
(* the result has distinct keys and is, key by key, what the table says; the application is refused
   exactly when the table refuses some key the diff mentions *)
Theorem C04_map_level_spec : forall {K D T} (L : level K D T), level_ok L -> forall ds ts,
  NoDup (map (l_dkey L) ds) -> NoDup (map (l_tkey L) ts) ->
  match apply_map_L L ds ts with
  | Ok r => NoDup (map (l_tkey L) r)
            /\ forall k, entry_apply L k (dfind L k ds) (tfind L k ts) = Ok (tfind L k r)
  | Err => exists k, In k (map (l_dkey L) ds)
                     /\ entry_apply L k (dfind L k ds) (tfind L k ts) = Err
  end.
Proof. exact @apply_map_spec. Qed.
Print Assumptions C04_map_level_spec.

(* the table of one key, spelled out: 4 actions x target present / absent *)
Theorem C04_entry_table : forall {K D T} (L : level K D T) k od ot o,
  entry_apply L k od ot = Ok o <->
    (od = None /\ o = ot)
    \/ (exists d t t', od = Some d /\ ot = Some t /\ l_info L d = ANone /\ l_child L d t = Ok t' /\ o = Some t')
    \/ (exists d t b t1 t', od = Some d /\ ot = Some t /\ l_info L d = AAdd b
                            /\ l_chg L t None (Some b) = Ok t1 /\ l_child L d t1 = Ok t' /\ o = Some t')
    \/ (exists d t a t1, od = Some d /\ ot = Some t /\ l_info L d = ARem a
                         /\ l_chg L t (Some a) None = Ok t1 /\ o = None)
    \/ (exists d t a b t1 t', od = Some d /\ ot = Some t /\ l_info L d = AEdit a b
                              /\ l_chg L t (Some a) (Some b) = Ok t1 /\ l_child L d t1 = Ok t' /\ o = Some t')
    \/ (exists d b t0 t', od = Some d /\ ot = None /\ l_info L d = AAdd b
                          /\ l_mk L k b = Ok t0 /\ l_child L d t0 = Ok t' /\ o = Some t').
Proof. exact @entry_apply_ok_iff. Qed.
Print Assumptions C04_entry_table.

(* the old-value check of Names::change_name (used for existing and, since the fix, for new entries:
   l_chg and l_mk of every level go through it); the first namespace is always refused *)
Theorem C04_change_name : forall tns l from to l',
  change_name tns l from to = Ok l' <-> tns <> O /\ nth tns l None = from /\ l' = set_nth tns l to.
Proof. exact change_name_ok. Qed.
Print Assumptions C04_change_name.

(* ---------------- Theorem 1: apply is exact, level by level ---------------- *)
Theorem C04_apply_spec_mappings : forall tns d t,
  ms_ns t <> [] -> wf_diff d = true -> NoDup (map ckey (ms_classes t)) ->
  match apply_at tns d t with
  | Ok r => apply_ns tns (d_info d) (ms_ns t) = Ok (ms_ns r)
            /\ doc_apply (d_doc d) (ms_doc t) = Ok (ms_doc r)
            /\ NoDup (map ckey (ms_classes r))
            /\ forall k, class_entry (length (ms_ns t)) tns k (cdfind k (d_classes d)) (cfind k (ms_classes t))
                         = Ok (cfind k (ms_classes r))
  | Err => apply_ns tns (d_info d) (ms_ns t) = Err
           \/ doc_apply (d_doc d) (ms_doc t) = Err
           \/ exists k, In k (map cd_name (d_classes d))
                        /\ class_entry (length (ms_ns t)) tns k (cdfind k (d_classes d)) (cfind k (ms_classes t)) = Err
  end.
Proof. exact apply_at_spec. Qed.
Print Assumptions C04_apply_spec_mappings.

Theorem C04_apply_spec_class : forall n tns d c,
  n <> O -> wf_cdiff d = true ->
  NoDup (map fkey (c_fields c)) -> NoDup (map mkey (c_methods c)) ->
  match apply_class n tns d c with
  | Ok c' => c_names c' = c_names c
             /\ doc_apply (cd_doc d) (c_doc c) = Ok (c_doc c')
             /\ NoDup (map fkey (c_fields c')) /\ NoDup (map mkey (c_methods c'))
             /\ (forall k, field_entry n tns k (fdfind k (cd_fields d)) (ffind k (c_fields c)) = Ok (ffind k (c_fields c')))
             /\ (forall k, meth_entry n tns k (mdfind k (cd_methods d)) (mfind k (c_methods c)) = Ok (mfind k (c_methods c')))
  | Err => doc_apply (cd_doc d) (c_doc c) = Err
           \/ (exists k, In k (map fdkey (cd_fields d))
                         /\ field_entry n tns k (fdfind k (cd_fields d)) (ffind k (c_fields c)) = Err)
           \/ (exists k, In k (map mdkey (cd_methods d))
                         /\ meth_entry n tns k (mdfind k (cd_methods d)) (mfind k (c_methods c)) = Err)
  end.
Proof. exact apply_class_spec. Qed.
Print Assumptions C04_apply_spec_class.

Theorem C04_apply_spec_method : forall n tns d m,
  wf_mdiff d = true -> NoDup (map pkey (m_params m)) ->
  match apply_meth n tns d m with
  | Ok m' => m_desc m' = m_desc m /\ m_names m' = m_names m
             /\ doc_apply (md_doc d) (m_doc m) = Ok (m_doc m')
             /\ NoDup (map pkey (m_params m'))
             /\ forall k, param_entry n tns k (pdfind k (md_params d)) (pfind k (m_params m)) = Ok (pfind k (m_params m'))
  | Err => doc_apply (md_doc d) (m_doc m) = Err
           \/ exists k, In k (map pd_index (md_params d))
                        /\ param_entry n tns k (pdfind k (md_params d)) (pfind k (m_params m)) = Err
  end.
Proof. exact apply_meth_spec. Qed.
Print Assumptions C04_apply_spec_method.

Theorem C04_apply_spec_field : forall d f,
  match apply_field d f with
  | Ok f' => f_desc f' = f_desc f /\ f_names f' = f_names f /\ doc_apply (fd_doc d) (f_doc f) = Ok (f_doc f')
  | Err => doc_apply (fd_doc d) (f_doc f) = Err
  end.
Proof. exact apply_field_spec. Qed.
Print Assumptions C04_apply_spec_field.

Theorem C04_apply_spec_parameter : forall d p,
  match apply_param d p with
  | Ok p' => p_index p' = p_index p /\ p_names p' = p_names p /\ doc_apply (pd_doc d) (p_doc p) = Ok (p_doc p')
  | Err => doc_apply (pd_doc d) (p_doc p) = Err
  end.
Proof. exact apply_param_spec. Qed.
Print Assumptions C04_apply_spec_parameter.

(* untouched entries stay identical (the whole node, with its subtree) *)
Theorem C04_untouched_class : forall tns d t r k,
  ms_ns t <> [] -> wf_diff d = true -> NoDup (map ckey (ms_classes t)) ->
  apply_at tns d t = Ok r -> cdfind k (d_classes d) = None ->
  cfind k (ms_classes r) = cfind k (ms_classes t).
Proof. exact apply_untouched_class. Qed.
Print Assumptions C04_untouched_class.

Theorem C04_untouched_member : forall n tns d c c',
  n <> O -> wf_cdiff d = true ->
  NoDup (map fkey (c_fields c)) -> NoDup (map mkey (c_methods c)) ->
  apply_class n tns d c = Ok c' ->
  (forall k, fdfind k (cd_fields d) = None -> ffind k (c_fields c') = ffind k (c_fields c))
  /\ (forall k, mdfind k (cd_methods d) = None -> mfind k (c_methods c') = mfind k (c_methods c)).
Proof. exact apply_untouched_member. Qed.
Print Assumptions C04_untouched_member.

Theorem C04_untouched_parameter : forall n tns d m m',
  wf_mdiff d = true -> NoDup (map pkey (m_params m)) ->
  apply_meth n tns d m = Ok m' ->
  forall k, pdfind k (md_params d) = None -> pfind k (m_params m') = pfind k (m_params m).
Proof. exact apply_untouched_param. Qed.
Print Assumptions C04_untouched_parameter.

(* refusal: Err exactly when the namespace action, the comment action or some key is refused *)
Theorem C04_apply_refuses_iff : forall tns d t,
  ms_ns t <> [] -> wf_diff d = true -> NoDup (map ckey (ms_classes t)) ->
  apply_at tns d t = Err <->
    apply_ns tns (d_info d) (ms_ns t) = Err
    \/ doc_apply (d_doc d) (ms_doc t) = Err
    \/ exists k, class_entry (length (ms_ns t)) tns k (cdfind k (d_classes d)) (cfind k (ms_classes t)) = Err.
Proof. exact apply_at_err_iff. Qed.
Print Assumptions C04_apply_refuses_iff.

(* apply_to = namespace lookup (first namespace with that name), then apply_at *)
Theorem C04_apply_to_lookup : forall d t nsname r,
  apply_to d t nsname = Ok r <->
  exists tns, index_of nsname (ms_ns t) = Some tns /\ apply_at tns d t = Ok r.
Proof. exact apply_to_lookup. Qed.
Print Assumptions C04_apply_to_lookup.

Theorem C04_namespace_lookup : forall s l i, index_of s l = Some i ->
  nth i l [] = s /\ (i < length l)%nat /\ forall j, (j < i)%nat -> nth j l [] <> s.
Proof. exact index_of_spec. Qed.
Print Assumptions C04_namespace_lookup.

(* ---------------- Theorem 2: diff and apply are inverse (known finding F3) ---------------- *)
Theorem C04_diff_apply_partial : forall A B,
  inverse_hyps A B -> f3_class A B = false -> inverse_law A B.
Proof. exact diff_apply_partial. Qed.
Print Assumptions C04_diff_apply_partial.

Theorem C04_diff_apply_refuted : exists A B, inverse_hyps A B /\ f3_class A B = true /\ ~ inverse_law A B.
Proof. exact diff_apply_refuted. Qed.
Print Assumptions C04_diff_apply_refuted.

(* ---------------- Theorem 3: when diff fails ---------------- *)
Theorem C04_diff_ok_iff : forall A B, wf A = true -> wf B = true ->
  (exists d, diff A B = Ok d) <-> ms_ns A = ms_ns B /\ named A = true /\ named B = true.
Proof. exact diff_ok_iff. Qed.
Print Assumptions C04_diff_ok_iff.

Theorem C04_diff_fails_iff : forall A B, wf A = true -> wf B = true ->
  diff A B = Err <-> ~ (ms_ns A = ms_ns B /\ named A = true /\ named B = true).
Proof. exact diff_fails_iff. Qed.
Print Assumptions C04_diff_fails_iff.

(* ---------------- Theorem 4: the text form ---------------- *)
Theorem C04_read_print : forall d, textual_diff d = true -> read (print d) = Ok (norm d).
Proof. exact read_print. Qed.
Print Assumptions C04_read_print.

Theorem C04_apply_norm : forall d t nsname r,
  nonempty_diff d = true -> apply_to d t nsname = Ok r -> apply_to (norm d) t nsname = Ok r.
Proof. exact apply_norm. Qed.
Print Assumptions C04_apply_norm.

(* the diff of two textual mapping sets (valid names without TAB/LF/CR, indices within usize, same
   mappings-level comment, no empty comment) is a textual diff that mentions no empty string *)
Theorem C04_diff_textual : forall A B d,
  wf A = true -> wf B = true -> textual_mappings A = true -> textual_mappings B = true ->
  f4_class A B = false -> ms_doc A = ms_doc B ->
  diff A B = Ok d -> textual_diff d = true /\ nonempty_diff d = true.
Proof. exact diff_textual. Qed.
Print Assumptions C04_diff_textual.

(* the inverse law through print / read (known findings F3, F4) *)
Theorem C04_text_inverse_partial : forall A B,
  text_hyps A B -> f3_class A B = false -> f4_class A B = false -> text_inverse_law A B.
Proof. exact text_inverse_partial. Qed.
Print Assumptions C04_text_inverse_partial.

Theorem C04_text_inverse_refuted :
  exists A B, text_hyps A B /\ f3_class A B = false /\ f4_class A B = true /\ ~ text_inverse_law A B.
Proof. exact text_inverse_refuted. Qed.
Print Assumptions C04_text_inverse_refuted.

(* ---------------- the comment of the mapping set itself has no text form ---------------- *)
(* a diff read from text never carries a namespace action or a mappings-level comment action *)
Theorem C04_read_no_top : forall t d, read t = Ok d -> d_info d = ANone /\ d_doc d = ANone.
Proof. exact read_no_top. Qed.
Print Assumptions C04_read_no_top.

(* hence equal top-level comments are NECESSARY for the literal inverse law through the text form … *)
Theorem C04_text_inverse_needs_same_top : forall A B, text_inverse_law A B -> ms_doc A = ms_doc B.
Proof. exact text_inverse_needs_same_top. Qed.
Print Assumptions C04_text_inverse_needs_same_top.

(* … and without that hypothesis everything EXCEPT the top-level comment arrives: the result is B with
   A's top-level comment (text_inverse_law_top; with ms_doc A = ms_doc B this is text_inverse_law) *)
Theorem C04_text_inverse_modulo_top : forall A B,
  text_hyps_top A B -> f3_class A B = false -> f4_class A B = false ->
  exists d d' r, diff A B = Ok d /\ read (print d) = Ok d'
                 /\ apply_to d' A (nth 1 (ms_ns A) []) = Ok r /\ mequiv r (set_doc B (ms_doc A)).
Proof. exact text_inverse_modulo_top. Qed.
Print Assumptions C04_text_inverse_modulo_top.

(* a witness: in memory the inverse law holds for it, through the text it does not *)
Theorem C04_text_top_comment_refuted :
  exists A B, text_hyps_top A B /\ f3_class A B = false /\ f4_class A B = false
              /\ ms_doc A <> ms_doc B /\ inverse_law A B /\ ~ text_inverse_law A B.
Proof. exact text_top_comment_refuted. Qed.
Print Assumptions C04_text_top_comment_refuted.

(* the hypotheses as the single booleans that the correspondence run evaluates on every generated pair *)
Theorem C04_hyps_decidable : forall A B,
  (inverse_hyps_b A B = true <-> inverse_hyps A B) /\ (text_hyps_b A B = true <-> text_hyps A B)
  /\ (text_hyps_top_b A B = true <-> text_hyps_top A B).
Proof. exact (fun A B => conj (inverse_hyps_b_iff A B) (conj (text_hyps_b_iff A B) (text_hyps_top_b_iff A B))). Qed.
Print Assumptions C04_hyps_decidable.

(* non-vacuity *)
Theorem C04_text_examples :
  text_hyps ex_A ex_B /\ f3_class ex_A ex_B = false /\ f4_class ex_A ex_B = false
  /\ exists d, diff ex_A ex_B = Ok d /\ read (print d) = Ok (norm d) /\ norm d <> d.
Proof. exact text_nonvacuous. Qed.
Print Assumptions C04_text_examples.

Theorem C04_examples :
  inverse_hyps ex_A ex_B /\ f3_class ex_A ex_B = false
  /\ exists d, diff ex_A ex_B = Ok d /\ wf_diff d = true /\ length (d_classes d) = 4%nat.
Proof. exact inverse_nonvacuous. Qed.
Print Assumptions C04_examples.
