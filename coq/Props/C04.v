(* C04 — property theorems only.  Each is closed by [exact <lemma>] and followed by
   Print Assumptions; the statements are pinned here so they cannot be quietly weakened.

   Vocabulary (coq/C04/Model.v, Text.v, Theory*.v):
   apply_option / apply_at / apply_to / diff / read  model the Rust functions apply_diff_option,
   MappingsDiff::apply_to (apply_at: after the namespace lookup), MappingsDiff::diff and
   tiny_v2_diff::read; print is our printer of the text form.
   class_entry n tns k od ot (likewise field_/meth_/param_entry) is the declarative table of ONE key:
   what the diff entry od (if any) says about the target entry ot (if any) — Ok None = absent
   afterwards, Err = refused (entry_apply, unfolded by C04_entry_table).
   cfind / cdfind … look a key up in a map (a list with pairwise distinct keys). *)
From FB Require Import C04.Model C04.Text C04.Theory C04.Theory2 C04.TextTheory C04.TextTheory2 C04.TextTheory3 C04.TextTheory4
  C04.Model2 C04.Equiv C04.Equiv2 C04.Spec C04.Noop C04.Unique.

(* ---------------- apply_diff_option: the complete table ---------------- *)
Theorem C04_option_ok_iff : forall (d : action str) (t r : option str),
  apply_option str_eqb d t = Ok r <->
    (d = ANone /\ r = t)
    \/ (exists b, d = AAdd b /\ t = None /\ r = Some b)
    \/ (exists a, d = ARem a /\ t = Some a /\ r = None)
    \/ (exists a b, d = AEdit a b /\ t = Some a /\ r = Some b).
Proof. exact apply_option_ok_iff. Qed.
Print Assumptions C04_option_ok_iff.

Theorem C04_option_err_iff : forall (d : action str) (t : option str),
  apply_option str_eqb d t = Err <->
    (exists b x, d = AAdd b /\ t = Some x)
    \/ (exists a, d = ARem a /\ t <> Some a)
    \/ (exists a b, d = AEdit a b /\ t <> Some a).
Proof. exact apply_option_err_iff. Qed.
Print Assumptions C04_option_err_iff.

(* ---------------- one map level (apply_diff_map), for every level ---------------- *)
(* the result has distinct keys and is, key by key, what the table says; the application is refused
   exactly when the table refuses some key the diff mentions *)
Theorem C04_map_level_spec : forall {K D T} (L : level K D T), level_ok L -> forall ds ts,
  NoDup (map (l_dkey L) ds) -> NoDup (map (l_tkey L) ts) ->
  match apply_map_L L ds ts with
  | Ok r => NoDup (map (l_tkey L) r)
            /\ forall k, entry_apply L k (dfind L k ds) (tfind L k ts) = Ok (tfind L k r)
  | Err => exists k, In k (map (l_dkey L) ds)
                     /\ entry_apply L k (dfind L k ds) (tfind L k ts) = Err
  end.
Proof. exact @apply_map_spec. Qed.
Print Assumptions C04_map_level_spec.

(* the table of one key, spelled out: 4 actions x target present / absent *)
Theorem C04_entry_table : forall {K D T} (L : level K D T) k od ot o,
  entry_apply L k od ot = Ok o <->
    (od = None /\ o = ot)
    \/ (exists d t t', od = Some d /\ ot = Some t /\ l_info L d = ANone /\ l_child L d t = Ok t' /\ o = Some t')
    \/ (exists d t b t1 t', od = Some d /\ ot = Some t /\ l_info L d = AAdd b
                            /\ l_chg L t None (Some b) = Ok t1 /\ l_child L d t1 = Ok t' /\ o = Some t')
    \/ (exists d t a t1, od = Some d /\ ot = Some t /\ l_info L d = ARem a
                         /\ l_chg L t (Some a) None = Ok t1 /\ o = None)
    \/ (exists d t a b t1 t', od = Some d /\ ot = Some t /\ l_info L d = AEdit a b
                              /\ l_chg L t (Some a) (Some b) = Ok t1 /\ l_child L d t1 = Ok t' /\ o = Some t')
    \/ (exists d b t0 t', od = Some d /\ ot = None /\ l_info L d = AAdd b
                          /\ l_mk L k b = Ok t0 /\ l_child L d t0 = Ok t' /\ o = Some t').
Proof. exact @entry_apply_ok_iff. Qed.
Print Assumptions C04_entry_table.

(* the old-value check of Names::change_name (used for existing and, since the fix, for new entries:
   l_chg and l_mk of every level go through it); the first namespace is always refused *)
Theorem C04_change_name : forall tns l from to l',
  change_name tns l from to = Ok l' <-> tns <> O /\ nth tns l None = from /\ l' = set_nth tns l to.
Proof. exact change_name_ok. Qed.
Print Assumptions C04_change_name.

(* ---------------- Theorem 1: apply is exact, level by level ---------------- *)
Theorem C04_apply_spec_mappings : forall tns d t,
  ms_ns t <> [] -> wf_diff d = true -> NoDup (map ckey (ms_classes t)) ->
  match apply_at tns d t with
  | Ok r => apply_ns tns (d_info d) (ms_ns t) = Ok (ms_ns r)
            /\ doc_apply (d_doc d) (ms_doc t) = Ok (ms_doc r)
            /\ NoDup (map ckey (ms_classes r))
            /\ forall k, class_entry (length (ms_ns t)) tns k (cdfind k (d_classes d)) (cfind k (ms_classes t))
                         = Ok (cfind k (ms_classes r))
  | Err => apply_ns tns (d_info d) (ms_ns t) = Err
           \/ doc_apply (d_doc d) (ms_doc t) = Err
           \/ exists k, In k (map cd_name (d_classes d))
                        /\ class_entry (length (ms_ns t)) tns k (cdfind k (d_classes d)) (cfind k (ms_classes t)) = Err
  end.
Proof. exact apply_at_spec. Qed.
Print Assumptions C04_apply_spec_mappings.

Theorem C04_apply_spec_class : forall n tns d c,
  n <> O -> wf_cdiff d = true ->
  NoDup (map fkey (c_fields c)) -> NoDup (map mkey (c_methods c)) ->
  match apply_class n tns d c with
  | Ok c' => c_names c' = c_names c
             /\ doc_apply (cd_doc d) (c_doc c) = Ok (c_doc c')
             /\ NoDup (map fkey (c_fields c')) /\ NoDup (map mkey (c_methods c'))
             /\ (forall k, field_entry n tns k (fdfind k (cd_fields d)) (ffind k (c_fields c)) = Ok (ffind k (c_fields c')))
             /\ (forall k, meth_entry n tns k (mdfind k (cd_methods d)) (mfind k (c_methods c)) = Ok (mfind k (c_methods c')))
  | Err => doc_apply (cd_doc d) (c_doc c) = Err
           \/ (exists k, In k (map fdkey (cd_fields d))
                         /\ field_entry n tns k (fdfind k (cd_fields d)) (ffind k (c_fields c)) = Err)
           \/ (exists k, In k (map mdkey (cd_methods d))
                         /\ meth_entry n tns k (mdfind k (cd_methods d)) (mfind k (c_methods c)) = Err)
  end.
Proof. exact apply_class_spec. Qed.
Print Assumptions C04_apply_spec_class.

Theorem C04_apply_spec_method : forall n tns d m,
  wf_mdiff d = true -> NoDup (map pkey (m_params m)) ->
  match apply_meth n tns d m with
  | Ok m' => m_desc m' = m_desc m /\ m_names m' = m_names m
             /\ doc_apply (md_doc d) (m_doc m) = Ok (m_doc m')
             /\ NoDup (map pkey (m_params m'))
             /\ forall k, param_entry n tns k (pdfind k (md_params d)) (pfind k (m_params m)) = Ok (pfind k (m_params m'))
  | Err => doc_apply (md_doc d) (m_doc m) = Err
           \/ exists k, In k (map pd_index (md_params d))
                        /\ param_entry n tns k (pdfind k (md_params d)) (pfind k (m_params m)) = Err
  end.
Proof. exact apply_meth_spec. Qed.
Print Assumptions C04_apply_spec_method.

Theorem C04_apply_spec_field : forall d f,
  match apply_field d f with
  | Ok f' => f_desc f' = f_desc f /\ f_names f' = f_names f /\ doc_apply (fd_doc d) (f_doc f) = Ok (f_doc f')
  | Err => doc_apply (fd_doc d) (f_doc f) = Err
  end.
Proof. exact apply_field_spec. Qed.
Print Assumptions C04_apply_spec_field.

Theorem C04_apply_spec_parameter : forall d p,
  match apply_param d p with
  | Ok p' => p_index p' = p_index p /\ p_names p' = p_names p /\ doc_apply (pd_doc d) (p_doc p) = Ok (p_doc p')
  | Err => doc_apply (pd_doc d) (p_doc p) = Err
  end.
Proof. exact apply_param_spec. Qed.
Print Assumptions C04_apply_spec_parameter.

(* untouched entries stay identical (the whole node, with its subtree) *)
Theorem C04_untouched_class : forall tns d t r k,
  ms_ns t <> [] -> wf_diff d = true -> NoDup (map ckey (ms_classes t)) ->
  apply_at tns d t = Ok r -> cdfind k (d_classes d) = None ->
  cfind k (ms_classes r) = cfind k (ms_classes t).
Proof. exact apply_untouched_class. Qed.
Print Assumptions C04_untouched_class.

Theorem C04_untouched_member : forall n tns d c c',
  n <> O -> wf_cdiff d = true ->
  NoDup (map fkey (c_fields c)) -> NoDup (map mkey (c_methods c)) ->
  apply_class n tns d c = Ok c' ->
  (forall k, fdfind k (cd_fields d) = None -> ffind k (c_fields c') = ffind k (c_fields c))
  /\ (forall k, mdfind k (cd_methods d) = None -> mfind k (c_methods c') = mfind k (c_methods c)).
Proof. exact apply_untouched_member. Qed.
Print Assumptions C04_untouched_member.

Theorem C04_untouched_parameter : forall n tns d m m',
  wf_mdiff d = true -> NoDup (map pkey (m_params m)) ->
  apply_meth n tns d m = Ok m' ->
  forall k, pdfind k (md_params d) = None -> pfind k (m_params m') = pfind k (m_params m).
Proof. exact apply_untouched_param. Qed.
Print Assumptions C04_untouched_parameter.

(* refusal: Err exactly when the namespace action, the comment action or some key is refused *)
Theorem C04_apply_refuses_iff : forall tns d t,
  ms_ns t <> [] -> wf_diff d = true -> NoDup (map ckey (ms_classes t)) ->
  apply_at tns d t = Err <->
    apply_ns tns (d_info d) (ms_ns t) = Err
    \/ doc_apply (d_doc d) (ms_doc t) = Err
    \/ exists k, class_entry (length (ms_ns t)) tns k (cdfind k (d_classes d)) (cfind k (ms_classes t)) = Err.
Proof. exact apply_at_err_iff. Qed.
Print Assumptions C04_apply_refuses_iff.

(* apply_to = namespace lookup (first namespace with that name), then apply_at *)
Theorem C04_apply_to_lookup : forall d t nsname r,
  apply_to d t nsname = Ok r <->
  exists tns, index_of nsname (ms_ns t) = Some tns /\ apply_at tns d t = Ok r.
Proof. exact apply_to_lookup. Qed.
Print Assumptions C04_apply_to_lookup.

Theorem C04_namespace_lookup : forall s l i, index_of s l = Some i ->
  nth i l [] = s /\ (i < length l)%nat /\ forall j, (j < i)%nat -> nth j l [] <> s.
Proof. exact index_of_spec. Qed.
Print Assumptions C04_namespace_lookup.

(* ---------------- Theorem 2: diff and apply are inverse (known finding F3) ---------------- *)
Theorem C04_diff_apply_partial : forall A B,
  inverse_hyps A B -> f3_class A B = false -> inverse_law A B.
Proof. exact diff_apply_partial. Qed.
Print Assumptions C04_diff_apply_partial.

Theorem C04_diff_apply_refuted : exists A B, inverse_hyps A B /\ f3_class A B = true /\ ~ inverse_law A B.
Proof. exact diff_apply_refuted. Qed.
Print Assumptions C04_diff_apply_refuted.

(* ---------------- Theorem 3: when diff fails ---------------- *)
Theorem C04_diff_ok_iff : forall A B, wf A = true -> wf B = true ->
  (exists d, diff A B = Ok d) <-> ms_ns A = ms_ns B /\ named A = true /\ named B = true.
Proof. exact diff_ok_iff. Qed.
Print Assumptions C04_diff_ok_iff.

Theorem C04_diff_fails_iff : forall A B, wf A = true -> wf B = true ->
  diff A B = Err <-> ~ (ms_ns A = ms_ns B /\ named A = true /\ named B = true).
Proof. exact diff_fails_iff. Qed.
Print Assumptions C04_diff_fails_iff.

(* ---------------- Theorem 4: the text form ---------------- *)
Theorem C04_read_print : forall d, textual_diff d = true -> read (print d) = Ok (norm d).
Proof. exact read_print. Qed.
Print Assumptions C04_read_print.

Theorem C04_apply_norm : forall d t nsname r,
  nonempty_diff d = true -> apply_to d t nsname = Ok r -> apply_to (norm d) t nsname = Ok r.
Proof. exact apply_norm. Qed.
Print Assumptions C04_apply_norm.

(* the diff of two textual mapping sets (valid names without TAB/LF/CR, indices within usize, same
   mappings-level comment, no empty comment) is a textual diff that mentions no empty string *)
Theorem C04_diff_textual : forall A B d,
  wf A = true -> wf B = true -> textual_mappings A = true -> textual_mappings B = true ->
  f4_class A B = false -> ms_doc A = ms_doc B ->
  diff A B = Ok d -> textual_diff d = true /\ nonempty_diff d = true.
Proof. exact diff_textual. Qed.
Print Assumptions C04_diff_textual.

(* the inverse law through print / read (known findings F3, F4) *)
Theorem C04_text_inverse_partial : forall A B,
  text_hyps A B -> f3_class A B = false -> f4_class A B = false -> text_inverse_law A B.
Proof. exact text_inverse_partial. Qed.
Print Assumptions C04_text_inverse_partial.

Theorem C04_text_inverse_refuted :
  exists A B, text_hyps A B /\ f3_class A B = false /\ f4_class A B = true /\ ~ text_inverse_law A B.
Proof. exact text_inverse_refuted. Qed.
Print Assumptions C04_text_inverse_refuted.

(* ---------------- the comment of the mapping set itself has no text form ---------------- *)
(* a diff read from text never carries a namespace action or a mappings-level comment action *)
Theorem C04_read_no_top : forall t d, read t = Ok d -> d_info d = ANone /\ d_doc d = ANone.
Proof. exact read_no_top. Qed.
Print Assumptions C04_read_no_top.

(* hence equal top-level comments are NECESSARY for the literal inverse law through the text form … *)
Theorem C04_text_inverse_needs_same_top : forall A B, text_inverse_law A B -> ms_doc A = ms_doc B.
Proof. exact text_inverse_needs_same_top. Qed.
Print Assumptions C04_text_inverse_needs_same_top.

(* … and without that hypothesis everything EXCEPT the top-level comment arrives: the result is B with
   A's top-level comment (text_inverse_law_top; with ms_doc A = ms_doc B this is text_inverse_law) *)
Theorem C04_text_inverse_modulo_top : forall A B,
  text_hyps_top A B -> f3_class A B = false -> f4_class A B = false ->
  exists d d' r, diff A B = Ok d /\ read (print d) = Ok d'
                 /\ apply_to d' A (nth 1 (ms_ns A) []) = Ok r /\ mequiv r (set_doc B (ms_doc A)).
Proof. exact text_inverse_modulo_top. Qed.
Print Assumptions C04_text_inverse_modulo_top.

(* a witness: in memory the inverse law holds for it, through the text it does not *)
Theorem C04_text_top_comment_refuted :
  exists A B, text_hyps_top A B /\ f3_class A B = false /\ f4_class A B = false
              /\ ms_doc A <> ms_doc B /\ inverse_law A B /\ ~ text_inverse_law A B.
Proof. exact text_top_comment_refuted. Qed.
Print Assumptions C04_text_top_comment_refuted.

(* the hypotheses as the single booleans that the correspondence run evaluates on every generated pair *)
Theorem C04_hyps_decidable : forall A B,
  (inverse_hyps_b A B = true <-> inverse_hyps A B) /\ (text_hyps_b A B = true <-> text_hyps A B)
  /\ (text_hyps_top_b A B = true <-> text_hyps_top A B).
Proof. exact (fun A B => conj (inverse_hyps_b_iff A B) (conj (text_hyps_b_iff A B) (text_hyps_top_b_iff A B))). Qed.
Print Assumptions C04_hyps_decidable.

(* non-vacuity *)
Theorem C04_text_examples :
  text_hyps ex_A ex_B /\ f3_class ex_A ex_B = false /\ f4_class ex_A ex_B = false
  /\ exists d, diff ex_A ex_B = Ok d /\ read (print d) = Ok (norm d) /\ norm d <> d.
Proof. exact text_nonvacuous. Qed.
Print Assumptions C04_text_examples.

Theorem C04_examples :
  inverse_hyps ex_A ex_B /\ f3_class ex_A ex_B = false
  /\ exists d, diff ex_A ex_B = Ok d /\ wf_diff d = true /\ length (d_classes d) = 4%nat.
Proof. exact inverse_nonvacuous. Qed.
Print Assumptions C04_examples.

(* ================= round 4 ================= *)

(* ---------------- mequiv is decided by Quill.Mappings.equivb ---------------- *)
(* mequiv (lookup-based: same keys, equal values, any order, at every level) and equivb (equal sorted
   canonical forms) coincide on well-formed trees; so every theorem stated with mequiv is a fact the
   correspondence run can evaluate (Run.v: result_is on what the implementation answered) *)
Theorem C04_equivb_iff_mequiv : forall A B, wf A = true -> wf B = true -> (equivb A B = true <-> mequiv A B).
Proof. exact equivb_iff_mequiv. Qed.
Print Assumptions C04_equivb_iff_mequiv.

(* one well-formed side suffices to conclude the boolean, and well-formedness travels along mequiv *)
Theorem C04_mequiv_equivb : forall A B, wf A = true \/ wf B = true -> mequiv A B -> equivb A B = true.
Proof. exact mequiv_equivb. Qed.
Print Assumptions C04_mequiv_equivb.

Theorem C04_wf_mequiv : forall r B, mequiv r B -> wf B = true -> wf r = true.
Proof. exact wf_mequiv. Qed.
Print Assumptions C04_wf_mequiv.

Theorem C04_mequiv_equivalence :
  (forall A, wf A = true -> mequiv A A) /\ (forall A B, mequiv A B -> mequiv B A)
  /\ (forall A B C, mequiv A B -> mequiv B C -> mequiv A C) /\ (forall A, wf A = true -> mequiv A (canon A)).
Proof. exact (conj mequiv_refl (conj mequiv_sym (conj mequiv_trans canon_mequiv))). Qed.
Print Assumptions C04_mequiv_equivalence.

(* the judgement of the correspondence run on an answer of the implementation *)
Theorem C04_result_is : forall r B, wf B = true ->
  (result_is r B = true <-> exists m, r = Ok m /\ mequiv m B).
Proof. exact result_is_iff. Qed.
Print Assumptions C04_result_is.

(* the inverse laws as single booleans *)
Theorem C04_inverse_law_decidable : forall A B, wf B = true ->
  (inverse_law_b A B = true <-> inverse_law A B) /\ (text_inverse_law_b A B = true <-> text_inverse_law A B).
Proof. exact (fun A B H => conj (inverse_law_b_iff A B H) (text_inverse_law_b_iff A B H)). Qed.
Print Assumptions C04_inverse_law_decidable.

Theorem C04_inverse_computed : forall A B,
  inverse_hyps_b A B = true -> f3_class A B = false -> inverse_law_b A B = true.
Proof. exact inverse_b. Qed.
Print Assumptions C04_inverse_computed.

Theorem C04_text_modulo_top_computed : forall A B,
  text_hyps_top_b A B = true -> f3_class A B = false -> f4_class A B = false ->
  exists d d', diff A B = Ok d /\ read (print d) = Ok d'
               /\ result_is (apply_to d' A (nth 1 (ms_ns A) [])) (set_doc B (ms_doc A)) = true.
Proof. exact text_modulo_top_computed. Qed.
Print Assumptions C04_text_modulo_top_computed.

(* ---------------- MappingsDiff::diff is exact (declarative specification, five levels) ---------------- *)
(* level_spec espec k oa ob ow: the diff has an entry for key k exactly when k is on either side, and the
   entry satisfies espec for that combination (CA = only in A, CB = only in B, CAB = in both);
   info_spec: Remove on CA, Add on CB, Edit on CAB - never Add / Remove for a key on both sides;
   doc_spec: the comment action is from_tuple (old comment) (new comment);
   cspec / mspec contain the same statement for the maps below them, so nothing is pruned at any level *)
Theorem C04_diff_exact : forall A B d, wf A = true -> wf B = true -> diff A B = Ok d ->
  d_info d = ANone /\ d_doc d = from_tuple (ms_doc A) (ms_doc B)
  /\ NoDup (map cd_name (d_classes d))
  /\ forall k, level_spec cspec k (cfind k (ms_classes A)) (cfind k (ms_classes B)) (cdfind k (d_classes d)).
Proof. exact diff_exact. Qed.
Print Assumptions C04_diff_exact.

(* the vocabulary of C04_diff_exact, unfolded (so the statement above cannot be weakened by redefinition) *)
Theorem C04_diff_spec_vocabulary :
  (forall {K T W} (espec : K -> comb T -> W -> Prop) k oa ob ow, level_spec espec k oa ob ow <->
     match oa, ob, ow with
     | None, None, None => True
     | Some x, None, Some w => espec k (CA x) w
     | None, Some y, Some w => espec k (CB y) w
     | Some x, Some y, Some w => espec k (CAB x y) w
     | _, _, _ => False
     end)
  /\ (forall c i, info_spec c i <->
        match c with
        | CA la => exists a, nth 1 la None = Some a /\ i = ARem a
        | CB lb => exists b, nth 1 lb None = Some b /\ i = AAdd b
        | CAB la lb => exists a b, nth 1 la None = Some a /\ nth 1 lb None = Some b /\ i = AEdit a b
        end)
  /\ (forall c a, doc_spec c a <->
        a = from_tuple (match c with CA x => x | CB _ => None | CAB x _ => x end)
                       (match c with CA _ => None | CB y => y | CAB _ y => y end))
  /\ (forall k c w, cspec k c w <->
        cd_name w = k /\ info_spec (comb_map c_names c) (cd_info w) /\ doc_spec (comb_map c_doc c) (cd_doc w)
        /\ NoDup (map fdkey (cd_fields w))
        /\ (forall kf, level_spec fspec kf (ffind kf (sideA (comb_map c_fields c))) (ffind kf (sideB (comb_map c_fields c)))
                                  (fdfind kf (cd_fields w)))
        /\ NoDup (map mdkey (cd_methods w))
        /\ (forall km, level_spec mspec km (mfind km (sideA (comb_map c_methods c))) (mfind km (sideB (comb_map c_methods c)))
                                  (mdfind km (cd_methods w))))
  /\ (forall k c w, mspec k c w <->
        mdkey w = k /\ info_spec (comb_map m_names c) (md_info w) /\ doc_spec (comb_map m_doc c) (md_doc w)
        /\ NoDup (map pd_index (md_params w))
        /\ forall kp, level_spec pspec kp (pfind kp (sideA (comb_map m_params c))) (pfind kp (sideB (comb_map m_params c)))
                                 (pdfind kp (md_params w)))
  /\ (forall k c w, fspec k c w <->
        fdkey w = k /\ info_spec (comb_map f_names c) (fd_info w) /\ doc_spec (comb_map f_doc c) (fd_doc w))
  /\ (forall k c w, pspec k c w <->
        pd_index w = k /\ info_spec (comb_map p_names c) (pd_info w) /\ doc_spec (comb_map p_doc c) (pd_doc w)).
Proof. exact diff_spec_vocabulary. Qed.
Print Assumptions C04_diff_spec_vocabulary.

(* nothing is pruned: the diff has an entry for a key exactly when the key is on either side
   (classes directly; every lower map through level_spec inside cspec / mspec) *)
Theorem C04_diff_mentions_every_class : forall A B d k,
  wf A = true -> wf B = true -> diff A B = Ok d ->
  (cdfind k (d_classes d) = None <-> cfind k (ms_classes A) = None /\ cfind k (ms_classes B) = None).
Proof. exact diff_mentions_every_class. Qed.
Print Assumptions C04_diff_mentions_every_class.

Theorem C04_diff_level_mentions : forall {K T W} (espec : K -> comb T -> W -> Prop) k oa ob ow,
  level_spec espec k oa ob ow -> (ow = None <-> oa = None /\ ob = None).
Proof. exact @level_spec_mentions. Qed.
Print Assumptions C04_diff_level_mentions.

(* diff A A is a no-op diff (every action is None or Edit(x,x)); applying it gives A back *)
Theorem C04_diff_self : forall A, wf A = true -> two_ns A = true -> named A = true ->
  exists d r, diff A A = Ok d /\ noop_diff d = true
              /\ apply_to d A (nth 1 (ms_ns A) []) = Ok r /\ mequiv r A /\ equivb r A = true.
Proof. exact diff_self. Qed.
Print Assumptions C04_diff_self.

(* a diff without any effective action (every action None or Edit(x,x)) is the identity wherever it
   applies: the result is the target itself, same entries, same order (no well-formedness needed) *)
Theorem C04_noop_identity : forall d t nsname r, noop_diff d = true -> apply_to d t nsname = Ok r -> r = t.
Proof. exact apply_to_noop_identity. Qed.
Print Assumptions C04_noop_identity.

Theorem C04_diff_self_exact : forall A, wf A = true -> two_ns A = true -> named A = true ->
  exists d, diff A A = Ok d /\ noop_diff d = true /\ apply_to d A (nth 1 (ms_ns A) []) = Ok A.
Proof. exact diff_self_exact. Qed.
Print Assumptions C04_diff_self_exact.

(* ---------------- holder nodes ---------------- *)
(* at every map level: an entry that is not an addition and whose key the target lacks refuses the whole
   map, whatever hangs below the entry *)
Theorem C04_absent_non_add_refused : forall {K D T} (L : level K D T), level_ok L -> forall ds ts k d,
  NoDup (map (l_dkey L) ds) -> NoDup (map (l_tkey L) ts) ->
  dfind L k ds = Some d -> (forall b, l_info L d <> AAdd b) -> tfind L k ts = None ->
  apply_map_L L ds ts = Err.
Proof. exact @absent_non_add_refused. Qed.
Print Assumptions C04_absent_non_add_refused.

Theorem C04_holder_class_absent : forall tns d t k cd,
  ms_ns t <> [] -> wf_diff d = true -> NoDup (map ckey (ms_classes t)) ->
  cdfind k (d_classes d) = Some cd -> (forall b, cd_info cd <> AAdd b) -> cfind k (ms_classes t) = None ->
  apply_at tns d t = Err.
Proof. exact holder_class_absent. Qed.
Print Assumptions C04_holder_class_absent.

Theorem C04_holder_method_absent : forall tns d t kc cd c km md,
  ms_ns t <> [] -> wf_diff d = true -> NoDup (map ckey (ms_classes t)) ->
  cdfind kc (d_classes d) = Some cd -> cfind kc (ms_classes t) = Some c -> cd_info cd = ANone ->
  NoDup (map fkey (c_fields c)) -> NoDup (map mkey (c_methods c)) ->
  mdfind km (cd_methods cd) = Some md -> (forall b, md_info md <> AAdd b) -> mfind km (c_methods c) = None ->
  apply_at tns d t = Err.
Proof. exact holder_method_absent_top. Qed.
Print Assumptions C04_holder_method_absent.

Theorem C04_holder_member_absent : forall n tns cd c,
  n <> O -> wf_cdiff cd = true -> NoDup (map fkey (c_fields c)) -> NoDup (map mkey (c_methods c)) ->
  (exists k md, mdfind k (cd_methods cd) = Some md /\ (forall b, md_info md <> AAdd b) /\ mfind k (c_methods c) = None)
  \/ (exists k fd, fdfind k (cd_fields cd) = Some fd /\ (forall b, fd_info fd <> AAdd b) /\ ffind k (c_fields c) = None) ->
  apply_class n tns cd c = Err.
Proof. exact holder_member_absent. Qed.
Print Assumptions C04_holder_member_absent.

Theorem C04_holder_parameter_absent : forall n tns md m,
  wf_mdiff md = true -> NoDup (map pkey (m_params m)) ->
  (exists k pd, pdfind k (md_params md) = Some pd /\ (forall b, pd_info pd <> AAdd b) /\ pfind k (m_params m) = None) ->
  apply_meth n tns md m = Err.
Proof. exact holder_param_absent. Qed.
Print Assumptions C04_holder_parameter_absent.

(* ---------------- Action helpers; apply_diff_option is invertible and determines its action ---------------- *)
Theorem C04_action_helpers : forall (a : action str),
  from_tuple (fst (to_tuple a)) (snd (to_tuple a)) = a
  /\ flip a = from_tuple (snd (to_tuple a)) (fst (to_tuple a)) /\ flip (flip a) = a
  /\ is_diff str_eqb (flip a) = is_diff str_eqb a
  /\ (is_diff str_eqb a = false <-> a = ANone \/ exists x, a = AEdit x x)
  /\ (is_diff str_eqb a = false -> norm_action a = ANone).
Proof.
  exact (fun a => conj (from_to_tuple a) (conj (flip_tuple a) (conj (flip_flip a) (conj (is_diff_flip a)
                  (conj (is_diff_false_iff a) (is_diff_false_norm a)))))).
Qed.
Print Assumptions C04_action_helpers.

Theorem C04_to_from_tuple : forall (x y : option str), to_tuple (from_tuple x y) = (x, y).
Proof. exact to_from_tuple. Qed.
Print Assumptions C04_to_from_tuple.

Theorem C04_apply_option_flip : forall (d : action str) (t r : option str),
  apply_option str_eqb d t = Ok r -> apply_option str_eqb (flip d) r = Ok t.
Proof. exact apply_option_flip. Qed.
Print Assumptions C04_apply_option_flip.

Theorem C04_apply_option_noop : forall (d : action str) (t r : option str),
  is_diff str_eqb d = false -> apply_option str_eqb d t = Ok r -> r = t.
Proof. exact apply_option_noop. Qed.
Print Assumptions C04_apply_option_noop.

(* uniqueness at the value level: the action that leads from t to r is from_tuple t r, up to no-ops *)
Theorem C04_apply_option_unique : forall (d : action str) (t r : option str),
  apply_option str_eqb d t = Ok r -> is_diff str_eqb d = true -> d = from_tuple t r.
Proof. exact apply_option_unique. Qed.
Print Assumptions C04_apply_option_unique.

Theorem C04_apply_option_between : forall (t r : option str), apply_option str_eqb (from_tuple t r) t = Ok r.
Proof. exact apply_option_between. Qed.
Print Assumptions C04_apply_option_between.

(* non-vacuity of the round-4 hypotheses: a well-formed named tree whose self-diff has three class entries;
   a reordered copy that is a different term but equivb / mequiv; a holder class absent from the target with a
   method addition below it (refused); a pair on which the computed inverse laws are true *)
Theorem C04_round4_examples :
  (wf ex_A = true /\ two_ns ex_A = true /\ named ex_A = true)
  /\ (exists d, diff ex_A ex_A = Ok d /\ length (d_classes d) = 3%nat /\ d <> mkDiff ANone ANone [])
  /\ (canon ex_B <> ex_B /\ wf (canon ex_B) = true /\ equivb (canon ex_B) ex_B = true /\ mequiv (canon ex_B) ex_B)
  /\ (wf_diff holder_d = true /\ NoDup (map ckey (ms_classes f3_A))
      /\ (exists cd, cdfind [120] (d_classes holder_d) = Some cd /\ cd_info cd = ANone /\ cd_methods cd <> [])
      /\ cfind [120] (ms_classes f3_A) = None /\ apply_to holder_d f3_A [110] = Err)
  /\ (exists A B, inverse_hyps_b A B = true /\ f3_class A B = false /\ inverse_law_b A B = true
                  /\ text_hyps_top_b A B = true /\ f4_class A B = false /\ text_inverse_law_b A B = true).
Proof. exact round4_nonvacuous. Qed.
Print Assumptions C04_round4_examples.

(* ================= round 5 ================= *)

(* ---------------- a diff is determined by its effect, up to no-ops ---------------- *)
(* Two diffs that apply to the same well-formed mapping set and lead to the same result (up to the order of
   the maps) are the same diff up to no-ops: None versus Edit(x,x) (eff), an absent entry versus an entry
   without any effective action below it, and whatever hangs below a removal (never looked at).  For every
   target namespace index; d_good = pairwise distinct keys in every map of the diff (follows from wf_diff). *)
Theorem C04_diff_unique : forall tns d1 d2 t r1 r2,
  wf t = true -> (tns < length (ms_ns t))%nat -> d_good d1 -> d_good d2 ->
  apply_at tns d1 t = Ok r1 -> apply_at tns d2 t = Ok r2 -> mequiv r1 r2 -> same_diff d1 d2.
Proof. exact diff_unique. Qed.
Print Assumptions C04_diff_unique.

(* with MappingsDiff::diff as one of the two: EVERY diff that leads from A to B is diff A B up to no-ops
   (the tree-level uniqueness that was stated and not proved until round 5) *)
Theorem C04_diff_unique_AB : forall A B d r,
  inverse_hyps A B -> f3_class A B = false -> d_good d ->
  apply_to d A (nth 1 (ms_ns A) []) = Ok r -> mequiv r B ->
  exists d0, diff A B = Ok d0 /\ same_diff d d0.
Proof. exact diff_unique_AB. Qed.
Print Assumptions C04_diff_unique_AB.

(* the converse of C04_noop_identity: a diff that leaves the mapping set as it is (up to order) has no
   effective action at any level *)
Theorem C04_apply_identity_noop : forall tns d t r,
  wf t = true -> (tns < length (ms_ns t))%nat -> d_good d ->
  apply_at tns d t = Ok r -> mequiv r t ->
  eff (d_info d) = ANone /\ eff (d_doc d) = ANone /\ forall cd, In cd (d_classes d) -> eff (cd_info cd) = ANone /\ cd_noop cd.
Proof. exact apply_identity_noop. Qed.
Print Assumptions C04_apply_identity_noop.

(* the vocabulary of the three statements, unfolded (so they cannot be weakened by redefinition) *)
Theorem C04_same_diff_vocabulary :
  (forall a, eff a = match a with AEdit x y => if str_eqb x y then ANone else a | _ => a end)
  /\ (forall a, eff a = ANone <-> is_diff str_eqb a = false)
  /\ (forall {D} (info : D -> action str) csame cnoop o1 o2, ent_same info csame cnoop o1 o2 <->
        match o1, o2 with
        | None, None => True
        | Some d, None | None, Some d => eff (info d) = ANone /\ cnoop d
        | Some d1, Some d2 => eff (info d1) = eff (info d2) /\ (is_rem (info d1) = true \/ csame d1 d2)
        end)
  /\ (forall d1 d2, same_diff d1 d2 <->
        eff (d_info d1) = eff (d_info d2) /\ eff (d_doc d1) = eff (d_doc d2)
        /\ forall k, ent_same cd_info cd_same cd_noop (cdfind k (d_classes d1)) (cdfind k (d_classes d2)))
  /\ (forall d1 d2, cd_same d1 d2 <->
        eff (cd_doc d1) = eff (cd_doc d2)
        /\ (forall k, ent_same fd_info fd_same fd_noop (fdfind k (cd_fields d1)) (fdfind k (cd_fields d2)))
        /\ (forall k, ent_same md_info md_same md_noop (mdfind k (cd_methods d1)) (mdfind k (cd_methods d2))))
  /\ (forall d, cd_noop d <->
        eff (cd_doc d) = ANone /\ (forall f, In f (cd_fields d) -> eff (fd_info f) = ANone /\ fd_noop f)
        /\ (forall m, In m (cd_methods d) -> eff (md_info m) = ANone /\ md_noop m))
  /\ (forall d1 d2, md_same d1 d2 <->
        eff (md_doc d1) = eff (md_doc d2)
        /\ forall k, ent_same pd_info pd_same pd_noop (pdfind k (md_params d1)) (pdfind k (md_params d2)))
  /\ (forall d, md_noop d <->
        eff (md_doc d) = ANone /\ forall p, In p (md_params d) -> eff (pd_info p) = ANone /\ pd_noop p)
  /\ (forall d1 d2, fd_same d1 d2 <-> eff (fd_doc d1) = eff (fd_doc d2)) /\ (forall d, fd_noop d <-> eff (fd_doc d) = ANone)
  /\ (forall d1 d2, pd_same d1 d2 <-> eff (pd_doc d1) = eff (pd_doc d2)) /\ (forall d, pd_noop d <-> eff (pd_doc d) = ANone)
  /\ (forall d, d_good d <-> NoDup (map cd_name (d_classes d)) /\ forall cd, In cd (d_classes d) ->
        NoDup (map fdkey (cd_fields cd)) /\ NoDup (map mdkey (cd_methods cd))
        /\ forall md, In md (cd_methods cd) -> NoDup (map pd_index (md_params md)))
  /\ (forall d, wf_diff d = true -> d_good d).
Proof. exact same_diff_vocabulary. Qed.
Print Assumptions C04_same_diff_vocabulary.

Theorem C04_same_diff_refl : forall d, same_diff d d.
Proof. exact same_diff_refl. Qed.
Print Assumptions C04_same_diff_refl.

(* one map level, generic: the statement the four levels instantiate *)
Theorem C04_map_unique : forall {K D T} (L : level K D T), level_ok L ->
  forall tn tgood dgood teq csame cnoop, level_u L tn tgood dgood teq csame cnoop -> (forall x y, teq x y -> teq y x) ->
  forall ds1 ds2 ts r1 r2,
  NoDup (map (l_dkey L) ds1) -> NoDup (map (l_dkey L) ds2) -> NoDup (map (l_tkey L) ts) ->
  (forall t, In t ts -> tgood t) -> (forall d, In d ds1 -> dgood d) -> (forall d, In d ds2 -> dgood d) ->
  apply_map_L L ds1 ts = Ok r1 -> apply_map_L L ds2 ts = Ok r2 ->
  (forall k, opt_rel teq (tfind L k r1) (tfind L k r2)) ->
  forall k, ent_same (l_info L) csame cnoop (dfind L k ds1) (dfind L k ds2).
Proof. exact @map_unique. Qed.
Print Assumptions C04_map_unique.

(* non-vacuity: diff ex_A ex_A is not the empty diff but the same up to no-ops; diff ex_A ex_B is not; edits to
   different values are told apart; a hand-written diff (None for Edit(x,x), rubbish below a removal) satisfies
   the hypotheses of C04_diff_unique_AB, is a different term than diff uq_A uq_B, and is the same up to no-ops *)
Theorem C04_unique_examples : unique_examples.
Proof. exact unique_examples_hold. Qed.
Print Assumptions C04_unique_examples.

(* ---------------- the two-column action decoding of a .tinydiff line (TinyLine::action / action_string) ---------------- *)
From FB Require Import C04.Model3 C04.LineTheory.

(* for EVERY list of cells after the key of a class / field / method / parameter line (valid = the checked
   constructor of the name type): more than two cells are refused, a non-empty cell the constructor refuses is
   refused, otherwise the action is from_tuple of the two columns (column = absent when the cell is missing or
   empty) with Edit(x,x) folded to None *)
Theorem C04_line_action_spec : forall valid fs,
  decode_action valid fs =
  if Nat.ltb 2 (length fs) then Err
  else if forallb (fun x => is_nil x || valid x) fs
       then Ok (fold_noop (from_tuple (nonempty (nth 0 fs [])) (nonempty (nth 1 fs []))))
       else Err.
Proof. exact decode_action_is_spec. Qed.
Print Assumptions C04_line_action_spec.

(* exactly when a line is refused: more than two cells, or some non-empty cell is not a valid name *)
Theorem C04_line_action_err_iff : forall valid fs,
  decode_action valid fs = Err <->
  ((2 < length fs)%nat \/ exists x, In x fs /\ x <> [] /\ valid x = false).
Proof. exact decode_action_err_iff. Qed.
Print Assumptions C04_line_action_err_iff.

(* what a line that was read means for the value it is applied to (apply_diff_option; names go through
   Names::change_name, which makes the same comparison - C04_change_name): with equal columns nothing is
   checked and nothing changes; otherwise the value must be the old column and becomes the new column *)
Theorem C04_line_action_apply : forall valid fs a,
  decode_action valid fs = Ok a -> forall t r,
  apply_option str_eqb a t = Ok r <->
  ((column fs 0 = column fs 1 /\ r = t) \/
   (column fs 0 <> column fs 1 /\ t = column fs 0 /\ r = column fs 1)).
Proof. exact decode_action_apply. Qed.
Print Assumptions C04_line_action_apply.

(* the image: a decoded action has no empty value, is never Edit(x,x), its values passed the constructor, and
   the cells our printer writes for it decode to the same action; every such action is the decoding of its cells *)
Theorem C04_line_action_image : forall valid fs a,
  decode_action valid fs = Ok a ->
  line_normal a = true /\ action_all valid a = true /\ decode_action valid (action_cells a) = Ok a.
Proof. exact decode_action_image. Qed.
Print Assumptions C04_line_action_image.

Theorem C04_line_action_onto : forall valid a,
  line_normal a = true -> action_all valid a = true -> decode_action valid (action_cells a) = Ok a.
Proof. exact decode_action_onto. Qed.
Print Assumptions C04_line_action_onto.

(* per line kind (0 class, 1 field, 2 method, 3 parameter, otherwise comment: no validity check, the values are
   unescaped AFTER the comparison of the raw cells) - the function the correspondence stream line-action evaluates *)
Theorem C04_line_kinds : forall k fs,
  line_action k fs =
  if N.ltb k 4 then decode_spec (line_valid k) fs
  else if Nat.ltb 2 (length fs) then Err
       else Ok (map_action unescape (fold_noop (from_tuple (column fs 0) (column fs 1)))).
Proof. exact line_action_is_spec. Qed.
Print Assumptions C04_line_kinds.

(* non-vacuity: the four outcomes, Edit(x,x) folded, a refusal of each kind, a name valid for classes only, and
   the quirk of comment lines: two different raw cells that unescape to the same text give Edit(x,x) *)
Theorem C04_line_examples : line_examples.
Proof. exact line_examples_hold. Qed.
Print Assumptions C04_line_examples.

(* ---------------- the image of tiny_v2_diff::read ---------------- *)
From FB Require Import C04.ReadImage.

(* for EVERY text: a diff that was read has no action on the namespaces and on the comment of the mapping set,
   valid and pairwise distinct keys in every map (mappings_diff::add_child refuses a second entry), and at class,
   field, method and parameter level only name actions a line can express - no empty value, never Edit(x,x) -
   whose values the checked constructors accepted (read_image_b, coq/C04/Model3.v; the correspondence run
   evaluates the same boolean on every diff read_file returned) *)
Theorem C04_read_image : forall t d, read t = Ok d -> read_image_b d = true.
Proof. exact read_image. Qed.
Print Assumptions C04_read_image.

(* so every diff that comes from a file satisfies the hypothesis on diffs of C04_diff_unique / C04_map_level_spec
   (pairwise distinct keys) *)
Theorem C04_read_image_wf : forall t d, read t = Ok d -> wf_diff d = true.
Proof. intros t d H. exact (read_image_wf d (read_image t d H)). Qed.
Print Assumptions C04_read_image_wf.
