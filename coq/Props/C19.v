(* C19 — property theorems only.  Each is closed by [exact <lemma>] and followed by
   Print Assumptions; the statements are pinned here so they cannot be quietly weakened. *)
From FB Require Import C19.Model C19.CoordFmtGen C19.Acyclic C19.Theory C19.TheoryTypes C19.TheorySource C19.TheoryCoord C19.TheoryCoordForms C19.TheoryPom C19.TheoryFields C19.TheoryCut C19.TheoryFuel C19.TheoryEffective C19.TheoryPipeline C19.TheoryTreeShow C19.TheoryCycles C19.TheoryRoundtrip C19.TheoryRelational C19.TheorySnapshot C19.TheoryExact C19.TreeBasics C19.TreeBfs C19.TreeMediation C19.TreeOrder C19.TreeTheorems.
From Coq Require Import Sorting.Sorted.

(* the scope table in the source (regenerated into ScopeGen.v on every run) is Maven's documented table *)
Theorem C19_scope_table_is_maven : forall left top, the_scope_table left top = maven_scope_table left top.
Proof. exact scope_table_is_maven. Qed.
Print Assumptions C19_scope_table_is_maven.

Theorem C19_scope_roundtrip : forall s, parse_scope (print_scope s) = Ok s.
Proof. exact scope_roundtrip. Qed.
Print Assumptions C19_scope_roundtrip.

Theorem C19_scope_parse_print : forall t s, parse_scope t = Ok s -> print_scope s = t.
Proof. exact scope_parse_print. Qed.
Print Assumptions C19_scope_parse_print.

(* ---- mediation (clean_up_dependencies over an arbitrary key with a correct equality test) ----
   [clean_up_kept] is the set of paths of the nodes the code retains.  It is a mediation of the
   forest: closed under ancestors, and a node whose ancestors are all retained is retained iff no
   node with the same collision id whose ancestors are all retained precedes it in
   (depth, declaration) order; it is the only such set; and the forest the code leaves is the
   sub-forest of exactly these paths (rivals disappear with their subtrees). *)
Theorem C19_mediation_spec : forall (A K : Type) (keq : K -> K -> bool) (cid : A -> K) (F : list (tree A)),
  (forall a b, keq a b = true <-> a = b) ->
  let R := fun p => In p (clean_up_kept keq cid F) in
  is_mediation F cid R
  /\ (forall R', is_mediation F cid R' -> forall p, R' p <-> R p)
  /\ clean_up keq cid F = subforest (fun p => mem_path p (clean_up_kept keq cid F)) F.
Proof. exact @mediation_spec. Qed.
Print Assumptions C19_mediation_spec.

Theorem C19_mediation_unique : forall (A K : Type) (F : list (tree A)) (cid : A -> K) (R1 R2 : path -> Prop),
  is_mediation F cid R1 -> is_mediation F cid R2 -> forall p, R1 p <-> R2 p.
Proof. exact @mediation_unique. Qed.
Print Assumptions C19_mediation_unique.

(* the list handed out: the data at the retained paths, the paths strictly increasing in (depth, declaration) order *)
Theorem C19_bfs_order : forall (A K : Type) (keq : K -> K -> bool) (cid : A -> K) (F : list (tree A)),
  StronglySorted before (clean_up_kept keq cid F)
  /\ Forall2 (fun p a => node_of F p a) (clean_up_kept keq cid F) (breadth_first (clean_up keq cid F)).
Proof. exact @clean_up_bfs_order. Qed.
Print Assumptions C19_bfs_order.

Theorem C19_bfs_nodup : forall (A K : Type) (keq : K -> K -> bool) (cid : A -> K) (F : list (tree A)),
  (forall a b, keq a b = true <-> a = b) -> NoDup (map cid (breadth_first (clean_up keq cid F))).
Proof. exact @clean_up_bfs_nodup. Qed.
Print Assumptions C19_bfs_nodup.

(* breadth_first of any forest lists every node exactly once, in (depth, declaration) order *)
Theorem C19_breadth_first_order : forall (A : Type) (F : list (tree A)),
  exists l : list path,
    StronglySorted before l
    /\ (forall p, In p l <-> exists a, node_of F p a)
    /\ Forall2 (fun p a => node_of F p a) l (breadth_first F).
Proof. exact @breadth_first_order. Qed.
Print Assumptions C19_breadth_first_order.

(* ---- coordinates and resolved dependencies survive printing and re-parsing ---- *)
Theorem C19_coord_roundtrip : forall c, coord_colon_free c = true -> parse_coord (print_coord c) = Ok c.
Proof. exact coord_roundtrip. Qed.
Print Assumptions C19_coord_roundtrip.

Theorem C19_coord_parse_print_parse : forall s c, parse_coord s = Ok c -> parse_coord (print_coord c) = Ok c.
Proof. exact coord_parse_print_parse. Qed.
Print Assumptions C19_coord_parse_print_parse.

(* the repository's name is not printed; parsing sets it to the url *)
Theorem C19_found_dep_roundtrip : forall d, coord_separator_free (f_coord d) = true ->
  parse_found (print_found d) = Ok (mkFound (mkResolver (r_maven (f_resolver d)) (r_maven (f_resolver d))) (f_coord d) (f_scope d)).
Proof. exact found_roundtrip. Qed.
Print Assumptions C19_found_dep_roundtrip.

(* ---- effective POMs ---- *)
(* explicit version/scope/optional win, omitted ones come from the FIRST managed entry with the
   dependency's (group, artifact, classifier, type); no version anywhere is an error *)
Theorem C19_managed_fill_in : forall dm x,
  make_dependency dm x =
  match d_version x, managed dm (dep_key x) with
  | Some v, m => Ok (fill x v m)
  | None, Some e => Ok (fill x (c_version (dd_coord e)) (Some e))
  | None, None => Err
  end.
Proof. exact managed_fill_in. Qed.
Print Assumptions C19_managed_fill_in.

Theorem C19_managed_child_first : forall own parent k,
  managed (own ++ parent) k = match managed own k with Some e => Some e | None => managed parent k end.
Proof. exact managed_child_first. Qed.
Print Assumptions C19_managed_child_first.

(* own managed entries in order, each import replaced in place by the imported POM's management *)
Theorem C19_dependency_management_expansion : forall rec l out, make_dm_own rec l = Ok out <-> dm_expands rec l out.
Proof. exact make_dm_own_spec. Qed.
Print Assumptions C19_dependency_management_expansion.

(* one inheritance step: group/version inherited, management = own (expanded) ++ parent's, declared
   dependencies = own ++ inherited, every one completed from the merged management *)
Theorem C19_merge_parent_spec : forall rec parent child m,
  merge_parent rec parent child = Ok m ->
  (match parent with
   | Some par => c_type (pd_coord par) = s_pom
                 /\ c_group (pd_coord m) = unwrap_or (p_group child) (c_group (pd_coord par))
                 /\ c_version (pd_coord m) = unwrap_or (p_version child) (c_version (pd_coord par))
   | None => p_group child = Some (c_group (pd_coord m)) /\ p_version child = Some (c_version (pd_coord m))
   end)
  /\ c_artifact (pd_coord m) = p_artifact child
  /\ c_type (pd_coord m) = unwrap_or (p_packaging child) s_jar
  /\ (exists own, dm_expands rec (p_dm child) own
        /\ pd_dm m = own ++ match parent with Some par => pd_dm par | None => [] end)
  /\ pd_declared m = p_deps child ++ match parent with Some par => pd_declared par | None => [] end
  /\ map_res (make_dependency (pd_dm m)) (pd_declared m) = Ok (pd_deps m).
Proof. exact merge_parent_spec. Qed.
Print Assumptions C19_merge_parent_spec.

(* the stack of parents of get_merged_pom computes plain recursive inheritance along the parent chain *)
Theorem C19_merged_pom_is_inheritance : forall f fs rs c,
  get_merged_pom (S f) fs rs c =
  (do rp <- try_get_pom_for fs rs c;
   do stack <- parent_chain f fs rs (snd rp);
   do e <- effective_chain (fun c' => do x <- get_merged_pom f fs rs c'; Ok (snd x)) (snd rp :: stack);
   match e with Some m => Ok (fst rp, m) | None => Err end).
Proof. exact merged_pom_is_inheritance. Qed.
Print Assumptions C19_merged_pom_is_inheritance.

(* ---- repositories ---- *)
Theorem C19_repo_first : forall fs rs c r p,
  try_get_pom_for fs rs c = Ok (r, p) ->
  exists before_r after_r,
    rs = before_r ++ r :: after_r
    /\ Forall (fun r' => download fs (make_pom_url r' c) = Ok None) before_r
    /\ download fs (make_pom_url r c) = Ok (Some p)
    /\ p_model_version p = s_4_0_0.
Proof. exact repo_first. Qed.
Print Assumptions C19_repo_first.

(* ---- the dependency tree: optional and non-transitive scopes are cut, scopes compose by the table ---- *)
Theorem C19_tree_children_spec : forall mf f fs rs c sc t,
  get_dependencies_tree mf (S f) fs rs c sc = Ok t ->
  exists r pd,
    get_merged_pom mf fs rs c = Ok (r, pd)
    /\ data t = mkFound r c sc
    /\ Forall2 (fun d k => exists s', the_scope_table sc (dd_declared_scope d) = Some s'
                                      /\ get_dependencies_tree mf f fs rs (dd_coord d) s' = Ok k)
               (filter (transitive sc) (pd_deps pd)) (children t).
Proof. exact tree_children_spec. Qed.
Print Assumptions C19_tree_children_spec.

(* the cut happens BEFORE resolution (converse of the above): a node resolves as soon as its effective POM exists and
   the dependencies that are NOT cut resolve; nothing is asked of optional / non-transitive ones, so what lies behind a
   cut edge (no document, an unusable document, an incompletable POM) cannot turn the answer into an error *)
Theorem C19_tree_children_complete : forall mf f fs rs c sc r pd kids,
  get_merged_pom mf fs rs c = Ok (r, pd) ->
  Forall2 (fun d k => exists s', the_scope_table sc (dd_declared_scope d) = Some s'
                                 /\ get_dependencies_tree mf f fs rs (dd_coord d) s' = Ok k)
          (filter (transitive sc) (pd_deps pd)) kids ->
  get_dependencies_tree mf (S f) fs rs c sc = Ok (Node (mkFound r c sc) kids).
Proof. exact tree_children_complete. Qed.
Print Assumptions C19_tree_children_complete.

(* two file maps that agree on a node's effective POM and on the subtrees of its followed dependencies give the same
   tree, whatever they hold behind the cut edges *)
Theorem C19_cut_edges_irrelevant : forall mf f fs fs' rs c sc t,
  get_dependencies_tree mf (S f) fs rs c sc = Ok t ->
  get_merged_pom mf fs' rs c = get_merged_pom mf fs rs c ->
  (forall d s', In d (pd_deps (match get_merged_pom mf fs rs c with Ok rp => snd rp | Err => mkPDone c [] [] [] end)) ->
                transitive sc d = true ->
                get_dependencies_tree mf f fs' rs (dd_coord d) s' = get_dependencies_tree mf f fs rs (dd_coord d) s') ->
  get_dependencies_tree mf (S f) fs' rs c sc = Ok t.
Proof. exact cut_edges_irrelevant. Qed.
Print Assumptions C19_cut_edges_irrelevant.

(* ---- the resolved list: trees of the roots, mediated by collision id, breadth first, no duplicates,
   every element recorded with the first repository serving its POM ---- *)
Theorem C19_resolved_list_spec : forall n fs rs roots out,
  get_maven_dependencies_fuel n fs rs roots = Ok out ->
  exists forest,
    Forall2 (fun r t => get_dependencies_tree n n fs rs (fst r) (snd r) = Ok t) roots forest
    /\ (let R := fun p => In p (clean_up_kept cid_eqb found_cid forest) in
        is_mediation forest found_cid R
        /\ StronglySorted before (clean_up_kept cid_eqb found_cid forest)
        /\ Forall2 (fun p d => node_of forest p d) (clean_up_kept cid_eqb found_cid forest) out)
    /\ NoDup (map found_cid out)
    /\ Forall (served_first fs rs) out.
Proof. exact resolved_list_spec. Qed.
Print Assumptions C19_resolved_list_spec.

(* the model recurses on fuel; an answer that is not an error does not depend on how much *)
Theorem C19_fuel_monotone : forall n m fs rs roots out, (n <= m)%N ->
  get_maven_dependencies_fuel (N.to_nat n) fs rs roots = Ok out -> get_maven_dependencies_fuel (N.to_nat m) fs rs roots = Ok out.
Proof. exact fuel_monotone. Qed.
Print Assumptions C19_fuel_monotone.

(* in a universe that passes the (decidable) rank check -- every document that could be served for
   something a POM refers to has a smaller rank than the POM's own document -- any fuel above the
   number of documents gives the model's answer, an error included: Err is then never "out of fuel" *)
Theorem C19_fuel_suffices : forall fs rs ranks roots f,
  acyclic_check fs rs ranks = true -> (length fs < f)%nat ->
  get_maven_dependencies_fuel f fs rs roots = get_maven_dependencies fs rs roots.
Proof. exact fuel_suffices. Qed.
Print Assumptions C19_fuel_suffices.

Theorem C19_acyclic_example : acyclic_check ex_files [mkResolver [114%N] [114%N]] ex_ranks = true.
Proof. exact acyclic_example. Qed.
Print Assumptions C19_acyclic_example.

(* ==== round 4 ==== *)

(* ---- the collision id, tied to coord.rs by the translator (CoordGen.v): exactly group, artifact, classifier, TYPE ---- *)
Theorem C19_collision_id_fields : forall a b,
  dependency_collision_id a = dependency_collision_id b <->
  c_group a = c_group b /\ c_artifact a = c_artifact b /\ c_classifier a = c_classifier b /\ c_type a = c_type b.
Proof. exact collision_id_fields. Qed.
Print Assumptions C19_collision_id_fields.

(* the set's equality test (derived PartialEq/Eq/Hash) decides equality of ids: the hypothesis of C19_mediation_spec *)
Theorem C19_cid_eqb_decides : forall a b : cid, cid_eqb a b = true <-> a = b.
Proof. exact cid_eqb_decides. Qed.
Print Assumptions C19_cid_eqb_decides.

(* the dependency management is searched under the same id *)
Theorem C19_matches_is_collision_id : forall c g a k t,
  matches_besides_version c g a k t = true <-> dependency_collision_id c = (g, a, k, t).
Proof. exact matches_is_collision_id. Qed.
Print Assumptions C19_matches_is_collision_id.

(* jar and ejb of one artifact have the same file name and are nevertheless not rivals *)
Theorem C19_types_sharing_an_extension_do_not_collide : forall r g a v,
  dependency_collision_id (mkCoord g a v None s_jar) <> dependency_collision_id (mkCoord g a v None s_ejb)
  /\ make_url r (mkCoord g a v None s_jar) = make_url r (mkCoord g a v None s_ejb).
Proof. exact types_sharing_an_extension_do_not_collide. Qed.
Print Assumptions C19_types_sharing_an_extension_do_not_collide.

(* ---- the artifact handler tables (arms regenerated from coord.rs), for all strings ---- *)
Theorem C19_packaging_to_type_identity : forall p, packaging_to_type p = p.
Proof. exact packaging_to_type_identity. Qed.
Print Assumptions C19_packaging_to_type_identity.

Theorem C19_type_to_classifier_is_maven : forall t, type_to_classifier t = lookup_str t maven_default_classifiers.
Proof. exact type_to_classifier_is_maven. Qed.
Print Assumptions C19_type_to_classifier_is_maven.

Theorem C19_type_to_extension_is_maven : forall t, type_to_extension t = maven_extension t.
Proof. exact type_to_extension_is_maven. Qed.
Print Assumptions C19_type_to_extension_is_maven.

(* ---- the printers' format strings as the translator reads them are the model's printers ---- *)
Theorem C19_printers_are_source :
  (forall c, print_coord_src c = print_coord c)
  /\ (forall r c, make_pom_url_src r c = make_pom_url r c)
  /\ (forall r c, make_url_src r c = make_url r c)
  /\ (forall d, print_found_src d = print_found d).
Proof. exact (conj print_coord_is_source (conj make_pom_url_is_source (conj make_url_is_source print_found_is_source))). Qed.
Print Assumptions C19_printers_are_source.

(* ---- managed fill-in, field by field ---- *)
Theorem C19_managed_is_first : forall dm k e,
  managed dm k = Some e <->
  exists before_e after_e, dm = before_e ++ e :: after_e
    /\ dependency_collision_id (dd_coord e) = k
    /\ Forall (fun e' => dependency_collision_id (dd_coord e') <> k) before_e.
Proof. exact managed_is_first. Qed.
Print Assumptions C19_managed_is_first.

(* version, scope and optional independently: declared, else managed, else open; the identity is the declared one *)
Theorem C19_managed_fill_in_fields : forall dm x d,
  make_dependency dm x = Ok d ->
  let m := managed dm (dep_key x) in
  dependency_collision_id (dd_coord d) = dep_key x
  /\ Some (c_version (dd_coord d)) = or_else (d_version x) (m_version m)
  /\ dd_scope d = or_else (d_scope x) (m_scope m)
  /\ dd_optional d = or_else (d_optional x) (m_optional m).
Proof. exact managed_fill_in_fields. Qed.
Print Assumptions C19_managed_fill_in_fields.

Theorem C19_make_dependency_error : forall dm x, make_dependency dm x = Err <-> d_version x = None /\ managed dm (dep_key x) = None.
Proof. exact make_dependency_error. Qed.
Print Assumptions C19_make_dependency_error.

(* all eight subsets of {version, scope, optional} declared against an entry managing all three *)
Theorem C19_fill_in_all_subsets : forall v s o,
  make_dependency ex_managed (ex_decl v s o)
  = Ok (mkDDone (mkCoord [103%N] [120%N] (if v then [49%N] else [50%N]) None s_jar)
                (Some (if s then Test else Runtime)) (Some (if o then false else true))).
Proof. exact fill_in_all_subsets. Qed.
Print Assumptions C19_fill_in_all_subsets.

(* ---- the effective POM without fuel: in an acyclic universe get_merged_pom (S (length fs)) is the unique solution of
   "the document of c, inherited along its parents, every import replaced in place by what the solution gives for the BOM" ---- *)
Theorem C19_effective_pom_fixpoint : forall fs rs ranks, acyclic_check fs rs ranks = true ->
  forall c, get_merged_pom (S (length fs)) fs rs c = effective_step fs rs (get_merged_pom (S (length fs)) fs rs) c.
Proof. exact effective_pom_fixpoint. Qed.
Print Assumptions C19_effective_pom_fixpoint.

Theorem C19_effective_pom_unique : forall fs rs ranks (X : coord -> res (resolver * pdone)),
  acyclic_check fs rs ranks = true ->
  (forall c, X c = effective_step fs rs X c) ->
  forall c, X c = get_merged_pom (S (length fs)) fs rs c.
Proof. exact effective_pom_unique. Qed.
Print Assumptions C19_effective_pom_unique.

(* ---- the dependency tree without fuel ---- *)
(* the model's recursion computes a tree satisfying the declarative description, and every such tree is computed *)
Theorem C19_dep_tree_computed : forall mf fs rs c sc t,
  (forall f, get_dependencies_tree mf f fs rs c sc = Ok t -> is_dep_tree (get_merged_pom mf fs rs) c sc t)
  /\ (is_dep_tree (get_merged_pom mf fs rs) c sc t -> get_dependencies_tree mf (tsize t) fs rs c sc = Ok t).
Proof. exact (fun mf fs rs c sc t => conj (fun f => tree_is_dep_tree mf fs rs f c sc t) (dep_tree_is_tree mf fs rs t c sc)). Qed.
Print Assumptions C19_dep_tree_computed.

Theorem C19_dep_tree_unfold : forall E c sc x kids,
  is_dep_tree E c sc (Node x kids) <->
  exists r pd, E c = Ok (r, pd) /\ x = mkFound r c sc
    /\ Forall2 (fun d k => exists s', the_scope_table sc (dd_declared_scope d) = Some s' /\ is_dep_tree E (dd_coord d) s' k)
               (filter (transitive sc) (pd_deps pd)) kids.
Proof. exact is_dep_tree_unfold. Qed.
Print Assumptions C19_dep_tree_unfold.

Theorem C19_dep_tree_unique : forall E t1 c sc t2, is_dep_tree E c sc t1 -> is_dep_tree E c sc t2 -> t1 = t2.
Proof. exact is_dep_tree_functional. Qed.
Print Assumptions C19_dep_tree_unique.

(* what sits at a path of the forest, and with which scope: the root's scope composed with the declared scopes of the
   (non-optional) edges leading there *)
Theorem C19_forest_paths : forall E roots forest, forest_of E roots forest ->
  forall p t, at_path forest p t -> exists c sc, derives E roots p c sc /\ is_dep_tree E c sc t.
Proof. exact forest_paths. Qed.
Print Assumptions C19_forest_paths.

Theorem C19_scope_along_path : forall E roots p c sc, derives E roots p c sc ->
  exists i c0 sc0 (edges : list ddone),
    hd_error p = Some i /\ nth_error roots i = Some (c0, sc0)
    /\ S (length edges) = length p
    /\ Forall (fun d => dd_is_optional d = false) edges
    /\ compose_scopes sc0 (map dd_declared_scope edges) = Some sc
    /\ c = last (map dd_coord edges) c0.
Proof. exact derives_scope. Qed.
Print Assumptions C19_scope_along_path.

(* ---- the whole pipeline, in an acyclic universe ---- *)
Theorem C19_resolution_pipeline : forall fs rs ranks roots,
  acyclic_check fs rs ranks = true ->
  let E := get_merged_pom (S (length fs)) fs rs in
  (forall f, (length fs < f)%nat -> get_maven_dependencies_fuel f fs rs roots = get_maven_dependencies fs rs roots)
  /\ (forall out, get_maven_dependencies fs rs roots = Ok out <->
        exists forest, forest_of E roots forest /\ out = breadth_first (clean_up cid_eqb found_cid forest))
  /\ (forall f1 f2, forest_of E roots f1 -> forest_of E roots f2 -> f1 = f2)
  /\ (forall forest, forest_of E roots forest ->
        let kept := clean_up_kept cid_eqb found_cid forest in
        let out := breadth_first (clean_up cid_eqb found_cid forest) in
        is_mediation forest found_cid (fun p => In p kept)
        /\ StronglySorted before kept
        /\ NoDup (map found_cid out)
        /\ Forall2 (fun p d => node_of forest p d /\ derives E roots p (f_coord d) (f_scope d) /\ served_first fs rs d) kept out).
Proof. exact resolution_pipeline. Qed.
Print Assumptions C19_resolution_pipeline.

(* ---- cyclic universes: the model has no answer, whatever the fuel (the crate recurses without bound) ---- *)
Theorem C19_self_cycle_never_resolves : forall mf fs rs c sc,
  (forall r pd, get_merged_pom mf fs rs c = Ok (r, pd) ->
     exists d, In d (pd_deps pd) /\ transitive sc d = true /\ dd_coord d = c /\ the_scope_table sc (dd_declared_scope d) = Some sc) ->
  (forall f, get_dependencies_tree mf f fs rs c sc = Err) /\ (forall t, ~ is_dep_tree (get_merged_pom mf fs rs) c sc t).
Proof. exact (fun mf fs rs c sc H => conj (self_cycle_never_resolves mf fs rs c sc H) (self_cycle_no_dep_tree mf fs rs c sc H)). Qed.
Print Assumptions C19_self_cycle_never_resolves.

Theorem C19_cyclic_example :
  (forall n, get_maven_dependencies_fuel n ex_cyclic_files [mkResolver [114%N] [114%N]] [(ex_cyclic_root, Compile)] = Err)
  /\ (forall ranks, acyclic_check ex_cyclic_files [mkResolver [114%N] [114%N]] ranks = false).
Proof. exact (conj cyclic_example cyclic_example_rejected). Qed.
Print Assumptions C19_cyclic_example.

(* cycles of any length, along each of the three kinds of edges the crate recurses over: a set that cannot be left *)
Theorem C19_dependency_trap_never_resolves : forall mf fs rs (S : coord -> scope -> Prop),
  (forall c sc, S c sc -> forall r pd, get_merged_pom mf fs rs c = Ok (r, pd) ->
     exists d s', In d (pd_deps pd) /\ transitive sc d = true
                  /\ the_scope_table sc (dd_declared_scope d) = Some s' /\ S (dd_coord d) s') ->
  forall f c sc, S c sc -> get_dependencies_tree mf f fs rs c sc = Err.
Proof. exact dependency_trap_never_resolves. Qed.
Print Assumptions C19_dependency_trap_never_resolves.

Theorem C19_parent_trap_never_resolves : forall fs rs (P : pom -> Prop),
  (forall p, P p -> exists c, get_parent_coord p = Some c /\ forall r q, try_get_pom_for fs rs c = Ok (r, q) -> P q) ->
  forall f p, P p -> parent_chain f fs rs p = Err.
Proof. exact parent_trap_never_resolves. Qed.
Print Assumptions C19_parent_trap_never_resolves.

Theorem C19_import_trap_never_resolves : forall fs rs (T : coord -> Prop),
  (forall c, T c -> forall r p f stack, try_get_pom_for fs rs c = Ok (r, p) -> parent_chain f fs rs p = Ok stack ->
     Exists (imports_into T) (p :: stack)) ->
  forall f c, T c -> get_merged_pom f fs rs c = Err.
Proof. exact import_trap_never_resolves. Qed.
Print Assumptions C19_import_trap_never_resolves.

(* a -> b -> a; a POM that is its own parent; a BOM importing itself: no answer for any fuel *)
Theorem C19_cycle_examples :
  (forall n, get_maven_dependencies_fuel n ex_two_cycle ex_r [(ex_c 97, Compile)] = Err)
  /\ (forall n, get_maven_dependencies_fuel n ex_self_parent ex_r [(ex_c 112, Compile)] = Err)
  /\ (forall n, get_maven_dependencies_fuel n ex_self_import ex_r [(mkCoord [103%N] (ex_s 98) [49%N] None s_pom, Compile)] = Err).
Proof. exact (conj two_cycle_example (conj self_parent_example self_import_example)). Qed.
Print Assumptions C19_cycle_examples.

(* ---- every text the coordinate parser accepts ---- *)
Theorem C19_parse_coord_forms : forall s c,
  parse_coord s = Ok c <->
  exists pieces, Forall (fun p => free_of cCOLON p = true) pieces /\ s = join cCOLON pieces /\ coord_of_pieces pieces = Some c.
Proof. exact parse_coord_forms. Qed.
Print Assumptions C19_parse_coord_forms.

Theorem C19_print_of_parse : forall s c, parse_coord s = Ok c ->
  print_coord c = s
  \/ exists g a v, s = join cCOLON [g; a; v] /\ print_coord c = join cCOLON [g; a; s_jar; v].
Proof. exact print_of_parse. Qed.
Print Assumptions C19_print_of_parse.

(* the parser is injective except for an omitted type against an explicit `jar` *)
Theorem C19_parse_coord_collisions : forall s1 s2 c, parse_coord s1 = Ok c -> parse_coord s2 = Ok c ->
  s1 = s2
  \/ exists g a v, (s1 = join cCOLON [g; a; v] /\ s2 = join cCOLON [g; a; s_jar; v])
                   \/ (s2 = join cCOLON [g; a; v] /\ s1 = join cCOLON [g; a; s_jar; v]).
Proof. exact parse_coord_collisions. Qed.
Print Assumptions C19_parse_coord_collisions.

Theorem C19_print_coord_injective : forall c1 c2, coord_colon_free c1 = true -> coord_colon_free c2 = true ->
  print_coord c1 = print_coord c2 -> c1 = c2.
Proof. exact print_coord_injective. Qed.
Print Assumptions C19_print_coord_injective.

Theorem C19_found_parse_print_parse : forall s d, parse_found s = Ok d -> parse_found (print_found d) = Ok d.
Proof. exact found_parse_print_parse. Qed.
Print Assumptions C19_found_parse_print_parse.

(* ---- the resolved list survives printing and re-parsing: when no dependency / management entry of the universe and no
   root coordinate contains ':' or " @ ", every entry of the list prints to a text that parses back to it (the repository's
   name, which is not printed, becomes the url) ---- *)
Theorem C19_resolved_list_roundtrip : forall n fs rs roots out,
  files_clean fs = true -> Forall (fun r => coord_separator_free (fst r) = true) roots ->
  get_maven_dependencies_fuel n fs rs roots = Ok out ->
  Forall (fun d => parse_coord (print_coord (f_coord d)) = Ok (f_coord d)
                   /\ parse_found (print_found d)
                      = Ok (mkFound (mkResolver (r_maven (f_resolver d)) (r_maven (f_resolver d))) (f_coord d) (f_scope d))) out.
Proof. exact resolved_list_roundtrip. Qed.
Print Assumptions C19_resolved_list_roundtrip.

Theorem C19_roundtrip_example :
  files_clean ex_files = true /\ coord_separator_free (mkCoord [103%N] (ex_s 99) [49%N] None s_jar) = true.
Proof. exact roundtrip_example. Qed.
Print Assumptions C19_roundtrip_example.

(* ---- the tree printer (Display / Debug of Tree, FormattedTree): one line per node ---- *)
Theorem C19_show_tree_lines : forall (A : Type) (show : A -> str) pal t,
  (forall a, newlines (show a) = O) -> palette_one_line pal -> newlines (show_tree show pal t) = tsize t.
Proof. exact show_tree_lines. Qed.
Print Assumptions C19_show_tree_lines.

(* ---- non-vacuity ---- *)
Theorem C19_examples :
  (clean_up N.eqb ex_cid [Node (ex_B, 1%N) [Node (ex_C, 1%N) [Node (ex_D, 20%N) []]]; Node (ex_E, 1%N) [Node (ex_D, 10%N) []]]
   = [Node (ex_B, 1%N) [Node (ex_C, 1%N) []]; Node (ex_E, 1%N) [Node (ex_D, 10%N) []]])
  /\ (coord_separator_free ex_coord = true /\ parse_coord (print_coord ex_coord) = Ok ex_coord)
  /\ get_maven_dependencies ex_files [mkResolver [114%N] [114%N]] [(mkCoord [103%N] (ex_s 99) [49%N] None s_jar, Compile)]
     = Ok [mkFound (mkResolver [114%N] [114%N]) (mkCoord [103%N] (ex_s 99) [49%N] None s_jar) Compile;
           mkFound (mkResolver [114%N] [114%N]) (mkCoord [103%N] (ex_s 121) [50%N] None s_jar) Runtime;
           mkFound (mkResolver [114%N] [114%N]) (mkCoord [103%N] (ex_s 120) [50%N] None s_jar) Compile].
Proof. exact (conj mediation_example (conj coord_roundtrip_example resolution_example)). Qed.
Print Assumptions C19_examples.

(* ==== round 5 ==== *)

(* ---- effective POMs as an inductively defined relation (C19/TheoryRelational.v: eff_pom / eff_chain / eff_merge / eff_dm,
   one rule per construct: first serving repository, the chain of parents to its end, group/version inheritance, own managed
   entries in order with every import replaced in place by the management of the BOM's EFFECTIVE POM, then the parent's;
   declared dependencies own ++ inherited, completed from that management) — no fuel, no acyclicity hypothesis.
   The model computes exactly this relation, in EVERY universe ---- *)
Theorem C19_effective_pom_relational : forall fs rs c r m,
  eff_pom fs rs c r m <-> exists f, get_merged_pom f fs rs c = Ok (r, m).
Proof. exact eff_pom_iff_computed. Qed.
Print Assumptions C19_effective_pom_relational.

Theorem C19_effective_pom_functional : forall fs rs c r1 m1 r2 m2,
  eff_pom fs rs c r1 m1 -> eff_pom fs rs c r2 m2 -> r1 = r2 /\ m1 = m2.
Proof. exact eff_pom_functional. Qed.
Print Assumptions C19_effective_pom_functional.

(* in an acyclic universe: the graph of the model's function at the canonical fuel, and total exactly where that is not Err *)
Theorem C19_effective_pom_acyclic : forall fs rs ranks, acyclic_check fs rs ranks = true ->
  forall c r m, eff_pom fs rs c r m <-> get_merged_pom (S (length fs)) fs rs c = Ok (r, m).
Proof. exact eff_pom_acyclic. Qed.
Print Assumptions C19_effective_pom_acyclic.

Theorem C19_effective_pom_exists_iff : forall fs rs ranks, acyclic_check fs rs ranks = true ->
  forall c, (exists r m, eff_pom fs rs c r m) <-> get_merged_pom (S (length fs)) fs rs c <> Err.
Proof. exact eff_pom_exists_iff. Qed.
Print Assumptions C19_effective_pom_exists_iff.

(* on cycles there is none *)
Theorem C19_no_effective_pom_in_import_trap : forall fs rs (T : coord -> Prop),
  (forall c, T c -> forall r p f stack, try_get_pom_for fs rs c = Ok (r, p) -> parent_chain f fs rs p = Ok stack ->
     Exists (imports_into T) (p :: stack)) ->
  forall c r m, T c -> ~ eff_pom fs rs c r m.
Proof. exact eff_pom_none_in_import_trap. Qed.
Print Assumptions C19_no_effective_pom_in_import_trap.

Theorem C19_no_effective_pom_in_parent_trap : forall fs rs (P : pom -> Prop),
  (forall p, P p -> exists c, get_parent_coord p = Some c /\ forall r q, try_get_pom_for fs rs c = Ok (r, q) -> P q) ->
  forall c r p m, try_get_pom_for fs rs c = Ok (r, p) -> P p -> forall r', ~ eff_pom fs rs c r' m.
Proof. exact eff_pom_none_in_parent_trap. Qed.
Print Assumptions C19_no_effective_pom_in_parent_trap.

(* who supplies the managed entry for a key: the child's own expanded entries before the parent's (hence the parent's
   before the grandparent's) ... *)
Theorem C19_effective_management_child_first : forall fs rs par child m,
  eff_merge fs rs par child m ->
  exists own, eff_dm fs rs (p_dm child) own /\ pd_dm m = own ++ parent_dm par /\
    pd_declared m = p_deps child ++ parent_declared par /\
    map_res (make_dependency (pd_dm m)) (pd_declared m) = Ok (pd_deps m) /\
    forall k, managed (pd_dm m) k = match managed own k with Some e => Some e | None => managed (parent_dm par) k end.
Proof. exact eff_merge_management. Qed.
Print Assumptions C19_effective_management_child_first.

(* ... and within the own entries the declaration order: a plain entry, or the whole management of an imported BOM's
   effective POM, before everything declared after it (an earlier import before a later one) *)
Theorem C19_effective_management_in_place : forall fs rs x rest out k,
  eff_dm fs rs (x :: rest) out ->
  exists first others, out = first ++ others /\ eff_dm fs rs rest others /\
    managed out k = match managed first k with Some e => Some e | None => managed others k end /\
    (d_scope x <> Some MImport -> exists v, d_version x = Some v /\
       first = [mkDDone (dm_coord x v) (match d_scope x with Some m => into_scope m | None => None end) (d_optional x)]) /\
    (d_scope x = Some MImport -> exists v r target, d_version x = Some v /\ eff_pom fs rs (dm_coord x v) r target /\ first = pd_dm target).
Proof. exact eff_dm_order. Qed.
Print Assumptions C19_effective_management_in_place.

Theorem C19_effective_pom_example :
  exists r m, eff_pom ex_files [mkResolver [114%N] [114%N]] (mkCoord [103%N] (ex_s 99) [49%N] None s_jar) r m /\ pd_deps m <> [].
Proof. exact eff_pom_example. Qed.
Print Assumptions C19_effective_pom_example.

(* ==== round 7 ==== *)

(* ---- coord.rs to_snapshot_version (MavenCoord::base_version), the version directory of every URL asked of a repository:
   snapshot_form v b :=  v = b-d.t-n  with d of 8 ASCII digits, t of 6, n of one or more (C19/TheorySnapshot.v).
   For ALL strings: a version of that form lives in the directory b-SNAPSHOT, any other version in its own directory,
   a version is left alone only if it has not the form, and the prefix b is unique ---- *)
Theorem C19_snapshot_version_spec : forall v,
  (forall b, snapshot_form v b -> to_snapshot_version v = b ++ s_snapshot)
  /\ ((forall b, ~ snapshot_form v b) -> to_snapshot_version v = v)
  /\ (to_snapshot_version v = v -> forall b, ~ snapshot_form v b)
  /\ (forall b1 b2, snapshot_form v b1 -> snapshot_form v b2 -> b1 = b2).
Proof. exact snapshot_version_spec. Qed.
Print Assumptions C19_snapshot_version_spec.

Theorem C19_snapshot_version_idempotent : forall v, to_snapshot_version (to_snapshot_version v) = to_snapshot_version v.
Proof. exact snapshot_version_idempotent. Qed.
Print Assumptions C19_snapshot_version_idempotent.

(* the URL of the POM asked of a repository: repository (one slash), group as a path, artifact, the version's directory
   as characterised above, <artifact>-<version>.pom; classifier and type play no part *)
Theorem C19_pom_url_layout : forall r g a v k t,
  let dir := r_maven r ++ (if ends_with_char cSLASH (r_maven r) then [] else [cSLASH])
             ++ replace_char cDOT cSLASH g ++ [cSLASH] ++ a ++ [cSLASH] in
  let file := [cSLASH] ++ a ++ [cMINUS] ++ v ++ s_dot_pom in
  (forall b, snapshot_form v b -> make_pom_url r (mkCoord g a v k t) = dir ++ (b ++ s_snapshot) ++ file)
  /\ ((forall b, ~ snapshot_form v b) -> make_pom_url r (mkCoord g a v k t) = dir ++ v ++ file)
  /\ make_pom_url r (mkCoord g a v k t) = make_pom_url r (mkCoord g a v None s_pom).
Proof. exact pom_url_layout. Qed.
Print Assumptions C19_pom_url_layout.

Theorem C19_snapshot_examples :
  snapshot_form ex_ts_version [49;46;53]%N
  /\ to_snapshot_version ex_ts_version = [49;46;53]%N ++ s_snapshot
  /\ to_snapshot_version [49;46;48;45;50;48;50;51;48;55;49;51;46;48;50;53;54;49;45;51]%N
     = [49;46;48;45;50;48;50;51;48;55;49;51;46;48;50;53;54;49;45;51]%N
  /\ (forall b, ~ snapshot_form [49;46;48;45;50;48;50;51;48;55;49;51;46;48;50;53;54;49;57;45]%N b)
  /\ to_snapshot_version [45;50;48;50;51;48;55;49;51;46;48;50;53;54;49;57;45;49]%N = s_snapshot.
Proof. exact snapshot_examples. Qed.
Print Assumptions C19_snapshot_examples.

(* ---- the round-trip hypotheses are exact (converses of C19_coord_roundtrip / C19_found_dep_roundtrip): a coordinate survives
   Display + from_str iff no field contains ':'; a resolved dependency survives Display + try_from (up to the repository's name)
   iff no coordinate field contains ':' or " @ " ---- *)
Theorem C19_coord_roundtrip_iff : forall c, parse_coord (print_coord c) = Ok c <-> coord_colon_free c = true.
Proof. exact coord_roundtrip_iff. Qed.
Print Assumptions C19_coord_roundtrip_iff.

Theorem C19_found_dep_roundtrip_iff : forall d,
  parse_found (print_found d) = Ok (mkFound (mkResolver (r_maven (f_resolver d)) (r_maven (f_resolver d))) (f_coord d) (f_scope d))
  <-> coord_separator_free (f_coord d) = true.
Proof. exact found_roundtrip_iff. Qed.
Print Assumptions C19_found_dep_roundtrip_iff.
