(* C19 — property theorems only.  Each is closed by [exact <lemma>] and followed by
   Print Assumptions; the statements are pinned here so they cannot be quietly weakened. *)
From FB Require Import C19.Model C19.Acyclic C19.Theory C19.TheoryCoord C19.TheoryPom C19.TheoryCut C19.TheoryFuel C19.TreeBasics C19.TreeBfs C19.TreeMediation C19.TreeOrder C19.TreeTheorems.
From Coq Require Import Sorting.Sorted.

(* the scope table in the source (regenerated into ScopeGen.v on every run) is Maven's documented table *)
Theorem C19_scope_table_is_maven : forall left top, the_scope_table left top = maven_scope_table left top.
Proof. exact scope_table_is_maven. Qed.
Print Assumptions C19_scope_table_is_maven.

Theorem C19_scope_roundtrip : forall s, parse_scope (print_scope s) = Ok s.
Proof. exact scope_roundtrip. Qed.
Print Assumptions C19_scope_roundtrip.

Theorem C19_scope_parse_print : forall t s, parse_scope t = Ok s -> print_scope s = t.
Proof. exact scope_parse_print. Qed.
Print Assumptions C19_scope_parse_print.

(* ---- mediation (clean_up_dependencies over an arbitrary key with a correct equality test) ----
   [clean_up_kept] is the set of paths of the nodes the code retains.  It is a mediation of the
   forest: closed under ancestors, and a node whose ancestors are all retained is retained iff no
   node with the same collision id whose ancestors are all retained precedes it in
   (depth, declaration) order; it is the only such set; and the forest the code leaves is the
   sub-forest of exactly these paths (rivals disappear with their subtrees). *)
Theorem C19_mediation_spec : forall (A K : Type) (keq : K -> K -> bool) (cid : A -> K) (F : list (tree A)),
  (forall a b, keq a b = true <-> a = b) ->
  let R := fun p => In p (clean_up_kept keq cid F) in
  is_mediation F cid R
  /\ (forall R', is_mediation F cid R' -> forall p, R' p <-> R p)
  /\ clean_up keq cid F = subforest (fun p => mem_path p (clean_up_kept keq cid F)) F.
Proof. exact @mediation_spec. Qed.
Print Assumptions C19_mediation_spec.

Theorem C19_mediation_unique : forall (A K : Type) (F : list (tree A)) (cid : A -> K) (R1 R2 : path -> Prop),
  is_mediation F cid R1 -> is_mediation F cid R2 -> forall p, R1 p <-> R2 p.
Proof. exact @mediation_unique. Qed.
Print Assumptions C19_mediation_unique.

(* the list handed out: the data at the retained paths, the paths strictly increasing in (depth, declaration) order *)
Theorem C19_bfs_order : forall (A K : Type) (keq : K -> K -> bool) (cid : A -> K) (F : list (tree A)),
  StronglySorted before (clean_up_kept keq cid F)
  /\ Forall2 (fun p a => node_of F p a) (clean_up_kept keq cid F) (breadth_first (clean_up keq cid F)).
Proof. exact @clean_up_bfs_order. Qed.
Print Assumptions C19_bfs_order.

Theorem C19_bfs_nodup : forall (A K : Type) (keq : K -> K -> bool) (cid : A -> K) (F : list (tree A)),
  (forall a b, keq a b = true <-> a = b) -> NoDup (map cid (breadth_first (clean_up keq cid F))).
Proof. exact @clean_up_bfs_nodup. Qed.
Print Assumptions C19_bfs_nodup.

(* breadth_first of any forest lists every node exactly once, in (depth, declaration) order *)
Theorem C19_breadth_first_order : forall (A : Type) (F : list (tree A)),
  exists l : list path,
    StronglySorted before l
    /\ (forall p, In p l <-> exists a, node_of F p a)
    /\ Forall2 (fun p a => node_of F p a) l (breadth_first F).
Proof. exact @breadth_first_order. Qed.
Print Assumptions C19_breadth_first_order.

(* ---- coordinates and resolved dependencies survive printing and re-parsing ---- *)
Theorem C19_coord_roundtrip : forall c, coord_colon_free c = true -> parse_coord (print_coord c) = Ok c.
Proof. exact coord_roundtrip. Qed.
Print Assumptions C19_coord_roundtrip.

Theorem C19_coord_parse_print_parse : forall s c, parse_coord s = Ok c -> parse_coord (print_coord c) = Ok c.
Proof. exact coord_parse_print_parse. Qed.
Print Assumptions C19_coord_parse_print_parse.

(* the repository's name is not printed; parsing sets it to the url *)
Theorem C19_found_dep_roundtrip : forall d, coord_separator_free (f_coord d) = true ->
  parse_found (print_found d) = Ok (mkFound (mkResolver (r_maven (f_resolver d)) (r_maven (f_resolver d))) (f_coord d) (f_scope d)).
Proof. exact found_roundtrip. Qed.
Print Assumptions C19_found_dep_roundtrip.

(* ---- effective POMs ---- *)
(* explicit version/scope/optional win, omitted ones come from the FIRST managed entry with the
   dependency's (group, artifact, classifier, type); no version anywhere is an error *)
Theorem C19_managed_fill_in : forall dm x,
  make_dependency dm x =
  match d_version x, managed dm (dep_key x) with
  | Some v, m => Ok (fill x v m)
  | None, Some e => Ok (fill x (c_version (dd_coord e)) (Some e))
  | None, None => Err
  end.
Proof. exact managed_fill_in. Qed.
Print Assumptions C19_managed_fill_in.

Theorem C19_managed_child_first : forall own parent k,
  managed (own ++ parent) k = match managed own k with Some e => Some e | None => managed parent k end.
Proof. exact managed_child_first. Qed.
Print Assumptions C19_managed_child_first.

(* own managed entries in order, each import replaced in place by the imported POM's management *)
Theorem C19_dependency_management_expansion : forall rec l out, make_dm_own rec l = Ok out <-> dm_expands rec l out.
Proof. exact make_dm_own_spec. Qed.
Print Assumptions C19_dependency_management_expansion.

(* one inheritance step: group/version inherited, management = own (expanded) ++ parent's, declared
   dependencies = own ++ inherited, every one completed from the merged management *)
Theorem C19_merge_parent_spec : forall rec parent child m,
  merge_parent rec parent child = Ok m ->
  (match parent with
   | Some par => c_type (pd_coord par) = s_pom
                 /\ c_group (pd_coord m) = unwrap_or (p_group child) (c_group (pd_coord par))
                 /\ c_version (pd_coord m) = unwrap_or (p_version child) (c_version (pd_coord par))
   | None => p_group child = Some (c_group (pd_coord m)) /\ p_version child = Some (c_version (pd_coord m))
   end)
  /\ c_artifact (pd_coord m) = p_artifact child
  /\ c_type (pd_coord m) = unwrap_or (p_packaging child) s_jar
  /\ (exists own, dm_expands rec (p_dm child) own
        /\ pd_dm m = own ++ match parent with Some par => pd_dm par | None => [] end)
  /\ pd_declared m = p_deps child ++ match parent with Some par => pd_declared par | None => [] end
  /\ map_res (make_dependency (pd_dm m)) (pd_declared m) = Ok (pd_deps m).
Proof. exact merge_parent_spec. Qed.
Print Assumptions C19_merge_parent_spec.

(* the stack of parents of get_merged_pom computes plain recursive inheritance along the parent chain *)
Theorem C19_merged_pom_is_inheritance : forall f fs rs c,
  get_merged_pom (S f) fs rs c =
  (do rp <- try_get_pom_for fs rs c;
   do stack <- parent_chain f fs rs (snd rp);
   do e <- effective_chain (fun c' => do x <- get_merged_pom f fs rs c'; Ok (snd x)) (snd rp :: stack);
   match e with Some m => Ok (fst rp, m) | None => Err end).
Proof. exact merged_pom_is_inheritance. Qed.
Print Assumptions C19_merged_pom_is_inheritance.

(* ---- repositories ---- *)
Theorem C19_repo_first : forall fs rs c r p,
  try_get_pom_for fs rs c = Ok (r, p) ->
  exists before_r after_r,
    rs = before_r ++ r :: after_r
    /\ Forall (fun r' => download fs (make_pom_url r' c) = Ok None) before_r
    /\ download fs (make_pom_url r c) = Ok (Some p)
    /\ p_model_version p = s_4_0_0.
Proof. exact repo_first. Qed.
Print Assumptions C19_repo_first.

(* ---- the dependency tree: optional and non-transitive scopes are cut, scopes compose by the table ---- *)
Theorem C19_tree_children_spec : forall mf f fs rs c sc t,
  get_dependencies_tree mf (S f) fs rs c sc = Ok t ->
  exists r pd,
    get_merged_pom mf fs rs c = Ok (r, pd)
    /\ data t = mkFound r c sc
    /\ Forall2 (fun d k => exists s', the_scope_table sc (dd_declared_scope d) = Some s'
                                      /\ get_dependencies_tree mf f fs rs (dd_coord d) s' = Ok k)
               (filter (transitive sc) (pd_deps pd)) (children t).
Proof. exact tree_children_spec. Qed.
Print Assumptions C19_tree_children_spec.

(* the cut happens BEFORE resolution (converse of the above): a node resolves as soon as its effective POM exists and
   the dependencies that are NOT cut resolve; nothing is asked of optional / non-transitive ones, so what lies behind a
   cut edge (no document, an unusable document, an incompletable POM) cannot turn the answer into an error *)
Theorem C19_tree_children_complete : forall mf f fs rs c sc r pd kids,
  get_merged_pom mf fs rs c = Ok (r, pd) ->
  Forall2 (fun d k => exists s', the_scope_table sc (dd_declared_scope d) = Some s'
                                 /\ get_dependencies_tree mf f fs rs (dd_coord d) s' = Ok k)
          (filter (transitive sc) (pd_deps pd)) kids ->
  get_dependencies_tree mf (S f) fs rs c sc = Ok (Node (mkFound r c sc) kids).
Proof. exact tree_children_complete. Qed.
Print Assumptions C19_tree_children_complete.

(* two file maps that agree on a node's effective POM and on the subtrees of its followed dependencies give the same
   tree, whatever they hold behind the cut edges *)
Theorem C19_cut_edges_irrelevant : forall mf f fs fs' rs c sc t,
  get_dependencies_tree mf (S f) fs rs c sc = Ok t ->
  get_merged_pom mf fs' rs c = get_merged_pom mf fs rs c ->
  (forall d s', In d (pd_deps (match get_merged_pom mf fs rs c with Ok rp => snd rp | Err => mkPDone c [] [] [] end)) ->
                transitive sc d = true ->
                get_dependencies_tree mf f fs' rs (dd_coord d) s' = get_dependencies_tree mf f fs rs (dd_coord d) s') ->
  get_dependencies_tree mf (S f) fs' rs c sc = Ok t.
Proof. exact cut_edges_irrelevant. Qed.
Print Assumptions C19_cut_edges_irrelevant.

(* ---- the resolved list: trees of the roots, mediated by collision id, breadth first, no duplicates,
   every element recorded with the first repository serving its POM ---- *)
Theorem C19_resolved_list_spec : forall n fs rs roots out,
  get_maven_dependencies_fuel n fs rs roots = Ok out ->
  exists forest,
    Forall2 (fun r t => get_dependencies_tree n n fs rs (fst r) (snd r) = Ok t) roots forest
    /\ (let R := fun p => In p (clean_up_kept cid_eqb found_cid forest) in
        is_mediation forest found_cid R
        /\ StronglySorted before (clean_up_kept cid_eqb found_cid forest)
        /\ Forall2 (fun p d => node_of forest p d) (clean_up_kept cid_eqb found_cid forest) out)
    /\ NoDup (map found_cid out)
    /\ Forall (served_first fs rs) out.
Proof. exact resolved_list_spec. Qed.
Print Assumptions C19_resolved_list_spec.

(* the model recurses on fuel; an answer that is not an error does not depend on how much *)
Theorem C19_fuel_monotone : forall n m fs rs roots out, (n <= m)%N ->
  get_maven_dependencies_fuel (N.to_nat n) fs rs roots = Ok out -> get_maven_dependencies_fuel (N.to_nat m) fs rs roots = Ok out.
Proof. exact fuel_monotone. Qed.
Print Assumptions C19_fuel_monotone.

(* in a universe that passes the (decidable) rank check -- every document that could be served for
   something a POM refers to has a smaller rank than the POM's own document -- any fuel above the
   number of documents gives the model's answer, an error included: Err is then never "out of fuel" *)
Theorem C19_fuel_suffices : forall fs rs ranks roots f,
  acyclic_check fs rs ranks = true -> (length fs < f)%nat ->
  get_maven_dependencies_fuel f fs rs roots = get_maven_dependencies fs rs roots.
Proof. exact fuel_suffices. Qed.
Print Assumptions C19_fuel_suffices.

Theorem C19_acyclic_example : acyclic_check ex_files [mkResolver [114%N] [114%N]] ex_ranks = true.
Proof. exact acyclic_example. Qed.
Print Assumptions C19_acyclic_example.

(* ---- non-vacuity ---- *)
Theorem C19_examples :
  (clean_up N.eqb ex_cid [Node (ex_B, 1%N) [Node (ex_C, 1%N) [Node (ex_D, 20%N) []]]; Node (ex_E, 1%N) [Node (ex_D, 10%N) []]]
   = [Node (ex_B, 1%N) [Node (ex_C, 1%N) []]; Node (ex_E, 1%N) [Node (ex_D, 10%N) []]])
  /\ (coord_separator_free ex_coord = true /\ parse_coord (print_coord ex_coord) = Ok ex_coord)
  /\ get_maven_dependencies ex_files [mkResolver [114%N] [114%N]] [(mkCoord [103%N] (ex_s 99) [49%N] None s_jar, Compile)]
     = Ok [mkFound (mkResolver [114%N] [114%N]) (mkCoord [103%N] (ex_s 99) [49%N] None s_jar) Compile;
           mkFound (mkResolver [114%N] [114%N]) (mkCoord [103%N] (ex_s 121) [50%N] None s_jar) Runtime;
           mkFound (mkResolver [114%N] [114%N]) (mkCoord [103%N] (ex_s 120) [50%N] None s_jar) Compile].
Proof. exact (conj mediation_example (conj coord_roundtrip_example resolution_example)). Qed.
Print Assumptions C19_examples.
