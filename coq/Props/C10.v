(* C10 — property theorems only.  Each is closed by [exact <lemma>] and followed by
   Print Assumptions; the statements are pinned here so they cannot be quietly weakened.
   All theorems hold for ALL trees (no well-formedness hypothesis is needed: the filters never
   look at keys). *)
From FB Require Import C10.Model C10.Shapes C10.Theory C10.Theory2 C10.Theory3 C10.Theory4.
From FB Require C18.Model.

(* The placeholder constants (generated from the Rust source by translate/c10_consts.py) are the
   documented ones: C_ and net/minecraft/unmapped/C_ for classes, f_ for fields, m_ / <init> /
   <clinit> for methods, p_ for parameters, and p_<index> is what a removed parameter is reset to. *)
Theorem C10_placeholder_constants :
  class_prefixes = [[67;95]; [110;101;116;47;109;105;110;101;99;114;97;102;116;47;117;110;109;97;112;112;101;100;47;67;95]]
  /\ class_exact = []
  /\ field_prefixes = [[102;95]] /\ field_exact = []
  /\ method_prefixes = [[109;95]] /\ method_exact = [[60;105;110;105;116;62]; [60;99;108;105;110;105;116;62]]
  /\ param_prefixes = [[112;95]] /\ param_exact = []
  /\ insert_param_prefix = [112;95].
Proof. exact placeholder_constants. Qed.
Print Assumptions C10_placeholder_constants.

(* 1. remove_dummy succeeds exactly when the namespace exists (first one of that name), and its
   result is exactly: at every level, in the original order, the entries that are kept —
   kept <-> has a comment \/ has a kept child \/ name in the chosen namespace absent or not a
   placeholder — each unchanged apart from its children list. *)
Theorem C10_remove_dummy_spec : forall M ns M',
  remove_dummy M ns = Ok M' <-> exists i, NsIndex ns (ms_ns M) i /\ SpecMappings i M M'.
Proof. exact remove_dummy_spec. Qed.
Print Assumptions C10_remove_dummy_spec.

Theorem C10_remove_dummy_err_iff : forall M ns, remove_dummy M ns = Err <-> ~ In ns (ms_ns M).
Proof. exact remove_dummy_err_iff. Qed.
Print Assumptions C10_remove_dummy_err_iff.

(* the definitions used by the specification are what they are said to be *)
Theorem C10_kept_definitions : forall i,
  (forall p, KeptParam i p <-> p_doc p <> None \/ ~ Placeholder param_prefixes param_exact (nth_name (p_names p) i))
  /\ (forall f, KeptField i f <-> f_doc f <> None \/ ~ Placeholder field_prefixes field_exact (nth_name (f_names f) i))
  /\ (forall m, KeptMeth i m <->
        m_doc m <> None \/ (exists p, In p (m_params m) /\ KeptParam i p)
        \/ ~ Placeholder method_prefixes method_exact (nth_name (m_names m) i))
  /\ (forall c, KeptClass i c <->
        c_doc c <> None \/ (exists f, In f (c_fields c) /\ KeptField i f)
        \/ (exists m, In m (c_methods c) /\ KeptMeth i m)
        \/ ~ Placeholder class_prefixes class_exact (nth_name (c_names c) i))
  /\ (forall ps es o, Placeholder ps es o <->
        exists x, o = Some x /\ ((exists p r, In p ps /\ x = p ++ r) \/ In x es)).
Proof. exact kept_definitions. Qed.
Print Assumptions C10_kept_definitions.

(* element-wise reading: the classes of the result are exactly the filtered images of the kept
   classes, and likewise one level down *)
Theorem C10_remove_dummy_classes_exactly : forall i M c',
  In c' (ms_classes (remove_dummy_at i M)) <->
  exists c, In c (ms_classes M) /\ KeptClass i c /\ c' = rd_class i c.
Proof. exact remove_dummy_classes_exactly. Qed.
Print Assumptions C10_remove_dummy_classes_exactly.

Theorem C10_remove_dummy_methods_exactly : forall i c m',
  In m' (c_methods (rd_class i c)) <-> exists m, In m (c_methods c) /\ KeptMeth i m /\ m' = rd_meth i m.
Proof. exact rd_class_methods_exactly. Qed.
Print Assumptions C10_remove_dummy_methods_exactly.

Theorem C10_remove_dummy_fields_exactly : forall i c f,
  In f (c_fields (rd_class i c)) <-> In f (c_fields c) /\ KeptField i f.
Proof. exact rd_class_fields_exactly. Qed.
Print Assumptions C10_remove_dummy_fields_exactly.

Theorem C10_remove_dummy_params_exactly : forall i m p,
  In p (m_params (rd_meth i m)) <-> In p (m_params m) /\ KeptParam i p.
Proof. exact rd_meth_params_exactly. Qed.
Print Assumptions C10_remove_dummy_params_exactly.

(* 2. idempotence *)
Theorem C10_remove_dummy_idem : forall M ns M', remove_dummy M ns = Ok M' -> remove_dummy M' ns = Ok M'.
Proof. exact remove_dummy_idem. Qed.
Print Assumptions C10_remove_dummy_idem.

(* 3. never orphans: an entry that is not kept has no kept child … *)
Theorem C10_never_orphans_class : forall i c,
  ~ KeptClass i c ->
  (forall f, In f (c_fields c) -> ~ KeptField i f) /\ (forall m, In m (c_methods c) -> ~ KeptMeth i m).
Proof. exact never_orphans_class. Qed.
Print Assumptions C10_never_orphans_class.

Theorem C10_never_orphans_meth : forall i m,
  ~ KeptMeth i m -> forall p, In p (m_params m) -> ~ KeptParam i p.
Proof. exact never_orphans_meth. Qed.
Print Assumptions C10_never_orphans_meth.

(* … and on the executable side: a class (method) the filter drops has nothing left below it,
   no comment, and a placeholder name *)
Theorem C10_never_orphans_exec : forall i M c,
  In c (ms_classes M) -> ~ In (rd_class i c) (ms_classes (remove_dummy_at i M)) ->
  c_fields (rd_class i c) = [] /\ c_methods (rd_class i c) = [] /\ c_doc c = None /\ PhClass i c.
Proof. exact never_orphans_exec. Qed.
Print Assumptions C10_never_orphans_exec.

Theorem C10_never_orphans_exec_meth : forall i c m,
  In m (c_methods c) -> ~ In (rd_meth i m) (c_methods (rd_class i c)) ->
  m_params (rd_meth i m) = [] /\ m_doc m = None /\ PhMeth i m.
Proof. exact never_orphans_exec_meth. Qed.
Print Assumptions C10_never_orphans_exec_meth.

(* 4. insert_dummy is exactly: every Remove(a) becomes Edit(a, placeholder); a leaf is kept iff it
   is not an addition and (after the rewrite) changes its name or its comment; a method / class is
   kept iff that holds for it or a child is kept; everything else of a kept node is unchanged. *)
Theorem C10_insert_dummy_spec : forall d d', insert_dummy d = d' <-> SpecDiff d d'.
Proof. exact insert_dummy_spec. Qed.
Print Assumptions C10_insert_dummy_spec.

Theorem C10_insert_definitions :
  (forall ph info doc, Changes ph info doc <->
      ~ (exists b, info = AAdd b)
      /\ ((match info with ANone => False | AAdd _ => True | ARemove a => a <> ph | AEdit a b => a <> b end)
          \/ (match doc with ANone => False | AAdd _ => True | ARemove _ => True | AEdit a b => a <> b end)))
  /\ (forall p, KeptDParam p <-> Changes (insert_param_prefix ++ dec (dp_index p)) (dp_info p) (dp_doc p))
  /\ (forall f, KeptDField f <-> Changes (df_name f) (df_info f) (df_doc f))
  /\ (forall m, KeptDMeth m <-> Changes (dm_name m) (dm_info m) (dm_doc m) \/ exists p, In p (dm_params m) /\ KeptDParam p)
  /\ (forall c, KeptDClass c <->
        Changes (class_placeholder (dc_name c)) (dc_info c) (dc_doc c)
        \/ (exists f, In f (dc_fields c) /\ KeptDField f) \/ (exists m, In m (dc_methods c) /\ KeptDMeth m))
  /\ (forall ph a a', Rewritten ph a a' <->
        match a with ARemove x => a' = AEdit x ph | _ => a' = a end).
Proof. exact insert_definitions. Qed.
Print Assumptions C10_insert_definitions.

(* the placeholders: decimal index, simple inner name (split at the LAST `$`; admissible when both
   parts are non-empty, the outer part does not end in `/` and the inner part contains no `/`) *)
Theorem C10_inner_ok_definition : forall outer inner,
  InnerOk outer inner <->
  outer <> [] /\ inner <> [] /\ (forall o, outer <> o ++ [cSLASH]) /\ ~ In cSLASH inner.
Proof. exact inner_ok_definition. Qed.
Print Assumptions C10_inner_ok_definition.

Theorem C10_dec_is_decimal : forall n, undec (dec n) = n /\ Forall (fun c => 48 <= c <= 57) (dec n) /\ dec n <> []
  /\ (n <> 0 -> hd 48 (dec n) <> 48).
Proof. exact dec_is_decimal. Qed.
Print Assumptions C10_dec_is_decimal.

Theorem C10_class_placeholder_spec : forall key,
  (forall outer inner, key = outer ++ cDOLLAR :: inner -> ~ In cDOLLAR inner -> InnerOk outer inner ->
      class_placeholder key = inner)
  /\ ((forall outer inner, key = outer ++ cDOLLAR :: inner -> ~ In cDOLLAR inner -> ~ InnerOk outer inner) ->
      class_placeholder key = key).
Proof. exact class_placeholder_spec. Qed.
Print Assumptions C10_class_placeholder_spec.

(* clause by clause *)
Theorem C10_insert_dummy_no_remove : forall d, AllInfos (fun a => ~ IsRemove a) (insert_dummy d).
Proof. exact insert_dummy_no_remove. Qed.
Print Assumptions C10_insert_dummy_no_remove.

Theorem C10_insert_dummy_no_added_field : forall d c f,
  In c (d_classes (insert_dummy d)) -> In f (dc_fields c) -> ~ IsAdd (df_info f).
Proof. exact insert_dummy_no_added_field. Qed.
Print Assumptions C10_insert_dummy_no_added_field.

Theorem C10_insert_dummy_no_added_param : forall d c m p,
  In c (d_classes (insert_dummy d)) -> In m (dc_methods c) -> In p (dm_params m) -> ~ IsAdd (dp_info p).
Proof. exact insert_dummy_no_added_param. Qed.
Print Assumptions C10_insert_dummy_no_added_param.

Theorem C10_insert_dummy_added_class_has_children : forall d c,
  In c (d_classes (insert_dummy d)) -> IsAdd (dc_info c) -> dc_fields c <> [] \/ dc_methods c <> [].
Proof. exact insert_dummy_added_class_has_children. Qed.
Print Assumptions C10_insert_dummy_added_class_has_children.

Theorem C10_insert_dummy_added_meth_has_children : forall d c m,
  In c (d_classes (insert_dummy d)) -> In m (dc_methods c) -> IsAdd (dm_info m) -> dm_params m <> [].
Proof. exact insert_dummy_added_meth_has_children. Qed.
Print Assumptions C10_insert_dummy_added_meth_has_children.

Theorem C10_insert_dummy_class_kept_iff : forall d c,
  In c (d_classes d) -> (In (fix_dclass c) (d_classes (insert_dummy d)) <-> KeptDClass c).
Proof. exact insert_dummy_class_kept_iff. Qed.
Print Assumptions C10_insert_dummy_class_kept_iff.

Theorem C10_insert_dummy_meth_kept_iff : forall c m,
  In m (dc_methods c) -> (In (fix_dmeth m) (dc_methods (fix_dclass c)) <-> KeptDMeth m).
Proof. exact insert_dummy_meth_kept_iff. Qed.
Print Assumptions C10_insert_dummy_meth_kept_iff.

Theorem C10_insert_dummy_field_kept_iff : forall c f,
  In f (dc_fields c) -> (In (fix_dfield f) (dc_fields (fix_dclass c)) <-> KeptDField f).
Proof. exact insert_dummy_field_kept_iff. Qed.
Print Assumptions C10_insert_dummy_field_kept_iff.

Theorem C10_insert_dummy_param_kept_iff : forall m p,
  In p (dm_params m) -> (In (fix_dparam p) (dm_params (fix_dmeth m)) <-> KeptDParam p).
Proof. exact insert_dummy_param_kept_iff. Qed.
Print Assumptions C10_insert_dummy_param_kept_iff.

(* 5. idempotence *)
Theorem C10_insert_dummy_idem : forall d, insert_dummy (insert_dummy d) = insert_dummy d.
Proof. exact insert_dummy_idem. Qed.
Print Assumptions C10_insert_dummy_idem.

(* order plays no role: permuting the entries of the input permutes the entries of the result *)
Theorem C10_insert_dummy_perm : forall d d',
  Permutation (d_classes d) (d_classes d') ->
  Permutation (d_classes (insert_dummy d)) (d_classes (insert_dummy d')).
Proof. exact insert_dummy_perm. Qed.
Print Assumptions C10_insert_dummy_perm.

Theorem C10_remove_dummy_perm : forall i M M',
  ms_ns M = ms_ns M' -> ms_doc M = ms_doc M' -> Permutation (ms_classes M) (ms_classes M') ->
  Permutation (ms_classes (remove_dummy_at i M)) (ms_classes (remove_dummy_at i M')).
Proof. exact remove_dummy_perm. Qed.
Print Assumptions C10_remove_dummy_perm.

(* the result is again a legal mapping set: rows complete, keys present and pairwise distinct *)
Theorem C10_remove_dummy_wf : forall M ns M', wf M = true -> remove_dummy M ns = Ok M' -> wf M' = true.
Proof. exact remove_dummy_wf. Qed.
Print Assumptions C10_remove_dummy_wf.

(* ---------------------------------------------------------------------------------------------
   Round 4 *)

(* The value of every retain closure of remove_dummy.rs / insert_dummy.rs, REGENERATED from the Rust
   source as a boolean function of its atoms (coq/C10/Shapes.v, translate/c10_consts.py: doc =
   javadoc.is_some() resp. javadoc.is_diff(), name = the whole name test, *_empty = <children>.is_empty(),
   check = the `match &v.info` variable, info = info.is_diff()), is — for ALL values of the atoms —
   the documented condition; so is the value of `validator_check` per Action variant and the set of
   variants rewritten to Action::Edit; and every prefix test looks at the whole name.  A regrouping
   such as check && (info || doc || !children.is_empty()) makes this unprovable. *)
Theorem C10_retain_shapes :
  (forall doc name, rd_shape_param doc name = doc || negb name) /\
  (forall doc name, rd_shape_field doc name = doc || negb name) /\
  (forall doc params_empty name, rd_shape_method doc params_empty name = doc || negb params_empty || negb name) /\
  (forall doc fields_empty methods_empty name,
     rd_shape_class doc fields_empty methods_empty name = doc || negb fields_empty || negb methods_empty || negb name) /\
  (forall check info doc, ins_shape_param check info doc = check && (info || doc)) /\
  (forall check info doc, ins_shape_field check info doc = check && (info || doc)) /\
  (forall check info doc params_empty,
     ins_shape_method check info doc params_empty = check && (info || doc) || negb params_empty) /\
  (forall check info doc fields_empty methods_empty,
     ins_shape_class check info doc fields_empty methods_empty =
     check && (info || doc) || negb fields_empty || negb methods_empty) /\
  ins_validator_param = (true, false, true, true) /\ ins_validator_field = (true, false, true, true) /\
  ins_validator_method = (true, false, true, true) /\ ins_validator_class = (true, false, true, true) /\
  ins_rewrites_param = (false, false, true, false) /\ ins_rewrites_field = (false, false, true, false) /\
  ins_rewrites_method = (false, false, true, false) /\ ins_rewrites_class = (false, false, true, false) /\
  rd_name_receivers_plain = true.
Proof. exact retain_shapes. Qed.
Print Assumptions C10_retain_shapes.

(* ... and the model's conditions are these functions applied to the model's atoms *)
Theorem C10_model_uses_shapes : forall i,
  (forall p, keep_param i p = rd_shape_param (is_some (p_doc p)) (ph_param i p)) /\
  (forall f, keep_field i f = rd_shape_field (is_some (f_doc f)) (ph_field i f)) /\
  (forall m, keep_meth i m = rd_shape_method (is_some (m_doc m)) (is_nil (m_params m)) (ph_meth i m)) /\
  (forall c, keep_class i c = rd_shape_class (is_some (c_doc c)) (is_nil (c_fields c)) (is_nil (c_methods c)) (ph_class i c)) /\
  (forall p, keep_dparam p = ins_shape_param (validator (dp_info p)) (is_diff (dp_info p)) (is_diff (dp_doc p))) /\
  (forall f, keep_dfield f = ins_shape_field (validator (df_info f)) (is_diff (df_info f)) (is_diff (df_doc f))) /\
  (forall m, keep_dmeth m = ins_shape_method (validator (dm_info m)) (is_diff (dm_info m)) (is_diff (dm_doc m)) (is_nil (dm_params m))) /\
  (forall c, keep_dclass c = ins_shape_class (validator (dc_info c)) (is_diff (dc_info c)) (is_diff (dc_doc c))
                               (is_nil (dc_fields c)) (is_nil (dc_methods c))) /\
  (forall a : action str, validator a = match a with ANone => true | AAdd _ => false | ARemove _ => true | AEdit _ _ => true end).
Proof. exact model_uses_shapes. Qed.
Print Assumptions C10_model_uses_shapes.

(* the class placeholder predicate on ALL names: the FULL name starts with C_ or with
   net/minecraft/unmapped/C_ — nothing about simple names, packages or `$` *)
Theorem C10_class_placeholder_predicate : forall i c,
  ph_class i c = true <->
  exists x r, nth_name (c_names c) i = Some x /\
    (x = [67;95] ++ r \/
     x = [110;101;116;47;109;105;110;101;99;114;97;102;116;47;117;110;109;97;112;112;101;100;47;67;95] ++ r).
Proof. exact class_placeholder_predicate. Qed.
Print Assumptions C10_class_placeholder_predicate.

(* insert_dummy's retain conditions case by case: (addition | anything else) x (a child is kept | none) *)
Theorem C10_insert_retain_cases :
  (forall p, IsAdd (dp_info p) -> ~ KeptDParam p) /\
  (forall f, IsAdd (df_info f) -> ~ KeptDField f) /\
  (forall p, ~ IsAdd (dp_info p) -> (KeptDParam p <-> OwnChange (param_placeholder (dp_index p)) (dp_info p) (dp_doc p))) /\
  (forall f, ~ IsAdd (df_info f) -> (KeptDField f <-> OwnChange (df_name f) (df_info f) (df_doc f))) /\
  (forall m, IsAdd (dm_info m) -> (KeptDMeth m <-> exists p, In p (dm_params m) /\ KeptDParam p)) /\
  (forall m, ~ IsAdd (dm_info m) -> (exists p, In p (dm_params m) /\ KeptDParam p) -> KeptDMeth m) /\
  (forall m, ~ IsAdd (dm_info m) -> ~ (exists p, In p (dm_params m) /\ KeptDParam p) ->
     (KeptDMeth m <-> OwnChange (dm_name m) (dm_info m) (dm_doc m))) /\
  (forall c, IsAdd (dc_info c) ->
     (KeptDClass c <-> (exists f, In f (dc_fields c) /\ KeptDField f) \/ (exists m, In m (dc_methods c) /\ KeptDMeth m))) /\
  (forall c, ~ IsAdd (dc_info c) ->
     ((exists f, In f (dc_fields c) /\ KeptDField f) \/ (exists m, In m (dc_methods c) /\ KeptDMeth m)) -> KeptDClass c) /\
  (forall c, ~ IsAdd (dc_info c) ->
     ~ ((exists f, In f (dc_fields c) /\ KeptDField f) \/ (exists m, In m (dc_methods c) /\ KeptDMeth m)) ->
     (KeptDClass c <-> OwnChange (class_placeholder (dc_name c)) (dc_info c) (dc_doc c))).
Proof. exact insert_retain_cases. Qed.
Print Assumptions C10_insert_retain_cases.

Theorem C10_own_change_definition : forall ph info doc,
  OwnChange ph info doc <->
  (match info with ANone => False | AAdd _ => True | ARemove a => a <> ph | AEdit a b => a <> b end)
  \/ (match doc with ANone => False | AAdd _ => True | ARemove _ => True | AEdit a b => a <> b end).
Proof. exact own_change_definition. Qed.
Print Assumptions C10_own_change_definition.

(* order plays no role at ANY level: reordering classes, fields, methods and parameters of the input
   reorders the result *)
Theorem C10_remove_dummy_perm_deep : forall M M' ns R,
  PermMappings M M' -> remove_dummy M ns = Ok R ->
  exists R', remove_dummy M' ns = Ok R' /\ PermMappings R R'.
Proof. exact remove_dummy_perm_deep. Qed.
Print Assumptions C10_remove_dummy_perm_deep.

Theorem C10_insert_dummy_perm_deep : forall d d', PermDiff d d' -> PermDiff (insert_dummy d) (insert_dummy d').
Proof. exact insert_dummy_perm_deep. Qed.
Print Assumptions C10_insert_dummy_perm_deep.

Theorem C10_perm_definitions :
  (forall A (R : A -> A -> Prop) l l', PermBy R l l' <-> exists l0, Permutation l l0 /\ Forall2 R l0 l') /\
  (forall m m', PermMeth m m' <->
     m_desc m' = m_desc m /\ m_names m' = m_names m /\ m_doc m' = m_doc m /\ Permutation (m_params m) (m_params m')) /\
  (forall c c', PermClass c c' <->
     c_names c' = c_names c /\ c_doc c' = c_doc c /\ Permutation (c_fields c) (c_fields c')
     /\ PermBy PermMeth (c_methods c) (c_methods c')) /\
  (forall M M', PermMappings M M' <->
     ms_ns M' = ms_ns M /\ ms_doc M' = ms_doc M /\ PermBy PermClass (ms_classes M) (ms_classes M')) /\
  (forall M, PermMappings M M) /\ (forall d, PermDiff d d).
Proof. exact perm_definitions. Qed.
Print Assumptions C10_perm_definitions.

(* the result of remove_dummy is a sub-tree of the input: same namespaces and comment; its classes
   are a subsequence of the input's classes, each with the same names and comment, its fields /
   parameters a subsequence of the input's (identical entries), its methods a subsequence with the
   same descriptor, names and comment *)
Theorem C10_remove_dummy_subtree : forall M ns R, remove_dummy M ns = Ok R -> SubMappings R M.
Proof. exact remove_dummy_subtree. Qed.
Print Assumptions C10_remove_dummy_subtree.

(* insert_dummy never invents a key or a comment: every node of the result is a node of the input
   (same key, same comment action, name action = the input's with Remove rewritten), same order *)
Theorem C10_insert_dummy_subtree : forall d, DSubDiff (insert_dummy d) d.
Proof. exact insert_dummy_subtree. Qed.
Print Assumptions C10_insert_dummy_subtree.

Theorem C10_sub_definitions :
  (forall A B (R : B -> A -> Prop) l' l, Sub R l' l ->
     (forall b, In b l' -> exists a, In a l /\ R b a) /\ (length l' <= length l)%nat) /\
  (forall m' m, SubMeth m' m <->
     m_desc m' = m_desc m /\ m_names m' = m_names m /\ m_doc m' = m_doc m /\ Sub eq (m_params m') (m_params m)) /\
  (forall c' c, SubClass c' c <->
     c_names c' = c_names c /\ c_doc c' = c_doc c /\ Sub eq (c_fields c') (c_fields c)
     /\ Sub SubMeth (c_methods c') (c_methods c)) /\
  (forall M' M, SubMappings M' M <->
     ms_ns M' = ms_ns M /\ ms_doc M' = ms_doc M /\ Sub SubClass (ms_classes M') (ms_classes M)) /\
  (forall c' c, DSubClass c' c <->
     dc_name c' = dc_name c /\ dc_doc c' = dc_doc c
     /\ dc_info c' = fix_info (class_placeholder (dc_name c)) (dc_info c)
     /\ Sub DSubField (dc_fields c') (dc_fields c) /\ Sub DSubMeth (dc_methods c') (dc_methods c)) /\
  (forall d' d, DSubDiff d' d <->
     d_info d' = d_info d /\ d_doc d' = d_doc d /\ Sub DSubClass (d_classes d') (d_classes d)).
Proof. exact sub_definitions. Qed.
Print Assumptions C10_sub_definitions.

(* ---------------------------------------------------------------------------------------------
   Round 5 *)

(* C10's own transcription of ObjClassNameSlice::get_inner_class_name IS the function that C18
   characterises completely and C11 extends / contracts with (coq/C18/Model.v split_inner): the two
   models of the one Rust function cannot drift apart *)
Theorem C10_inner_class_name_is_C18 : forall s, inner_class_name s = FB.C18.Model.inner_name s.
Proof. exact inner_class_name_is_C18. Qed.
Print Assumptions C10_inner_class_name_is_C18.

Theorem C10_class_placeholder_is_C18 : forall key,
  class_placeholder key = match FB.C18.Model.split_inner key with Some (_, i) => i | None => key end.
Proof. exact class_placeholder_is_C18. Qed.
Print Assumptions C10_class_placeholder_is_C18.

(* a class key whose simple name STARTS with `$` - in the default package or directly behind any package
   prefix (com/example/$Proxy) - and has no further `$` is not an inner class name: a removed class of
   that shape is reset to its full key, never to the text after the `$` *)
Theorem C10_dollar_leading_key_kept : forall pkg rest,
  ~ In cDOLLAR rest -> (pkg = [] \/ exists q, pkg = q ++ [cSLASH]) ->
  class_placeholder (pkg ++ cDOLLAR :: rest) = pkg ++ cDOLLAR :: rest.
Proof. exact dollar_leading_not_split. Qed.
Print Assumptions C10_dollar_leading_key_kept.

(* non-vacuity: the repository's fixture, evaluated by the model, gives the repository's expected
   output (some entries removed at every level, some kept by comment, child, or name) *)
Theorem C10_examples : nonvacuous.
Proof. exact nonvacuous_holds. Qed.
Print Assumptions C10_examples.
