(* C12 — property theorems only.  Each is closed by [exact <lemma>] and followed by
   Print Assumptions; the statements are pinned here so they cannot be quietly weakened. *)
From FB Require Import C12.Model C12.TheoryTree C12.TheoryOrd C12.TheoryDet C12.TheoryMembers C12.TheoryPlace C12.TheoryTok
  C12.TheoryLines C12.TheoryRT C12.TheoryFuel C12.Theory.
From Coq Require Import Permutation Sorted.

(* Th 1: writing a mapping set that satisfies the (decidable) hypotheses as one Enigma stream and
   reading it back succeeds and yields the same classes under the same source keys with the same
   names, comments, fields, methods and parameters — up to insertion order and constructors unnamed
   (enigma_norm, written out in C12_norm_spec below; nothing else may change).  Among the hypotheses:
   parameters have no first-namespace name (the format has no place for one) *)
Theorem C12_read_write_all : forall M, enigma_okb M = true ->
  exists text back, write_all M = Ok text /\ read_all text = Ok back /\ classes_sim back (enigma_norm M).
Proof. exact read_write_all. Qed.
Print Assumptions C12_read_write_all.

(* the only deviation the round trip is allowed: a method target `<init>` becomes absent; a target
   `<clinit>`, a target equal to the source name, every other cell, comment and parameter stays *)
Theorem C12_norm_spec : forall M,
  enigma_norm M =
  map (fun c => mkClass (c_names c) (c_doc c) (c_fields c)
         (map (fun m => mkMeth (m_desc m)
                          [Some (src_of (m_names m));
                           match dst_of (m_names m) with
                           | Some d => if str_eqb d s_init then None else Some d
                           | None => None
                           end]
                          (m_doc m) (m_params m)) (c_methods c))) M.
Proof. exact enigma_norm_spec. Qed.
Print Assumptions C12_norm_spec.

Theorem C12_norm_only_ctor : forall m, row2 (m_names m) = true -> dst_of (m_names m) <> Some s_init -> norm_meth m = m.
Proof. exact norm_meth_id. Qed.
Print Assumptions C12_norm_only_ctor.

(* the same through a directory (one file per parent-free class, read back in sorted path order) *)
Theorem C12_read_write_dir : forall M, enigma_okb M = true -> dir_okb M = true ->
  exists d back, write_dir M = Ok d /\ read_dir d = Ok back /\ classes_sim back (enigma_norm M).
Proof. exact read_write_dir. Qed.
Print Assumptions C12_read_write_dir.

(* Th 5: directory and stream hold the same mappings *)
Theorem C12_dir_equiv : forall M, enigma_okb M = true -> dir_okb M = true ->
  exists text d a b, write_all M = Ok text /\ write_dir M = Ok d /\ read_all text = Ok a /\ read_dir d = Ok b
                     /\ classes_sim a (enigma_norm M) /\ classes_sim b (enigma_norm M).
Proof. exact dir_equiv. Qed.
Print Assumptions C12_dir_equiv.

(* Th 2: every class lands in exactly one file, exactly once — whenever figure_out_files succeeds *)
Theorem C12_one_file : forall M fs, keys_nodup M -> files M = Ok fs ->
  exists nodes, file_nodes M fs = Ok nodes /\ Permutation M (map fst (concat nodes)).
Proof. exact one_file. Qed.
Print Assumptions C12_one_file.

(* figure_out_files succeeds exactly when the file names of the parent-free classes are free of
   surrogates and pairwise distinct (two classes with one file name are refused, not dropped) *)
Theorem C12_files_ok_iff : forall M, (exists fs, files M = Ok fs) <->
  forallb (fun c => scalar (file_name c)) (roots M) = true /\ NoDup (map file_name (roots M)).
Proof. exact files_ok_iff. Qed.
Print Assumptions C12_files_ok_iff.

(* Th 3: nesting in the text mirrors source-name nesting: a class is written at the indentation
   given by the number of ancestors reached by following parent names as long as they are in the set *)
Theorem C12_nesting_mirrors : forall M fs nodes x dx, keys_nodup M -> files M = Ok fs -> file_nodes M fs = Ok nodes ->
  In (x, dx) (concat nodes) -> dx = chain_depth M (cls_key x).
Proof. exact nesting_mirrors. Qed.
Print Assumptions C12_nesting_mirrors.

(* Th 4: output is deterministic: any insertion order of classes, fields, methods and parameters
   gives the same stream, the same directory and the same single files; files are sorted *)
Theorem C12_write_deterministic : forall M M', keys_ok M -> classes_sim M M' ->
  write_all M = write_all M' /\ write_dir M = write_dir M' /\ (forall name, write_one M name = write_one M' name).
Proof. exact write_deterministic. Qed.
Print Assumptions C12_write_deterministic.

Theorem C12_files_sorted : forall M fs, files M = Ok fs ->
  Sorted (fun a b => is_le (str_cmp (fst a) (fst b)) = true) fs.
Proof. exact files_sorted. Qed.
Print Assumptions C12_files_sorted.

(* output is sorted below file level too: a class is written as its CLASS line, its comment, its
   fields sorted by (names row, descriptor), its methods sorted the same way, each method with its
   parameters sorted by (index, names row) — whatever the insertion order was *)
Theorem C12_members_sorted : forall c ind ls, write_class c ind = Ok ls ->
  exists fs ms mls,
    sorted_of field_wleb fs (c_fields c)
    /\ sorted_of meth_wleb ms (c_methods c)
    /\ Forall2 (fun m ml => exists ps pls, meth_text (S ind) m ps pls ml) ms mls
    /\ ls = class_line ind (short_name (negb (Nat.eqb ind 0)) (cls_key c))
                      (option_map (short_name (negb (Nat.eqb ind 0))) (cls_dst c))
              :: comment_lines (S ind) (c_doc c) ++ flat_map (write_field (S ind)) fs ++ concat mls.
Proof. exact members_sorted. Qed.
Print Assumptions C12_members_sorted.

(* and the classes written inside a class are its children sorted by source name *)
Theorem C12_kids_sorted : forall M c,
  sorted_of key_leb (kids M c)
    (filter (fun x => match parent_in M x with Some p => str_eqb p (cls_key c) | None => false end) M).
Proof. exact kids_sorted. Qed.
Print Assumptions C12_kids_sorted.

(* the fuel of the model's deque loop is never exhausted: it computes the pre-order of the tree *)
Theorem C12_tree_fuel_suffices : forall M r, keys_nodup M -> In r M -> tree_nodes M r = Ok (T (bound M) M r 0).
Proof. exact tree_nodes_T. Qed.
Print Assumptions C12_tree_fuel_suffices.

(* and so is the fuel of the reader model, on every input (malformed ones included): any fuel above
   the number of lines gives the answer of read_into, so no Err of the model is an out-of-fuel artefact *)
Theorem C12_reader_fuel_irrelevant : forall acc text F, (length (elines text) < F)%nat ->
  root_loop F acc (elines text) = read_into acc text.
Proof. exact reader_fuel_irrelevant. Qed.
Print Assumptions C12_reader_fuel_irrelevant.

(* parameter indices: the decimal form parses back *)
Theorem C12_index_roundtrip : forall n, n < usize_bound -> parse_usize (dec n) = Ok n /\ tokb (dec n) = true.
Proof. exact parse_dec. Qed.
Print Assumptions C12_index_roundtrip.

(* non-vacuity: a set with a nested class, an orphan inner class, a class without target, a
   constructor, a static initialiser `<clinit>` -> `<clinit>`, an identity-mapped method, a parameter with comment, comments with blank lines, leading
   spaces and `#` satisfies all hypotheses; its round trip is computed *)
Theorem C12_examples : nonvacuous.
Proof. exact nonvacuous_holds. Qed.
Print Assumptions C12_examples.
