(* C12 — property theorems only.  Each is closed by [exact <lemma>] and followed by
   Print Assumptions; the statements are pinned here so they cannot be quietly weakened. *)
From FB Require Import C12.Model C12.ModelForest C12.TheoryTree C12.TheoryOrd C12.TheoryDet C12.TheoryMembers C12.TheoryPlace C12.TheoryTok
  C12.TheoryLines C12.TheoryRead C12.TheoryRT C12.TheoryFuel C12.TheoryExact C12.TheoryDir C12.Theory C12.ModelBytes C12.TheoryBytes.
From Coq Require Import Permutation Sorted.

(* Th 1: writing a mapping set that satisfies the (decidable) hypotheses as one Enigma stream and
   reading it back succeeds and yields the same classes under the same source keys with the same
   names, comments, fields, methods and parameters — up to insertion order and constructors unnamed
   (enigma_norm, written out in C12_norm_spec below; nothing else may change).  Among the hypotheses:
   parameters have no first-namespace name (the format has no place for one) *)
Theorem C12_read_write_all : forall M, enigma_okb M = true ->
  exists text back, write_all M = Ok text /\ read_all text = Ok back /\ classes_sim back (enigma_norm M).
Proof. exact read_write_all. Qed.
Print Assumptions C12_read_write_all.

(* the only deviation the round trip is allowed: a method target `<init>` becomes absent; a target
   `<clinit>`, a target equal to the source name, every other cell, comment and parameter stays *)
Theorem C12_norm_spec : forall M,
  enigma_norm M =
  map (fun c => mkClass (c_names c) (c_doc c) (c_fields c)
         (map (fun m => mkMeth (m_desc m)
                          [Some (src_of (m_names m));
                           match dst_of (m_names m) with
                           | Some d => if str_eqb d s_init then None else Some d
                           | None => None
                           end]
                          (m_doc m) (m_params m)) (c_methods c))) M.
Proof. exact enigma_norm_spec. Qed.
Print Assumptions C12_norm_spec.

Theorem C12_norm_only_ctor : forall m, row2 (m_names m) = true -> dst_of (m_names m) <> Some s_init -> norm_meth m = m.
Proof. exact norm_meth_id. Qed.
Print Assumptions C12_norm_only_ctor.

(* the same through a directory (one file per parent-free class, read back in sorted path order) *)
Theorem C12_read_write_dir : forall M, enigma_okb M = true -> dir_okb M = true ->
  exists d back, write_dir M = Ok d /\ read_dir d = Ok back /\ classes_sim back (enigma_norm M).
Proof. exact read_write_dir. Qed.
Print Assumptions C12_read_write_dir.

(* Th 5: directory and stream hold the same mappings *)
Theorem C12_dir_equiv : forall M, enigma_okb M = true -> dir_okb M = true ->
  exists text d a b, write_all M = Ok text /\ write_dir M = Ok d /\ read_all text = Ok a /\ read_dir d = Ok b
                     /\ classes_sim a (enigma_norm M) /\ classes_sim b (enigma_norm M).
Proof. exact dir_equiv. Qed.
Print Assumptions C12_dir_equiv.

(* Th 2: every class lands in exactly one file, exactly once — whenever figure_out_files succeeds *)
Theorem C12_one_file : forall M fs, keys_nodup M -> files M = Ok fs ->
  exists nodes, file_nodes M fs = Ok nodes /\ Permutation M (map fst (concat nodes)).
Proof. exact one_file. Qed.
Print Assumptions C12_one_file.

(* figure_out_files succeeds exactly when the file names of the parent-free classes are free of
   surrogates and pairwise distinct (two classes with one file name are refused, not dropped) *)
Theorem C12_files_ok_iff : forall M, (exists fs, files M = Ok fs) <->
  forallb (fun c => scalar (file_name c)) (roots M) = true /\ NoDup (map file_name (roots M)).
Proof. exact files_ok_iff. Qed.
Print Assumptions C12_files_ok_iff.

(* Th 3: nesting in the text mirrors source-name nesting: a class is written at the indentation
   given by the number of ancestors reached by following parent names as long as they are in the set *)
Theorem C12_nesting_mirrors : forall M fs nodes x dx, keys_nodup M -> files M = Ok fs -> file_nodes M fs = Ok nodes ->
  In (x, dx) (concat nodes) -> dx = chain_depth M (cls_key x).
Proof. exact nesting_mirrors. Qed.
Print Assumptions C12_nesting_mirrors.

(* Th 4: output is deterministic: any insertion order of classes, fields, methods and parameters
   gives the same stream, the same directory and the same single files; files are sorted *)
Theorem C12_write_deterministic : forall M M', keys_ok M -> classes_sim M M' ->
  write_all M = write_all M' /\ write_dir M = write_dir M' /\ (forall name, write_one M name = write_one M' name).
Proof. exact write_deterministic. Qed.
Print Assumptions C12_write_deterministic.

Theorem C12_files_sorted : forall M fs, files M = Ok fs ->
  Sorted (fun a b => is_le (str_cmp (fst a) (fst b)) = true) fs.
Proof. exact files_sorted. Qed.
Print Assumptions C12_files_sorted.

(* output is sorted below file level too: a class is written as its CLASS line, its comment, its
   fields sorted by (names row, descriptor), its methods sorted the same way, each method with its
   parameters sorted by (index, names row) — whatever the insertion order was *)
Theorem C12_members_sorted : forall c ind ls, write_class c ind = Ok ls ->
  exists fs ms mls,
    sorted_of field_wleb fs (c_fields c)
    /\ sorted_of meth_wleb ms (c_methods c)
    /\ Forall2 (fun m ml => exists ps pls, meth_text (S ind) m ps pls ml) ms mls
    /\ ls = class_line ind (short_name (negb (Nat.eqb ind 0)) (cls_key c))
                      (option_map (short_name (negb (Nat.eqb ind 0))) (cls_dst c))
              :: comment_lines (S ind) (c_doc c) ++ flat_map (write_field (S ind)) fs ++ concat mls.
Proof. exact members_sorted. Qed.
Print Assumptions C12_members_sorted.

(* and the classes written inside a class are its children sorted by source name *)
Theorem C12_kids_sorted : forall M c,
  sorted_of key_leb (kids M c)
    (filter (fun x => match parent_in M x with Some p => str_eqb p (cls_key c) | None => false end) M).
Proof. exact kids_sorted. Qed.
Print Assumptions C12_kids_sorted.

(* the fuel of the model's deque loop is never exhausted: it computes the pre-order of the tree *)
Theorem C12_tree_fuel_suffices : forall M r, keys_nodup M -> In r M -> tree_nodes M r = Ok (T (bound M) M r 0).
Proof. exact tree_nodes_T. Qed.
Print Assumptions C12_tree_fuel_suffices.

(* and so is the fuel of the reader model, on every input (malformed ones included): any fuel above
   the number of lines gives the answer of read_into, so no Err of the model is an out-of-fuel artefact *)
Theorem C12_reader_fuel_irrelevant : forall acc text F, (length (elines text) < F)%nat ->
  root_loop F acc (elines text) = read_into acc text.
Proof. exact reader_fuel_irrelevant. Qed.
Print Assumptions C12_reader_fuel_irrelevant.

(* parameter indices: the decimal form parses back *)
Theorem C12_index_roundtrip : forall n, n < usize_bound -> parse_usize (dec n) = Ok n /\ tokb (dec n) = true.
Proof. exact parse_dec. Qed.
Print Assumptions C12_index_roundtrip.

(* non-vacuity: a set with a nested class, an orphan inner class, a class without target, a
   constructor, a static initialiser `<clinit>` -> `<clinit>`, an identity-mapped method, a parameter with comment, comments with blank lines, leading
   spaces and `#` satisfies all hypotheses; its round trip is computed *)
Theorem C12_examples : nonvacuous.
Proof. exact nonvacuous_holds. Qed.
Print Assumptions C12_examples.

(* ------------------------------------------------------------------------------------------ *)
(* Round 4: orphan chains, reader exactness, directory form *)

(* Th 3a: a class whose direct outer class is not in the set (or that is no inner class) starts its own
   file — named after its target, else source, name —, is the first class written there, at
   indentation 0, and its CLASS line carries its FULL names.  No hypothesis on further-out classes:
   with A and A$B$C in the set and A$B absent, A$B$C is not written below A *)
Theorem C12_orphan_own_file : forall M fs c, keys_nodup M -> files M = Ok fs -> In c M -> parent_in M c = None ->
  In (file_name c, c) fs
  /\ (exists tl, tree_nodes M c = Ok ((c, O) :: tl))
  /\ (forall ls, write_class c 0 = Ok ls -> exists tl, ls = class_line 0 (cls_key c) (cls_dst c) :: tl).
Proof. exact orphan_own_file. Qed.
Print Assumptions C12_orphan_own_file.

Theorem C12_orphan_inner_is_root : forall M c p i, split_inner (cls_key c) = Some (p, i) -> has_key M p = false ->
  parent_in M c = None /\ chain_depth M (cls_key c) = O.
Proof. exact orphan_inner_is_root. Qed.
Print Assumptions C12_orphan_inner_is_root.

(* Th 2a: which file: a class at indentation dx is in the file of the class reached from it by dx parent
   steps inside the set; that class has no parent in the set and heads the file at indentation 0 *)
Theorem C12_placement : forall M fs nodes, keys_nodup M -> files M = Ok fs -> file_nodes M fs = Ok nodes ->
  forall nc ns x dx, In (nc, ns) (combine fs nodes) -> In (x, dx) ns ->
    In x M /\ anc M dx (cls_key x) = Some (cls_key (snd nc)) /\ parent_in M (snd nc) = None
    /\ fst nc = file_name (snd nc) /\ exists tl, ns = (snd nc, O) :: tl.
Proof. exact placement. Qed.
Print Assumptions C12_placement.

(* Th 3b: nesting in the TEXT mirrors source-name nesting: the token lines of what write_all writes are, file after
   file in sorted order, for every class in pre-order of the tree of present parents: its CLASS line (e_head: indentation
   = number of present ancestors, names shortened to the part after the last `$` below a parent, full at 0), then its
   comment, sorted fields, sorted methods with sorted parameters (e_body); every class exactly once *)
Theorem C12_written_text_lines : forall M, enigma_okb M = true ->
  exists fs text, files M = Ok fs /\ write_all M = Ok text
    /\ elines text = flat_map (fun cd => e_class (fst cd) (snd cd)) (TheoryTree.forest M (map snd fs))
    /\ (forall x dx, In (x, dx) (TheoryTree.forest M (map snd fs)) -> dx = chain_depth M (cls_key x))
    /\ Permutation M (map fst (TheoryTree.forest M (map snd fs))).
Proof. exact written_text_lines. Qed.
Print Assumptions C12_written_text_lines.

(* the single files: write_one succeeds exactly for the file names of the parent-free classes and writes that class's tree *)
Theorem C12_write_one_iff : forall M fs name t, files M = Ok fs ->
  (write_one M name = Ok t <-> exists c, In (name, c) fs /\ write_tree M c = Ok t).
Proof. exact write_one_iff. Qed.
Print Assumptions C12_write_one_iff.

(* Th 6: the reader IS the structural decoder, on EVERY text (accepted or not): group the token lines
   into the forest their indentation describes (a line belongs to the nearest preceding line indented
   one step less; a line that jumps deeper is an error), then walk that forest *)
Theorem C12_read_structural : forall acc text, read_into acc text = read_struct acc text.
Proof. exact read_into_struct. Qed.
Print Assumptions C12_read_structural.

(* grouping is lossless and unambiguous: the forest flattens back to exactly the lines, every node at
   its depth, and there is only one such forest *)
Theorem C12_forest_of_sound : forall ls f, forest_of ls = Some f -> ls = flatten f /\ depth_ok 0 f.
Proof. exact forest_of_sound. Qed.
Print Assumptions C12_forest_of_sound.

Theorem C12_forest_of_complete : forall f, depth_ok 0 f -> forest_of (flatten f) = Some f.
Proof. exact forest_of_flatten. Qed.
Print Assumptions C12_forest_of_complete.

Theorem C12_forest_unique : forall d f f' rest rest',
  depth_ok d f -> depth_ok d f' -> stops d rest -> stops d rest' ->
  flatten f ++ rest = flatten f' ++ rest' -> f = f' /\ rest = rest'.
Proof. exact forest_unique. Qed.
Print Assumptions C12_forest_unique.

(* Th 7: every ACCEPTED text is decoded to the classes already there plus the check-free decoding of
   its forest: one class per CLASS line (nested ones first), under the names of the CLASS lines it is
   nested in, with the fields / methods / parameters / comments of the lines directly below it; and
   every tag stands where it may stand (shape_root: unknown tags, members at the top level, lines
   below a COMMENT are refused) *)
Theorem C12_read_exact : forall acc text out, read_into acc text = Ok out ->
  exists f, elines text = flatten f /\ depth_ok 0 f /\ shape_root f = true /\ out = acc ++ classes_of None f.
Proof. exact read_exact. Qed.
Print Assumptions C12_read_exact.

(* no loss, no merge: as many classes / fields / methods / parameters are added as the text has
   CLASS / FIELD / METHOD / ARG lines *)
Theorem C12_read_counts : forall acc text out, read_into acc text = Ok out ->
  length out = (length acc + count_tag s_CLASS (elines text))%nat
  /\ nfields out = (nfields acc + count_tag s_FIELD (elines text))%nat
  /\ nmeths out = (nmeths acc + count_tag s_METHOD (elines text))%nat
  /\ nparams out = (nparams acc + count_tag s_ARG (elines text))%nat.
Proof. exact read_counts. Qed.
Print Assumptions C12_read_counts.

(* no re-parenting: a class decoded from below a CLASS line has that line's source name in front of its own *)
Theorem C12_nested_keys_prefixed : forall f ps pd,
  Forall (fun c => exists s, cls_key c = ps ++ cDOLLAR :: s) (classes_of (Some (ps, pd)) f).
Proof. exact nested_keys_prefixed. Qed.
Print Assumptions C12_nested_keys_prefixed.

(* duplicates are refused, never merged: whatever is read has unique keys at every level … *)
Theorem C12_read_keys_strict : forall acc text out, strict_keys acc -> read_into acc text = Ok out -> strict_keys out.
Proof. exact read_keys_strict. Qed.
Print Assumptions C12_read_keys_strict.

(* … so a text whose decoding would repeat a class key (also one that is already there, also a nested
   class spelled `A$B` at the top level) is an error *)
Theorem C12_read_dup_refused : forall acc text f, keys_nodup acc -> Forall class_keys_strict acc ->
  elines text = flatten f -> depth_ok 0 f ->
  ~ NoDup (map cls_key (acc ++ classes_of None f)) -> read_into acc text = Err.
Proof. exact read_dup_refused. Qed.
Print Assumptions C12_read_dup_refused.

(* the hypothesis on comments, written out (pinned so that it cannot quietly become narrower): NO character is excluded —
   TAB, VT, FF, CR inside a line, runs of spaces, leading / trailing spaces, only-spaces lines, `#`, the empty comment, a
   trailing line break, blank lines are all inside.  The one shape outside: a comment with a line (LF separates them) that
   ENDS with CR — the reader would take that CR for a part of the line break.  (Round 5, fix "a comment keeps its tabs and
   spaces through the Enigma format": before it the hypothesis excluded TAB, VT, FF and CR altogether, because the reader
   split a comment line at every white-space character and joined the parts with one space.) *)
Theorem C12_doc_hyp_spec : docb None = true /\ forall d, docb (Some d) = forallb (fun l => negb (ends_cr l)) (split_on cLF d).
Proof. exact doc_hyp_spec. Qed.
Print Assumptions C12_doc_hyp_spec.

Theorem C12_ends_cr_spec : forall l, ends_cr l = true <-> exists p, l = p ++ [cCR].
Proof. exact ends_cr_spec. Qed.
Print Assumptions C12_ends_cr_spec.

(* the comment layer of Th 1 in isolation, for every such comment at every indentation: one COMMENT line per
   `split('\n')` part (a trailing line break gives a last bare line, the empty comment exactly one), read back to
   exactly that comment *)
Theorem C12_comment_roundtrip : forall ind doc rest, docb doc = true -> stops ind rest ->
  filter_map enigma_line (comment_lines ind doc) = e_comments ind doc
  /\ forallb line_ok (comment_lines ind doc) = true
  /\ length (comment_lines ind doc) = match doc with Some d => length (split_on cLF d) | None => O end
  /\ comments_loop ind None (e_comments ind doc ++ rest) = Ok (doc, rest).
Proof. exact comment_roundtrip. Qed.
Print Assumptions C12_comment_roundtrip.

(* the reader's half, no hypothesis: the text after `COMMENT` and ONE separator (any of the six Java white-space
   characters) is the comment line character for character — nothing is split, trimmed, or cut at `#` *)
Theorem C12_comment_line_verbatim : forall n w l, java_ws w = true ->
  enigma_line (tabs n ++ s_COMMENT ++ w :: l) = Some (mkEline n s_COMMENT [l])
  /\ forall doc, ins_comment doc (mkEline n s_COMMENT [l]) = Some (match doc with Some d => d ++ cLF :: l | None => l end).
Proof. exact comment_line_verbatim. Qed.
Print Assumptions C12_comment_line_verbatim.

(* the writer's half of the one excluded shape: a set in which ANY comment (of a class, a field, a method, a parameter)
   has a line ending in CR is refused by the stream writer and by the directory writer — an error, never a silent loss *)
Theorem C12_unwritable_comment_refused : forall M c, keys_nodup M -> In c M -> class_docs_writable c = false ->
  write_all M = Err /\ write_dir M = Err.
Proof. exact unwritable_comment_refused. Qed.
Print Assumptions C12_unwritable_comment_refused.

Theorem C12_docs_writable_spec : forall c,
  class_docs_writable c = true <->
  docb (c_doc c) = true /\ (forall f, In f (c_fields c) -> docb (f_doc f) = true)
  /\ (forall m, In m (c_methods c) -> docb (m_doc m) = true /\ forall p, In p (m_params m) -> docb (p_doc p) = true).
Proof. exact class_docs_writable_spec. Qed.
Print Assumptions C12_docs_writable_spec.

(* Th 8: the directory form.  Inside the hypotheses of the round trip the directory hypothesis is
   nothing but the file system's own limits (no NUL, path components of at most 255 bytes) … *)
Theorem C12_dir_ok_iff_fs_ok : forall M, enigma_okb M = true -> dir_okb M = fs_okb M.
Proof. exact dir_ok_iff_fs_ok. Qed.
Print Assumptions C12_dir_ok_iff_fs_ok.

Theorem C12_read_write_dir_fs : forall M, enigma_okb M = true -> fs_okb M = true ->
  exists d back, write_dir M = Ok d /\ read_dir d = Ok back /\ classes_sim back (enigma_norm M).
Proof. exact read_write_dir_fs. Qed.
Print Assumptions C12_read_write_dir_fs.

(* … and when the file system refuses a name, enigma_dir::write is an error (no class silently dropped) *)
Theorem C12_write_dir_fs_err : forall M, is_ok (files M) = true -> fs_okb M = false -> write_dir M = Err.
Proof. exact write_dir_fs_err. Qed.
Print Assumptions C12_write_dir_fs_err.

(* every path enigma_dir::write creates lies inside the target directory (relative, no `.` / `..`
   component) — for ANY mapping set, also one with names only the unchecked constructors can build *)
Theorem C12_write_dir_inside : forall M d, write_dir M = Ok d -> forall p body, In (p, body) d -> path_inside p = true.
Proof. exact write_dir_inside. Qed.
Print Assumptions C12_write_dir_inside.

(* the sorted directory walk: whatever order the operating system lists the entries in, the same files are
   read in the same (ascending, component by component) order, so the result is the same *)
Theorem C12_read_dir_order_independent : forall d d', NoDup (map fst d) -> Permutation d d' -> read_dir d = read_dir d'.
Proof. exact read_dir_order_independent. Qed.
Print Assumptions C12_read_dir_order_independent.

Theorem C12_read_dir_sorted : forall d,
  read_dir d = read_files [] (isort path_leb (filter (fun pc => is_mapping_file (fst pc)) d))
  /\ Sorted (fun a b => path_leb a b = true) (isort path_leb (filter (fun pc => is_mapping_file (fst pc)) d)).
Proof. exact read_dir_sorted. Qed.
Print Assumptions C12_read_dir_sorted.

Theorem C12_read_path_spec : forall p, read_path p =
  match p with
  | NoSuchPath => Err
  | PlainFile name content => if is_mapping_file name then read_all content else Ok []
  | Directory d => read_dir d
  end.
Proof. exact read_path_spec. Qed.
Print Assumptions C12_read_path_spec.

(* non-vacuity of the round-4 theorems: structural decoding of a nested text computed; duplicate (flat and
   nested), unknown tag, indentation jump refused; file-system limits at 247/248 bytes and NUL; `..` and
   absolute file names refused; missing path, single file, invalid UTF-8; a comment with TAB / VT / FF / inner CR / runs of
   spaces round-trips (computed), a comment line ending in CR is refused by both writers *)
Theorem C12_examples2 : nonvacuous2.
Proof. exact nonvacuous2_holds. Qed.
Print Assumptions C12_examples2.

(* ------------------------------------------------------------------------------------------ *)
(* Round 7: the byte level.  The writers hand UTF-8 bytes to their `Write` (utf8_encode, compared with the real
   output byte for byte by the streams `utf8` / `write-one-bytes`), the reader decodes bytes strictly (utf8_decode) *)

(* the byte reader on the UTF-8 encoding of ANY text of scalar values is the text reader: the decoder inverts the encoder *)
Theorem C12_read_bytes_encode : forall acc text, forallb is_usv text = true ->
  read_bytes acc (utf8_encode text) = read_into acc text.
Proof. exact read_bytes_encode. Qed.
Print Assumptions C12_read_bytes_encode.

(* the decoder is strict: whatever it accepts is THE encoding of a string of Unicode scalar values (no over-long form,
   no surrogate, nothing above U+10FFFF) — two different byte strings never decode to one text *)
Theorem C12_utf8_decode_strict : forall f bs s, utf8_decode f bs = Some s -> bs = utf8_encode s /\ forallb is_usv s = true.
Proof. exact decode_sound. Qed.
Print Assumptions C12_utf8_decode_strict.

(* Th 1 on bytes: whatever bytes write_all hands to its writer, read_into on those bytes gives the set back *)
Theorem C12_read_write_all_bytes : forall M bs, enigma_okb M = true -> write_all_bytes M = Ok bs ->
  exists back, read_bytes [] bs = Ok back /\ classes_sim back (enigma_norm M).
Proof. exact read_write_all_bytes. Qed.
Print Assumptions C12_read_write_all_bytes.

(* non-vacuity: 1-, 2-, 3-, 4-byte characters and every boundary encode to the known bytes and come back; a class with
   such names and comment goes through the bytes (computed); a surrogate has no bytes *)
Theorem C12_examples_bytes : nonvacuous_bytes.
Proof. exact nonvacuous_bytes_holds. Qed.
Print Assumptions C12_examples_bytes.
