(* C12 — property theorems only. *)
From FB Require Import C12.Model C12.Theory.

Theorem C12_example :
  match write_all ex_classes with
  | Ok t => match read_all t with Ok r => length r = 3%nat | Err => False end
  | Err => False
  end.
Proof. exact ex_write_read. Qed.
Print Assumptions C12_example.
