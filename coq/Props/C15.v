(* C15 — property theorems only.  Each is closed by [exact <lemma>] and followed by
   Print Assumptions; the statements are pinned here so they cannot be quietly weakened.

   Vocabulary (coq/C15/Theory.v, Theory2.v):
     access_of J b      the access flags the jar gives the method reference b
     invoked J b r      the body of b invokes the object-class method r (C15_invoked_insn: some instruction of the body
                        is an invokevirtual / invokespecial / invokestatic / invokeinterface carrying r, r's owner no array)
     parent / ancestor  super class other than java/lang/Object or interface; transitive closure
     compatP J tb ts    bridge-compatible types: equal, or both object types and the bridge's is
                        java/lang/Object, or not a class of the jar, or some ancestor of the
                        delegate's type is the bridge's type or not a class of the jar
     potentialP         not private/final/static, both descriptors parse, same arity,
                        position-wise compatible parameters, compatible return (void with void)
     is_bridge_pair     synthetic /\ calls = {s} /\ (bridge flag \/ potentialP)
     class_frame        a class of the result against the class it came from (see below)
   Hypothesis `get_specialized J = Ok _`: the hierarchy work-lists did not exhaust their fuel; section 5 below
   (C15_get_specialized_total) discharges it for EVERY jar — since "fix: the hierarchy walks of the bridge detection
   visit every class once" the loops carry a visited set and end on any hierarchy, cyclic ones included.
     cal_ref J cal libs m   the method reference m of the jar (official names) in intermediary names
                            (SpecializedMethods::remap with the calamus remapper, inheritance through the jars)
     named_ref J cal libs M b'   the name the mappings M give, through inheritance, to the intermediary reference b'
     last_remap f l b'      the f-image of the delegate of the LAST pair of l whose bridge f maps to b'
     steps stack out r  length stack + (length r - length out): the pops of a work-list run that ends with r
     jar_edges J        the number of super-type edges of the jar (super class other than java/lang/Object, interfaces)
     walk_nv            the work-list BEFORE the fix (no visited set), kept as the record of the defect
     cost d G c         the number of paths of G that start at c (the empty path included), to depth d
     depth_ok d G c     every chain of edges of the table G starting at c has at most d edges *)
From FB Require Import C15.Model C15.Theory C15.Theory2 C15.Theory3 C15.Theory4.
From Coq Require Import Relations.Relation_Operators.

(* 1. bridge_iff: the pairs collected by Jar::get_specialized_methods are exactly the bridge pairs *)
Theorem C15_bridge_iff : forall J b2s s2b,
  get_specialized J = Ok (b2s, s2b) ->
  forall b s, In (b, s) b2s <->
    exists a, access_of J b = Some a /\
              a_synthetic a = true /\
              (forall r, invoked J b r <-> r = s) /\
              (a_bridge a = true \/ potentialP J b a s).
Proof. exact bridge_iff. Qed.
Print Assumptions C15_bridge_iff.

(* "invokes exactly one distinct method", over the instruction list of the body: an instruction counts iff it is one
   of the four method invocations (any kind, any interface flag) — invokedynamic and every other instruction do not —
   and the owner of its method reference is not an array class *)
Theorem C15_invoked_insn : forall J b r, invoked J b r <->
  exists m c i, In (b, m) (jar_methods J) /\ jm_code m = Some c /\ In i c /\ invoke_target i = Some r /\ is_obj_ref r = true.
Proof. exact invoked_insn. Qed.
Print Assumptions C15_invoked_insn.

Theorem C15_invoke_target_cases : forall i r, invoke_target i = Some r <->
  i = IVirtual r \/ (exists itf, i = ISpecial r itf) \/ (exists itf, i = IStatic r itf) \/ i = IInterface r.
Proof. exact invoke_target_cases. Qed.
Print Assumptions C15_invoke_target_cases.

(* and "exactly one": for a method that occurs once in the jar, the distinct (owner, name, descriptor) triples of its
   invocations (array owners dropped) are the one-element list [s] — one method through several instructions or invoke
   kinds counts once; the same name and descriptor on two owners are two methods *)
Theorem C15_one_callee_count : forall J b m c s,
  (forall m', In (b, m') (jar_methods J) -> m' = m) -> In (b, m) (jar_methods J) -> jm_code m = Some c ->
  ((forall r, invoked J b r <-> r = s) <-> distinct_callees c = [s]).
Proof. exact one_callee_count. Qed.
Print Assumptions C15_one_callee_count.

Theorem C15_distinct_callees_spec : forall c, NoDup (distinct_callees c) /\
  forall r, In r (distinct_callees c) <-> (exists i, In i c /\ invoke_target i = Some r) /\ is_obj_ref r = true.
Proof. exact distinct_callees_spec. Qed.
Print Assumptions C15_distinct_callees_spec.

(* the declarative predicates are what the code computes: the work-list yields the transitive
   closure of the parent relation, and the type test is compatP *)
Theorem C15_ancestors_closure : forall J fuel s l,
  walk fuel (ix_parents J) [s] [] = Ok l -> forall a, In a l <-> ancestor J s a.
Proof. exact ancestors_spec. Qed.
Print Assumptions C15_ancestors_closure.

Theorem C15_compat_spec : forall J fuel tb ts v,
  compat fuel (ix_classes J) (ix_parents J) tb ts = Ok v -> (v = true <-> compatP J tb ts).
Proof. exact compat_spec. Qed.
Print Assumptions C15_compat_spec.

Theorem C15_potential_spec : forall J fuel b a s v,
  is_potential_bridge fuel (ix_classes J) (ix_parents J) b a s = Ok v -> (v = true <-> potentialP J b a s).
Proof. exact potential_spec. Qed.
Print Assumptions C15_potential_spec.

(* 2. mappings_frame: for every lookup function `named`, every pair list P and every mapping set
   with distinct class keys, the result keeps namespaces, javadoc, class rows and fields; per
   class (key cname) and method key k: when no pair of P has its bridge in cname and delegate key
   k the lookup of k is unchanged; otherwise, for the last such bridge b, the entry is exactly
   {desc := snd k; names := [fst k; named b]; javadoc and parameters of the old entry, if any}.
   Method keys stay distinct, classes without a key are untouched. *)
Theorem C15_mappings_frame : forall named P M M',
  NoDup (map class_key (ms_classes M)) ->
  add_pairs named P M = Ok M' ->
  ms_ns M' = ms_ns M /\ ms_doc M' = ms_doc M /\
  Forall2 (fun c c' =>
    c_names c' = c_names c /\ c_doc c' = c_doc c /\ c_fields c' = c_fields c /\
    (NoDup (map meth_key (c_methods c)) -> NoDup (map meth_key (c_methods c'))) /\
    (class_key c = None -> c' = c) /\
    forall cname, class_key c = Some cname ->
      forall k, match lastp P cname k with
                | None => find_meth k (c_methods c') = find_meth k (c_methods c)
                | Some b => exists nm, named b = Ok nm /\
                    find_meth k (c_methods c')
                    = Some (mkMeth (snd k) (names2 (fst k) nm)
                              (doc_of (find_meth k (c_methods c))) (params_of (find_meth k (c_methods c))))
                end) (ms_classes M) (ms_classes M').
Proof. exact mappings_frame. Qed.
Print Assumptions C15_mappings_frame.

Theorem C15_lastp_none : forall P c k,
  lastp P c k = None <-> forall b s, In (b, s) P -> ~ (mr_class b = c /\ snd s = k).
Proof. exact lastp_None. Qed.
Print Assumptions C15_lastp_none.

Theorem C15_lastp_one_bridge : forall P b s,
  one_bridge_per_delegate P -> In (b, s) P -> lastp P (mr_class b) (snd s) = Some b.
Proof. exact lastp_unique. Qed.
Print Assumptions C15_lastp_one_bridge.

(* entries not keyed by a delegate are returned unchanged and nothing else appears *)
Theorem C15_frame_unchanged : forall named P c c' cname m (k : key),
  class_frame named P c c' -> class_key c = Some cname -> NoDup (map meth_key (c_methods c)) ->
  meth_key m = Some k -> (forall b s, In (b, s) P -> ~ (mr_class b = cname /\ snd s = k)) ->
  (In m (c_methods c') <-> In m (c_methods c)).
Proof. exact frame_unchanged. Qed.
Print Assumptions C15_frame_unchanged.

(* a delegate gets exactly the stated names, in the bridge's class *)
Theorem C15_frame_delegate : forall named P c c' b s,
  class_frame named P c c' -> class_key c = Some (mr_class b) ->
  one_bridge_per_delegate P -> In (b, s) P ->
  exists nm m', named b = Ok nm /\ In m' (c_methods c') /\
    m_desc m' = mr_desc s /\ m_names m' = names2 (mr_name s) nm /\
    m_doc m' = doc_of (find_meth (snd s) (c_methods c)) /\ m_params m' = params_of (find_meth (snd s) (c_methods c)).
Proof. exact frame_delegate. Qed.
Print Assumptions C15_frame_delegate.

(* the function the build calls: the pairs that reach the insertion are bridge pairs of the jar
   re-expressed in intermediary names, the lookup is the remapper's, the result is the frame *)
Theorem C15_add_specialized_spec : forall J cal libs M M',
  NoDup (map class_key (ms_classes M)) ->
  add_specialized J cal libs M = Ok M' ->
  exists P,
    (forall b' s', In (b', s') P ->
       exists b s, is_bridge_pair J b s /\ cal_ref J cal libs b = Ok b' /\ cal_ref J cal libs s = Ok s') /\
    ms_ns M' = ms_ns M /\ ms_doc M' = ms_doc M /\
    Forall2 (class_frame (named_ref J cal libs M) P) (ms_classes M) (ms_classes M').
Proof. exact add_specialized_spec. Qed.
Print Assumptions C15_add_specialized_spec.

(* the same with the converse directions — the pair list that reaches the insertion is EXACTLY the bridge
   pairs of the jar in intermediary names: sound; complete (every bridge pair of the jar has its
   intermediary bridge as a key); one entry per key; when several bridges of the jar become the same
   intermediary reference the last one in the order of bridge_to_specialized provides the delegate
   (SpecializedMethods::remap collects into a map); without such a disagreement the pair itself is in P *)
Theorem C15_add_specialized_exact : forall J cal libs M M',
  NoDup (map class_key (ms_classes M)) ->
  add_specialized J cal libs M = Ok M' ->
  exists P,
    (forall b' s', In (b', s') P ->
       exists b s, is_bridge_pair J b s /\ cal_ref J cal libs b = Ok b' /\ cal_ref J cal libs s = Ok s') /\
    (forall b s, is_bridge_pair J b s ->
       exists b' s', cal_ref J cal libs b = Ok b' /\ cal_ref J cal libs s = Ok s' /\ exists s'', In (b', s'') P) /\
    NoDup (map fst P) /\
    (exists b2s s2b, get_specialized J = Ok (b2s, s2b) /\
       forall b', map_get mref_eqb b' P = last_remap (cal_ref J cal libs) b2s b') /\
    (forall b s b' s', is_bridge_pair J b s -> cal_ref J cal libs b = Ok b' -> cal_ref J cal libs s = Ok s' ->
       (forall b2 s2, is_bridge_pair J b2 s2 -> cal_ref J cal libs b2 = Ok b' -> cal_ref J cal libs s2 = Ok s') ->
       In (b', s') P) /\
    ms_ns M' = ms_ns M /\ ms_doc M' = ms_doc M /\
    Forall2 (class_frame (named_ref J cal libs M) P) (ms_classes M) (ms_classes M').
Proof. exact add_specialized_exact. Qed.
Print Assumptions C15_add_specialized_exact.

(* what last_remap picks: a pair of the list, and no later pair has its bridge mapped to b' *)
Theorem C15_last_remap_spec : forall f l b' x, last_remap f l b' = Some x ->
  exists l1 b s l2, l = l1 ++ (b, s) :: l2 /\ f b = Ok b' /\ f s = Ok x /\
                    forall b2 s2 x2, In (b2, s2) l2 -> f b2 = Ok b' -> f s2 = Ok x2 -> False.
Proof. exact last_remap_Some. Qed.
Print Assumptions C15_last_remap_spec.

(* THE MAIN SENTENCE, end to end, in the completeness direction: (b, s) a bridge pair of the jar, b' and s'
   their intermediary references, c the row of the mappings for the bridge's class (a delegate is inserted only
   when that row exists), no other bridge pair of the jar landing on the same intermediary bridge or on the same
   (class, delegate key) — the property's "at most one bridge per delegate and class".  Then the result holds,
   in that class and under the delegate's key, exactly: the delegate's descriptor, the names [delegate's
   intermediary name; the name the mappings give the bridge through inheritance] (names2: an empty name is
   absent), javadoc and parameters of the old entry if there was one.  When the mappings give the bridge no
   name, named_ref answers the bridge's intermediary name (map_method_ref_obj keeps the name it was given). *)
Theorem C15_bridge_gets_name : forall J cal libs M M' b s b' s' c,
  NoDup (map class_key (ms_classes M)) ->
  add_specialized J cal libs M = Ok M' ->
  is_bridge_pair J b s -> cal_ref J cal libs b = Ok b' -> cal_ref J cal libs s = Ok s' ->
  (forall b2 s2 b2' s2', is_bridge_pair J b2 s2 -> cal_ref J cal libs b2 = Ok b2' -> cal_ref J cal libs s2 = Ok s2' ->
     b2' = b' \/ (mr_class b2' = mr_class b' /\ snd s2' = snd s') -> b2 = b) ->
  In c (ms_classes M) -> class_key c = Some (mr_class b') ->
  exists c' nm, In c' (ms_classes M') /\ c_names c' = c_names c /\ c_doc c' = c_doc c /\ c_fields c' = c_fields c /\
    named_ref J cal libs M b' = Ok nm /\
    find_meth (snd s') (c_methods c')
    = Some (mkMeth (mr_desc s') (names2 (mr_name s') nm)
              (doc_of (find_meth (snd s') (c_methods c))) (params_of (find_meth (snd s') (c_methods c)))).
Proof. exact bridge_gets_name. Qed.
Print Assumptions C15_bridge_gets_name.

(* its hypotheses are satisfiable: /repo's fixture bridge MyNode.setData(Object) -> setData(Integer), end to end *)
Theorem C15_bridge_gets_name_example : end_to_end_example.
Proof. exact end_to_end_example_holds. Qed.
Print Assumptions C15_bridge_gets_name_example.

(* a bridge has one delegate *)
Theorem C15_bridge_pair_functional : forall J b s s2, is_bridge_pair J b s -> is_bridge_pair J b s2 -> s = s2.
Proof. exact bridge_pair_fun. Qed.
Print Assumptions C15_bridge_pair_functional.

(* no bridge pair of the jar lands on (class cname, key k) => that entry is returned unchanged:
   ordinary methods, synthetics calling zero or several methods, incompatible signatures cause
   no rename (combine with the C15_miss_* theorems) *)
Theorem C15_add_specialized_no_rename : forall J cal libs M M',
  NoDup (map class_key (ms_classes M)) ->
  add_specialized J cal libs M = Ok M' ->
  Forall2 (fun c c' => forall cname (k : key), class_key c = Some cname ->
      (forall b s b' s', is_bridge_pair J b s -> cal_ref J cal libs b = Ok b' -> cal_ref J cal libs s = Ok s' ->
                         ~ (mr_class b' = cname /\ snd s' = k)) ->
      find_meth k (c_methods c') = find_meth k (c_methods c)) (ms_classes M) (ms_classes M').
Proof. exact add_specialized_no_rename. Qed.
Print Assumptions C15_add_specialized_no_rename.

(* specialized_to_bridge: one entry per delegate, naming one of its bridges; the tie-break keeps the
   new bridge exactly when the other bridge's class is a (transitive) subtype of the new one's *)
Theorem C15_s2b_spec : forall J b2s s2b,
  get_specialized J = Ok (b2s, s2b) ->
  (forall s b, In (s, b) s2b -> In (b, s) b2s) /\
  (forall b s, In (b, s) b2s -> exists b', In (s, b') s2b) /\
  NoDup (map fst s2b).
Proof. exact s2b_spec. Qed.
Print Assumptions C15_s2b_spec.

Theorem C15_get_higher_spec : forall J fuel b1 b2 r,
  get_higher fuel (ix_children J) b1 b2 = Ok r ->
  (r = b1 /\ descendant J (mr_class b1) (mr_class b2)) \/
  (r = b2 /\ ~ descendant J (mr_class b1) (mr_class b2)).
Proof. exact get_higher_spec. Qed.
Print Assumptions C15_get_higher_spec.

(* the decidable well-formedness of mapping sets gives the distinct keys assumed above *)
Theorem C15_wf_class_keys : forall M, wf M = true -> NoDup (map class_key (ms_classes M)).
Proof. exact wf_class_keys. Qed.
Print Assumptions C15_wf_class_keys.

Theorem C15_wf_meth_keys : forall M c, wf M = true -> In c (ms_classes M) -> NoDup (map meth_key (c_methods c)).
Proof. exact wf_meth_keys. Qed.
Print Assumptions C15_wf_meth_keys.

(* 3. near misses: none of these methods is the bridge of any pair *)
Theorem C15_miss_not_a_method : forall J b2s s2b, get_specialized J = Ok (b2s, s2b) ->
  forall b s, access_of J b = None -> ~ In (b, s) b2s.
Proof. exact miss_not_a_method. Qed.
Print Assumptions C15_miss_not_a_method.

Theorem C15_miss_not_synthetic : forall J b2s s2b, get_specialized J = Ok (b2s, s2b) ->
  forall b a s, access_of J b = Some a -> a_synthetic a = false -> ~ In (b, s) b2s.
Proof. exact miss_not_synthetic. Qed.
Print Assumptions C15_miss_not_synthetic.

Theorem C15_miss_no_callee : forall J b2s s2b, get_specialized J = Ok (b2s, s2b) ->
  forall b s, (forall r, ~ invoked J b r) -> ~ In (b, s) b2s.
Proof. exact miss_no_callee. Qed.
Print Assumptions C15_miss_no_callee.

Theorem C15_miss_several_callees : forall J b2s s2b, get_specialized J = Ok (b2s, s2b) ->
  forall b s r1 r2, invoked J b r1 -> invoked J b r2 -> r1 <> r2 -> ~ In (b, s) b2s.
Proof. exact miss_several_callees. Qed.
Print Assumptions C15_miss_several_callees.

Theorem C15_miss_private_static_final : forall J b2s s2b, get_specialized J = Ok (b2s, s2b) ->
  forall b a s, access_of J b = Some a -> a_bridge a = false ->
  a_private a || a_static a || a_final a = true -> ~ In (b, s) b2s.
Proof. exact miss_private_static_final. Qed.
Print Assumptions C15_miss_private_static_final.

Theorem C15_miss_arity : forall J b2s s2b, get_specialized J = Ok (b2s, s2b) ->
  forall b a s pb rb ps rs, access_of J b = Some a -> a_bridge a = false ->
  parse_method (mr_desc b) = Ok (pb, rb) -> parse_method (mr_desc s) = Ok (ps, rs) ->
  length pb <> length ps -> ~ In (b, s) b2s.
Proof. exact miss_arity. Qed.
Print Assumptions C15_miss_arity.

Theorem C15_miss_incompatible : forall J b2s s2b, get_specialized J = Ok (b2s, s2b) ->
  forall b a s pb rb ps rs, access_of J b = Some a -> a_bridge a = false ->
  parse_method (mr_desc b) = Ok (pb, rb) -> parse_method (mr_desc s) = Ok (ps, rs) ->
  ~ (Forall2 (compatP J) pb ps /\ ret_compatP J rb rs) -> ~ In (b, s) b2s.
Proof. exact miss_incompatible. Qed.
Print Assumptions C15_miss_incompatible.

(* more fuel never changes an answer *)
Theorem C15_walk_fuel_mono : forall G f stack out r k,
  walk f G stack out = Ok r -> walk (f + k) G stack out = Ok r.
Proof. exact walk_mono. Qed.
Print Assumptions C15_walk_fuel_mono.

(* 5. fuel_suffices.  get_ancestors / get_descendants are stacks whose output set is the visited set: a class is
   listed, pushed and popped once.  A run that ends with r answers with EXACTLY steps = (classes on the stack) +
   (classes it still lists) units of fuel, and with no less. *)
Theorem C15_walk_exact : forall G fuel stack out r, walk fuel G stack out = Ok r ->
  forall f', walk f' G stack out = if Nat.leb (steps stack out r) f' then Ok r else Err.
Proof. exact walk_exact. Qed.
Print Assumptions C15_walk_exact.

(* started at one class: no class is listed twice, and the pops are one more than the classes listed *)
Theorem C15_walk_steps : forall G fuel c r, walk fuel G [c] [] = Ok r ->
  NoDup r /\ forall f', walk f' G [c] [] = if Nat.leb (S (length r)) f' then Ok r else Err.
Proof. exact walk_steps. Qed.
Print Assumptions C15_walk_steps.

(* every table, cyclic or not: one more than the number of its entries is enough *)
Theorem C15_walk_total : forall G fuel c, (walk_fuel G <= fuel)%nat -> exists r, walk fuel G [c] [] = Ok r.
Proof. exact walk_total. Qed.
Print Assumptions C15_walk_total.

(* Jar::get_specialized_methods with the fuel as a parameter; the model uses jar_fuel J *)
Theorem C15_get_specialized_fuel : forall J, get_specialized J = get_specialized_f (jar_fuel J) J.
Proof. exact get_specialized_is_f. Qed.
Print Assumptions C15_get_specialized_fuel.

(* the hypothesis of sections 1-3 holds for every jar: no condition on the hierarchy, none on the fuel *)
Theorem C15_get_specialized_total : forall J, exists b2s s2b, get_specialized J = Ok (b2s, s2b).
Proof. exact get_specialized_total. Qed.
Print Assumptions C15_get_specialized_total.

(* so the first sentence of the property holds of every jar, with no hypothesis at all *)
Theorem C15_bridge_iff_total : forall J, exists b2s s2b, get_specialized J = Ok (b2s, s2b) /\
  forall b s, In (b, s) b2s <->
    exists a, access_of J b = Some a /\
              a_synthetic a = true /\
              (forall r, invoked J b r <-> r = s) /\
              (a_bridge a = true \/ potentialP J b a s).
Proof. exact bridge_iff_total. Qed.
Print Assumptions C15_bridge_iff_total.

Theorem C15_fuel_suffices : forall J, get_specialized J <> Err.
Proof. exact fuel_suffices. Qed.
Print Assumptions C15_fuel_suffices.

Theorem C15_fuel_irrelevant : forall J f1 f2,
  (jar_fuel J <= f1)%nat -> (jar_fuel J <= f2)%nat ->
  exists r, get_specialized_f f1 J = Ok r /\ get_specialized_f f2 J = Ok r.
Proof. exact fuel_irrelevant. Qed.
Print Assumptions C15_fuel_irrelevant.

Theorem C15_get_specialized_fuel_mono : forall f k J r,
  get_specialized_f f J = Ok r -> get_specialized_f (f + k)%nat J = Ok r.
Proof. exact get_specialized_mono. Qed.
Print Assumptions C15_get_specialized_fuel_mono.

(* the work is linear in the jar: no work-list pops more often than the jar has super-type edges, plus one *)
Theorem C15_jar_fuel_linear : forall J, (jar_fuel J <= S (jar_edges J))%nat.
Proof. exact jar_fuel_linear. Qed.
Print Assumptions C15_jar_fuel_linear.

(* 6. the loops before the fix (walk_nv: every entry of a row is pushed, no visited set) — the defect, stated.
   On a table whose chains are bounded a run answered exactly when the fuel was at least the number of PATHS from
   the classes on its stack (exponential on stacked diamonds, see C15_fuel_examples) ... *)
Theorem C15_old_walk_exact : forall G d fuel stack out,
  (forall c, In c stack -> depth_ok d G c = true) ->
  ((exists r, walk_nv fuel G stack out = Ok r) <-> (total d G stack <= fuel)%nat).
Proof. exact walk_nv_exact. Qed.
Print Assumptions C15_old_walk_exact.

(* ... with a class on a cycle on its stack it had no answer for any fuel (the Rust loop did not end and grew its
   output until memory ran out) ... *)
Theorem C15_old_walk_diverges : forall R G, graph_inv R G -> forall fuel stack out,
  (exists x, In x stack /\ clos_trans_1n str R x x) -> walk_nv fuel G stack out = Err.
Proof. exact walk_nv_diverges. Qed.
Print Assumptions C15_old_walk_diverges.

(* ... and where it did answer, it listed the classes the repaired loop lists: the fix changed no existing answer *)
Theorem C15_visited_set_conservative : forall R G, graph_inv R G -> forall f1 f2 c r1 r2,
  walk_nv f1 G [c] [] = Ok r1 -> walk f2 G [c] [] = Ok r2 -> forall x, In x r1 <-> In x r2.
Proof. exact visited_set_conservative. Qed.
Print Assumptions C15_visited_set_conservative.

(* the hierarchy tables satisfy graph_inv for the parent relation (and its converse) *)
Theorem C15_tables_spec : forall J, graph_inv (parent J) (ix_parents J) /\ graph_inv (fun p c => parent J c p) (ix_children J).
Proof. exact (fun J => conj (ix_parents_spec J) (ix_children_spec J)). Qed.
Print Assumptions C15_tables_spec.

(* non-vacuity, before and after: a diamond (old: 5 pops, A listed twice; now 4 pops), a tower of nine diamonds
   (old: 2045 pops for 28 classes, a quadratic fuel fails; now 28), a tower of forty (2^42 paths: unwalkable before),
   cyclic inheritance A <-> B (old: no answer for any fuel; now [B; A] in 3 pops, B is an ancestor of A and the
   unflagged synthetic g(LB;)V is found as bridge of m(LA;)V) *)
Theorem C15_fuel_examples : fuel_examples.
Proof. exact fuel_examples_hold. Qed.
Print Assumptions C15_fuel_examples.

(* non-vacuity: /repo's fixture MyNode/Node (flagged and unflagged), a well-formed mapping set *)
Theorem C15_examples : nonvacuous.
Proof. exact nonvacuous_holds. Qed.
Print Assumptions C15_examples.

(* 7. SpecializedMethods::remap (round 5).  Between detection and insertion BOTH tables of the SpecializedMethods
   value are re-expressed in intermediary names.  The tables are not inverse to each other (several bridges may share a
   delegate), so each is remapped on its own.  f = map_method_ref_obj R I is the remapper's lookup, `img f e e'` says
   that both components of e' are the f-images of the components of e. *)

(* every pair has an image and the images of the keys are pairwise distinct: the result is EXACTLY the list of images,
   in the same order — no entry dropped, merged or reordered *)
Theorem C15_remap_pairs_exact : forall R I l l',
  Forall2 (fun e e' => map_method_ref_obj R I (fst e) = Ok (fst e') /\ map_method_ref_obj R I (snd e) = Ok (snd e')) l l' ->
  NoDup (map fst l') -> remap_pairs R I l = Ok l'.
Proof. exact remap_pairs_exact. Qed.
Print Assumptions C15_remap_pairs_exact.

(* a remapper that renames nothing returns the table itself *)
Theorem C15_remap_pairs_identity : forall R I l,
  (forall e, In e l -> map_method_ref_obj R I (fst e) = Ok (fst e) /\ map_method_ref_obj R I (snd e) = Ok (snd e)) ->
  NoDup (map fst l) -> remap_pairs R I l = Ok l.
Proof. exact remap_pairs_identity. Qed.
Print Assumptions C15_remap_pairs_identity.

(* without injectivity: one entry per key; the entry of b' holds the image of the delegate of the LAST pair whose
   first component becomes b'; every entry comes from a pair; the first component of every pair is a key *)
Theorem C15_remap_pairs_general : forall R I l P,
  remap_pairs R I l = Ok P ->
  NoDup (map fst P) /\
  (forall b', map_get mref_eqb b' P = last_remap (map_method_ref_obj R I) l b') /\
  (forall b' s', In (b', s') P -> exists b s, In (b, s) l /\ map_method_ref_obj R I b = Ok b' /\ map_method_ref_obj R I s = Ok s') /\
  (forall b s, In (b, s) l -> exists b' s' s'', map_method_ref_obj R I b = Ok b' /\ map_method_ref_obj R I s = Ok s' /\ In (b', s'') P).
Proof. exact remap_pairs_general. Qed.
Print Assumptions C15_remap_pairs_general.

Theorem C15_remap_pairs_err_iff : forall R I l,
  remap_pairs R I l = Err <->
  exists e, In e l /\ (map_method_ref_obj R I (fst e) = Err \/ map_method_ref_obj R I (snd e) = Err).
Proof. exact remap_pairs_err_iff. Qed.
Print Assumptions C15_remap_pairs_err_iff.

(* the value as a whole: remap answers with both tables remapped independently, an error iff one of them is *)
Theorem C15_remap_both_ok_iff : forall R I b2s s2b P Q,
  remap_both R I (b2s, s2b) = Ok (P, Q) <-> remap_pairs R I b2s = Ok P /\ remap_pairs R I s2b = Ok Q.
Proof. exact remap_both_ok_iff. Qed.
Print Assumptions C15_remap_both_ok_iff.

Theorem C15_remap_both_err_iff : forall R I b2s s2b,
  remap_both R I (b2s, s2b) = Err <-> remap_pairs R I b2s = Err \/ remap_pairs R I s2b = Err.
Proof. exact remap_both_err_iff. Qed.
Print Assumptions C15_remap_both_err_iff.

(* BOTH maps are preserved, entry by entry and in order *)
Theorem C15_remap_preserves_both : forall R I b2s s2b P Q,
  Forall2 (fun e e' => map_method_ref_obj R I (fst e) = Ok (fst e') /\ map_method_ref_obj R I (snd e) = Ok (snd e')) b2s P ->
  NoDup (map fst P) ->
  Forall2 (fun e e' => map_method_ref_obj R I (fst e) = Ok (fst e') /\ map_method_ref_obj R I (snd e) = Ok (snd e')) s2b Q ->
  NoDup (map fst Q) ->
  remap_both R I (b2s, s2b) = Ok (P, Q).
Proof. exact remap_both_exact. Qed.
Print Assumptions C15_remap_preserves_both.

(* no hypothesis on the remapper: no bridge and no delegate loses its entry *)
Theorem C15_remap_keeps_keys : forall R I b2s s2b P Q,
  remap_both R I (b2s, s2b) = Ok (P, Q) ->
  (forall b s, In (b, s) b2s -> exists b' x, map_method_ref_obj R I b = Ok b' /\ In (b', x) P) /\
  (forall s b, In (s, b) s2b -> exists s' x, map_method_ref_obj R I s = Ok s' /\ In (s', x) Q).
Proof. exact remap_both_keeps_keys. Qed.
Print Assumptions C15_remap_keeps_keys.

(* the relation between the two tables (C15_s2b_spec) survives a remap that merges no two bridges of the jar *)
Theorem C15_remap_keeps_inverse : forall J R I b2s s2b P Q,
  get_specialized J = Ok (b2s, s2b) ->
  remap_both R I (b2s, s2b) = Ok (P, Q) ->
  (forall b1 s1 b2 s2 x, In (b1, s1) b2s -> In (b2, s2) b2s ->
     map_method_ref_obj R I b1 = Ok x -> map_method_ref_obj R I b2 = Ok x -> b1 = b2) ->
  (forall s' b', In (s', b') Q -> In (b', s') P) /\
  (forall b' s', In (b', s') P -> exists b'', In (s', b'') Q) /\
  NoDup (map fst P) /\ NoDup (map fst Q).
Proof. exact remap_keeps_inverse. Qed.
Print Assumptions C15_remap_keeps_inverse.

(* remap_sm = `main_jar.get_specialized_methods()?.remap(&remapper_calamus)?`; what reaches the insertion loop of
   add_specialized_methods_to_mappings is its first component, and its error is the function's error *)
Theorem C15_add_uses_remap_sm : forall J cal libs M M',
  add_specialized J cal libs M = Ok M' ->
  exists P Q, remap_sm J cal libs = Ok (P, Q) /\ add_pairs (named_ref J cal libs M) P M = Ok M'.
Proof. exact add_uses_remap_sm. Qed.
Print Assumptions C15_add_uses_remap_sm.

Theorem C15_remap_sm_err_add_err : forall J cal libs M, remap_sm J cal libs = Err -> add_specialized J cal libs M = Err.
Proof. exact remap_sm_err_add_err. Qed.
Print Assumptions C15_remap_sm_err_add_err.

Theorem C15_remap_sm_spec : forall J cal libs P Q,
  remap_sm J cal libs = Ok (P, Q) ->
  exists b2s s2b, get_specialized J = Ok (b2s, s2b) /\
    NoDup (map fst P) /\ NoDup (map fst Q) /\
    (forall k, map_get mref_eqb k P = last_remap (cal_ref J cal libs) b2s k) /\
    (forall k, map_get mref_eqb k Q = last_remap (cal_ref J cal libs) s2b k) /\
    (forall b s, In (b, s) b2s -> exists b' x, cal_ref J cal libs b = Ok b' /\ In (b', x) P) /\
    (forall s b, In (s, b) s2b -> exists s' x, cal_ref J cal libs s = Ok s' /\ In (s', x) Q).
Proof. exact remap_sm_spec. Qed.
Print Assumptions C15_remap_sm_spec.

(* non-vacuity: class A and its subclass B each carry a bridge for A.m(LI;)V; calamus renames both classes and has a
   NAME-LESS entry for the bridge in B's row (its intermediary name comes from A's row through inheritance); the
   first table keeps its two entries, the second its one; an empty calamus set returns the tables themselves *)
Theorem C15_remap_example : remap_example.
Proof. exact remap_example_holds. Qed.
Print Assumptions C15_remap_example.

(* 8. entries without a name (round 5).  Mappings::remapper_b registers a member only when it has a name in BOTH
   namespaces of the remapper and a class row only when the class has: a name-less entry leaves the remapper's tables
   as they are, and a row that does not hold the key sends the lookup on to the super types, in parent-list order *)
Theorem C15_nameless_method_ignored : forall Tf Tt from to t m,
  nth_name (m_names m) from = None \/ nth_name (m_names m) to = None ->
  add_method_row Tf Tt from to (Ok t) m = Ok t.
Proof. exact nameless_method_ignored. Qed.
Print Assumptions C15_nameless_method_ignored.

Theorem C15_nameless_class_ignored : forall Tf Tt from to R c,
  nth_name (c_names c) from = None \/ nth_name (c_names c) to = None ->
  add_class_row Tf Tt from to (Ok R) c = Ok R.
Proof. exact nameless_class_ignored. Qed.
Print Assumptions C15_nameless_class_ignored.

Theorem C15_lookup_goes_on : forall R I owner k f,
  (forall cl, map_get str_eqb owner R = Some cl -> map_get key_eqb k (snd cl) = None) ->
  map_method_fail (S f) R I owner k
  = match supers I owner with
    | Some ss => first_some (fun s => map_method_fail f R I s k) ss
    | None => Ok None
    end.
Proof. exact lookup_goes_on. Qed.
Print Assumptions C15_lookup_goes_on.

(* pinned, end to end: Sub extends Mid extends Base, bridge Sub.m(Object)V -> Sub.m(Integer)V; the named mappings hold
   a name-less entry (one parameter name) for the bridge in Sub's own row and `setData` in Base's row: the delegate
   gets [m_2, setData], the name-less entry stays untouched *)
Theorem C15_nameless_example : nameless_example.
Proof. exact nameless_example_holds. Qed.
Print Assumptions C15_nameless_example.

(* 9. bridge chains (round 5).  Every name is looked up in the GIVEN mappings (named_ref ... M with M the input, see
   C15_add_specialized_exact / C15_bridge_gets_name), never in what the loop has written so far.  Pinned: A = get()Object
   (nameA) -> B = get()Number (nameB) -> C = get()Integer in one class: B receives nameA, C receives nameB, in both
   class-file orders of A and B *)
Theorem C15_chain_example : chain_example.
Proof. exact chain_example_holds. Qed.
Print Assumptions C15_chain_example.
