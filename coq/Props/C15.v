(* C15 — property theorems only.  Each is closed by [exact <lemma>] and followed by
   Print Assumptions; the statements are pinned here so they cannot be quietly weakened.

   Vocabulary (coq/C15/Theory.v, Theory2.v):
     access_of J b      the access flags the jar gives the method reference b
     invoked J b r      the body of b invokes the object-class method r
     parent / ancestor  super class other than java/lang/Object or interface; transitive closure
     compatP J tb ts    bridge-compatible types: equal, or both object types and the bridge's is
                        java/lang/Object, or not a class of the jar, or some ancestor of the
                        delegate's type is the bridge's type or not a class of the jar
     potentialP         not private/final/static, both descriptors parse, same arity,
                        position-wise compatible parameters, compatible return (void with void)
     is_bridge_pair     synthetic /\ calls = {s} /\ (bridge flag \/ potentialP)
     class_frame        a class of the result against the class it came from (see below)
   Hypothesis `get_specialized J = Ok _`: the hierarchy work-lists did not exhaust their fuel
   (the Rust loops have no visited set and do not terminate on a cyclic hierarchy). *)
From FB Require Import C15.Model C15.Theory C15.Theory2.

(* 1. bridge_iff: the pairs collected by Jar::get_specialized_methods are exactly the bridge pairs *)
Theorem C15_bridge_iff : forall J b2s s2b,
  get_specialized J = Ok (b2s, s2b) ->
  forall b s, In (b, s) b2s <->
    exists a, access_of J b = Some a /\
              a_synthetic a = true /\
              (forall r, invoked J b r <-> r = s) /\
              (a_bridge a = true \/ potentialP J b a s).
Proof. exact bridge_iff. Qed.
Print Assumptions C15_bridge_iff.

(* the declarative predicates are what the code computes: the work-list yields the transitive
   closure of the parent relation, and the type test is compatP *)
Theorem C15_ancestors_closure : forall J fuel s l,
  walk fuel (ix_parents J) [s] [] = Ok l -> forall a, In a l <-> ancestor J s a.
Proof. exact ancestors_spec. Qed.
Print Assumptions C15_ancestors_closure.

Theorem C15_compat_spec : forall J fuel tb ts v,
  compat fuel (ix_classes J) (ix_parents J) tb ts = Ok v -> (v = true <-> compatP J tb ts).
Proof. exact compat_spec. Qed.
Print Assumptions C15_compat_spec.

Theorem C15_potential_spec : forall J fuel b a s v,
  is_potential_bridge fuel (ix_classes J) (ix_parents J) b a s = Ok v -> (v = true <-> potentialP J b a s).
Proof. exact potential_spec. Qed.
Print Assumptions C15_potential_spec.

(* 2. mappings_frame: for every lookup function `named`, every pair list P and every mapping set
   with distinct class keys, the result keeps namespaces, javadoc, class rows and fields; per
   class (key cname) and method key k: when no pair of P has its bridge in cname and delegate key
   k the lookup of k is unchanged; otherwise, for the last such bridge b, the entry is exactly
   {desc := snd k; names := [fst k; named b]; javadoc and parameters of the old entry, if any}.
   Method keys stay distinct, classes without a key are untouched. *)
Theorem C15_mappings_frame : forall named P M M',
  NoDup (map class_key (ms_classes M)) ->
  add_pairs named P M = Ok M' ->
  ms_ns M' = ms_ns M /\ ms_doc M' = ms_doc M /\
  Forall2 (fun c c' =>
    c_names c' = c_names c /\ c_doc c' = c_doc c /\ c_fields c' = c_fields c /\
    (NoDup (map meth_key (c_methods c)) -> NoDup (map meth_key (c_methods c'))) /\
    (class_key c = None -> c' = c) /\
    forall cname, class_key c = Some cname ->
      forall k, match lastp P cname k with
                | None => find_meth k (c_methods c') = find_meth k (c_methods c)
                | Some b => exists nm, named b = Ok nm /\
                    find_meth k (c_methods c')
                    = Some (mkMeth (snd k) (names2 (fst k) nm)
                              (doc_of (find_meth k (c_methods c))) (params_of (find_meth k (c_methods c))))
                end) (ms_classes M) (ms_classes M').
Proof. exact mappings_frame. Qed.
Print Assumptions C15_mappings_frame.

Theorem C15_lastp_none : forall P c k,
  lastp P c k = None <-> forall b s, In (b, s) P -> ~ (mr_class b = c /\ snd s = k).
Proof. exact lastp_None. Qed.
Print Assumptions C15_lastp_none.

Theorem C15_lastp_one_bridge : forall P b s,
  one_bridge_per_delegate P -> In (b, s) P -> lastp P (mr_class b) (snd s) = Some b.
Proof. exact lastp_unique. Qed.
Print Assumptions C15_lastp_one_bridge.

(* entries not keyed by a delegate are returned unchanged and nothing else appears *)
Theorem C15_frame_unchanged : forall named P c c' cname m (k : key),
  class_frame named P c c' -> class_key c = Some cname -> NoDup (map meth_key (c_methods c)) ->
  meth_key m = Some k -> (forall b s, In (b, s) P -> ~ (mr_class b = cname /\ snd s = k)) ->
  (In m (c_methods c') <-> In m (c_methods c)).
Proof. exact frame_unchanged. Qed.
Print Assumptions C15_frame_unchanged.

(* a delegate gets exactly the stated names, in the bridge's class *)
Theorem C15_frame_delegate : forall named P c c' b s,
  class_frame named P c c' -> class_key c = Some (mr_class b) ->
  one_bridge_per_delegate P -> In (b, s) P ->
  exists nm m', named b = Ok nm /\ In m' (c_methods c') /\
    m_desc m' = mr_desc s /\ m_names m' = names2 (mr_name s) nm /\
    m_doc m' = doc_of (find_meth (snd s) (c_methods c)) /\ m_params m' = params_of (find_meth (snd s) (c_methods c)).
Proof. exact frame_delegate. Qed.
Print Assumptions C15_frame_delegate.

(* the function the build calls: the pairs that reach the insertion are bridge pairs of the jar
   re-expressed in intermediary names, the lookup is the remapper's, the result is the frame *)
Theorem C15_add_specialized_spec : forall J cal libs M M',
  NoDup (map class_key (ms_classes M)) ->
  add_specialized J cal libs M = Ok M' ->
  exists P,
    (forall b' s', In (b', s') P ->
       exists b s, is_bridge_pair J b s /\ cal_ref J cal libs b = Ok b' /\ cal_ref J cal libs s = Ok s') /\
    ms_ns M' = ms_ns M /\ ms_doc M' = ms_doc M /\
    Forall2 (class_frame (named_ref J cal libs M) P) (ms_classes M) (ms_classes M').
Proof. exact add_specialized_spec. Qed.
Print Assumptions C15_add_specialized_spec.

(* no bridge pair of the jar lands on (class cname, key k) => that entry is returned unchanged:
   ordinary methods, synthetics calling zero or several methods, incompatible signatures cause
   no rename (combine with the C15_miss_* theorems) *)
Theorem C15_add_specialized_no_rename : forall J cal libs M M',
  NoDup (map class_key (ms_classes M)) ->
  add_specialized J cal libs M = Ok M' ->
  Forall2 (fun c c' => forall cname (k : key), class_key c = Some cname ->
      (forall b s b' s', is_bridge_pair J b s -> cal_ref J cal libs b = Ok b' -> cal_ref J cal libs s = Ok s' ->
                         ~ (mr_class b' = cname /\ snd s' = k)) ->
      find_meth k (c_methods c') = find_meth k (c_methods c)) (ms_classes M) (ms_classes M').
Proof. exact add_specialized_no_rename. Qed.
Print Assumptions C15_add_specialized_no_rename.

(* specialized_to_bridge: one entry per delegate, naming one of its bridges; the tie-break keeps the
   new bridge exactly when the other bridge's class is a (transitive) subtype of the new one's *)
Theorem C15_s2b_spec : forall J b2s s2b,
  get_specialized J = Ok (b2s, s2b) ->
  (forall s b, In (s, b) s2b -> In (b, s) b2s) /\
  (forall b s, In (b, s) b2s -> exists b', In (s, b') s2b) /\
  NoDup (map fst s2b).
Proof. exact s2b_spec. Qed.
Print Assumptions C15_s2b_spec.

Theorem C15_get_higher_spec : forall J fuel b1 b2 r,
  get_higher fuel (ix_children J) b1 b2 = Ok r ->
  (r = b1 /\ descendant J (mr_class b1) (mr_class b2)) \/
  (r = b2 /\ ~ descendant J (mr_class b1) (mr_class b2)).
Proof. exact get_higher_spec. Qed.
Print Assumptions C15_get_higher_spec.

(* the decidable well-formedness of mapping sets gives the distinct keys assumed above *)
Theorem C15_wf_class_keys : forall M, wf M = true -> NoDup (map class_key (ms_classes M)).
Proof. exact wf_class_keys. Qed.
Print Assumptions C15_wf_class_keys.

Theorem C15_wf_meth_keys : forall M c, wf M = true -> In c (ms_classes M) -> NoDup (map meth_key (c_methods c)).
Proof. exact wf_meth_keys. Qed.
Print Assumptions C15_wf_meth_keys.

(* 3. near misses: none of these methods is the bridge of any pair *)
Theorem C15_miss_not_a_method : forall J b2s s2b, get_specialized J = Ok (b2s, s2b) ->
  forall b s, access_of J b = None -> ~ In (b, s) b2s.
Proof. exact miss_not_a_method. Qed.
Print Assumptions C15_miss_not_a_method.

Theorem C15_miss_not_synthetic : forall J b2s s2b, get_specialized J = Ok (b2s, s2b) ->
  forall b a s, access_of J b = Some a -> a_synthetic a = false -> ~ In (b, s) b2s.
Proof. exact miss_not_synthetic. Qed.
Print Assumptions C15_miss_not_synthetic.

Theorem C15_miss_no_callee : forall J b2s s2b, get_specialized J = Ok (b2s, s2b) ->
  forall b s, (forall r, ~ invoked J b r) -> ~ In (b, s) b2s.
Proof. exact miss_no_callee. Qed.
Print Assumptions C15_miss_no_callee.

Theorem C15_miss_several_callees : forall J b2s s2b, get_specialized J = Ok (b2s, s2b) ->
  forall b s r1 r2, invoked J b r1 -> invoked J b r2 -> r1 <> r2 -> ~ In (b, s) b2s.
Proof. exact miss_several_callees. Qed.
Print Assumptions C15_miss_several_callees.

Theorem C15_miss_private_static_final : forall J b2s s2b, get_specialized J = Ok (b2s, s2b) ->
  forall b a s, access_of J b = Some a -> a_bridge a = false ->
  a_private a || a_static a || a_final a = true -> ~ In (b, s) b2s.
Proof. exact miss_private_static_final. Qed.
Print Assumptions C15_miss_private_static_final.

Theorem C15_miss_arity : forall J b2s s2b, get_specialized J = Ok (b2s, s2b) ->
  forall b a s pb rb ps rs, access_of J b = Some a -> a_bridge a = false ->
  parse_method (mr_desc b) = Ok (pb, rb) -> parse_method (mr_desc s) = Ok (ps, rs) ->
  length pb <> length ps -> ~ In (b, s) b2s.
Proof. exact miss_arity. Qed.
Print Assumptions C15_miss_arity.

Theorem C15_miss_incompatible : forall J b2s s2b, get_specialized J = Ok (b2s, s2b) ->
  forall b a s pb rb ps rs, access_of J b = Some a -> a_bridge a = false ->
  parse_method (mr_desc b) = Ok (pb, rb) -> parse_method (mr_desc s) = Ok (ps, rs) ->
  ~ (Forall2 (compatP J) pb ps /\ ret_compatP J rb rs) -> ~ In (b, s) b2s.
Proof. exact miss_incompatible. Qed.
Print Assumptions C15_miss_incompatible.

(* more fuel never changes an answer *)
Theorem C15_walk_fuel_mono : forall G f stack out r k,
  walk f G stack out = Ok r -> walk (f + k) G stack out = Ok r.
Proof. exact walk_mono. Qed.
Print Assumptions C15_walk_fuel_mono.

(* non-vacuity: /repo's fixture MyNode/Node (flagged and unflagged), a well-formed mapping set *)
Theorem C15_examples : nonvacuous.
Proof. exact nonvacuous_holds. Qed.
Print Assumptions C15_examples.
