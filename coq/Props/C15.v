(* C15 — property theorems only.  Each is closed by [exact <lemma>] and followed by
   Print Assumptions; the statements are pinned here so they cannot be quietly weakened. *)
From FB Require Import C15.Model C15.Theory.

(* The collecting loop of get_specialized_methods returns exactly the (method, callee) pairs that
   pass the filter chain, for every jar (first milestone: stated against the index tables). *)
Theorem C15_bridge_index : forall J b2s s2b,
  get_specialized J = Ok (b2s, s2b) ->
  forall b s, In (b, s) b2s <->
    exists a, map_get mref_eqb b (ix_methods J) = Some a /\
              decide (jar_fuel J) (ix_classes J) (ix_parents J) (ix_refs J) b a = Ok (Some s).
Proof. exact bridge_index. Qed.
Print Assumptions C15_bridge_index.
