(* C03 — property theorems only.  Each is closed by [exact <lemma>] and followed by
   Print Assumptions; the statements are pinned here so they cannot be quietly weakened.
   [write] / [read] are the model of quill::tiny_v2::{write_string, read} (C03/Model.v),
   [canon] sorts every level by the derived Ord of the info structs (Quill/Mappings.v),
   [wf] / [textual] are the decidable hypotheses (Quill/Mappings.v, C03/Model.v). *)
From FB Require Import C03.Model C03.ModelBytes C03.SrcGen C03.Theory1 C03.Theory2 C03.Theory3 C03.Theory5 C03.Theory6 C03.Theory7
  C03.Theory8 C03.Theory9 C03.Theory10 C03.Theory11 C03.Theory12 C03.Theory13 C03.Theory14 C03.Theory15.

(* Th 1 — round trip: a well-formed textual mapping set can be written, and reading the text
   back yields its canonical representative *)
Theorem C03_read_write : forall M, wf M = true -> textual M = true ->
  exists t, write M = Ok t /\ read (length (ms_ns M)) t = Ok (canon M).
Proof. exact read_write. Qed.
Print Assumptions C03_read_write.

(* ... which is the same content, in another insertion order at every level *)
Theorem C03_canon_same_content : forall M, mappings_equiv M (canon M).
Proof. exact canon_is_equiv. Qed.
Print Assumptions C03_canon_same_content.

(* Th 2 — the text depends on the content only: any insertion order at any level *)
Theorem C03_write_order_independent : forall M M', wf M = true -> mappings_equiv M M' -> write M = write M'.
Proof. exact write_order_independent. Qed.
Print Assumptions C03_write_order_independent.

Theorem C03_write_factors_through_canon : forall M M', canon M = canon M' -> write M = write M'.
Proof. exact write_equivb. Qed.
Print Assumptions C03_write_factors_through_canon.

(* Th 3 — fixed point: write(read(write M)) is write M *)
Theorem C03_write_read_write : forall M t, wf M = true -> textual M = true -> write M = Ok t ->
  exists M', read (length (ms_ns M)) t = Ok M' /\ write M' = Ok t.
Proof. exact write_read_write. Qed.
Print Assumptions C03_write_read_write.

Theorem C03_canon_idempotent : forall M, canon (canon M) = canon M.
Proof. exact canon_idem. Qed.
Print Assumptions C03_canon_idempotent.

(* Th 4 — exactness of the reader, for EVERY accepted text: the lines are grouped by indentation
   without loss or reordering (flatten gives them back, every node sits at its depth) and the
   result is the check-free structural decoding [skeleton] of that forest: one class per `c` line
   at depth 0, fields / methods / parameters / comments taken from the lines directly below their
   own parent line.  The reader's checks only decide between Ok and Err. *)
Theorem C03_read_exact : forall n t M, read n t = Ok M ->
  exists h hsub tops,
    map tiny_line (raw_lines t) = h :: flatten hsub ++ flatten tops
    /\ depth_ok 1 hsub /\ depth_ok 0 tops
    /\ M = skeleton h hsub tops.
Proof. exact read_exact. Qed.
Print Assumptions C03_read_exact.

(* whatever is read is well-formed: unique keys at every level, full rows, first names present *)
Theorem C03_read_ok_wf : forall n t M, read n t = Ok M -> wf M = true /\ length (ms_ns M) = n.
Proof. exact read_ok_wf. Qed.
Print Assumptions C03_read_ok_wf.

(* duplicate key (or missing first name, or short row) in the text => Err *)
Theorem C03_read_dup_key_err : forall n t h hsub tops,
  map tiny_line (raw_lines t) = h :: flatten hsub ++ flatten tops ->
  depth_ok 1 hsub -> depth_ok 0 tops ->
  wf (skeleton h hsub tops) = false ->
  read n t = Err.
Proof. exact read_dup_key_err. Qed.
Print Assumptions C03_read_dup_key_err.

Theorem C03_dup_examples : dup_examples.
Proof. exact dup_examples_hold. Qed.
Print Assumptions C03_dup_examples.

(* Th 5 — a names row with absent cells anywhere survives cells -> Names conversion *)
Theorem C03_names_row_roundtrip : forall n valid l,
  names_ok n l = true -> names_textual valid l = true -> into_names n valid (cells_of l) = Ok l.
Proof. exact into_names_cells_of. Qed.
Print Assumptions C03_names_row_roundtrip.

(* the layers of the round trip, each for all inputs *)
Theorem C03_unescape_escape : forall s, unescape (escape s) = s.
Proof. exact unescape_escape. Qed.
Print Assumptions C03_unescape_escape.

Theorem C03_parse_usize_dec : forall n, n < usize_max1 -> parse_usize (dec n) = Ok n.
Proof. exact parse_usize_dec. Qed.
Print Assumptions C03_parse_usize_dec.

Theorem C03_raw_lines_unlines : forall ls, forallb line_ok ls = true -> raw_lines (unlines ls) = ls.
Proof. exact raw_lines_unlines. Qed.
Print Assumptions C03_raw_lines_unlines.

(* the indentation-driven grouping is inverse to flattening, in both directions: it never
   drops, duplicates, reorders or re-parents a line *)
Theorem C03_build_flatten : forall fuel d f rest,
  depth_ok d f -> stops d rest -> (length (flatten f ++ rest) < fuel)%nat ->
  build fuel d (flatten f ++ rest) = Ok (f, rest).
Proof. exact build_flatten. Qed.
Print Assumptions C03_build_flatten.

Theorem C03_build_sound : forall fuel d ls f rest,
  build fuel d ls = Ok (f, rest) -> ls = flatten f ++ rest /\ depth_ok d f /\ stops d rest.
Proof. exact build_sound. Qed.
Print Assumptions C03_build_sound.

(* the fuel of the model is enough: more fuel never changes an answer *)
Theorem C03_build_fuel_irrelevant : forall fuel fuel' d ls,
  (length ls < fuel)%nat -> (length ls < fuel')%nat -> build fuel d ls = build fuel' d ls.
Proof. exact build_fuel_irrelevant. Qed.
Print Assumptions C03_build_fuel_irrelevant.

(* ------------------------------------------------------------------------------------------ *)
(* round 4 *)

(* Th 6 — the reader as an equation: on every text whose lines are a header followed by a
   well-indented forest, [read] is `if accepts then Ok skeleton else Err`, where [accepts]
   (C03/Theory8.v) is the conjunction of the per-line conditions, "at most one comment per
   node" and "no key twice below one parent"; every other text is rejected.  The accepted
   texts are characterised exactly. *)
Theorem C03_read_forest : forall n t h hsub tops,
  map tiny_line (raw_lines t) = h :: flatten hsub ++ flatten tops ->
  depth_ok 1 hsub -> depth_ok 0 tops ->
  read n t = if accepts n h hsub tops then Ok (skeleton h hsub tops) else Err.
Proof. exact read_forest. Qed.
Print Assumptions C03_read_forest.

Theorem C03_read_accepts_iff : forall n t M,
  read n t = Ok M <->
  exists h hsub tops,
    map tiny_line (raw_lines t) = h :: flatten hsub ++ flatten tops
    /\ depth_ok 1 hsub /\ depth_ok 0 tops
    /\ accepts n h hsub tops = true /\ M = skeleton h hsub tops.
Proof. exact read_accepts_iff. Qed.
Print Assumptions C03_read_accepts_iff.

Theorem C03_read_not_indented_err : forall n t,
  (forall h hsub tops, map tiny_line (raw_lines t) = h :: flatten hsub ++ flatten tops ->
     depth_ok 1 hsub -> depth_ok 0 tops -> False) ->
  read n t = Err.
Proof. exact read_not_indented_err. Qed.
Print Assumptions C03_read_not_indented_err.

Theorem C03_read_n_unique : forall n n' t M M', read n t = Ok M -> read n' t = Ok M' -> n = n' /\ M = M'.
Proof. exact read_n_unique. Qed.
Print Assumptions C03_read_n_unique.

(* the outermost handler for ANY set already read: Ok iff every class section passes and no
   class key occurs twice or is already there; then the classes are appended, nothing else *)
Theorem C03_interp_top_spec : forall n f M,
  interp_top n M f =
    if top_okb n f && fresh (okey_eqb str_eqb) (map class_key (ms_classes M)) (class_keys f)
    then Ok (mkMappings (ms_ns M) (ms_doc M) (ms_classes M ++ classes_of f)) else Err.
Proof. exact interp_top_spec. Qed.
Print Assumptions C03_interp_top_spec.

(* what [fresh] means *)
Theorem C03_fresh_iff : forall (old new : list (option str)),
  fresh (okey_eqb str_eqb) old new = true <-> NoDup new /\ (forall k, In k new -> ~ In k old).
Proof. exact fresh_class_keys_iff. Qed.
Print Assumptions C03_fresh_iff.

(* Th 7 — reading does not depend on the order of sibling sections.  [fperm]: the sibling lists
   of a forest permuted at any level (C03/Theory9.v); such forests have the same lines, each at
   its depth.  Two texts that differ that way are both rejected, or both read and the results
   are the same content, written as the same text: nothing is merged with, lost to or moved to
   a neighbouring section whatever the neighbours are. *)
Theorem C03_fperm_same_lines : forall f f', fperm f f' ->
  Permutation (flatten f) (flatten f') /\ (forall d, depth_ok d f -> depth_ok d f').
Proof. exact fperm_same_lines. Qed.
Print Assumptions C03_fperm_same_lines.

Theorem C03_read_sibling_order : forall n t t' h hsub hsub' tops tops',
  map tiny_line (raw_lines t) = h :: flatten hsub ++ flatten tops ->
  map tiny_line (raw_lines t') = h :: flatten hsub' ++ flatten tops' ->
  depth_ok 1 hsub -> depth_ok 0 tops ->
  fperm hsub hsub' -> fperm tops tops' ->
  match read n t, read n t' with
  | Ok M, Ok M' => mappings_equiv M M'
  | Err, Err => True
  | _, _ => False
  end.
Proof. exact read_sibling_order. Qed.
Print Assumptions C03_read_sibling_order.

Theorem C03_read_sibling_order_write : forall n t t' h hsub hsub' tops tops' M,
  map tiny_line (raw_lines t) = h :: flatten hsub ++ flatten tops ->
  map tiny_line (raw_lines t') = h :: flatten hsub' ++ flatten tops' ->
  depth_ok 1 hsub -> depth_ok 0 tops ->
  fperm hsub hsub' -> fperm tops tops' ->
  read n t = Ok M ->
  exists M', read n t' = Ok M' /\ mappings_equiv M M' /\ write M = write M'.
Proof. exact read_sibling_order_write. Qed.
Print Assumptions C03_read_sibling_order_write.

Theorem C03_sibling_example : sibling_example.
Proof. exact sibling_example_holds. Qed.
Print Assumptions C03_sibling_example.

(* Th 8 — the bytes of the file.  Strict UTF-8 decoding and encoding are inverse; the reader on
   bytes (BufRead::lines splits the bytes, every line is validated on its own) is Err on
   anything that is not UTF-8 and the code-point reader on the decoded text otherwise; the
   round trip holds on the bytes. *)
Theorem C03_utf8_decode_iff : forall bs s, utf8_decode bs = Some s <-> (scalar_only s = true /\ utf8 s = bs).
Proof. exact utf8_decode_iff. Qed.
Print Assumptions C03_utf8_decode_iff.

Theorem C03_read_bytes_spec : forall n bs,
  read_bytes n bs = match utf8_decode bs with Some t => read n t | None => Err end.
Proof. exact read_bytes_spec. Qed.
Print Assumptions C03_read_bytes_spec.

Theorem C03_read_bytes_ok : forall n bs M, read_bytes n bs = Ok M ->
  exists t, scalar_only t = true /\ bs = utf8 t /\ read n t = Ok M.
Proof. exact read_bytes_ok. Qed.
Print Assumptions C03_read_bytes_ok.

Theorem C03_write_scalar : forall M t, rust_strings M = true -> write M = Ok t -> scalar_only t = true.
Proof. exact write_scalar. Qed.
Print Assumptions C03_write_scalar.

Theorem C03_read_write_bytes : forall M,
  wf M = true -> textual M = true -> rust_strings M = true ->
  exists bs, write_bytes M = Ok bs /\ utf8_decode bs <> None
             /\ read_bytes (length (ms_ns M)) bs = Ok (canon M).
Proof. exact read_write_bytes. Qed.
Print Assumptions C03_read_write_bytes.

(* escape, unescape and TinyLine::new run on `str`; on the bytes they do the same thing (they
   only look at ASCII characters, so they never cut a multi-byte character) *)
Theorem C03_escape_utf8 : forall s, escape (utf8 s) = utf8 (escape s).
Proof. exact escape_utf8. Qed.
Print Assumptions C03_escape_utf8.

Theorem C03_unescape_utf8 : forall s, unescape (utf8 s) = utf8 (unescape s).
Proof. exact unescape_utf8. Qed.
Print Assumptions C03_unescape_utf8.

Theorem C03_unescape_escape_bytes : forall s, unescape (escape (utf8 s)) = utf8 s.
Proof. exact unescape_escape_bytes. Qed.
Print Assumptions C03_unescape_escape_bytes.

Theorem C03_tiny_line_utf8 : forall s, tiny_line (utf8 s) = tline_utf8 (tiny_line s).
Proof. exact tiny_line_utf8. Qed.
Print Assumptions C03_tiny_line_utf8.

(* Th 9 — line endings, with the exact side conditions *)
Theorem C03_read_crlf : forall n t, no_cr_lf t = true ->
  read n (crlf t) = read n t /\ read_bytes n (crlf t) = read_bytes n t.
Proof. exact read_crlf_both. Qed.
Print Assumptions C03_read_crlf.

Theorem C03_crlf_condition_needed : crlf_condition_needed.
Proof. exact crlf_condition_needed_holds. Qed.
Print Assumptions C03_crlf_condition_needed.

Theorem C03_read_final_lf : forall n t0 c, c <> cLF -> c <> cCR ->
  read n ((t0 ++ [c]) ++ [cLF]) = read n (t0 ++ [c]).
Proof. exact read_final_lf. Qed.
Print Assumptions C03_read_final_lf.

Theorem C03_final_cr_example : final_cr_example.
Proof. exact final_cr_example_holds. Qed.
Print Assumptions C03_final_cr_example.

Theorem C03_read_extra_lf : forall n t0,
  read n ((t0 ++ [cLF]) ++ [cLF]) = read n (t0 ++ [cLF])
  /\ read_bytes n ((t0 ++ [cLF]) ++ [cLF]) = read_bytes n (t0 ++ [cLF]).
Proof. exact read_extra_lf_both. Qed.
Print Assumptions C03_read_extra_lf.

Theorem C03_top_loop_consumes_all : forall fuel ls f rest, build fuel 0 ls = Ok (f, rest) -> rest = [].
Proof. exact top_loop_consumes_all. Qed.
Print Assumptions C03_top_loop_consumes_all.

Theorem C03_blank_middle_example : blank_middle_example.
Proof. exact blank_middle_example_holds. Qed.
Print Assumptions C03_blank_middle_example.

(* Th 10 — the model's tables are the source's: C03/SrcGen.v is regenerated from quill's sources
   on every run.  The writer's order is the derived lexicographic Ord of the info structs in
   their declared field order (descriptor before names, index before names), sorted by
   `&x.info` at all four levels; the escape tables are lookups in ESCAPES; the header literals. *)
Theorem C03_writer_order_from_source : writer_order_from_source.
Proof. exact writer_order_from_source_holds. Qed.
Print Assumptions C03_writer_order_from_source.

Theorem C03_escapes_from_source :
  (forall c, esc_char c = lookup_fst c escapes_src) /\ (forall e, unesc_char e = lookup_snd e escapes_src)
  /\ escapes_table_ok escapes_src = true.
Proof. exact escapes_from_source. Qed.
Print Assumptions C03_escapes_from_source.

(* the escaping scheme round-trips over ANY table that holds the backslash and no letter twice;
   the model's escape / unescape are that scheme over the table of the source *)
Theorem C03_escaping_scheme : escaping_scheme.
Proof. exact escaping_scheme_holds. Qed.
Print Assumptions C03_escaping_scheme.

Theorem C03_header_from_source : (s_tiny, [c_2], [c_0]) = (hdr_tag, hdr_major, hdr_minor).
Proof. exact header_from_source. Qed.
Print Assumptions C03_header_from_source.

(* non-vacuity *)
Theorem C03_example : nonvacuous.
Proof. exact nonvacuous_holds. Qed.
Print Assumptions C03_example.

Theorem C03_example_rust_strings : rust_strings ex_mappings = true.
Proof. exact ex_rust_strings. Qed.
Print Assumptions C03_example_rust_strings.

(* ------------------------------------------------------------------------------------------ *)
(* round 5 *)

(* Th 11 — the round trip without [textual].  [textual] is a condition on the strings (no TAB / LF / final
   CR in a namespace, name or descriptor; no unpaired surrogate in a name or descriptor) together with what
   the types of a quill tree guarantee anyway ([typed]: every name passed its check_valid, indices are
   usize).  The writer checks the strings itself (check_fields, repairs of round 5; for a surrogate in a
   name it is Display that fails), so the string part is exactly "the writer writes the set": *)
Theorem C03_textual_split : forall M, textual M = typed M && writable M.
Proof. exact textual_split. Qed.
Print Assumptions C03_textual_split.

Theorem C03_write_ok_iff : forall M t, write M = Ok t <-> writable M = true /\ t = unlines (write_lines M).
Proof. exact write_ok_iff. Qed.
Print Assumptions C03_write_ok_iff.

(* for EVERY well-formed set of the types: if it is written at all, the text reads back to its canonical
   representative and is a fixed point; otherwise it is refused — nothing is written that does not read back *)
Theorem C03_read_write_typed : forall M t,
  wf M = true -> typed M = true -> write M = Ok t -> read (length (ms_ns M)) t = Ok (canon M).
Proof. exact read_write_typed. Qed.
Print Assumptions C03_read_write_typed.

Theorem C03_refused_or_round_trip : forall M,
  wf M = true -> typed M = true ->
  (write M = Err /\ writable M = false)
  \/ (exists t, write M = Ok t /\ read (length (ms_ns M)) t = Ok (canon M)).
Proof. exact refused_or_round_trip. Qed.
Print Assumptions C03_refused_or_round_trip.

Theorem C03_write_read_write_typed : forall M t,
  wf M = true -> typed M = true -> write M = Ok t ->
  exists M', read (length (ms_ns M)) t = Ok M' /\ write M' = Ok t.
Proof. exact write_read_write_typed. Qed.
Print Assumptions C03_write_read_write_typed.

(* two sets are written as the same text only if they are the same content: no two names, descriptors or
   comments are ever collapsed (in particular not an unpaired surrogate with U+FFFD) *)
Theorem C03_write_injective : forall M M' t,
  wf M = true -> typed M = true -> wf M' = true -> typed M' = true ->
  write M = Ok t -> write M' = Ok t -> canon M = canon M'.
Proof. exact write_injective. Qed.
Print Assumptions C03_write_injective.

(* what is refused, exactly: [name_cells] / [desc_cells] are all names (every namespace column, every level)
   and all descriptors of the set *)
Theorem C03_writable_cells : forall M,
  writable M = forallb cell_ok (ms_ns M ++ name_cells M ++ desc_cells M)
               && forallb scalar_only (name_cells M ++ desc_cells M).
Proof. exact writable_cells. Qed.
Print Assumptions C03_writable_cells.

Theorem C03_write_refuses_separator : forall M s,
  In s (ms_ns M ++ name_cells M ++ desc_cells M) ->
  (In cTAB s \/ In cLF s \/ exists s', s = s' ++ [cCR]) -> write M = Err.
Proof. exact write_refuses_separator. Qed.
Print Assumptions C03_write_refuses_separator.

Theorem C03_write_refuses_surrogate : forall M s c,
  In s (name_cells M ++ desc_cells M) -> In c s -> is_scalar c = false -> write M = Err.
Proof. exact write_refuses_surrogate. Qed.
Print Assumptions C03_write_refuses_surrogate.

Theorem C03_write_refuses_only : forall M, write M = Err ->
  (exists s, In s (ms_ns M ++ name_cells M ++ desc_cells M) /\ (In cTAB s \/ In cLF s \/ exists s', s = s' ++ [cCR]))
  \/ (exists s c, In s (name_cells M ++ desc_cells M) /\ In c s /\ is_scalar c = false).
Proof. exact write_refuses_only. Qed.
Print Assumptions C03_write_refuses_only.

(* the characters check_field refuses, that check_desc needs a str and that write checks before it writes
   are read from the source on every run (C03/SrcGen.v) *)
Theorem C03_check_field_from_source :
  (forall s, cell_ok s = cell_ok_tbl check_field_contains check_field_ends_with s)
  /\ check_desc_needs_str = true /\ write_checks_first = true.
Proof. exact check_field_from_source. Qed.
Print Assumptions C03_check_field_from_source.

(* non-vacuity: well-formed typed sets outside [textual] (TAB in a class name, a whole injected line in a
   parameter name, CR at the end of a descriptor, a surrogate in a name and in a descriptor) are refused; a
   set with CR / NUL / NEL / backslash-n INSIDE a name is written and read back; the descriptors L<D800>; and
   L<FFFD>; that used to be written as the same text *)
Theorem C03_refusal_examples : refusal_examples.
Proof. exact refusal_examples_hold. Qed.
Print Assumptions C03_refusal_examples.

(* Th 12 — what the reader returns is a set of the types (every name passed its check_valid, every index is a
   usize), so Th 11 applies to every set that came from a file: it is refused or survives the round trip *)
Theorem C03_read_ok_typed : forall n t M, read n t = Ok M -> typed M = true.
Proof. exact read_ok_typed. Qed.
Print Assumptions C03_read_ok_typed.

Theorem C03_read_then_write : forall n t M, read n t = Ok M ->
  (write M = Err /\ writable M = false)
  \/ (exists t', write M = Ok t' /\ read n t' = Ok (canon M)).
Proof. exact read_then_write. Qed.
Print Assumptions C03_read_then_write.

Theorem C03_read_refused_example : read_refused_example.
Proof. exact read_refused_example_holds. Qed.
Print Assumptions C03_read_refused_example.
