(* C03 — property theorems only.  Each is closed by [exact <lemma>] and followed by
   Print Assumptions; the statements are pinned here so they cannot be quietly weakened.
   [write] / [read] are the model of quill::tiny_v2::{write_string, read} (C03/Model.v),
   [canon] sorts every level by the derived Ord of the info structs (Quill/Mappings.v),
   [wf] / [textual] are the decidable hypotheses (Quill/Mappings.v, C03/Model.v). *)
From FB Require Import C03.Model C03.Theory1 C03.Theory2 C03.Theory3 C03.Theory5 C03.Theory6 C03.Theory7.

(* Th 1 — round trip: a well-formed textual mapping set can be written, and reading the text
   back yields its canonical representative *)
Theorem C03_read_write : forall M, wf M = true -> textual M = true ->
  exists t, write M = Ok t /\ read (length (ms_ns M)) t = Ok (canon M).
Proof. exact read_write. Qed.
Print Assumptions C03_read_write.

(* ... which is the same content, in another insertion order at every level *)
Theorem C03_canon_same_content : forall M, mappings_equiv M (canon M).
Proof. exact canon_is_equiv. Qed.
Print Assumptions C03_canon_same_content.

(* Th 2 — the text depends on the content only: any insertion order at any level *)
Theorem C03_write_order_independent : forall M M', wf M = true -> mappings_equiv M M' -> write M = write M'.
Proof. exact write_order_independent. Qed.
Print Assumptions C03_write_order_independent.

Theorem C03_write_factors_through_canon : forall M M', canon M = canon M' -> write M = write M'.
Proof. exact write_equivb. Qed.
Print Assumptions C03_write_factors_through_canon.

(* Th 3 — fixed point: write(read(write M)) is write M *)
Theorem C03_write_read_write : forall M t, wf M = true -> textual M = true -> write M = Ok t ->
  exists M', read (length (ms_ns M)) t = Ok M' /\ write M' = Ok t.
Proof. exact write_read_write. Qed.
Print Assumptions C03_write_read_write.

Theorem C03_canon_idempotent : forall M, canon (canon M) = canon M.
Proof. exact canon_idem. Qed.
Print Assumptions C03_canon_idempotent.

(* Th 4 — exactness of the reader, for EVERY accepted text: the lines are grouped by indentation
   without loss or reordering (flatten gives them back, every node sits at its depth) and the
   result is the check-free structural decoding [skeleton] of that forest: one class per `c` line
   at depth 0, fields / methods / parameters / comments taken from the lines directly below their
   own parent line.  The reader's checks only decide between Ok and Err. *)
Theorem C03_read_exact : forall n t M, read n t = Ok M ->
  exists h hsub tops,
    map tiny_line (raw_lines t) = h :: flatten hsub ++ flatten tops
    /\ depth_ok 1 hsub /\ depth_ok 0 tops
    /\ M = skeleton h hsub tops.
Proof. exact read_exact. Qed.
Print Assumptions C03_read_exact.

(* whatever is read is well-formed: unique keys at every level, full rows, first names present *)
Theorem C03_read_ok_wf : forall n t M, read n t = Ok M -> wf M = true /\ length (ms_ns M) = n.
Proof. exact read_ok_wf. Qed.
Print Assumptions C03_read_ok_wf.

(* duplicate key (or missing first name, or short row) in the text => Err *)
Theorem C03_read_dup_key_err : forall n t h hsub tops,
  map tiny_line (raw_lines t) = h :: flatten hsub ++ flatten tops ->
  depth_ok 1 hsub -> depth_ok 0 tops ->
  wf (skeleton h hsub tops) = false ->
  read n t = Err.
Proof. exact read_dup_key_err. Qed.
Print Assumptions C03_read_dup_key_err.

Theorem C03_dup_examples : dup_examples.
Proof. exact dup_examples_hold. Qed.
Print Assumptions C03_dup_examples.

(* Th 5 — a names row with absent cells anywhere survives cells -> Names conversion *)
Theorem C03_names_row_roundtrip : forall n valid l,
  names_ok n l = true -> names_textual valid l = true -> into_names n valid (cells_of l) = Ok l.
Proof. exact into_names_cells_of. Qed.
Print Assumptions C03_names_row_roundtrip.

(* the layers of the round trip, each for all inputs *)
Theorem C03_unescape_escape : forall s, unescape (escape s) = s.
Proof. exact unescape_escape. Qed.
Print Assumptions C03_unescape_escape.

Theorem C03_parse_usize_dec : forall n, n < usize_max1 -> parse_usize (dec n) = Ok n.
Proof. exact parse_usize_dec. Qed.
Print Assumptions C03_parse_usize_dec.

Theorem C03_raw_lines_unlines : forall ls, forallb line_ok ls = true -> raw_lines (unlines ls) = ls.
Proof. exact raw_lines_unlines. Qed.
Print Assumptions C03_raw_lines_unlines.

(* the indentation-driven grouping is inverse to flattening, in both directions: it never
   drops, duplicates, reorders or re-parents a line *)
Theorem C03_build_flatten : forall fuel d f rest,
  depth_ok d f -> stops d rest -> (length (flatten f ++ rest) < fuel)%nat ->
  build fuel d (flatten f ++ rest) = Ok (f, rest).
Proof. exact build_flatten. Qed.
Print Assumptions C03_build_flatten.

Theorem C03_build_sound : forall fuel d ls f rest,
  build fuel d ls = Ok (f, rest) -> ls = flatten f ++ rest /\ depth_ok d f /\ stops d rest.
Proof. exact build_sound. Qed.
Print Assumptions C03_build_sound.

(* the fuel of the model is enough: more fuel never changes an answer *)
Theorem C03_build_fuel_irrelevant : forall fuel fuel' d ls,
  (length ls < fuel)%nat -> (length ls < fuel')%nat -> build fuel d ls = build fuel' d ls.
Proof. exact build_fuel_irrelevant. Qed.
Print Assumptions C03_build_fuel_irrelevant.

(* non-vacuity *)
Theorem C03_example : nonvacuous.
Proof. exact nonvacuous_holds. Qed.
Print Assumptions C03_example.
