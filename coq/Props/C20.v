(* C20 — property theorems only (placeholder during bring-up; completed below) *)
From FB Require Import C20.Fmt C20.RawGen.

Theorem C20_generated_table_wf : denv_wf raw_env = true.
Proof. vm_compute. reflexivity. Qed.
Print Assumptions C20_generated_table_wf.
