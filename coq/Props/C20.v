(* C20 — property theorems only.  Each is closed by [exact <lemma>] and followed by
   Print Assumptions; the statements are pinned here so they cannot be quietly weakened.

   D ranges over ALL environments of declarations of the notation! language (Fmt.v); raw_env is
   the table GENERATED from raw_class_file/src/lib.rs at the start of every check (RawGen.v);
   jvms_env is the hand-written JVMS table (Jvms.v). *)
From FB Require Import C20.Fmt C20.FmtTheory C20.Sim C20.SimTheory C20.Exact C20.RawGen C20.Jvms C20.AttrResolve C20.JvmsRead.
Open Scope N_scope.

(* ---------- generic: the three interpreters, for every environment D ---------- *)

(* the announced length is the number of bytes written *)
Theorem C20_len_write : forall D fuel t v bs,
  write_sty D fuel t v = Ok bs -> len_sty D fuel t v = Ok (N.of_nat (length bs)).
Proof. exact len_write. Qed.
Print Assumptions C20_len_write.

(* ClassFile::length() == to_bytes().len() (files shorter than 2^32 bytes) *)
Theorem C20_class_length_exact : forall D v bs,
  class_write D v = Ok bs -> N.of_nat (length bs) < 4294967296 ->
  class_length D v = Ok (N.of_nat (length bs)).
Proof. exact class_length_exact. Qed.
Print Assumptions C20_class_length_exact.

(* write then read returns the value (whatever follows in the input is left untouched), for every
   value whose numbers/counts fit and whose tags/nowrite/length expressions resolve *)
Theorem C20_read_write : forall D, denv_wf D = true -> forall fuel p t v bs rest strict,
  write_sty D fuel t v = Ok bs -> resolves D fuel p t v = true ->
  read_sty D strict fuel p t (bs ++ rest) = Ok (v, rest).
Proof. exact read_write. Qed.
Print Assumptions C20_read_write.

(* byte-exactness: whatever the strict reader accepts (= the lax reader of the crate, plus: every
   computed count/length/tag item of the file holds the value the declarations compute), the
   writer reproduces byte for byte *)
Theorem C20_write_read : forall D fuel p t bs v rest, Forall (fun b => b < 256) bs ->
  read_sty D true fuel p t bs = Ok (v, rest) ->
  exists pre, bs = pre ++ rest /\ write_sty D fuel t v = Ok pre.
Proof. exact write_read. Qed.
Print Assumptions C20_write_read.

(* the strict reader only refuses more than the crate's reader *)
Theorem C20_strict_implies_lax : forall D f p t b r,
  read_sty D true f p t b = Ok r -> read_sty D false f p t b = Ok r.
Proof. exact strict_implies_lax. Qed.
Print Assumptions C20_strict_implies_lax.

(* fuel (nesting depth bound of the model) never changes a successful result *)
Theorem C20_len_fuel : forall D f f' t v n, (f <= f')%nat -> len_sty D f t v = Ok n -> len_sty D f' t v = Ok n.
Proof. exact len_mono. Qed.
Print Assumptions C20_len_fuel.
Theorem C20_write_fuel : forall D f f' t v b, (f <= f')%nat -> write_sty D f t v = Ok b -> write_sty D f' t v = Ok b.
Proof. exact write_mono. Qed.
Print Assumptions C20_write_fuel.
Theorem C20_read_fuel : forall D strict f f' p t b r, (f <= f')%nat ->
  read_sty D strict f p t b = Ok r -> read_sty D strict f' p t b = Ok r.
Proof. exact read_mono. Qed.
Print Assumptions C20_read_fuel.

(* soundness of the symbolic length check, for every environment: if every alternative of a union
   passes [attr_len_ok], then in every value written the four bytes after the tag hold the number
   of bytes that follow them *)
Theorem C20_attr_len_check_sound : forall D n tv tw vars ft,
  lookup D n = Some (DEnum tv tw vars ft) ->
  forallb (fun va => attr_len_ok tw (v_fields va)) vars = true ->
  forall fuel k vs bs, write_sty D fuel (Named n) (VV k vs) = Ok bs ->
  exists tg body, bs = enc tw tg ++ enc W32 (N.of_nat (length body)) ++ body.
Proof. exact attr_len_exact_gen. Qed.
Print Assumptions C20_attr_len_check_sound.

(* ---------- instances: the table generated from lib.rs (re-checked on every run) ---------- *)

Theorem C20_generated_table_wf : denv_wf raw_env = true.
Proof. exact raw_env_wf. Qed.
Print Assumptions C20_generated_table_wf.

(* every generated struct/union is laid out as the JVMS one (widths of all items and counts, tag
   values / attribute names of every alternative) *)
Theorem C20_layout_is_jvms : forall n d, In (n, d) raw_env ->
  exists j, lookup jvms_env n = Some j /\ layout_matches (layout d) (layout j) = true.
Proof. exact layout_is_jvms. Qed.
Print Assumptions C20_layout_is_jvms.

(* union dispatch is order-independent (disjoint tag ranges, distinct attribute names, catch-all
   last) and literal tags / attribute name indices are written as they are recognised *)
Theorem C20_dispatch_unambiguous : forall n d, In (n, d) raw_env ->
  decl_dispatch_ok d = true /\ decl_tags_coherent d = true.
Proof. exact dispatch_unambiguous. Qed.
Print Assumptions C20_dispatch_unambiguous.

Theorem C20_magic_is_cafebabe :
  match lookup raw_env "ClassFile"%string with
  | Some (DStruct (FConst _ W32 e :: _)) => lit_of e = Some 3405691582
  | _ => False
  end.
Proof. exact magic_is_cafebabe. Qed.
Print Assumptions C20_magic_is_cafebabe.

(* attribute_length, for EVERY attribute kind of the generated table and every value: the u32
   after the name index is the number of bytes that follow *)
Theorem C20_attr_len_symbolic : forall va, In va attr_variants -> attr_len_ok W16 (v_fields va) = true.
Proof. exact attr_len_symbolic. Qed.
Print Assumptions C20_attr_len_symbolic.

Theorem C20_attr_len_exact : forall fuel k vs bs,
  write_sty raw_env fuel (Named "AttributeInfo"%string) (VV k vs) = Ok bs ->
  exists tg body, bs = enc W16 tg ++ enc W32 (N.of_nat (length body)) ++ body.
Proof. exact attr_len_exact. Qed.
Print Assumptions C20_attr_len_exact.

(* the public functions over the generated table *)
Theorem C20_class_read_write : forall v bs fuel strict, class_write raw_env v = Ok bs ->
  resolves raw_env (S (depth v)) None class_ty v = true -> (S (depth v) <= fuel)%nat ->
  read_sty raw_env strict fuel None class_ty bs = Ok (v, []).
Proof. exact class_read_write. Qed.
Print Assumptions C20_class_read_write.

Theorem C20_class_write_read : forall fuel bs v, Forall (fun b => b < 256) bs ->
  read_sty raw_env true fuel None class_ty bs = Ok (v, []) -> write_sty raw_env fuel class_ty v = Ok bs.
Proof. exact class_write_read. Qed.
Print Assumptions C20_class_write_read.

(* ---------- constant pools with Long/Double entries (JVMS 4.4.5; former known finding F10) ---------- *)
(* slots() of the generated table is 2 exactly for the structures tagged CONSTANT_Long (5) and
   CONSTANT_Double (6) *)
Theorem C20_slots_is_jvms : forall v, is_wide raw_env "CpInfo"%string v = jvms_is_wide v.
Proof. exact slots_is_jvms. Qed.
Print Assumptions C20_slots_is_jvms.

(* for EVERY pool, long/double entries included, whose count fits the u2 item: the
   constant_pool_count written is the JVMS one (number of indices taken up, plus one) *)
Theorem C20_pool_count_is_jvms : forall pool, jvms_pool_count pool < 65536 ->
  written_pool_count pool = Ok (jvms_pool_count pool).
Proof. exact pool_count_is_jvms. Qed.
Print Assumptions C20_pool_count_is_jvms.

(* non-vacuity of the above on a pool with a Long, a Utf8 and a Double: three entries, count 6 *)
Theorem C20_pool_count_wide_example :
  has_wide wide_witness = true /\ length wide_witness = 3%nat /\ written_pool_count wide_witness = Ok 6.
Proof. exact pool_count_wide_example. Qed.
Print Assumptions C20_pool_count_wide_example.

(* a pool ENDING in a Long or Double: the entry takes the last two indices (count = indices in front + 3) *)
Theorem C20_pool_count_tail : forall pool e, jvms_is_wide e = true -> jvms_pool_count (pool ++ [e]) < 65536 ->
  written_pool_count (pool ++ [e]) = Ok (jvms_pool_count pool + 2) /\ jvms_pool_count (pool ++ [e]) = jvms_pool_slots pool + 3.
Proof. exact pool_count_tail. Qed.
Print Assumptions C20_pool_count_tail.

Theorem C20_pool_tail_examples :
  written_pool_count [VV 7 [VN 0; VN 1]] = Ok 3 /\
  written_pool_count [VV 8 [VN 1074003968; VN 0]] = Ok 3 /\
  written_pool_count [VV 10 [VL [VN 65]]; VV 7 [VN 0; VN 1]] = Ok 4 /\
  written_pool_count [VV 10 [VL [VN 65]]; VV 8 [VN 1074003968; VN 0]] = Ok 4 /\
  written_pool_count [VV 7 [VN 0; VN 1]; VV 8 [VN 1074003968; VN 0]] = Ok 5 /\
  jvms_is_wide (VV 7 [VN 0; VN 1]) = true /\ jvms_is_wide (VV 8 [VN 1074003968; VN 0]) = true /\ jvms_is_wide (VV 10 [VL [VN 65]]) = false.
Proof. exact pool_tail_examples. Qed.
Print Assumptions C20_pool_tail_examples.

(* class files whose pool holds 8-byte constants (a minimal one with one CONSTANT_Long, and javac's
   WideConst.class with two longs and a double in front of the attribute names): well-formed per an
   independent 4.4.5 walk, accepted by the strict reader to the last byte, inside the hypotheses of
   read_write, reproduced byte for byte, length() exact *)
Theorem C20_wide_examples : wide_examples.
Proof. exact wide_examples_hold. Qed.
Print Assumptions C20_wide_examples.

(* a pool whose entries do not take up exactly constant_pool_count - 1 indices (a Long with one index
   left) is refused by the reader, as by the independent walk *)
Theorem C20_pool_overshoot_refused :
  class_read raw_env overshoot_class_bytes = Err /\ jvms_pool_of_class overshoot_class_bytes = None.
Proof. exact pool_overshoot_refused. Qed.
Print Assumptions C20_pool_overshoot_refused.

(* ---------- non-vacuity: the crate's own fixture and a javac class satisfy every hypothesis ---------- *)
Theorem C20_examples : nonvacuous.
Proof. exact nonvacuous_holds. Qed.
Print Assumptions C20_examples.

(* what the hypothesis [resolves] of C20_read_write amounts to for stack map frames (sweeps of the
   whole u8 domain on the generated table): same_frame / same_locals_1_stack_item need
   offset_delta <= 63, chop_frame 1 <= k <= 3, append_frame 1..3 locals *)
Theorem C20_frames_closed_form : frames_closed_form.
Proof. exact frames_closed_form_holds. Qed.
Print Assumptions C20_frames_closed_form.

(* what the hypothesis [resolves] amounts to for attributes, over the generated table: the alternative
   [k] is selected for the name index [i] iff [i] designates a Utf8 pool entry (one that STARTS at i:
   not index 0, not the second index of a long/double, not past the end) which holds
     - the alternative's own name, when it has one (the names of the table are pairwise different, so no
       earlier alternative claims it),
     - a name no alternative of the table has, when [k] is the catch-all `Other` *)
Theorem C20_attr_dispatch_closed_form : forall p i k,
  (exists va env, select raw_env p [(ani, VN i)] i attr_variants O = Ok (k, va, env)) <->
  (exists bytes va, pool_utf8 raw_env p i = Some bytes /\ nth_error attr_variants k = Some va /\
     match attr_name va with
     | Some s => bytes = map VN s
     | None => forall va' s, In va' attr_variants -> attr_name va' = Some s -> bytes <> map VN s
     end).
Proof. exact attr_dispatch_closed_form. Qed.
Print Assumptions C20_attr_dispatch_closed_form.

(* [resolves] of an attribute value = its name index fits u2 and dispatches to the value's own
   alternative, and the items resolve *)
Theorem C20_attr_resolves_closed_form : forall f p k vs,
  resolves raw_env (S f) p attr_ty (VV k vs) = true <->
  exists va i rest, nth_error attr_variants k = Some va /\ vs = VN i :: rest /\ i < 65536 /\
    attr_dispatch p i = Some k /\
    res_fields raw_env (resolves raw_env f)
      (ceval raw_env (bind_fields (v_fields va) vs) (len_sty raw_env (S f) attr_ty (VV k vs)))
      p [(ani, VN i); (ani, VN i)] (v_fields va) vs = true.
Proof. exact attr_resolves_closed_form. Qed.
Print Assumptions C20_attr_resolves_closed_form.

(* ---------- names ---------- *)
(* every generated structure lists the JVMS items under the JVMS names in the JVMS order, every generated
   alternative is the JVMS structure of that name (same tag / attribute name, same items): exchanging two
   items of equal width, or the tags of two alternatives of equal shape, is noticed *)
Theorem C20_names_are_jvms : forall n d, In (n, d) raw_env ->
  exists j, lookup jvms_env n = Some j /\ names_match n d j = true.
Proof. exact names_are_jvms. Qed.
Print Assumptions C20_names_are_jvms.

(* ---------- every well-formed class file is read (and reproduced); only well-formed ones are written ---------- *)
(* inputs: bytes, fewer than 2^32 of them ([okb]; `_len()` is u32 arithmetic) *)
(* generic, for ALL pairs of tables: when the decidable comparison [env_compat S D] succeeds, whatever the
   strict reader generated from S accepts, the strict reader generated from D accepts, with the same
   bytes left over (pools: any two the readers cannot tell apart) *)
Theorem C20_compat_tables_read_alike : forall S D, env_compat S D = true ->
  forall fuel pS pD t bs vS rest, Forall (fun b => b < 256) bs /\ N.of_nat (length bs) < 4294967296 -> pool_rel S D pS pD ->
  read_sty S true fuel pS t bs = Ok (vS, rest) ->
  exists vD, read_sty D true fuel pD t bs = Ok (vD, rest) /\ vrel S D t vS vD.
Proof. exact sim_read. Qed.
Print Assumptions C20_compat_tables_read_alike.

(* the reader never consumes more or less than the announced length of what it returns *)
Theorem C20_read_len : forall D strict fuel p t bs v rest, Forall (fun b => b < 256) bs ->
  read_sty D strict fuel p t bs = Ok (v, rest) ->
  exists pre, bs = pre ++ rest /\ len_sty D fuel t v = Ok (N.of_nat (length pre)).
Proof. exact read_len. Qed.
Print Assumptions C20_read_len.

(* whatever a writer emits are bytes *)
Theorem C20_write_bytes_ok : forall D fuel t v b, write_sty D fuel t v = Ok b -> Forall (fun x => x < 256) b.
Proof. exact write_bytes_ok. Qed.
Print Assumptions C20_write_bytes_ok.

(* instance: the hand-written JVMS table against the table generated from lib.rs, in both directions
   (re-evaluated on every run) *)
Theorem C20_tables_compat : env_compat jvms_env raw_env = true /\ env_compat raw_env jvms_env = true.
Proof. exact (conj tables_compat tables_compat_rev). Qed.
Print Assumptions C20_tables_compat.

(* a class file accepted by the strict reader generated from the JVMS table (= laid out as JVMS 4.1-4.7
   says, pool counted in indices with 8-byte constants taking two, every attribute_length exact) is
   accepted by the strict reader of the generated table AND by the crate's own (lax) reader, with the
   same bytes left over; the value read is written back as exactly the bytes consumed, which are also
   the bytes the JVMS value denotes *)
Theorem C20_reads_every_wellformed_class : forall fuel bs v rest,
  Forall (fun b => b < 256) bs /\ N.of_nat (length bs) < 4294967296 ->
  read_sty jvms_env true fuel None class_ty bs = Ok (v, rest) ->
  exists v' pre, read_sty raw_env true fuel None class_ty bs = Ok (v', rest) /\
    read_sty raw_env false fuel None class_ty bs = Ok (v', rest) /\
    bs = pre ++ rest /\ write_sty raw_env fuel class_ty v' = Ok pre /\ write_sty jvms_env fuel class_ty v = Ok pre.
Proof. exact reads_every_wellformed_class. Qed.
Print Assumptions C20_reads_every_wellformed_class.

(* the strict reader of the generated table accepts exactly the well-formed class files *)
Theorem C20_strict_accepts_iff : forall fuel bs rest,
  Forall (fun b => b < 256) bs /\ N.of_nat (length bs) < 4294967296 ->
  (exists v, read_sty jvms_env true fuel None class_ty bs = Ok (v, rest)) <->
  (exists v', read_sty raw_env true fuel None class_ty bs = Ok (v', rest)).
Proof. exact strict_accepts_iff. Qed.
Print Assumptions C20_strict_accepts_iff.

(* generic, for ALL tables: among the inputs the lax reader (the crate's own: computed items are bound and
   never looked at) accepts, the ones `read` then `write` reproduces byte for byte are exactly the ones the
   strict reader accepts *)
Theorem C20_exact_iff_strict : forall D fuel p t bs v rest, Forall (fun b => b < 256) bs ->
  read_sty D false fuel p t bs = Ok (v, rest) ->
  (exists pre, bs = pre ++ rest /\ write_sty D fuel t v = Ok pre) <-> read_sty D true fuel p t bs = Ok (v, rest).
Proof. exact exact_iff_strict. Qed.
Print Assumptions C20_exact_iff_strict.

(* instance: among the class files ClassFile::read accepts to their last byte, to_bytes reproduces exactly
   the well-formed ones *)
Theorem C20_rewrite_exact_iff_wellformed : forall fuel bs v,
  Forall (fun b => b < 256) bs /\ N.of_nat (length bs) < 4294967296 ->
  read_sty raw_env false fuel None class_ty bs = Ok (v, []) ->
  (write_sty raw_env fuel class_ty v = Ok bs <-> exists j, read_sty jvms_env true fuel None class_ty bs = Ok (j, [])).
Proof. exact rewrite_exact_iff_wellformed. Qed.
Print Assumptions C20_rewrite_exact_iff_wellformed.

(* ClassFile::read / to_bytes on a well-formed class file *)
Theorem C20_class_read_wellformed : forall bs v,
  Forall (fun b => b < 256) bs /\ N.of_nat (length bs) < 4294967296 ->
  class_read_strict jvms_env bs = Ok (v, []) ->
  exists v', class_read raw_env bs = Ok (v', []) /\ class_read_strict raw_env bs = Ok (v', []) /\
    write_sty raw_env (S (S (length bs))) class_ty v' = Ok bs.
Proof. exact class_read_wellformed. Qed.
Print Assumptions C20_class_read_wellformed.

(* "so that other readers see the same structure": whatever ClassFile::to_bytes writes for a value inside
   the hypotheses of read_write is a well-formed class file — the JVMS reader accepts it to its last
   byte, and the JVMS value it reads denotes the same bytes *)
Theorem C20_writes_only_wellformed_classes : forall v bs fuel, class_write raw_env v = Ok bs ->
  resolves raw_env (S (depth v)) None class_ty v = true -> N.of_nat (length bs) < 4294967296 ->
  (S (depth v) <= fuel)%nat ->
  exists j, read_sty jvms_env true fuel None class_ty bs = Ok (j, []) /\ write_sty jvms_env fuel class_ty j = Ok bs.
Proof. exact writes_only_wellformed_classes. Qed.
Print Assumptions C20_writes_only_wellformed_classes.

(* non-vacuity: the crate's fixture, javac classes (stack map frames; long/double constants) are
   well-formed for the JVMS reader to their last byte; a pool overshooting its count is not *)
Theorem C20_jvms_examples : jvms_accepts ex_simple = true /\ jvms_accepts ex_flow = true /\ jvms_accepts ex_wide = true /\
  jvms_accepts wide_class_bytes = true /\ jvms_accepts overshoot_class_bytes = false.
Proof. exact jvms_examples. Qed.
Print Assumptions C20_jvms_examples.
