(* C20 — property theorems only.  Each is closed by [exact <lemma>] and followed by
   Print Assumptions; the statements are pinned here so they cannot be quietly weakened.

   D ranges over ALL environments of declarations of the notation! language (Fmt.v); raw_env is
   the table GENERATED from raw_class_file/src/lib.rs at the start of every check (RawGen.v);
   jvms_env is the hand-written JVMS table (Jvms.v). *)
From FB Require Import C20.Fmt C20.FmtTheory C20.RawGen C20.Jvms.
Open Scope N_scope.

(* ---------- generic: the three interpreters, for every environment D ---------- *)

(* the announced length is the number of bytes written *)
Theorem C20_len_write : forall D fuel t v bs,
  write_sty D fuel t v = Ok bs -> len_sty D fuel t v = Ok (N.of_nat (length bs)).
Proof. exact len_write. Qed.
Print Assumptions C20_len_write.

(* ClassFile::length() == to_bytes().len() (files shorter than 2^32 bytes) *)
Theorem C20_class_length_exact : forall D v bs,
  class_write D v = Ok bs -> N.of_nat (length bs) < 4294967296 ->
  class_length D v = Ok (N.of_nat (length bs)).
Proof. exact class_length_exact. Qed.
Print Assumptions C20_class_length_exact.

(* write then read returns the value (whatever follows in the input is left untouched), for every
   value whose numbers/counts fit and whose tags/nowrite/length expressions resolve *)
Theorem C20_read_write : forall D, denv_wf D = true -> forall fuel p t v bs rest strict,
  write_sty D fuel t v = Ok bs -> resolves D fuel p t v = true ->
  read_sty D strict fuel p t (bs ++ rest) = Ok (v, rest).
Proof. exact read_write. Qed.
Print Assumptions C20_read_write.

(* byte-exactness: whatever the strict reader accepts (= the lax reader of the crate, plus: every
   computed count/length/tag item of the file holds the value the declarations compute), the
   writer reproduces byte for byte *)
Theorem C20_write_read : forall D fuel p t bs v rest, Forall (fun b => b < 256) bs ->
  read_sty D true fuel p t bs = Ok (v, rest) ->
  exists pre, bs = pre ++ rest /\ write_sty D fuel t v = Ok pre.
Proof. exact write_read. Qed.
Print Assumptions C20_write_read.

(* the strict reader only refuses more than the crate's reader *)
Theorem C20_strict_implies_lax : forall D f p t b r,
  read_sty D true f p t b = Ok r -> read_sty D false f p t b = Ok r.
Proof. exact strict_implies_lax. Qed.
Print Assumptions C20_strict_implies_lax.

(* fuel (nesting depth bound of the model) never changes a successful result *)
Theorem C20_len_fuel : forall D f f' t v n, (f <= f')%nat -> len_sty D f t v = Ok n -> len_sty D f' t v = Ok n.
Proof. exact len_mono. Qed.
Print Assumptions C20_len_fuel.
Theorem C20_write_fuel : forall D f f' t v b, (f <= f')%nat -> write_sty D f t v = Ok b -> write_sty D f' t v = Ok b.
Proof. exact write_mono. Qed.
Print Assumptions C20_write_fuel.
Theorem C20_read_fuel : forall D strict f f' p t b r, (f <= f')%nat ->
  read_sty D strict f p t b = Ok r -> read_sty D strict f' p t b = Ok r.
Proof. exact read_mono. Qed.
Print Assumptions C20_read_fuel.

(* soundness of the symbolic length check, for every environment: if every alternative of a union
   passes [attr_len_ok], then in every value written the four bytes after the tag hold the number
   of bytes that follow them *)
Theorem C20_attr_len_check_sound : forall D n tv tw vars ft,
  lookup D n = Some (DEnum tv tw vars ft) ->
  forallb (fun va => attr_len_ok tw (v_fields va)) vars = true ->
  forall fuel k vs bs, write_sty D fuel (Named n) (VV k vs) = Ok bs ->
  exists tg body, bs = enc tw tg ++ enc W32 (N.of_nat (length body)) ++ body.
Proof. exact attr_len_exact_gen. Qed.
Print Assumptions C20_attr_len_check_sound.

(* ---------- instances: the table generated from lib.rs (re-checked on every run) ---------- *)

Theorem C20_generated_table_wf : denv_wf raw_env = true.
Proof. exact raw_env_wf. Qed.
Print Assumptions C20_generated_table_wf.

(* every generated struct/union is laid out as the JVMS one (widths of all items and counts, tag
   values / attribute names of every alternative) *)
Theorem C20_layout_is_jvms : forall n d, In (n, d) raw_env ->
  exists j, lookup jvms_env n = Some j /\ layout_matches (layout d) (layout j) = true.
Proof. exact layout_is_jvms. Qed.
Print Assumptions C20_layout_is_jvms.

(* union dispatch is order-independent (disjoint tag ranges, distinct attribute names, catch-all
   last) and literal tags / attribute name indices are written as they are recognised *)
Theorem C20_dispatch_unambiguous : forall n d, In (n, d) raw_env ->
  decl_dispatch_ok d = true /\ decl_tags_coherent d = true.
Proof. exact dispatch_unambiguous. Qed.
Print Assumptions C20_dispatch_unambiguous.

Theorem C20_magic_is_cafebabe :
  match lookup raw_env "ClassFile"%string with
  | Some (DStruct (FConst _ W32 e :: _)) => lit_of e = Some 3405691582
  | _ => False
  end.
Proof. exact magic_is_cafebabe. Qed.
Print Assumptions C20_magic_is_cafebabe.

(* attribute_length, for EVERY attribute kind of the generated table and every value: the u32
   after the name index is the number of bytes that follow *)
Theorem C20_attr_len_symbolic : forall va, In va attr_variants -> attr_len_ok W16 (v_fields va) = true.
Proof. exact attr_len_symbolic. Qed.
Print Assumptions C20_attr_len_symbolic.

Theorem C20_attr_len_exact : forall fuel k vs bs,
  write_sty raw_env fuel (Named "AttributeInfo"%string) (VV k vs) = Ok bs ->
  exists tg body, bs = enc W16 tg ++ enc W32 (N.of_nat (length body)) ++ body.
Proof. exact attr_len_exact. Qed.
Print Assumptions C20_attr_len_exact.

(* the public functions over the generated table *)
Theorem C20_class_read_write : forall v bs fuel strict, class_write raw_env v = Ok bs ->
  resolves raw_env (S (depth v)) None class_ty v = true -> (S (depth v) <= fuel)%nat ->
  read_sty raw_env strict fuel None class_ty bs = Ok (v, []).
Proof. exact class_read_write. Qed.
Print Assumptions C20_class_read_write.

Theorem C20_class_write_read : forall fuel bs v, Forall (fun b => b < 256) bs ->
  read_sty raw_env true fuel None class_ty bs = Ok (v, []) -> write_sty raw_env fuel class_ty v = Ok bs.
Proof. exact class_write_read. Qed.
Print Assumptions C20_class_write_read.

(* ---------- known finding F10: constant_pool_count with Long/Double entries ---------- *)
(* known class: the pool holds a Long or a Double ([has_wide]); outside it the count written is
   the JVMS one *)
Theorem C20_pool_count_is_jvms : forall pool, has_wide pool = false -> N.of_nat (length pool) < 65535 ->
  written_pool_count pool = Ok (jvms_pool_count pool).
Proof. exact pool_count_is_jvms. Qed.
Print Assumptions C20_pool_count_is_jvms.

Theorem C20_pool_count_refuted :
  exists pool, has_wide pool = true /\ written_pool_count pool <> Ok (jvms_pool_count pool).
Proof. exact pool_count_refuted. Qed.
Print Assumptions C20_pool_count_refuted.

(* the unrestricted statement — NOT proved (it is false today) *)
Definition C20_pool_count_full : Prop := pool_count_full.

(* reading side of F10: a class file whose pool is well-formed per JVMS 4.4.5 and holds a Long is
   rejected by the reader *)
Theorem C20_wide_class_refuted :
  (exists rest, jvms_pool_of_class wide_class_bytes = Some (true, rest) /\ length rest = 14%nat)
  /\ class_read raw_env wide_class_bytes = Err.
Proof. exact wide_class_refuted. Qed.
Print Assumptions C20_wide_class_refuted.

(* ---------- non-vacuity: the crate's own fixture and a javac class satisfy every hypothesis ---------- *)
Theorem C20_examples : nonvacuous.
Proof. exact nonvacuous_holds. Qed.
Print Assumptions C20_examples.

(* what the hypothesis [resolves] of C20_read_write amounts to for stack map frames (sweeps of the
   whole u8 domain on the generated table): same_frame / same_locals_1_stack_item need
   offset_delta <= 63, chop_frame 1 <= k <= 3, append_frame 1..3 locals *)
Theorem C20_frames_closed_form : frames_closed_form.
Proof. exact frames_closed_form_holds. Qed.
Print Assumptions C20_frames_closed_form.
