(* C14 — property theorems only.  Each is closed by [exact <lemma>] and followed by
   Print Assumptions; the statements are pinned here so they cannot be quietly weakened. *)
From FB Require Import C14.Model C14.Model2 C14.Theory C14.Theory2 C14.Theory3 C14.Theory4 C14.Theory5 C14.Theory6 C14.Theory7 C14.Theory8 C14.Theory9 C14.WithC07 C14.Model3 C14.Theory10.
From FB Require C07.Model C07.Schema C07.Tree C07.TreeTheory C07.RemapTable.
From Coq Require Import Permutation ZArith.


(* ---- 1. jar names = mapping names ---- *)

(* For a table whose entries all apply to the jar, the jar transformation and the mappings
   transformation give every class the same name, and that name is Enclosing$Inner computed
   transitively through the chain of nests. *)
Theorem C14_jar_mapping_agree : forall J T,
  NoDup (keys T) -> acyclic T -> all_apply J T ->
  forall c, exists r, jar_name J T c = Ok r /\ mapping_name T c = Ok r /\ trans T c r.
Proof. exact jar_mapping_agree. Qed.
Print Assumptions C14_jar_mapping_agree.

(* without any hypothesis on cycles: the two sides are the same function (both fail together) *)
Theorem C14_jar_mapping_agree_eq : forall J T,
  NoDup (keys T) -> all_apply J T -> forall c, jar_name J T c = mapping_name T c.
Proof. exact jar_mapping_agree_eq. Qed.
Print Assumptions C14_jar_mapping_agree_eq.

(* entries that do not apply: the jar side is the mappings construction over the filtered table *)
Theorem C14_jar_name_filtered : forall J T c,
  NoDup (keys (this_nests J T)) -> jar_name J T c = mapping_name (this_nests J T) c.
Proof. exact jar_name_is_mapping_name_of_filtered. Qed.
Print Assumptions C14_jar_name_filtered.

(* the mappings side names every class Enclosing$Inner transitively, and is total on acyclic tables *)
Theorem C14_mapping_name_trans : forall T c r, NoDup (keys T) -> mapping_name T c = Ok r -> trans T c r.
Proof. exact mapping_name_trans. Qed.
Print Assumptions C14_mapping_name_trans.

Theorem C14_mapping_name_total : forall T c, acyclic T -> exists r, mapping_name T c = Ok r.
Proof. exact mapping_name_total. Qed.
Print Assumptions C14_mapping_name_total.

(* acyclicity is decidable (the fuel of the model, table size + 1, is enough exactly on the acyclic tables) *)
Theorem C14_acyclic_decidable : forall T, acyclicb T = true <-> acyclic T.
Proof. exact acyclicb_spec. Qed.
Print Assumptions C14_acyclic_decidable.

(* ---- 1b. cyclic tables: an error, on both sides, exactly then (repaired code, fix c9cdfec) ---- *)

(* the translation (MyRemapper::new) fails exactly on the cyclic tables *)
Theorem C14_translation_err_iff : forall T, translation T = Err <-> ~ acyclic T.
Proof. exact translation_err_iff. Qed.
Print Assumptions C14_translation_err_iff.

Theorem C14_translation_ok_iff : forall T, (exists m, translation T = Ok m) <-> acyclic T.
Proof. exact translation_ok_iff. Qed.
Print Assumptions C14_translation_ok_iff.

Theorem C14_mapping_name_ok_iff : forall T c, (exists r, mapping_name T c = Ok r) <-> acyclic T.
Proof. exact mapping_name_ok_iff. Qed.
Print Assumptions C14_mapping_name_ok_iff.

(* Theorem 1 with the error case characterised instead of excluded *)
Theorem C14_jar_mapping_agree_or_cyclic : forall J T,
  NoDup (keys T) -> all_apply J T ->
  forall c,
    (acyclic T /\ exists r, jar_name J T c = Ok r /\ mapping_name T c = Ok r /\ trans T c r) \/
    (~ acyclic T /\ jar_name J T c = Err /\ mapping_name T c = Err).
Proof. exact jar_mapping_agree_or_cyclic. Qed.
Print Assumptions C14_jar_mapping_agree_or_cyclic.

Theorem C14_nest_jar_cyclic_err : forall rm J T, ~ acyclic (this_nests J T) -> nest_jar rm J T = Err.
Proof. exact nest_jar_cyclic_err. Qed.
Print Assumptions C14_nest_jar_cyclic_err.

Theorem C14_nest_jar_ok_acyclic : forall rm J T out, nest_jar rm J T = Ok out -> acyclic (this_nests J T).
Proof. exact nest_jar_ok_acyclic. Qed.
Print Assumptions C14_nest_jar_ok_acyclic.

Theorem C14_apply_cyclic_err : forall T M T',
  map_nests T M = Ok T' -> ~ acyclic T \/ ~ acyclic T' -> apply_nests M T = OErr.
Proof. exact apply_cyclic_err. Qed.
Print Assumptions C14_apply_cyclic_err.

Theorem C14_apply_ok_acyclic : forall T M M1,
  apply_nests M T = OOk M1 -> acyclic T /\ exists T', map_nests T M = Ok T' /\ acyclic T'.
Proof. exact apply_ok_acyclic. Qed.
Print Assumptions C14_apply_ok_acyclic.

Theorem C14_undo_cyclic_err : forall T M, ~ acyclic T -> undo_nests M T = OErr.
Proof. exact undo_cyclic_err. Qed.
Print Assumptions C14_undo_cyclic_err.

(* no input makes apply or undo panic (after fixes 486c230 and c9cdfec) *)
Theorem C14_apply_never_panics : forall M T, apply_nests M T <> OPanic.
Proof. exact apply_never_panics. Qed.
Print Assumptions C14_apply_never_panics.

Theorem C14_undo_never_panics : forall M T, undo_nests M T <> OPanic.
Proof. exact undo_never_panics. Qed.
Print Assumptions C14_undo_never_panics.

(* translating an ACYCLIC table through well-formed injective mappings can give a CYCLIC table:
   c1 in Outer, c2 in c1; c1 -> P__Q, c2 -> P  (pinned witness; apply answers with the error) *)
Theorem C14_map_nests_can_create_cycle :
  NoDup (keys cyT) /\ acyclic cyT /\ wf cyM = true /\
  NoDup (map snd (class_pairs (ms_classes cyM) 0 1)) /\
  map_nests cyT cyM = Ok cyT' /\ ~ acyclic cyT' /\
  apply_nests cyM cyT = OErr.
Proof. exact map_nests_can_create_cycle. Qed.
Print Assumptions C14_map_nests_can_create_cycle.

(* it cannot when no target name has the already nested form C__D and the class map is injective on
   the classes and enclosing classes of the table *)
Theorem C14_map_nests_acyclic : forall T M B T',
  mk_bremap M = Ok B ->
  NoDup (keys T) ->
  inj_on (b_map_class B) (keys T ++ map n_encl T) ->
  (forall n, In n T -> rsplit_uu (b_map_class B (n_class n)) = None) ->
  map_nests T M = Ok T' ->
  acyclic T -> acyclic T'.
Proof. exact map_nests_acyclic. Qed.
Print Assumptions C14_map_nests_acyclic.

Theorem C14_map_nests_acyclic_nonvacuous :
  exists B T', mk_bremap exM = Ok B /\ NoDup (keys exT) /\
    inj_on (b_map_class B) (keys exT ++ map n_encl exT) /\
    (forall n, In n exT -> rsplit_uu (b_map_class B (n_class n)) = None) /\
    map_nests exT exM = Ok T' /\ acyclic exT /\ acyclic T' /\ T' <> exT.
Proof. exact map_nests_acyclic_nonvacuous. Qed.
Print Assumptions C14_map_nests_acyclic_nonvacuous.

(* ---- 1c. the order of the table ---- *)

(* the mappings side does not depend on it *)
Theorem C14_mapping_name_perm : forall T T' c,
  NoDup (keys T) -> Permutation T T' -> mapping_name T c = mapping_name T' c.
Proof. exact mapping_name_perm. Qed.
Print Assumptions C14_mapping_name_perm.

(* order-independent premise: every listed class is in the jar and satisfies the rule of its kind *)
Theorem C14_all_in_jar_all_apply : forall J T,
  (forall n, In n T -> In (n_class n) (jar_classes J) /\ kind_rule J n = true) -> all_apply J T.
Proof. exact all_in_jar_all_apply. Qed.
Print Assumptions C14_all_in_jar_all_apply.

Theorem C14_jar_mapping_agree_any_order : forall J T T',
  NoDup (keys T) ->
  (forall n, In n T -> In (n_class n) (jar_classes J) /\ kind_rule J n = true) ->
  Permutation T T' ->
  forall c, jar_name J T' c = mapping_name T c.
Proof. exact jar_mapping_agree_any_order. Qed.
Print Assumptions C14_jar_mapping_agree_any_order.

(* the filter is order dependent for a listed class that is NOT in the jar but is created as a
   missing enclosing class (jar {Y}; X in Z, Y in X): pinned example, outside the premise above *)
Theorem C14_filter_order_dependent :
  Permutation [od_nX; od_nY] [od_nY; od_nX] /\
  ~ all_apply od_J [od_nX; od_nY] /\ all_apply od_J [od_nY; od_nX] /\
  ~ all_in_jar od_J [od_nY; od_nX] /\
  jar_name od_J [od_nX; od_nY] od_Y = Ok [88; 36; 89] /\
  jar_name od_J [od_nY; od_nX] od_Y = Ok [90; 36; 88; 36; 89] /\
  mapping_name [od_nX; od_nY] od_Y = Ok [90; 36; 88; 36; 89] /\
  mapping_name [od_nY; od_nX] od_Y = Ok [90; 36; 88; 36; 89] /\
  new_classes od_J [od_nX; od_nY] = [od_X] /\ new_classes od_J [od_nY; od_nX] = [od_X; od_Z].
Proof. exact filter_order_dependent. Qed.
Print Assumptions C14_filter_order_dependent.

(* ---- 2. which listed classes are nested ---- *)

Theorem C14_filter_spec : forall J T1 n T2,
  NoDup (keys (T1 ++ n :: T2)) ->
  (In n (this_nests J (T1 ++ n :: T2)) <->
   mem_str (n_class n) (present_after T1 (jar_classes J)) = true /\ kind_rule J n = true).
Proof. exact filter_spec. Qed.
Print Assumptions C14_filter_spec.

(* when no enclosing class has to be created before the entry: present = in the jar *)
Theorem C14_filter_spec_jar : forall J T1 n T2,
  NoDup (keys (T1 ++ n :: T2)) ->
  (forall m, In m T1 -> In (n_class m) (jar_classes J) -> In (n_encl m) (jar_classes J)) ->
  (In n (this_nests J (T1 ++ n :: T2)) <-> In (n_class n) (jar_classes J) /\ kind_rule J n = true).
Proof. exact filter_spec_jar. Qed.
Print Assumptions C14_filter_spec_jar.

Theorem C14_only_listed_classes : forall J T, incl (this_nests J T) T.
Proof. exact this_nests_incl. Qed.
Print Assumptions C14_only_listed_classes.

(* exactly: a class that is not listed, or whose entry the filter dropped, keeps its name; every
   other class is renamed to Enclosing$Inner through the kept entries *)
Theorem C14_jar_name_unchanged : forall J T c,
  NoDup (keys T) -> acyclic T -> ~ In c (keys (this_nests J T)) -> jar_name J T c = Ok c.
Proof. exact jar_name_unchanged. Qed.
Print Assumptions C14_jar_name_unchanged.

Theorem C14_jar_name_renamed : forall J T c,
  NoDup (keys T) -> acyclic T -> exists r, jar_name J T c = Ok r /\ trans (this_nests J T) c r.
Proof. exact jar_name_renamed. Qed.
Print Assumptions C14_jar_name_renamed.

Theorem C14_mapping_name_unlisted : forall T c, acyclic T -> ~ In c (keys T) -> mapping_name T c = Ok c.
Proof. exact mapping_name_unlisted. Qed.
Print Assumptions C14_mapping_name_unlisted.

(* missing enclosing classes are created *)
Theorem C14_enclosing_class_exists : forall J T n,
  In n (this_nests J T) -> In (n_encl n) (jar_classes J ++ new_classes J T).
Proof. exact enclosing_class_exists. Qed.
Print Assumptions C14_enclosing_class_exists.

(* InnerClasses entry for every nested class, EnclosingMethod for anonymous and local ones *)
Theorem C14_nest_jar_attributes : forall rm J T out,
  nest_jar rm J T = Ok out ->
  exists m, jar_map (this_nests J T) = Ok m /\
    Forall2 (class_out_ok rm (this_nests J T) (if rm then map_class m else fun c => c))
            (new_classes J T ++ map fst J) out.
Proof. exact nest_jar_spec. Qed.
Print Assumptions C14_nest_jar_attributes.

Theorem C14_strip_local_class_prefix : forall s,
  exists d r, s = d ++ r /\ forallb is_digit d = true /\
    match r with
    | c :: _ => is_digit c = false /\ strip_local_class_prefix s = r
    | [] => strip_local_class_prefix s = s
    end.
Proof. exact strip_local_class_prefix_spec. Qed.
Print Assumptions C14_strip_local_class_prefix.

(* ---- 4. apply and undo on mappings ---- *)

(* apply renames every class key by the translation and rewrites every descriptor by it *)
Theorem C14_apply_renames : forall T M M1 m,
  translation T = Ok m -> apply_nests M T = OOk M1 ->
  Forall2 (fun c c1 =>
      (exists src, class_key c = Some src /\ class_key c1 = Some (map_class m src)) /\
      Forall2 (fun f f1 => map_desc (map_class m) (f_desc f) = Ok (f_desc f1) /\ f_names f1 = f_names f /\ f_doc f1 = f_doc f)
              (c_fields c) (c_fields c1) /\
      Forall2 (fun f f1 => map_desc (map_class m) (m_desc f) = Ok (m_desc f1) /\ m_names f1 = m_names f /\ m_doc f1 = m_doc f /\ m_params f1 = m_params f)
              (c_methods c) (c_methods c1) /\
      c_doc c1 = c_doc c)
    (ms_classes M) (ms_classes M1).
Proof. exact apply_renames. Qed.
Print Assumptions C14_apply_renames.

Theorem C14_map_desc_roundtrip : forall f g d r,
  map_desc f d = Ok r ->
  (forall n, In n (desc_names d) -> no_semi n -> n <> [] -> good f g n) ->
  map_desc g r = Ok d.
Proof. exact map_desc_roundtrip. Qed.
Print Assumptions C14_map_desc_roundtrip.

(* undo ∘ apply restores source names and descriptors (everything but the classes' target names) *)
Theorem C14_undo_apply : forall T M M1 m,
  table_ok T -> wf M = true ->
  translation T = Ok m ->
  inj_on (map_class m) (keys T ++ source_classes M) ->
  apply_nests M T = OOk M1 ->
  exists M2, undo_nests M1 T = OOk M2 /\ src_view M2 = src_view M.
Proof. exact undo_apply. Qed.
Print Assumptions C14_undo_apply.

(* the same without assuming that apply succeeds: on well-formed two-namespace mappings whose
   descriptors are well formed it does (given that the table could be translated) *)
Theorem C14_apply_then_undo : forall T M T' m m',
  table_ok T -> wf M = true -> length (ms_ns M) = 2%nat -> descs_ok M ->
  map_nests T M = Ok T' -> translation T = Ok m -> translation T' = Ok m' ->
  inj_on (map_class m) (keys T ++ source_classes M) ->
  exists M1 M2, apply_nests M T = OOk M1 /\ undo_nests M1 T = OOk M2 /\ src_view M2 = src_view M.
Proof. exact apply_then_undo. Qed.
Print Assumptions C14_apply_then_undo.

(* ---- 5. translating a table through mappings ---- *)

Theorem C14_map_nests_total : forall T M B T',
  mk_bremap M = Ok B ->
  NoDup (map (b_map_class B) (keys T)) ->
  map_nests T M = Ok T' ->
  Forall2 (image_ok B) T T'.
Proof. exact map_nests_total. Qed.
Print Assumptions C14_map_nests_total.

(* the class names of the images are the target names of the mapping set *)
Theorem C14_map_class_is_mapping : forall M B c,
  mk_bremap M = Ok B -> b_map_class B c = map_class (class_pairs (ms_classes M) 0 1) c.
Proof. exact b_map_class_is_mapping. Qed.
Print Assumptions C14_map_class_is_mapping.

Theorem C14_map_nests_succeeds : forall T M B,
  mk_bremap M = Ok B ->
  (forall n, In n T -> exists n', map_nest B n = Ok n') ->
  exists T', map_nests T M = Ok T'.
Proof. exact map_nests_succeeds. Qed.
Print Assumptions C14_map_nests_succeeds.

(* the three cases of inner_name *)
Theorem C14_inner_name_anonymous : forall cls num mapped,
  forallb is_digit num = true ->
  inner_name cls num mapped =
  match strip_C_ (get_simple_name mapped) with
  | Some x => if forallb is_digit x then Ok x else Err
  | None => Ok num
  end.
Proof. exact inner_name_anonymous. Qed.
Print Assumptions C14_inner_name_anonymous.

Theorem C14_inner_name_inner : forall cls c r mapped,
  is_digit c = false ->
  inner_name cls (c :: r) mapped = Ok (if ends_with cls (c :: r) then get_simple_name mapped else c :: r).
Proof. exact inner_name_inner. Qed.
Print Assumptions C14_inner_name_inner.

Theorem C14_inner_name_local : forall cls d c r mapped,
  d <> [] -> forallb is_digit d = true -> is_digit c = false ->
  inner_name cls (d ++ c :: r) mapped =
  Ok (if ends_with cls (c :: r) then d ++ get_simple_name mapped else d ++ c :: r).
Proof. exact inner_name_local. Qed.
Print Assumptions C14_inner_name_local.

(* already nested target names C__D: split at the last `__` *)
Theorem C14_rsplit_last_uu : forall s e i,
  rsplit_uu s = Some (e, i) -> s = e ++ uu ++ i /\ rsplit_uu (cUSCORE :: i) = None.
Proof. exact rsplit_uu_some. Qed.
Print Assumptions C14_rsplit_last_uu.

Theorem C14_rsplit_none : forall s, rsplit_uu s = None -> forall a b, s <> a ++ uu ++ b.
Proof. exact rsplit_uu_none. Qed.
Print Assumptions C14_rsplit_none.

(* ---- 6. round 4: the abstract forms of the model are the literal code (C14/Model2.v) ---- *)

(* 6a. the anonymous rule.  parse_i32 is core's <i32 as FromStr>::from_str transcribed byte by byte
   (checked_mul / checked_add / checked_sub); it accepts exactly: optional sign, one or more ASCII digits,
   value in [-2^31, 2^31-1] *)
Theorem C14_parse_i32_spec : forall s z,
  parse_i32 s = Some z <->
  exists sign ds v, s = sign ++ ds /\ dec_denotes ds v /\
    (((sign = [] \/ sign = [cPLUS]) /\ z = v) \/ (sign = [cMINUS] /\ z = (- v)%Z)) /\
    (i32_min <= z <= i32_max)%Z.
Proof. exact parse_i32_spec. Qed.
Print Assumptions C14_parse_i32_spec.

(* the rule the filter uses (Model.anon_index_ok) is `parse::<i32>().map_or(false, |x| x >= 1)` on EVERY string *)
Theorem C14_anon_rule_is_parse : forall s,
  anon_index_ok s = match parse_i32 s with Some x => Z.leb 1 x | None => false end.
Proof. exact anon_index_ok_is_parse. Qed.
Print Assumptions C14_anon_rule_is_parse.

(* declaratively: an optional `+`, then ASCII digits (leading zeros allowed) denoting 1 .. 2^31-1 *)
Theorem C14_anon_rule_spec : forall s,
  anon_index_ok s = true <->
  exists sign ds v, s = sign ++ ds /\ (sign = [] \/ sign = [cPLUS]) /\ dec_denotes ds v /\
    (1 <= v <= 2147483647)%Z.
Proof. exact anon_index_ok_spec. Qed.
Print Assumptions C14_anon_rule_spec.

Theorem C14_dec_denotes_iff : forall s v,
  dec_denotes s v <-> s <> [] /\ forallb is_digit s = true /\ v = zfold s 0%Z.
Proof. exact dec_denotes_iff. Qed.
Print Assumptions C14_dec_denotes_iff.

(* boundary strings: 0, 00, 01, +1, -1, -0, +, -, +0, ++1, +-1, 2^31-1, 2^31, 2^32-1, +2^31-1, 30 leading
   zeros before 2^31-1 and 2^31, empty, ` 1`, `1 `, 1_0, 1.0, 1e3, 0x1, Arabic-Indic, fullwidth, 1 + Arabic-Indic,
   superscript two, 1, 12 *)
Theorem C14_anon_rule_table :
  forallb (fun p => Bool.eqb (anon_index_ok (fst p)) (snd p) && Bool.eqb (anon_rule (fst p)) (snd p)) anon_table = true /\
  map snd anon_table =
  [false; false; true; true; false; false; false; false; false; false; false; true; false; false; true; true; false;
   false; false; false; false; false; false; false; false; false; false; false; true; true].
Proof. split; [exact anon_table_ok|reflexivity]. Qed.
Print Assumptions C14_anon_rule_table.

Theorem C14_filter_spec_anonymous : forall J T1 n T2,
  NoDup (keys (T1 ++ n :: T2)) -> n_kind n = KAnon ->
  (In n (this_nests J (T1 ++ n :: T2)) <->
   mem_str (n_class n) (present_after T1 (jar_classes J)) = true /\
   exists z, parse_i32 (n_inner n) = Some z /\ (1 <= z)%Z).
Proof. exact filter_spec_anonymous. Qed.
Print Assumptions C14_filter_spec_anonymous.

(* 6b. the depth counters of fix c9cdfec.  bt_depth / jr_depth carry the Rust code's `depth` and bail when
   `depth > len`; their fuel parameter only makes the recursion structural.  With any fuel above the table
   size they compute the functions of Model.v, so the only Err is the Rust code's own test, and by
   C14_translation_err_iff it fires exactly on the cyclic tables. *)
Theorem C14_build_translation_literal : forall f T c,
  (length T < f)%nat -> bt_depth f T c 1 = build_translation (table_fuel T) T c.
Proof. exact bt_depth_literal. Qed.
Print Assumptions C14_build_translation_literal.

Theorem C14_jar_remap_literal : forall f F n,
  find_nest F (n_class n) = Some n -> (length F < f)%nat ->
  jr_depth f F n 1 = jar_remap (table_fuel F) F n.
Proof. exact jr_depth_literal. Qed.
Print Assumptions C14_jar_remap_literal.

Theorem C14_jar_remap_literal_needs_entry :
  let F := [mkNest KInner lit_A lit_B None lit_A 0] in
  let n := mkNest KInner lit_X lit_A None lit_X 0 in
  find_nest F (n_class n) = None /\ jr_depth 5 F n 1 = Err /\ jar_remap (table_fuel F) F n = Ok [66; 36; 65; 36; 88].
Proof. exact jr_depth_literal_needs_entry. Qed.
Print Assumptions C14_jar_remap_literal_needs_entry.

Theorem C14_translation_literal : forall f T, (length T < f)%nat -> translation_lit f T = translation T.
Proof. exact translation_literal. Qed.
Print Assumptions C14_translation_literal.

Theorem C14_jar_map_literal : forall f F, NoDup (keys F) -> (length F < f)%nat -> jar_map_lit f F = jar_map F.
Proof. exact jar_map_literal. Qed.
Print Assumptions C14_jar_map_literal.

(* the depth test fires exactly on the cyclic tables, never on an acyclic one *)
Theorem C14_depth_bound_iff : forall f T, (length T < f)%nat ->
  (translation_lit f T = Err <-> ~ acyclic T) /\ ((exists m, translation_lit f T = Ok m) <-> acyclic T).
Proof. exact depth_bound_iff. Qed.
Print Assumptions C14_depth_bound_iff.

Theorem C14_jar_depth_bound_iff : forall f F, NoDup (keys F) -> (length F < f)%nat ->
  (jar_map_lit f F = Err <-> ~ acyclic F).
Proof. exact jar_depth_bound_iff. Qed.
Print Assumptions C14_jar_depth_bound_iff.

(* 6c. translating a table: the enclosing method.  Its DESCRIPTOR is always the source descriptor rewritten
   through the class map of the mapping set, whether or not the method itself is mapped (`<init>`, `<clinit>`,
   lambda bodies, methods of classes without member mappings); its NAME is the mapped one exactly when
   (owner, name, descriptor) has a mapping *)
Theorem C14_enclosing_method_image : forall M B owner m r,
  mk_bremap M = Ok B -> b_map_method B owner m = Ok r ->
  map_desc (b_map_class B) (snd m) = Ok (snd r) /\ fst r = method_target_name B owner m.
Proof. exact b_map_method_spec. Qed.
Print Assumptions C14_enclosing_method_image.

Theorem C14_enclosing_method_unmapped : forall B owner m,
  (forall b, b_find B owner = Some b -> m_find (b_meths b) m = None) ->
  b_map_method B owner m = match map_desc (b_map_class B) (snd m) with Ok d => Ok (fst m, d) | Err => Err end.
Proof. exact b_map_method_unmapped. Qed.
Print Assumptions C14_enclosing_method_unmapped.

Theorem C14_map_nests_method_desc : forall T M B T',
  mk_bremap M = Ok B ->
  NoDup (map (b_map_class B) (keys T)) ->
  map_nests T M = Ok T' ->
  Forall2 (fun n n' =>
    match n_meth n with
    | None => n_meth n' = None
    | Some m => exists m', n_meth n' = Some m' /\
                  map_desc (b_map_class B) (snd m) = Ok (snd m') /\
                  fst m' = method_target_name B (n_encl n) m
    end) T T'.
Proof. exact map_nests_method_desc. Qed.
Print Assumptions C14_map_nests_method_desc.

(* pinned: anonymous class c in o, enclosing method `<init>(Lp;I)V` (unmapped), p -> q/R: the image has
   `<init>(Lq/R;I)V` *)
Theorem C14_map_nests_unmapped_method_example :
  map_nests b3_T b3_M =
  Ok [ mkNest KAnon [67] [79] (Some (b3_init, [40; 76; 113; 47; 82; 59; 73; 41; 86])) [49] 0 ].
Proof. exact map_nests_unmapped_method_example. Qed.
Print Assumptions C14_map_nests_unmapped_method_example.

(* 6d. refs_rewritten is delegated to C07 (table of dukebox::remap) and to the harness oracle; what is
   handed over is pinned here: the remapper nest_jar gives to dukebox::remap::{remap_class,
   remap_jar_entry_name} answers jar_name on object class names, rewrites array class names through it,
   leaves primitive arrays and every class that is not an applicable entry alone, keeps member names and
   rewrites member descriptors through the same function *)
Theorem C14_jar_name_via_remapper : forall J T c,
  jar_name J T c = match jar_remapper J T with Ok r => Ok (r c) | Err => Err end.
Proof. exact jar_name_via_remapper. Qed.
Print Assumptions C14_jar_name_via_remapper.

Theorem C14_jar_remapper_any : forall J T r,
  jar_remapper J T = Ok r ->
  (forall c, starts_with [cLBRACK] c = false -> jr_class_any r c = jar_name J T c) /\
  (forall k c, c <> [] -> no_semi c ->
     exists c', jar_name J T c = Ok c' /\
       jr_class_any r (repeat cLBRACK (S k) ++ cL :: c ++ [cSEMI]) = Ok (repeat cLBRACK (S k) ++ cL :: c' ++ [cSEMI])) /\
  (forall d, starts_with [cLBRACK] d = true -> ~ In cL d -> jr_class_any r d = Ok d) /\
  (forall c, ~ In c (keys (this_nests J T)) -> r c = c).
Proof. exact jar_remapper_any. Qed.
Print Assumptions C14_jar_remapper_any.

Theorem C14_jar_remapper_trans : forall J T r c,
  NoDup (keys T) -> jar_remapper J T = Ok r -> trans (this_nests J T) c (r c).
Proof. exact jar_remapper_trans. Qed.
Print Assumptions C14_jar_remapper_trans.

Theorem C14_jar_member_ref : forall r o nd res,
  jr_member_ref r o nd = Ok res ->
  fst res = r o /\ fst (snd res) = fst nd /\ map_desc r (snd nd) = Ok (snd (snd res)).
Proof. exact jr_member_ref_spec. Qed.
Print Assumptions C14_jar_member_ref.

Theorem C14_jar_method_ref_array : forall r o nd, starts_with [cLBRACK] o = true ->
  jr_method_ref r o nd = match jr_class_any r o with Ok o' => Ok (o', nd) | Err => Err end.
Proof. exact jr_method_ref_array. Qed.
Print Assumptions C14_jar_method_ref_array.

Theorem C14_entry_name_class : forall r c, jr_entry_name r (c ++ dot_class) = r c ++ dot_class.
Proof. exact jr_entry_name_class. Qed.
Print Assumptions C14_entry_name_class.

Theorem C14_entry_name_other : forall r name,
  (forall c, name <> c ++ dot_class) -> jr_entry_name r name = name.
Proof. exact jr_entry_name_other. Qed.
Print Assumptions C14_entry_name_other.

(* 6e. apply and undo in BOTH namespaces.  apply: source names and descriptors through the translation of the
   table, target names through the translation of the table's image under remap_nests; undo: source side through
   the inverse pairs, a target name only when it is itself the name of a listed class (then `$` becomes `__`) *)
Theorem C14_apply_spec : forall T M M1,
  apply_nests M T = OOk M1 ->
  exists T' m m', map_nests T M = Ok T' /\ translation T = Ok m /\ translation T' = Ok m' /\
    ms_ns M1 = ms_ns M /\ ms_doc M1 = ms_doc M /\
    Forall2 (class_rewritten (map_class m) (map_class m')) (ms_classes M) (ms_classes M1).
Proof. exact apply_spec. Qed.
Print Assumptions C14_apply_spec.

Theorem C14_undo_spec : forall T M M1,
  undo_nests M T = OOk M1 ->
  exists m, translation T = Ok m /\
    ms_ns M1 = ms_ns M /\ ms_doc M1 = ms_doc M /\
    Forall2 (class_rewritten (map_class (inverse m)) (undo_dst T)) (ms_classes M) (ms_classes M1).
Proof. exact undo_spec. Qed.
Print Assumptions C14_undo_spec.

Theorem C14_undo_dst_spec : forall T d,
  (~ In d (keys T) -> undo_dst T d = d) /\
  (In d (keys T) -> ~ In cDOLLAR (undo_dst T d) /\
     forall a b, d = a ++ cDOLLAR :: b -> undo_dst T d = dollar_to_uu a ++ [cUSCORE; cUSCORE] ++ dollar_to_uu b).
Proof. exact undo_dst_spec. Qed.
Print Assumptions C14_undo_dst_spec.

(* 6f. one classification of inner names at every site: the text reader's kind is the one inner_name
   (NestTypeA::new) and strip_local_class_prefix use — ASCII digits in front — and for a table read from text
   the anonymous rule is: all ASCII digits, value 1 .. 2^31-1 *)
Theorem C14_read_line_kind : forall l n,
  read_line l = Ok n -> n_kind n = ascii_kind (n_inner n) /\ n_inner n <> [].
Proof. exact read_line_kind. Qed.
Print Assumptions C14_read_line_kind.

Theorem C14_read_anonymous_rule : forall l n,
  read_line l = Ok n -> n_kind n = KAnon ->
  forallb is_digit (n_inner n) = true /\
  (anon_index_ok (n_inner n) = true <-> (1 <= zfold (n_inner n) 0 <= 2147483647)%Z).
Proof. exact read_anonymous_rule. Qed.
Print Assumptions C14_read_anonymous_rule.

(* ---- non-vacuity: a concrete chain of depth 3 (inner, anonymous, local) satisfies every hypothesis ---- *)
Theorem C14_examples : nonvacuous.
Proof. exact nonvacuous_holds. Qed.
Print Assumptions C14_examples.

(* the hypotheses of part 6 on the same example (every listed nest is its own entry, fuel 5 > |T| = 3, the jar
   remapper exists and answers A$B$1$1L for E and [[LA$B$1$1L; for [[LE;, a mapped and an unmapped enclosing
   method, apply then undo succeed, a line of the text format read as an anonymous nest with index 007) *)
Theorem C14_examples_round4 : nonvacuous8.
Proof. exact nonvacuous8_holds. Qed.
Print Assumptions C14_examples_round4.

(* ---- 7. round 5: the helpers next to the nester that decide two clauses of the property ---- *)

(* 7a. "renames EXACTLY those listed classes": a class the jar side renames is an applicable entry, a class the
   mappings side renames is an entry (both remappers answer through ARemapper::map_class: whole-name lookup, else
   the name itself) *)
Theorem C14_jar_renames_only_applicable : forall J T c r,
  NoDup (keys T) -> acyclic T -> jar_name J T c = Ok r -> r <> c -> In c (keys (this_nests J T)).
Proof. exact jar_renames_only_applicable. Qed.
Print Assumptions C14_jar_renames_only_applicable.

Theorem C14_mapping_renames_only_listed : forall T c r,
  acyclic T -> mapping_name T c = Ok r -> r <> c -> In c (keys T).
Proof. exact mapping_renames_only_listed. Qed.
Print Assumptions C14_mapping_renames_only_listed.

(* an unlisted class whose name extends a listed name with `$` (Foo$Helper beside the listed Foo) keeps its name *)
Theorem C14_dollar_child_unchanged : forall J T c x,
  NoDup (keys T) -> acyclic T -> ~ In (c ++ cDOLLAR :: x) (keys T) ->
  jar_name J T (c ++ cDOLLAR :: x) = Ok (c ++ cDOLLAR :: x) /\
  mapping_name T (c ++ cDOLLAR :: x) = Ok (c ++ cDOLLAR :: x).
Proof. exact dollar_child_unchanged. Qed.
Print Assumptions C14_dollar_child_unchanged.

Theorem C14_map_class_exact : forall m c, ~ In c (map fst m) -> map_class m c = c.
Proof. exact map_class_exact. Qed.
Print Assumptions C14_map_class_exact.

(* a descriptor that mentions no renamed class is returned as it is *)
Theorem C14_desc_keeps_unlisted : forall m d r,
  map_desc (map_class m) d = Ok r -> (forall n, In n (desc_names d) -> ~ In n (map fst m)) -> r = d.
Proof. exact desc_keeps_unlisted. Qed.
Print Assumptions C14_desc_keeps_unlisted.

(* pinned: Foo nested into Bar, Foo$Helper unlisted: Foo -> Bar$Foo, Foo$Helper stays (jar, mappings), and
   (LFoo$Helper;LFoo;)V becomes (LFoo$Helper;LBar$Foo;)V *)
Theorem C14_dollar_child_example : dollar_child_example.
Proof. exact dollar_child_example_holds. Qed.
Print Assumptions C14_dollar_child_example.

(* 7b. "inner name expressed in the target namespace": for an inner or local nest without a custom inner name the
   translated inner name is [the digits ++] the WHOLE last path segment of the class's target name — nothing is cut
   at a `$` *)
Theorem C14_inner_name_is_last_segment : forall cls d c r mapped i,
  forallb is_digit d = true -> is_digit c = false -> ends_with cls (c :: r) = true ->
  inner_name cls (d ++ c :: r) mapped = Ok i ->
  exists seg, i = d ++ seg /\ ~ In cSLASH seg /\
    ((~ In cSLASH mapped /\ seg = mapped) \/ exists p, mapped = p ++ cSLASH :: seg).
Proof. exact inner_name_is_last_segment. Qed.
Print Assumptions C14_inner_name_is_last_segment.

Theorem C14_simple_name_keeps_dollar : forall p a b,
  ~ In cSLASH a -> ~ In cSLASH b ->
  get_simple_name (p ++ cSLASH :: a ++ cDOLLAR :: b) = a ++ cDOLLAR :: b /\
  get_simple_name (a ++ cDOLLAR :: b) = a ++ cDOLLAR :: b.
Proof. exact (fun p a b Ha Hb => conj (simple_name_keeps_dollar p a b Ha Hb) (simple_name_keeps_dollar_nopkg a b Ha Hb)). Qed.
Print Assumptions C14_simple_name_keeps_dollar.

(* derived inner names of two different target names of ONE package differ *)
Theorem C14_same_package_distinct_simple : forall a b,
  package_of a = package_of b -> get_simple_name a = get_simple_name b -> a = b.
Proof. exact same_package_distinct_simple. Qed.
Print Assumptions C14_same_package_distinct_simple.

(* pinned: net/Things$Thing and net/Stuff$Thing in one enclosing class keep the inner names Things$Thing / Stuff$Thing,
   a local class gets 1Things$Local, an anonymous class mapped to net/Host$C_12 keeps its number; a/Thing and b/Thing
   (different packages) BOTH get the inner name Thing and apply gives both the target name net/Encl$Thing *)
Theorem C14_dollar_target_example : dollar_target_example.
Proof. exact dollar_target_example_holds. Qed.
Print Assumptions C14_dollar_target_example.

(* ---- 8. round 5: "rewrites every reference to them" (closes refs_rewritten) ----
   The walk of dukebox::remap over a class tree is C07's subject: its table is regenerated from
   dukebox/src/remap.rs on every run (translate/c07_remap_table.py, also run by this check), and C07 proves for EVERY
   remapper that the interpreter of that table equals the specification of reference positions.  Instantiated here
   with the remapper nest_jar hands over (ARemapperAsBRemapper(MyRemapper(map))): for every well-typed class tree the
   walk returns what the specification demands with THIS remapper ...   (class_ty = TName "ClassFile", the root
   type of duke's tree) *)
Theorem C14_refs_rewritten : forall (J : jar) (T : table) (m : amap) (ctx : option str) (v : FB.C07.Tree.val),
  jar_map (this_nests J T) = Ok m ->
  FB.C07.Tree.has_ty FB.C07.RemapTable.type_defs FB.C07.TreeTheory.class_ty v = true ->
  FB.C07.Tree.remap_val FB.C07.Tree.gen_table (nest_remapper m) ctx FB.C07.TreeTheory.class_ty v
  = FB.C07.Tree.spec_remap_val FB.C07.RemapTable.type_defs (nest_remapper m) ctx FB.C07.TreeTheory.class_ty v.
Proof. exact refs_rewritten. Qed.
Print Assumptions C14_refs_rewritten.

(* ... and quill's default methods on this remapper (C07's model of them) are the functions of C14's model, whose
   answers part 6d characterises as jar_name: class names, descriptors (the two formulations of map_desc agree on every
   string), array class names, declared members, field and method references *)
Theorem C14_nest_remapper_is_jar_name : forall J T m c,
  jar_map (this_nests J T) = Ok m -> FB.C07.Model.map_class (nest_remapper m) c = jar_name J T c.
Proof. exact nest_remapper_is_jar_name. Qed.
Print Assumptions C14_nest_remapper_is_jar_name.

Theorem C14_nest_remapper_methods : forall m,
  (forall c, FB.C07.Model.map_class (nest_remapper m) c = Ok (map_class m c)) /\
  (forall d, FB.C07.Model.map_desc (nest_remapper m) d = map_desc (map_class m) d) /\
  (forall c, FB.C07.Model.map_class_any (nest_remapper m) c = jr_class_any (map_class m) c) /\
  (forall o n d, FB.C07.Model.map_field (nest_remapper m) o n d = jr_member (map_class m) (n, d)) /\
  (forall o n d, FB.C07.Model.map_method (nest_remapper m) o n d = jr_member (map_class m) (n, d)) /\
  (forall o n d, FB.C07.Model.map_field_ref (nest_remapper m) (o, n, d)
     = match jr_member_ref (map_class m) o (n, d) with Ok (o', (n', d')) => Ok (o', n', d') | Err => Err end) /\
  (forall o n d, FB.C07.Model.map_method_ref (nest_remapper m) (o, n, d)
     = match jr_method_ref (map_class m) o (n, d) with Ok (o', (n', d')) => Ok (o', n', d') | Err => Err end).
Proof.
  exact (fun m => conj (nr_map_class m) (conj (nr_map_desc m) (conj (nr_map_class_any m) (conj (nr_map_field m)
           (conj (nr_map_method m) (conj (nr_map_field_ref m) (nr_map_method_ref m))))))).
Qed.
Print Assumptions C14_nest_remapper_methods.

(* ---- 9. round 7: the enclosing classes nest_jar creates (nester_jar.rs: the class_version loop and ClassFile::new) ---- *)

(* the loop `if class_version.is_none() || version < class_version` returns THE minimum of the versions of the jar's
   classes under duke's order (major, then minor), whatever the entry order: v is returned iff it occurs and nothing
   in the jar is smaller *)
Theorem C14_class_version_is_minimum : forall vs v,
  class_version vs = Some v <-> In v vs /\ forall w, In w vs -> version_ltb w v = false.
Proof. exact class_version_spec. Qed.
Print Assumptions C14_class_version_is_minimum.

(* "no classes in input" exactly on a jar without classes *)
Theorem C14_class_version_none : forall vs, class_version vs = None <-> vs = [].
Proof. exact class_version_none. Qed.
Print Assumptions C14_class_version_none.

(* the order is duke's: major first, then minor *)
Theorem C14_version_order : forall a b,
  version_ltb a b = true <-> (fst a < fst b \/ (fst a = fst b /\ snd a < snd b))%N.
Proof. exact version_ltb_spec. Qed.
Print Assumptions C14_version_order.

(* which classes are created: each missing enclosing class once; a created class is not a class of the jar and is the
   enclosing class of a listed nest (with C14_enclosing_class_exists: every kept nest has its enclosing class) *)
Theorem C14_created_classes : forall J T,
  NoDup (new_classes J T) /\
  forall c, In c (new_classes J T) -> ~ In c (jar_classes J) /\ exists n, In n T /\ n_encl n = c.
Proof. exact new_classes_spec. Qed.
Print Assumptions C14_created_classes.

(* their class files: the minimum version, ACC_PUBLIC, super class java/lang/Object, nothing else; name (and super
   class) through the remapper; they are the first entries of the output of nest_jar *)
Theorem C14_created_headers : forall rm vs J T hs,
  nest_jar_created rm vs J T = Ok hs ->
  exists v m out,
    class_version vs = Some v /\ jar_map (this_nests J T) = Ok m /\ nest_jar rm J T = Ok out /\
    hs = map (created_class v (if rm then map_class m else fun c => c)) (new_classes J T) /\
    map h_name hs = map (fun o : out_class => fst (fst o)) (firstn (length hs) out).
Proof. exact nest_jar_created_spec. Qed.
Print Assumptions C14_created_headers.

(* the header function answers exactly when nest_jar does *)
Theorem C14_created_ok_iff : forall rm vs J T,
  length vs = length J ->
  ((exists hs, nest_jar_created rm vs J T = Ok hs) <-> (exists out, nest_jar rm J T = Ok out)).
Proof. exact nest_jar_created_ok_iff. Qed.
Print Assumptions C14_created_ok_iff.

(* non-vacuity: minimum decided by the minor version, found in the middle of the jar; one created class *)
Theorem C14_created_example : cv_example.
Proof. exact cv_example_holds. Qed.
Print Assumptions C14_created_example.
