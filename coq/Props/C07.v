(* C07 — property theorems only.  Each is closed by [exact <lemma>] and followed by
   Print Assumptions; the statements are pinned here so they cannot be quietly weakened.

   [rows], [impls], [type_defs], [class_suffix] are C07/RemapTable.v, REGENERATED on every run from
   dukebox/src/remap.rs and duke/src/tree by translate/c07_remap_table.py: the finite theorems below
   are re-proved against the current source each time.  [carries_ref], [appropriate], [known_row]
   are the hand-written specification C07/Spec.v. *)
From Coq Require Import String.
From FB Require Import C07.BridgeDefs C07.Model C07.Spec C07.Theory C07.WithC06 C07.Tree C07.TreeTheory C07.EntryNames C07.Laws C07.Laws2 C07.Occ C07.Bridge C07.Total.
From FB Require C02.Class C02.Decode C02.TheoryC1 C02.TheoryC8 C02.TheoryC10.

(* Th 1: every position that carries a class / field / method reference is rebuilt with the
   remapper method appropriate for it (outside the rows recorded as known findings: none today) *)
Theorem C07_every_ref_remapped :
  forall r, In r rows -> known_row r = false -> carries_ref type_defs r = true ->
            effective r = Remapped (appropriate r).
Proof. exact every_ref_remapped. Qed.
Print Assumptions C07_every_ref_remapped.

Theorem C07_every_ref_has_a_rule :
  forall r, In r rows -> carries_ref type_defs r = true -> appropriate r <> MUnspecified.
Proof. exact every_ref_has_a_rule. Qed.
Print Assumptions C07_every_ref_has_a_rule.

(* Th 2: every other position is copied *)
Theorem C07_nothing_else_changes :
  forall r, In r rows -> known_row r = false -> carries_ref type_defs r = false -> effective r = Copied.
Proof. exact nothing_else_changes. Qed.
Print Assumptions C07_nothing_else_changes.

(* no row is recorded as a known finding today ([known_row] is constantly false): Th 1 and Th 2 hold
   for every row *)
Theorem C07_every_ref_remapped_full :
  forall r, In r rows -> carries_ref type_defs r = true -> effective r = Remapped (appropriate r).
Proof. exact every_ref_remapped_full_holds. Qed.
Print Assumptions C07_every_ref_remapped_full.

Theorem C07_nothing_else_changes_full :
  forall r, In r rows -> carries_ref type_defs r = false -> effective r = Copied.
Proof. exact nothing_else_changes_full_holds. Qed.
Print Assumptions C07_nothing_else_changes_full.

(* the rows of the former findings F18c / F18d (record components, module data) are rebuilt now *)
Theorem C07_former_findings_repaired : former_findings_repaired.
Proof. exact former_findings_repaired_holds. Qed.
Print Assumptions C07_former_findings_repaired.

(* the table describes every field of every rebuilt type of duke's tree, and only those *)
Theorem C07_table_covers_definitions : table_covers_definitions.
Proof. exact table_covers_definitions_holds. Qed.
Print Assumptions C07_table_covers_definitions.

(* the closure "containers of reference carriers carry references" reached its fixpoint *)
Theorem C07_ref_types_closed : ref_types_closed.
Proof. exact ref_types_closed_holds. Qed.
Print Assumptions C07_ref_types_closed.

(* Th 3: declared fields / methods are mapped with their declaring class, member references with
   the owner they name (table: who hands which class name down; model: which owner is asked) *)
Theorem C07_member_refs_use_owner : owner_flow /\ member_owner_stmt.
Proof. exact (conj owner_flow_table member_owner). Qed.
Print Assumptions C07_member_refs_use_owner.

(* Th 4: entry names *)
Theorem C07_entry_name_spec :
  forall R name,
    (forall base, name = base ++ dot_class ->
                  entry_name R name = match map_class R base with Ok n => Ok (n ++ dot_class) | Err => Err end) /\
    ((forall base, name <> base ++ dot_class) -> entry_name R name = Ok name).
Proof. exact entry_name_spec. Qed.
Print Assumptions C07_entry_name_spec.

Theorem C07_class_suffix : class_suffix = dot_class.
Proof. exact class_suffix_is_dot_class. Qed.
Print Assumptions C07_class_suffix.

(* Th 5: the name chosen for a reference is what the remapper answers *)
Theorem C07_answers : answers_stmt.
Proof. exact answers. Qed.
Print Assumptions C07_answers.

(* the entry loop: without colliding names the remapped jar lists the entries in input order under
   their remapped names; an error in any name or content fails the call *)
Theorem C07_entries_in_order :
  forall (A B : Type) (R : remapper) (f : str -> A -> res B) (es : list (str * A)) (l : list (str * B)),
    entries_spec R f es = Ok l -> NoDup (map fst l) -> remap_entries R f es = Ok l.
Proof. exact entries_in_order. Qed.
Print Assumptions C07_entries_in_order.

Theorem C07_entries_err :
  forall (A B : Type) (R : remapper) (f : str -> A -> res B) (es : list (str * A)),
    entries_spec R f es = Err -> remap_entries R f es = Err.
Proof. exact entries_err. Qed.
Print Assumptions C07_entries_err.

(* Th 5, composed with C06: for quill's own remapper (C06's model of BRemapperImpl over a mapping
   tree and a super-class provider) a jar position becomes: the class row's name; the descriptor
   with every class name mapped, type by type; for a member, the row of the first type in the
   depth-first pre-order of the owner's super types that declares it, else the old name with the
   descriptor rewritten *)
Theorem C07_composes_with_C06 : c06_positions.
Proof. exact c06_positions_hold. Qed.
Print Assumptions C07_composes_with_C06.

(* non-vacuity *)
Theorem C07_examples : nonvacuous.
Proof. exact nonvacuous_holds. Qed.
Print Assumptions C07_examples.

(* ------------------------------------------------------------------ *)
(* Whole trees (C07/Tree.v, C07/TreeTheory.v).
   [val]: tree values typed by [type_defs] ([has_ty]).  [remap_val tb]: the generic interpreter of a
   table (impl dispatch, rows, how the class name is handed down, joint positions, dropped fields).
   [spec_remap_val]: the specification, by recursion on the value directed by its type, from
   C07/Spec.v and the type definitions only — never the rows or impl kinds.  [table_ok]: the finite
   check of a table (per row Th 1, the no-rule check and Th 2 above, plus how the class name is
   handed down; coverage of duke's definitions by rows).  [clean]: nothing at the positions of the
   rows recorded as known findings.  [deleg_ok]: `.remap…` may be called on the type. *)

(* Th 6: rows => every tree — for ANY table that passes the finite check, every remapper, every
   well-typed value: the interpreter computes exactly what the specification demands *)
Theorem C07_remap_val_spec_any_table :
  forall (tb : table) (DT : list string) (known : row -> bool),
    table_ok tb (ref_types (t_defs tb)) DT known = true ->
    forall (R : remapper) (ctx : option str) (T : rty) (v : val),
      deleg_ok tb (ref_types (t_defs tb)) T = true ->
      has_ty (t_defs tb) T v = true ->
      clean tb known v = true ->
      remap_val tb R ctx T v = spec_remap_val (t_defs tb) R ctx T v.
Proof. exact remap_val_spec_gen. Qed.
Print Assumptions C07_remap_val_spec_any_table.

(* the table regenerated from dukebox/src/remap.rs and duke/src/tree passes the check (re-proved on
   every run); [known_row] (C07/Spec.v) records no row today *)
Theorem C07_table_ok : table_ok gen_table (ref_types type_defs) DT known_row = true.
Proof. exact gen_table_ok. Qed.
Print Assumptions C07_table_ok.

Theorem C07_rows_ok :
  forall r, In r rows -> known_row r = false -> row_ok gen_table (ref_types type_defs) DT r = true.
Proof. exact gen_rows_ok. Qed.
Print Assumptions C07_rows_ok.

(* the per-row check contains Th 1 and Th 2 *)
Theorem C07_row_ok_contains_th1_th2 :
  forall tb S D r, row_ok tb S D r = true ->
    (carries_ref_in S r = true -> effective_t tb r = Remapped (appropriate r)) /\
    (carries_ref_in S r = false -> effective_t tb r = Copied).
Proof. exact row_ok_contains_th1_th2. Qed.
Print Assumptions C07_row_ok_contains_th1_th2.

(* Th 6 for the regenerated table, any type `.remap…` may be called on *)
Theorem C07_remap_val_spec :
  forall (R : remapper) (ctx : option str) (T : rty) (v : val),
    deleg_ok gen_table (ref_types type_defs) T = true ->
    has_ty type_defs T v = true ->
    clean gen_table known_row v = true ->
    remap_val gen_table R ctx T v = spec_remap_val type_defs R ctx T v.
Proof. exact remap_val_spec. Qed.
Print Assumptions C07_remap_val_spec.

(* … and for whole classes *)
Theorem C07_remap_class_spec :
  forall (R : remapper) (ctx : option str) (v : val),
    has_ty type_defs (TName "ClassFile") v = true ->
    clean gen_table known_row v = true ->
    remap_val gen_table R ctx (TName "ClassFile") v = spec_remap_val type_defs R ctx (TName "ClassFile") v.
Proof. exact remap_class_spec. Qed.
Print Assumptions C07_remap_class_spec.

(* projections: the shape of the tree (constructors, struct / variant / field names, list lengths —
   the instruction list entry by entry) and every opaque leaf (flags, constants, line numbers, labels)
   come out as they went in *)
Theorem C07_shape_and_opaque_leaves_preserved :
  forall (R : remapper) (ctx : option str) (T : rty) (v v' : val),
    deleg_ok gen_table (ref_types type_defs) T = true ->
    has_ty type_defs T v = true ->
    clean gen_table known_row v = true ->
    remap_val gen_table R ctx T v = Ok v' ->
    same_shape v v' = true /\ opaques v' = opaques v.
Proof. exact remap_val_shape. Qed.
Print Assumptions C07_shape_and_opaque_leaves_preserved.

(* the specification itself never changes a shape, for any type definitions *)
Theorem C07_spec_preserves_shape :
  forall defs S R v T ctx v', spec_val defs S R ctx T v = Ok v' -> same_shape v v' = true.
Proof. exact spec_val_shape. Qed.
Print Assumptions C07_spec_preserves_shape.

(* a value of a type that carries no reference is unchanged *)
Theorem C07_nonref_unchanged :
  forall (R : remapper) (ctx : option str) (T : rty) (v : val),
    deleg_ok gen_table (ref_types type_defs) T = true ->
    has_ty type_defs T v = true ->
    clean gen_table known_row v = true ->
    carries_ref_ty type_defs T = false ->
    remap_val gen_table R ctx T v = Ok v.
Proof. exact remap_val_nonref. Qed.
Print Assumptions C07_nonref_unchanged.

(* no type argument of a generic tree type carries a reference (the interpreter and the specification
   both leave a field of the parameter type alone) *)
Theorem C07_targs_carry_no_refs : targs_carry_no_refs.
Proof. exact targs_carry_no_refs_holds. Qed.
Print Assumptions C07_targs_carry_no_refs.

(* non-vacuity: a concrete class, renamed as expected by interpreter and specification *)
Theorem C07_tree_example : tree_example.
Proof. exact tree_example_holds. Qed.
Print Assumptions C07_tree_example.

(* Th 6 without the [clean] hypothesis: no row is recorded as a known finding today, so EVERY well-typed
   class comes out of the interpreter of the regenerated table as the specification demands *)
Theorem C07_remap_class_spec_full :
  forall (R : remapper) (ctx : option str) (v : val),
    has_ty type_defs (TName "ClassFile") v = true ->
    remap_val gen_table R ctx (TName "ClassFile") v = spec_remap_val type_defs R ctx (TName "ClassFile") v.
Proof. exact remap_class_spec_full. Qed.
Print Assumptions C07_remap_class_spec_full.

Theorem C07_remap_val_spec_full :
  forall (R : remapper) (ctx : option str) (T : rty) (v : val),
    deleg_ok gen_table (ref_types type_defs) T = true ->
    has_ty type_defs T v = true ->
    remap_val gen_table R ctx T v = spec_remap_val type_defs R ctx T v.
Proof. exact remap_val_spec_full. Qed.
Print Assumptions C07_remap_val_spec_full.

Theorem C07_shape_and_opaque_leaves_preserved_full :
  forall (R : remapper) (ctx : option str) (T : rty) (v v' : val),
    deleg_ok gen_table (ref_types type_defs) T = true ->
    has_ty type_defs T v = true ->
    remap_val gen_table R ctx T v = Ok v' ->
    same_shape v v' = true /\ opaques v' = opaques v.
Proof. exact remap_val_shape_full. Qed.
Print Assumptions C07_shape_and_opaque_leaves_preserved_full.

(* ------------------------------------------------------------------ *)
(* Entry names, continued (C07/EntryNames.v) *)

(* a directory entry (name ending in `/`) keeps its name, whatever the remapper answers — also `x.class/` *)
Theorem C07_entry_name_dir : forall R p, entry_name R (p ++ [slash]) = Ok (p ++ [slash]).
Proof. exact entry_name_dir. Qed.
Print Assumptions C07_entry_name_dir.

(* an entry is renamed by its WHOLE path: `META-INF/versions/9/a/B.class` is the class `META-INF/versions/9/a/B` *)
Theorem C07_entry_name_path :
  forall R prefix base,
    entry_name R (prefix ++ base ++ dot_class) =
    match map_class R (prefix ++ base) with Ok n => Ok (n ++ dot_class) | Err => Err end.
Proof. exact entry_name_path. Qed.
Print Assumptions C07_entry_name_path.

(* "each class entry is stored under the name of its remapped class": holds for an entry named by its class … *)
Theorem C07_stored_under_remapped_class :
  forall R cls, stored_under_remapped_class R (cls ++ dot_class) cls.
Proof. exact stored_under_remapped_class_holds. Qed.
Print Assumptions C07_stored_under_remapped_class.

(* … and is refuted for the multi-release layout (the class inside is renamed, the entry stays): the unrestricted
   clause [stored_under_remapped_class_full] (C07/EntryNames.v) is an unproved Definition *)
Theorem C07_multi_release_entry_not_moved :
  exists R prefix cls,
    map_class R cls <> Ok cls /\
    entry_name R (prefix ++ cls ++ dot_class) = Ok (prefix ++ cls ++ dot_class) /\
    ~ stored_under_remapped_class R (prefix ++ cls ++ dot_class) cls.
Proof. exact multi_release_entry_not_moved. Qed.
Print Assumptions C07_multi_release_entry_not_moved.

(* distinct input names and a remapper that is injective on the jar's class entries give distinct output names (a class
   entry never lands on the name of a non-class entry) … *)
Theorem C07_entry_names_distinct :
  forall R names outs, NoDup names -> injective_on R names -> names_spec R names = Ok outs -> NoDup outs.
Proof. exact entry_names_distinct. Qed.
Print Assumptions C07_entry_names_distinct.

(* … so the entry loop needs no hypothesis on its OUTPUT *)
Theorem C07_remap_entries_injective :
  forall (A B : Type) (R : remapper) (f : str -> A -> res B) (es : list (str * A)) (l : list (str * B)),
    NoDup (map fst es) -> injective_on R (map fst es) ->
    entries_spec R f es = Ok l -> remap_entries R f es = Ok l.
Proof. exact remap_entries_injective. Qed.
Print Assumptions C07_remap_entries_injective.

Theorem C07_entry_examples : entry_examples_stmt.
Proof. exact entry_examples. Qed.
Print Assumptions C07_entry_examples.

(* ------------------------------------------------------------------ *)
(* Laws of remapping whole trees (C07/Laws.v) *)

(* IDENTITY: a remapper that renames nothing leaves every well-typed tree as it is — for the specification over any
   type definitions with pairwise distinct field names … *)
Theorem C07_spec_identity :
  forall defs S R, renames_nothing R -> defs_nodup defs = true ->
    forall v T ctx v', has_ty defs T v = true -> spec_val defs S R ctx T v = Ok v' -> v' = v.
Proof. exact spec_val_identity_typed. Qed.
Print Assumptions C07_spec_identity.

(* … and for the interpreter of the table regenerated from remap.rs *)
Theorem C07_remap_val_identity :
  forall (R : remapper) (ctx : option str) (T : rty) (v v' : val),
    renames_nothing R ->
    deleg_ok gen_table (ref_types type_defs) T = true ->
    has_ty type_defs T v = true ->
    remap_val gen_table R ctx T v = Ok v' -> v' = v.
Proof. exact remap_val_identity. Qed.
Print Assumptions C07_remap_val_identity.

Theorem C07_remap_class_identity :
  forall (R : remapper) (ctx : option str) (v v' : val),
    renames_nothing R ->
    has_ty type_defs (TName "ClassFile") v = true ->
    remap_val gen_table R ctx (TName "ClassFile") v = Ok v' -> v' = v.
Proof. exact remap_class_identity. Qed.
Print Assumptions C07_remap_class_identity.

Theorem C07_type_defs_nodup : defs_nodup type_defs = true.
Proof. exact type_defs_nodup. Qed.
Print Assumptions C07_type_defs_nodup.

Theorem C07_identity_example : identity_example.
Proof. exact identity_example_holds. Qed.
Print Assumptions C07_identity_example.

(* COMPOSITION: remapping with f and then with g is remapping once with [comp f g] (g's answers about f's answers; the
   `Compose` remapper of the harness).  [wf_first f]: f's class answers can be read again (not empty, no `;`, not starting
   with `[`; valid exactly when the name asked about is), its field answers are field names with the class-by-class rewritten
   descriptor.  [ctx_rel]: the class name handed down in the second pass is what f answers for the one of the first.
   For the specification over any type definitions [sib_defs_ok] … *)
Theorem C07_spec_composition :
  forall defs S f g,
    wf_first f -> defs_nodup defs = true -> sib_defs_ok defs S ->
    forall v T ctx ctx1 v1, has_ty defs T v = true -> ctx_rel f ctx ctx1 ->
      spec_val defs S f ctx T v = Ok v1 ->
      spec_val defs S g ctx1 T v1 = spec_val defs S (comp f g) ctx T v.
Proof. exact spec_val_comp. Qed.
Print Assumptions C07_spec_composition.

(* … and for the interpreter of the table regenerated from remap.rs *)
Theorem C07_remap_val_composition :
  forall (f g : remapper) (ctx ctx1 : option str) (T : rty) (v v1 : val),
    wf_first f ->
    deleg_ok gen_table (ref_types type_defs) T = true ->
    has_ty type_defs T v = true ->
    ctx_rel f ctx ctx1 ->
    remap_val gen_table f ctx T v = Ok v1 ->
    remap_val gen_table g ctx1 T v1 = remap_val gen_table (comp f g) ctx T v.
Proof. exact remap_val_comp. Qed.
Print Assumptions C07_remap_val_composition.

Theorem C07_remap_class_composition :
  forall (f g : remapper) (v v1 : val),
    wf_first f ->
    has_ty type_defs (TName "ClassFile") v = true ->
    remap_val gen_table f None (TName "ClassFile") v = Ok v1 ->
    remap_val gen_table g None (TName "ClassFile") v1 = remap_val gen_table (comp f g) None (TName "ClassFile") v.
Proof. exact remap_class_comp. Qed.
Print Assumptions C07_remap_class_composition.

(* what a pass returns is well-typed again (typing depends on the shape only) *)
Theorem C07_remap_val_has_ty :
  forall (R : remapper) (ctx : option str) (T : rty) (v v1 : val),
    deleg_ok gen_table (ref_types type_defs) T = true ->
    has_ty type_defs T v = true ->
    remap_val gen_table R ctx T v = Ok v1 -> has_ty type_defs T v1 = true.
Proof. exact remap_val_has_ty. Qed.
Print Assumptions C07_remap_val_has_ty.

(* the finite side condition on the regenerated definitions (ClassFile.name is a class-name leaf, ElementValue::Enum.type_name
   a descriptor leaf) *)
Theorem C07_type_defs_sib_ok : sib_defs_ok type_defs (ref_types type_defs).
Proof. exact type_defs_sib_ok. Qed.
Print Assumptions C07_type_defs_sib_ok.

(* valid answers are enough for [wf_first] *)
Theorem C07_valid_answers_wf :
  forall f,
    (forall c n, rm_class f c = Ok (Some n) ->
                 C18.Model.is_valid_obj_class_name c = true /\ C18.Model.is_valid_obj_class_name n = true) ->
    (forall o n d n' d', rm_field f o n d = Ok (Some (n', d')) ->
                         C18.Model.is_valid_unqualified_name n' = true /\ map_desc f d = Ok d') ->
    wf_first f.
Proof. exact valid_answers_wf. Qed.
Print Assumptions C07_valid_answers_wf.

(* non-vacuity, and the hypothesis on the first remapper cannot be dropped *)
Theorem C07_composition_example : comp_example.
Proof. exact comp_example_holds. Qed.
Print Assumptions C07_composition_example.

(* ------------------------------------------------------------------ *)
(* Every occurrence (C07/Occ.v).  [sub_ty defs S p T ctx v]: the sub-value of v at path p, with its type and the class
   name handed down to it (everything inside a ClassFile stands in that ClassFile's original name); [sub p v1]: the value
   at the same path of the result. *)

(* LOCALITY: what remapping leaves at a path is the remapping of the sub-value that stood there *)
Theorem C07_spec_locality :
  forall defs S R p v T ctx v1 T' ctx' x,
    spec_val defs S R ctx T v = Ok v1 ->
    sub_ty defs S p T ctx v = Some (T', ctx', x) ->
    exists x1, sub p v1 = Some x1 /\ spec_val defs S R ctx' T' x = Ok x1.
Proof. exact spec_val_sub. Qed.
Print Assumptions C07_spec_locality.

(* Th 3 for whole trees and the interpreter of the regenerated table: EVERY FieldRef / MethodRef anywhere in a well-typed
   tree comes out as map_field / map_method asked with the owner the reference names (array-class owners keep name and
   descriptor), EVERY declared Field / Method with the name and descriptor map_field / map_method answer for the class
   name handed down to it *)
Theorem C07_member_refs_use_owner_tree : member_refs_use_owner_tree_stmt.
Proof. exact member_refs_use_owner_tree. Qed.
Print Assumptions C07_member_refs_use_owner_tree.

(* … which, for the members of a ClassFile, is that ClassFile's original name *)
Theorem C07_class_members_ctx :
  forall k p fs ctx T' ctx' x c,
    sub_ty type_defs (ref_types type_defs) (PField k :: PIndex p :: nil) (TName "ClassFile") ctx (VNode "ClassFile" "" fs) = Some (T', ctx', x) ->
    str_field fs "name" = Ok c -> ctx' = Some c.
Proof. exact sub_ty_class_ctx. Qed.
Print Assumptions C07_class_members_ctx.

Theorem C07_occurrence_example : occ_example.
Proof. exact occ_example_holds. Qed.
Print Assumptions C07_occurrence_example.

(* ------------------------------------------------------------------ *)
(* The content of the entries (C07/Model.v remap_content / remap_jar, C07/EntryNames.v).  [zip_class_suffix] is read by the
   translator from dukebox/src/storage/zip_impls.rs (which entries are handed to remap_class), [class_suffix] from
   remap.rs (which entries are renamed as classes). *)

(* the entries that are read as classes are exactly the entries that are renamed as classes *)
Theorem C07_class_suffixes_agree : zip_class_suffix = class_suffix.
Proof. exact class_suffixes_agree. Qed.
Print Assumptions C07_class_suffixes_agree.

(* "non-class entries … are unchanged": entry by entry, in input order — an entry whose name does not end in `.class` keeps
   its name and its content (a directory stays a directory, any other entry keeps its bytes); a class entry is stored under
   map_class(name without `.class`) + `.class` and holds what remap_class made of its bytes ([rc]) *)
Theorem C07_entries_out :
  forall (C : Type) (R : remapper) (rc : list N -> res C) (es : list (str * (bool * list N))) (l : list (str * content C)),
    entries_spec R (remap_content rc) es = Ok l ->
    Forall2 (fun (e : str * (bool * list N)) (o : str * content C) =>
               ((forall base, fst e <> base ++ dot_class) ->
                  fst o = fst e /\ snd o = (if fst (snd e) then KDir else KOther (snd (snd e)))) /\
               (forall base, fst e = base ++ dot_class ->
                  (exists n, map_class R base = Ok n /\ fst o = n ++ dot_class) /\
                  (if fst (snd e) then snd o = KDir else exists c, rc (snd (snd e)) = Ok c /\ snd o = KClass c))) es l.
Proof. exact (fun C R rc es l => entries_spec_out R rc es l). Qed.
Print Assumptions C07_entries_out.

(* … and that list is what `remap` returns when the input names are distinct and the remapper is injective on the class entries *)
Theorem C07_remap_jar_spec :
  forall (C : Type) (R : remapper) (rc : list N -> res C) (es : list (str * (bool * list N))) (l : list (str * content C)),
    NoDup (map fst es) -> injective_on R (map fst es) ->
    entries_spec R (remap_content rc) es = Ok l ->
    remap_jar R rc es = Ok l /\ Forall2 (entry_out R rc) es l.
Proof. exact remap_jar_spec. Qed.
Print Assumptions C07_remap_jar_spec.

Theorem C07_content_example : content_example_stmt.
Proof. exact content_example. Qed.
Print Assumptions C07_content_example.

(* ------------------------------------------------------------------ *)
(* Bridge to the class writer (C07/BridgeDefs.v, C07/Bridge.v; C02/Class.v write_class_aux, C02/Decode.v).
   [op_ref i]: the class / field / method reference an instruction carries as its direct operand, with its JVMS opcode
   (new, anewarray, checkcast, instanceof, multianewarray, get/putstatic, get/putfield, invokevirtual, invokespecial,
   invokestatic, invokeinterface).  [remap_oref R o]: what the remapper answers for it (map_class_any / map_field_ref / map_method_ref). *)

(* the operand of the remapped instruction is the remapped operand of the instruction *)
Theorem C07_insn_operand_commutes :
  forall (R : remapper) (ctx : option str) (i i' : val) (o : oref),
    has_ty type_defs (TName "Instruction") i = true ->
    remap_val gen_table R ctx (TName "Instruction") i = Ok i' -> op_ref i = Some o ->
    exists o', remap_oref R o = Ok o' /\ op_ref i' = Some o'.
Proof. exact insn_commutes_remap. Qed.
Print Assumptions C07_insn_operand_commutes.

(* COMPOSITION WITH THE WRITER.  v: a well-typed class; v': what the interpreter of the regenerated table makes of it; t: an
   input of C02's writer model that carries, at the instructions of v' with a reference operand, that operand ([code_views]:
   the relation between the two models of duke's tree on this part); cclass_ok t: C02's decidable well-formedness; the
   writer model succeeds with the bytes bs.  Then, for every decoder view cp of the written constant pool (C02_pool_written_parses:
   the view C02's decoder parses from bs is one), at the offset q of instruction k of method j in the written code array w
   stand the opcode and a u16 index that cp resolves — kind-checked — to the class / Fieldref / Methodref /
   InterfaceMethodref of what the remapper answers for the operand of instruction k of method j of the ORIGINAL class
   (for invokeinterface followed by the count operand C02's model of get_arguments_size computes from the REMAPPED
   descriptor, and 0).  C07/BridgeLift.v lifts C02's per-Code-attribute theorem code_operands_resolve to whole classes. *)
Theorem C07_written_operands :
  forall (R : remapper) (v v' : val) (t : C02.Class.cclass) (cbytes : list N) (aux : C02.Class.class_aux),
    has_ty type_defs (TName "ClassFile") v = true ->
    remap_val gen_table R None (TName "ClassFile") v = Ok v' ->
    code_views v' t ->
    C02.TheoryC8.cclass_ok t = true ->
    C02.Class.write_class_aux t = C02.Class.WOK (cbytes, aux) ->
    forall cp, C02.TheoryC1.agrees (C02.Class.a_pool aux) cp ->
    forall j k i o, sub (insn_path j k) v = Some i -> op_ref i = Some o ->
      exists o' w labs pos q,
        remap_oref R o = Ok o' /\
        nth_error (C02.Class.a_codes aux) j = Some (Some (w, labs, pos)) /\ nth_error pos k = Some q /\
        match o' with
        | OClass op c post =>
            exists x, C02.TheoryC10.bytes_at w q ([op] ++ C02.Model.be16 x ++ post) /\
                      C02.Decode.get_class cp x = Some (C02.Class.mutf8 c)
        | OField op c n d =>
            exists x, C02.TheoryC10.bytes_at w q ([op] ++ C02.Model.be16 x ++ []) /\
                      C02.Decode.get_fieldref cp x = Some (mref c n d)
        | OMethod op b c n d =>
            exists x, C02.TheoryC10.bytes_at w q ([op] ++ C02.Model.be16 x ++ []) /\
                      (if b then C02.Decode.get_imethodref cp x else C02.Decode.get_methodref cp x) = Some (mref c n d)
        | OIface c n d =>
            exists x cnt, C02.TheoryC10.bytes_at w q (185%N :: C02.Model.be16 x ++ [C02.Model.byte_of cnt; 0%N]) /\
                          C02.Decode.get_imethodref cp x = Some (mref c n d) /\
                          C02.Class.args_size (C02.Class.mutf8 d) = Ok cnt
        end.
Proof. exact written_operands. Qed.
Print Assumptions C07_written_operands.

(* the boolean C07/Run.v evaluates on the bytes duke::write_class produced (BridgeDefs.check_written, per instruction
   written_at_b) implies that conclusion *)
Theorem C07_written_check_sound :
  forall cp w q o, written_at_b cp w q o = true -> written_at cp w q o.
Proof. exact written_at_b_sound. Qed.
Print Assumptions C07_written_check_sound.

(* non-vacuity: every hypothesis of C07_written_operands holds for a concrete class, remapper and writer input; getfield
   a/A.f:I comes out as opcode 180 with an index that every view of the written pool resolves to the Fieldref x/Y.g:I *)
Theorem C07_written_example : written_example.
Proof. exact written_example_holds. Qed.
Print Assumptions C07_written_example.

Theorem C07_written_check_example : written_check_example.
Proof. exact written_check_example_holds. Qed.
Print Assumptions C07_written_check_example.

(* ------------------------------------------------------------------ *)
(* When does remapping succeed? (C07/Total.v)  All statements above are about the answer Ok v'.  [total g]: the three methods of
   the remapper never answer with an error.  [idR]: the remapper that renames nothing.  A tree that idR can remap (every
   descriptor in it can be scanned, every record component name is a field name: facts about the tree alone) is remapped by
   every total remapper — so an error of remap_class is an error of the remapper or a malformed reference string in the class. *)
Theorem C07_remap_succeeds :
  forall (g : remapper) (ctx : option str) (T : rty) (v v0 : val),
    total g ->
    deleg_ok gen_table (ref_types type_defs) T = true -> has_ty type_defs T v = true ->
    remap_val gen_table idR ctx T v = Ok v0 ->
    exists v', remap_val gen_table g ctx T v = Ok v'.
Proof. exact remap_val_total. Qed.
Print Assumptions C07_remap_succeeds.

Theorem C07_remap_class_succeeds :
  forall (g : remapper) (v v0 : val),
    total g -> has_ty type_defs (TName "ClassFile") v = true ->
    remap_val gen_table idR None (TName "ClassFile") v = Ok v0 ->
    exists v', remap_val gen_table g None (TName "ClassFile") v = Ok v'.
Proof. exact remap_class_total. Qed.
Print Assumptions C07_remap_class_succeeds.

(* for the specification over any type definitions: success is monotone in the leaf applications *)
Theorem C07_spec_success_monotone :
  forall defs S f g,
    (forall m x y, apply_leaf f m x = Ok y -> exists y', apply_leaf g m x = Ok y') ->
    (forall m ctx sib x y, apply_pos f m ctx sib x = Ok y -> exists y', apply_pos g m ctx sib x = Ok y') ->
    forall v T ctx w1, spec_val defs S f ctx T v = Ok w1 -> exists w2, spec_val defs S g ctx T v = Ok w2.
Proof. exact spec_val_ok_mono. Qed.
Print Assumptions C07_spec_success_monotone.

Theorem C07_total_example : total_example.
Proof. exact total_example_holds. Qed.
Print Assumptions C07_total_example.

(* ------------------------------------------------------------------ *)
(* B1: the whole-tree translation from C07's tree values to C02's writer input (coq/X27/Tr.v tr : val -> option cclass) and
   the composed theorems (coq/X27/TrTheory.v).  [tr] covers: class skeleton (version, access flags, name, super class,
   interfaces, Deprecated / Synthetic, Signature, SourceFile), fields (flags, name, descriptor, Deprecated / Synthetic,
   Signature), methods (flags, name, descriptor, Deprecated / Synthetic, Exceptions, Signature, Code), Code (max_stack /
   max_locals, the instruction list with labels, exception table with catch types, last label, LineNumberTable), and of
   the instructions: all with a class / field / method reference operand, all without operand, conditional jumps, goto,
   jsr, and since round 7 ldc (no Float / Double constants), invokedynamic, the local-variable family, bipush, sipush,
   newarray, the switches.  It answers None for everything else (see the header of coq/X27/Tr.v). *)
From Coq Require Import ZArith.
From FB Require X27.Tr X27.TrTheory X27.TrEx.
From FB Require C01.Model C01.Pool C01.Resolve C01.Mutf8 C01.Attr C01.Tables X12.BridgeDefs X12.BridgePool X12.BridgeClass.

(* [tr] discharges the hypothesis code_views of C07_written_operands *)
Theorem C07_tr_views : forall v t, X27.Tr.tr v = Some t -> code_views v t.
Proof. exact X27.TrTheory.tr_views. Qed.
Print Assumptions C07_tr_views.

(* WRITE o REMAP read by C02's decoder, no hypothesis relating the two tree models: v a well-typed class, v' what the
   interpreter of the regenerated table makes of it, t := tr v' *)
Theorem C07_remap_write_decode :
  forall (R : remapper) (v v' : val) (t : C02.Class.cclass) (cbytes : list N) (aux : C02.Class.class_aux),
    has_ty type_defs (TName "ClassFile") v = true ->
    remap_val gen_table R None (TName "ClassFile") v = Ok v' ->
    X27.Tr.tr v' = Some t ->
    C02.TheoryC8.cclass_ok t = true ->
    C02.Class.write_class_aux t = C02.Class.WOK (cbytes, aux) ->
    forall cp, C02.TheoryC1.agrees (C02.Class.a_pool aux) cp ->
    forall j k i o, sub (insn_path j k) v = Some i -> op_ref i = Some o ->
      exists o' w labs pos q,
        remap_oref R o = Ok o' /\
        nth_error (C02.Class.a_codes aux) j = Some (Some (w, labs, pos)) /\ nth_error pos k = Some q /\
        written_at cp w q o'.
Proof. exact X27.TrTheory.written_operands_tr. Qed.
Print Assumptions C07_remap_write_decode.

(* WRITE o REMAP read by C01's READER MODEL (through coq/X12).  [read_head] is the first part of C01's read_class (magic,
   version gate, constant pool, head: C02_bridge_read_head_is_read_class); [plain_insn] is C01's second-pass instruction
   decoder on the bytes of one instruction (C02_bridge_plain); [resolve_insn] C01's operand resolution.  From the written file
   C01's reader reads the pool P; at the offset of instruction k of method j it decodes one instruction and resolves it in P to
   XGen opcode [the class / field / method reference the remapper answers for the operand of instruction k of method j of the
   ORIGINAL class] (+ the dimensions of multianewarray) — for answers C01's string decoder reads back unchanged
   (oref_strs_ok: code points below 0x110000, no high surrogate directly followed by a low one: C02_bridge_mutf8). *)
Theorem C07_remap_write_read :
  forall (R : remapper) (v v' : val) (t : C02.Class.cclass) (cbytes : list N) (aux : C02.Class.class_aux),
    has_ty type_defs (TName "ClassFile") v = true ->
    remap_val gen_table R None (TName "ClassFile") v = Ok v' ->
    X27.Tr.tr v' = Some t ->
    C02.TheoryC8.cclass_ok t = true ->
    C02.Class.write_class_aux t = C02.Class.WOK (cbytes, aux) ->
    C01.Attr.header_ok C01.Tables.magic (Z.to_N (C02.Class.k_minor t)) (Z.to_N (C02.Class.k_major t)) = true ->
    X12.BridgeClass.pool_utf8_ok C01.Mutf8.mutf8_dec (C02.Class.a_pool aux) = true ->
    exists cs head rest,
      X12.BridgeClass.read_head true C01.Mutf8.mutf8_dec cbytes
      = Ok (Z.to_N (C02.Class.k_minor t), Z.to_N (C02.Class.k_major t), X12.BridgePool.rpool C01.Mutf8.mutf8_dec cs, head, rest) /\
      forall j k i o, sub (insn_path j k) v = Some i -> op_ref i = Some o ->
        exists o' w labs pos q,
          remap_oref R o = Ok o' /\
          nth_error (C02.Class.a_codes aux) j = Some (Some (w, labs, pos)) /\ nth_error pos k = Some q /\
          (X27.TrTheory.oref_strs_ok o' ->
           exists bs ins, C02.TheoryC10.bytes_at w q bs /\ X12.BridgeDefs.plain_insn bs = Some ins /\
                          C01.Resolve.resolve_insn (X12.BridgePool.rpool C01.Mutf8.mutf8_dec cs) [] (C01.Model.map_insn Some ins)
                          = Ok (X27.TrTheory.xinsn_of o')).
Proof. exact X27.TrTheory.remap_write_read_c01. Qed.
Print Assumptions C07_remap_write_read.

(* non-vacuity: every hypothesis holds for a concrete class (getstatic, invokeinterface, new, pop, return; an exception range;
   a line number) and ex_R; and C01's WHOLE reader model, computed on the bytes C02's writer model wrote for tr (remap v),
   delivers getstatic x/Y.g:I; invokeinterface b/I.run()V; new x/Y; pop; return *)
Theorem C07_tr_example : X27.TrEx.tr_example.
Proof. exact X27.TrEx.tr_example_holds. Qed.
Print Assumptions C07_tr_example.

(* ------------------------------------------------------------------ *)
(* B3: LOADABLE CONSTANTS AND INVOKEDYNAMIC (coq/X27/Tr.v handle_of / ld_of / dyn_of / ld_ref, coq/X27/TrLd.v).
   [handle_of], [ld_of], [dyn_of sn], [ld_ref] project duke's Handle / Loadable / ConstantDynamic / InvokeDynamic tree values
   and the instructions Ldc / InvokeDynamic to xhandle / xload / xop (strings as code points; bootstrap arguments recursively,
   as deep as the tree is — remap.rs has no depth limit there); remap_xhandle / remap_xload / remap_xop ask the remapper
   (map_class_any for class constants, map_desc for method types and the descriptors of dynamic constants / call sites,
   map_field_ref / map_method_ref for the owner, name and descriptor of a handle; names of dynamic constants / call sites,
   numbers and strings kept); chandle_of / cload_of / cinsn_of_x hand them to C02's writer model (mutf8).  [tr] now covers
   ldc (Integer / Long / Class / String / MethodHandle / MethodType / Dynamic constants) and invokedynamic; Float / Double
   constants stay outside. *)
From FB Require X27.TrLd X27.TrLdEx.

(* the projections commute with remapping: the projection of the remapped value is the remapper's answer for the projection
   of the original value (specification side; the *_remap form is for the interpreter of the regenerated table) *)
Theorem C07_handle_commutes : forall R ctx v v' h,
  spec_val type_defs Occ.RTo R ctx (TName "Handle") v = Ok v' -> X27.Tr.handle_of v = Some h ->
  exists h', X27.Tr.remap_xhandle R h = Ok h' /\ X27.Tr.handle_of v' = Some h'.
Proof. exact X27.TrLd.handle_commutes. Qed.
Print Assumptions C07_handle_commutes.

Theorem C07_loadable_commutes : forall R ctx v v' x,
  spec_val type_defs Occ.RTo R ctx (TName "Loadable") v = Ok v' -> X27.Tr.ld_of v = Some x ->
  exists x', X27.Tr.remap_xload R x = Ok x' /\ X27.Tr.ld_of v' = Some x'.
Proof. exact X27.TrLd.loadable_commutes. Qed.
Print Assumptions C07_loadable_commutes.

Theorem C07_dyn_commutes : forall R sn ctx v v' nm d h a,
  sn = "ConstantDynamic"%string \/ sn = "InvokeDynamic"%string ->
  spec_val type_defs Occ.RTo R ctx (TName sn) v = Ok v' -> X27.Tr.dyn_of sn v = Some (nm, d, h, a) ->
  exists d' h' a', map_desc R d = Ok d' /\ X27.Tr.remap_xhandle R h = Ok h' /\ mapM (X27.Tr.remap_xload R) a = Ok a' /\
                   X27.Tr.dyn_of sn v' = Some (nm, d', h', a').
Proof. exact X27.TrLd.dyn_commutes. Qed.
Print Assumptions C07_dyn_commutes.

Theorem C07_ldc_commutes : forall R ctx i i' o,
  has_ty type_defs (TName "Instruction") i = true -> remap_val gen_table R ctx (TName "Instruction") i = Ok i' ->
  X27.Tr.ld_ref i = Some o ->
  exists o', X27.Tr.remap_xop R o = Ok o' /\ X27.Tr.ld_ref i' = Some o'.
Proof. exact X27.TrLd.ldc_commutes_remap. Qed.
Print Assumptions C07_ldc_commutes.

(* WRITE o REMAP for ldc / invokedynamic (composition with C02's bootstrap_resolves): v a well-typed class, v' what the
   interpreter of the regenerated table makes of it, t := tr v'.  At the offset of instruction k of method j in the code array
   C02's writer model writes stand
   - ldc: the form the writer chose (C02's ldc_bytes: ldc / ldc_w / ldc2_w) with an index that C02's [ldenotes] in the written
     pool and bootstrap-method table what the remapper answers for the ORIGINAL constant: a Class / MethodType / MethodHandle
     constant through the kind-checked getters of every decoder view of the pool; a Dynamic constant as a CONSTANT_Dynamic entry
     whose name-and-type is (name, remapped descriptor) and whose bootstrap_method_attr_index selects the table entry
     (remapped handle, argument indices), every argument index denoting the remapped argument — recursively;
   - invokedynamic: 186, index, 0, 0 with the index of a CONSTANT_InvokeDynamic entry whose name-and-type is (name, remapped
     descriptor), whose table entry holds the remapped handle and argument indices that denote the remapped arguments. *)
Theorem C07_remap_write_ldc :
  forall (R : remapper) (v v' : val) (t : C02.Class.cclass) (cbytes : list N) (aux : C02.Class.class_aux),
    has_ty type_defs (TName "ClassFile") v = true ->
    remap_val gen_table R None (TName "ClassFile") v = Ok v' ->
    X27.Tr.tr v' = Some t ->
    C02.TheoryC8.cclass_ok t = true ->
    C02.Class.write_class_aux t = C02.Class.WOK (cbytes, aux) ->
    forall j k i o, sub (insn_path j k) v = Some i -> X27.Tr.ld_ref i = Some o ->
      exists o' w labs pos q,
        X27.Tr.remap_xop R o = Ok o' /\
        nth_error (C02.Class.a_codes aux) j = Some (Some (w, labs, pos)) /\ nth_error pos k = Some q /\
        match o' with
        | X27.Tr.XLdc x =>
            exists idx, C02.TheoryC10.bytes_at w q (C02.TheoryC10.ldc_bytes (X27.Tr.cload_of x) idx) /\
                        C02.TheoryB2.ldenotes (C02.Class.a_pool aux) (C02.Class.a_bsm aux) (X27.Tr.cload_of x) idx
        | X27.Tr.XIndyOp n d h args =>
            exists idx b nt idxs,
              C02.TheoryC10.bytes_at w q ([186%N] ++ C02.Model.be16 idx ++ [0%N; 0%N])%list /\
              C02.TheoryC2.resolves (C02.Class.a_pool aux) idx (C02.Class.CInvokeDynamic b nt) /\
              C02.TheoryC2.refers C02.Decode.get_nat (C02.Class.mutf8 n, C02.Class.mutf8 d) (C02.Class.a_pool aux) nt /\
              (0 <= b)%Z /\ nth_error (C02.Class.a_bsm aux) (Z.to_nat b) = Some (X27.Tr.chandle_of h, idxs) /\
              Forall2 (C02.TheoryB2.ldenotes (C02.Class.a_pool aux) (C02.Class.a_bsm aux)) (map X27.Tr.cload_of args) idxs
        end.
Proof. exact X27.TrLd.written_ldc_tr. Qed.
Print Assumptions C07_remap_write_ldc.

(* non-vacuity: every hypothesis holds for a concrete class — ldc of a class; ldc of a dynamic constant whose arguments are
   a method type and a second dynamic constant (handle getstatic a/A.f:I, arguments a/A.class and -5); invokedynamic with an
   interface invokestatic handle, a string and a getfield handle as arguments — and ex_R; the written bootstrap-method table
   has three entries; the conclusion names x/Y wherever a/A was a class, keeps the string "a/A", and the field g *)
Theorem C07_ld_example : X27.TrLdEx.ld_example.
Proof. exact X27.TrLdEx.ld_example_holds. Qed.
Print Assumptions C07_ld_example.

(* … READ BY C01's POOL READER (through coq/X12: loadable_read / indy_read): C01's read_head reads from the written file the
   pool P = rpool dec cs; for every bootstrap table B that agrees with the written one (X12.BridgeDyn.table_agrees — what
   C02_bridge_bootstrap_table derives from the BootstrapMethods attribute of the file), C01's get_loadable resolves the index in
   the written ldc instruction to the value (lval: strings decoded; name and descriptor from the entry's own NameAndType, handle
   and arguments from the bootstrap method, recursively) of what the remapper answers for the ORIGINAL constant, for every fuel
   above its nesting depth; and get_invoke_dynamic the index in the written invokedynamic to the remapped call site, when the
   arguments nest less deep than C01's limit (nesting_fuel = 66; remap.rs and duke's writer have no limit) *)
From FB Require X27.TrLdRead X27.TrLdReadEx X12.BridgeDyn.
Theorem C07_remap_write_ldc_read :
  forall (R : remapper) (v v' : val) (t : C02.Class.cclass) (cbytes : list N) (aux : C02.Class.class_aux),
    has_ty type_defs (TName "ClassFile") v = true ->
    remap_val gen_table R None (TName "ClassFile") v = Ok v' ->
    X27.Tr.tr v' = Some t ->
    C02.TheoryC8.cclass_ok t = true ->
    C02.Class.write_class_aux t = C02.Class.WOK (cbytes, aux) ->
    C01.Attr.header_ok C01.Tables.magic (Z.to_N (C02.Class.k_minor t)) (Z.to_N (C02.Class.k_major t)) = true ->
    X12.BridgeClass.pool_utf8_ok C01.Mutf8.mutf8_dec (C02.Class.a_pool aux) = true ->
    exists cs head rest,
      X12.BridgeClass.read_head true C01.Mutf8.mutf8_dec cbytes
      = Ok (Z.to_N (C02.Class.k_minor t), Z.to_N (C02.Class.k_major t), X12.BridgePool.rpool C01.Mutf8.mutf8_dec cs, head, rest) /\
      forall B, X12.BridgeDyn.table_agrees cs (C02.Class.a_bsm aux) B ->
      forall j k i o, sub (insn_path j k) v = Some i -> X27.Tr.ld_ref i = Some o ->
        exists o' w labs pos q,
          X27.Tr.remap_xop R o = Ok o' /\
          nth_error (C02.Class.a_codes aux) j = Some (Some (w, labs, pos)) /\ nth_error pos k = Some q /\
          match o' with
          | X27.Tr.XLdc x =>
              exists idx, C02.TheoryC10.bytes_at w q (C02.TheoryC10.ldc_bytes (X27.Tr.cload_of x) idx) /\
                forall fuel, (X12.BridgeDyn.ldepth (X27.Tr.cload_of x) < fuel)%nat ->
                  C01.Pool.get_loadable fuel (X12.BridgePool.rpool C01.Mutf8.mutf8_dec cs) B (Z.to_N idx)
                  = Ok (X12.BridgeDyn.lval C01.Mutf8.mutf8_dec (X27.Tr.cload_of x))
          | X27.Tr.XIndyOp n d h args =>
              exists idx, C02.TheoryC10.bytes_at w q ([186%N] ++ C02.Model.be16 idx ++ [0%N; 0%N])%list /\
                (Forall (fun a => (X12.BridgeDyn.ldepth a < pred C01.Pool.nesting_fuel)%nat) (map X27.Tr.cload_of args) ->
                 C01.Pool.get_invoke_dynamic (X12.BridgePool.rpool C01.Mutf8.mutf8_dec cs) B (Z.to_N idx)
                 = Ok (C01.Pool.VIndy (X12.BridgePool.sdec C01.Mutf8.mutf8_dec (C02.Class.mutf8 n))
                                      (X12.BridgePool.sdec C01.Mutf8.mutf8_dec (C02.Class.mutf8 d))
                                      (X12.BridgePool.handle_val C01.Mutf8.mutf8_dec (X27.Tr.chandle_of h))
                                      (map (X12.BridgeDyn.lval C01.Mutf8.mutf8_dec) (map X27.Tr.cload_of args))))
          end.
Proof. exact X27.TrLdRead.written_ldc_read_c01. Qed.
Print Assumptions C07_remap_write_ldc_read.

(* non-vacuity of its decidable hypotheses on the class of C07_ld_example; the remapped dynamic constant nests 2 deep, below
   C01's limit.  (The premise table_agrees is the conclusion of C02_bridge_bootstrap_table in Props/C02.v.) *)
Theorem C07_ld_read_example : X27.TrLdReadEx.ld_read_example.
Proof. exact X27.TrLdReadEx.ld_read_example_holds. Qed.
Print Assumptions C07_ld_read_example.
