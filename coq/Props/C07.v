(* C07 — property theorems only.  Each is closed by [exact <lemma>] and followed by
   Print Assumptions; the statements are pinned here so they cannot be quietly weakened.

   [rows], [impls], [type_defs], [class_suffix] are C07/RemapTable.v, REGENERATED on every run from
   dukebox/src/remap.rs and duke/src/tree by translate/c07_remap_table.py: the finite theorems below
   are re-proved against the current source each time.  [carries_ref], [appropriate], [known_row]
   are the hand-written specification C07/Spec.v. *)
From Coq Require Import String.
From FB Require Import C07.Model C07.Spec C07.Theory C07.WithC06 C07.Tree C07.TreeTheory.

(* Th 1: every position that carries a class / field / method reference is rebuilt with the
   remapper method appropriate for it (outside the rows recorded as known findings: none today) *)
Theorem C07_every_ref_remapped :
  forall r, In r rows -> known_row r = false -> carries_ref type_defs r = true ->
            effective r = Remapped (appropriate r).
Proof. exact every_ref_remapped. Qed.
Print Assumptions C07_every_ref_remapped.

Theorem C07_every_ref_has_a_rule :
  forall r, In r rows -> carries_ref type_defs r = true -> appropriate r <> MUnspecified.
Proof. exact every_ref_has_a_rule. Qed.
Print Assumptions C07_every_ref_has_a_rule.

(* Th 2: every other position is copied *)
Theorem C07_nothing_else_changes :
  forall r, In r rows -> known_row r = false -> carries_ref type_defs r = false -> effective r = Copied.
Proof. exact nothing_else_changes. Qed.
Print Assumptions C07_nothing_else_changes.

(* no row is recorded as a known finding today ([known_row] is constantly false): Th 1 and Th 2 hold
   for every row *)
Theorem C07_every_ref_remapped_full :
  forall r, In r rows -> carries_ref type_defs r = true -> effective r = Remapped (appropriate r).
Proof. exact every_ref_remapped_full_holds. Qed.
Print Assumptions C07_every_ref_remapped_full.

Theorem C07_nothing_else_changes_full :
  forall r, In r rows -> carries_ref type_defs r = false -> effective r = Copied.
Proof. exact nothing_else_changes_full_holds. Qed.
Print Assumptions C07_nothing_else_changes_full.

(* the rows of the former findings F18c / F18d (record components, module data) are rebuilt now *)
Theorem C07_former_findings_repaired : former_findings_repaired.
Proof. exact former_findings_repaired_holds. Qed.
Print Assumptions C07_former_findings_repaired.

(* the table describes every field of every rebuilt type of duke's tree, and only those *)
Theorem C07_table_covers_definitions : table_covers_definitions.
Proof. exact table_covers_definitions_holds. Qed.
Print Assumptions C07_table_covers_definitions.

(* the closure "containers of reference carriers carry references" reached its fixpoint *)
Theorem C07_ref_types_closed : ref_types_closed.
Proof. exact ref_types_closed_holds. Qed.
Print Assumptions C07_ref_types_closed.

(* Th 3: declared fields / methods are mapped with their declaring class, member references with
   the owner they name (table: who hands which class name down; model: which owner is asked) *)
Theorem C07_member_refs_use_owner : owner_flow /\ member_owner_stmt.
Proof. exact (conj owner_flow_table member_owner). Qed.
Print Assumptions C07_member_refs_use_owner.

(* Th 4: entry names *)
Theorem C07_entry_name_spec :
  forall R name,
    (forall base, name = base ++ dot_class ->
                  entry_name R name = match map_class R base with Ok n => Ok (n ++ dot_class) | Err => Err end) /\
    ((forall base, name <> base ++ dot_class) -> entry_name R name = Ok name).
Proof. exact entry_name_spec. Qed.
Print Assumptions C07_entry_name_spec.

Theorem C07_class_suffix : class_suffix = dot_class.
Proof. exact class_suffix_is_dot_class. Qed.
Print Assumptions C07_class_suffix.

(* Th 5: the name chosen for a reference is what the remapper answers *)
Theorem C07_answers : answers_stmt.
Proof. exact answers. Qed.
Print Assumptions C07_answers.

(* the entry loop: without colliding names the remapped jar lists the entries in input order under
   their remapped names; an error in any name or content fails the call *)
Theorem C07_entries_in_order :
  forall (A B : Type) (R : remapper) (f : str -> A -> res B) (es : list (str * A)) (l : list (str * B)),
    entries_spec R f es = Ok l -> NoDup (map fst l) -> remap_entries R f es = Ok l.
Proof. exact entries_in_order. Qed.
Print Assumptions C07_entries_in_order.

Theorem C07_entries_err :
  forall (A B : Type) (R : remapper) (f : str -> A -> res B) (es : list (str * A)),
    entries_spec R f es = Err -> remap_entries R f es = Err.
Proof. exact entries_err. Qed.
Print Assumptions C07_entries_err.

(* Th 5, composed with C06: for quill's own remapper (C06's model of BRemapperImpl over a mapping
   tree and a super-class provider) a jar position becomes: the class row's name; the descriptor
   with every class name mapped, type by type; for a member, the row of the first type in the
   depth-first pre-order of the owner's super types that declares it, else the old name with the
   descriptor rewritten *)
Theorem C07_composes_with_C06 : c06_positions.
Proof. exact c06_positions_hold. Qed.
Print Assumptions C07_composes_with_C06.

(* non-vacuity *)
Theorem C07_examples : nonvacuous.
Proof. exact nonvacuous_holds. Qed.
Print Assumptions C07_examples.

(* ------------------------------------------------------------------ *)
(* Whole trees (C07/Tree.v, C07/TreeTheory.v).
   [val]: tree values typed by [type_defs] ([has_ty]).  [remap_val tb]: the generic interpreter of a
   table (impl dispatch, rows, how the class name is handed down, joint positions, dropped fields).
   [spec_remap_val]: the specification, by recursion on the value directed by its type, from
   C07/Spec.v and the type definitions only — never the rows or impl kinds.  [table_ok]: the finite
   check of a table (per row Th 1, the no-rule check and Th 2 above, plus how the class name is
   handed down; coverage of duke's definitions by rows).  [clean]: nothing at the positions of the
   rows recorded as known findings.  [deleg_ok]: `.remap…` may be called on the type. *)

(* Th 6: rows => every tree — for ANY table that passes the finite check, every remapper, every
   well-typed value: the interpreter computes exactly what the specification demands *)
Theorem C07_remap_val_spec_any_table :
  forall (tb : table) (DT : list string) (known : row -> bool),
    table_ok tb (ref_types (t_defs tb)) DT known = true ->
    forall (R : remapper) (ctx : option str) (T : rty) (v : val),
      deleg_ok tb (ref_types (t_defs tb)) T = true ->
      has_ty (t_defs tb) T v = true ->
      clean tb known v = true ->
      remap_val tb R ctx T v = spec_remap_val (t_defs tb) R ctx T v.
Proof. exact remap_val_spec_gen. Qed.
Print Assumptions C07_remap_val_spec_any_table.

(* the table regenerated from dukebox/src/remap.rs and duke/src/tree passes the check (re-proved on
   every run); [known_row] (C07/Spec.v) records no row today *)
Theorem C07_table_ok : table_ok gen_table (ref_types type_defs) DT known_row = true.
Proof. exact gen_table_ok. Qed.
Print Assumptions C07_table_ok.

Theorem C07_rows_ok :
  forall r, In r rows -> known_row r = false -> row_ok gen_table (ref_types type_defs) DT r = true.
Proof. exact gen_rows_ok. Qed.
Print Assumptions C07_rows_ok.

(* the per-row check contains Th 1 and Th 2 *)
Theorem C07_row_ok_contains_th1_th2 :
  forall tb S D r, row_ok tb S D r = true ->
    (carries_ref_in S r = true -> effective_t tb r = Remapped (appropriate r)) /\
    (carries_ref_in S r = false -> effective_t tb r = Copied).
Proof. exact row_ok_contains_th1_th2. Qed.
Print Assumptions C07_row_ok_contains_th1_th2.

(* Th 6 for the regenerated table, any type `.remap…` may be called on *)
Theorem C07_remap_val_spec :
  forall (R : remapper) (ctx : option str) (T : rty) (v : val),
    deleg_ok gen_table (ref_types type_defs) T = true ->
    has_ty type_defs T v = true ->
    clean gen_table known_row v = true ->
    remap_val gen_table R ctx T v = spec_remap_val type_defs R ctx T v.
Proof. exact remap_val_spec. Qed.
Print Assumptions C07_remap_val_spec.

(* … and for whole classes *)
Theorem C07_remap_class_spec :
  forall (R : remapper) (ctx : option str) (v : val),
    has_ty type_defs (TName "ClassFile") v = true ->
    clean gen_table known_row v = true ->
    remap_val gen_table R ctx (TName "ClassFile") v = spec_remap_val type_defs R ctx (TName "ClassFile") v.
Proof. exact remap_class_spec. Qed.
Print Assumptions C07_remap_class_spec.

(* projections: the shape of the tree (constructors, struct / variant / field names, list lengths —
   the instruction list entry by entry) and every opaque leaf (flags, constants, line numbers, labels)
   come out as they went in *)
Theorem C07_shape_and_opaque_leaves_preserved :
  forall (R : remapper) (ctx : option str) (T : rty) (v v' : val),
    deleg_ok gen_table (ref_types type_defs) T = true ->
    has_ty type_defs T v = true ->
    clean gen_table known_row v = true ->
    remap_val gen_table R ctx T v = Ok v' ->
    same_shape v v' = true /\ opaques v' = opaques v.
Proof. exact remap_val_shape. Qed.
Print Assumptions C07_shape_and_opaque_leaves_preserved.

(* the specification itself never changes a shape, for any type definitions *)
Theorem C07_spec_preserves_shape :
  forall defs S R v T ctx v', spec_val defs S R ctx T v = Ok v' -> same_shape v v' = true.
Proof. exact spec_val_shape. Qed.
Print Assumptions C07_spec_preserves_shape.

(* a value of a type that carries no reference is unchanged *)
Theorem C07_nonref_unchanged :
  forall (R : remapper) (ctx : option str) (T : rty) (v : val),
    deleg_ok gen_table (ref_types type_defs) T = true ->
    has_ty type_defs T v = true ->
    clean gen_table known_row v = true ->
    carries_ref_ty type_defs T = false ->
    remap_val gen_table R ctx T v = Ok v.
Proof. exact remap_val_nonref. Qed.
Print Assumptions C07_nonref_unchanged.

(* no type argument of a generic tree type carries a reference (the interpreter and the specification
   both leave a field of the parameter type alone) *)
Theorem C07_targs_carry_no_refs : targs_carry_no_refs.
Proof. exact targs_carry_no_refs_holds. Qed.
Print Assumptions C07_targs_carry_no_refs.

(* non-vacuity: a concrete class, renamed as expected by interpreter and specification *)
Theorem C07_tree_example : tree_example.
Proof. exact tree_example_holds. Qed.
Print Assumptions C07_tree_example.

(* Th 6 without the [clean] hypothesis: no row is recorded as a known finding today, so EVERY well-typed
   class comes out of the interpreter of the regenerated table as the specification demands *)
Theorem C07_remap_class_spec_full :
  forall (R : remapper) (ctx : option str) (v : val),
    has_ty type_defs (TName "ClassFile") v = true ->
    remap_val gen_table R ctx (TName "ClassFile") v = spec_remap_val type_defs R ctx (TName "ClassFile") v.
Proof. exact remap_class_spec_full. Qed.
Print Assumptions C07_remap_class_spec_full.

Theorem C07_remap_val_spec_full :
  forall (R : remapper) (ctx : option str) (T : rty) (v : val),
    deleg_ok gen_table (ref_types type_defs) T = true ->
    has_ty type_defs T v = true ->
    remap_val gen_table R ctx T v = spec_remap_val type_defs R ctx T v.
Proof. exact remap_val_spec_full. Qed.
Print Assumptions C07_remap_val_spec_full.

Theorem C07_shape_and_opaque_leaves_preserved_full :
  forall (R : remapper) (ctx : option str) (T : rty) (v v' : val),
    deleg_ok gen_table (ref_types type_defs) T = true ->
    has_ty type_defs T v = true ->
    remap_val gen_table R ctx T v = Ok v' ->
    same_shape v v' = true /\ opaques v' = opaques v.
Proof. exact remap_val_shape_full. Qed.
Print Assumptions C07_shape_and_opaque_leaves_preserved_full.
