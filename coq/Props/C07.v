(* C07 — property theorems only.  Each is closed by [exact <lemma>] and followed by
   Print Assumptions; the statements are pinned here so they cannot be quietly weakened.

   [rows], [impls], [type_defs], [class_suffix] are C07/RemapTable.v, REGENERATED on every run from
   dukebox/src/remap.rs and duke/src/tree by translate/c07_remap_table.py: the finite theorems below
   are re-proved against the current source each time.  [carries_ref], [appropriate], [known_row]
   are the hand-written specification C07/Spec.v. *)
From Coq Require Import String.
From FB Require Import C07.Model C07.Spec C07.Theory C07.WithC06.

(* Th 1: every position that carries a class / field / method reference is rebuilt with the
   remapper method appropriate for it (outside the rows recorded as known findings) *)
Theorem C07_every_ref_remapped :
  forall r, In r rows -> known_row r = false -> carries_ref type_defs r = true ->
            effective r = Remapped (appropriate r).
Proof. exact every_ref_remapped. Qed.
Print Assumptions C07_every_ref_remapped.

Theorem C07_every_ref_has_a_rule :
  forall r, In r rows -> carries_ref type_defs r = true -> appropriate r <> MUnspecified.
Proof. exact every_ref_has_a_rule. Qed.
Print Assumptions C07_every_ref_has_a_rule.

(* Th 2: every other position is copied *)
Theorem C07_nothing_else_changes :
  forall r, In r rows -> known_row r = false -> carries_ref type_defs r = false -> effective r = Copied.
Proof. exact nothing_else_changes. Qed.
Print Assumptions C07_nothing_else_changes.

(* the known findings are real: on those rows the unrestricted statements
   [every_ref_remapped_full] / [nothing_else_changes_full] (C07/Theory.v, not proved) fail *)
Theorem C07_every_ref_remapped_refuted :
  exists r, In r rows /\ known_row r = true /\ carries_ref type_defs r = true /\
            effective r <> Remapped (appropriate r).
Proof. exact every_ref_remapped_refuted. Qed.
Print Assumptions C07_every_ref_remapped_refuted.

Theorem C07_nothing_else_changes_refuted :
  exists r, In r rows /\ known_row r = true /\ carries_ref type_defs r = false /\ effective r <> Copied.
Proof. exact nothing_else_changes_refuted. Qed.
Print Assumptions C07_nothing_else_changes_refuted.

(* the table describes every field of every rebuilt type of duke's tree, and only those *)
Theorem C07_table_covers_definitions : table_covers_definitions.
Proof. exact table_covers_definitions_holds. Qed.
Print Assumptions C07_table_covers_definitions.

(* the closure "containers of reference carriers carry references" reached its fixpoint *)
Theorem C07_ref_types_closed : ref_types_closed.
Proof. exact ref_types_closed_holds. Qed.
Print Assumptions C07_ref_types_closed.

(* Th 3: declared fields / methods are mapped with their declaring class, member references with
   the owner they name (table: who hands which class name down; model: which owner is asked) *)
Theorem C07_member_refs_use_owner : owner_flow /\ member_owner_stmt.
Proof. exact (conj owner_flow_table member_owner). Qed.
Print Assumptions C07_member_refs_use_owner.

(* Th 4: entry names *)
Theorem C07_entry_name_spec :
  forall R name,
    (forall base, name = base ++ dot_class ->
                  entry_name R name = match map_class R base with Ok n => Ok (n ++ dot_class) | Err => Err end) /\
    ((forall base, name <> base ++ dot_class) -> entry_name R name = Ok name).
Proof. exact entry_name_spec. Qed.
Print Assumptions C07_entry_name_spec.

Theorem C07_class_suffix : class_suffix = dot_class.
Proof. exact class_suffix_is_dot_class. Qed.
Print Assumptions C07_class_suffix.

(* Th 5: the name chosen for a reference is what the remapper answers *)
Theorem C07_answers : answers_stmt.
Proof. exact answers. Qed.
Print Assumptions C07_answers.

(* the entry loop: without colliding names the remapped jar lists the entries in input order under
   their remapped names; an error in any name or content fails the call *)
Theorem C07_entries_in_order :
  forall (A B : Type) (R : remapper) (f : str -> A -> res B) (es : list (str * A)) (l : list (str * B)),
    entries_spec R f es = Ok l -> NoDup (map fst l) -> remap_entries R f es = Ok l.
Proof. exact entries_in_order. Qed.
Print Assumptions C07_entries_in_order.

Theorem C07_entries_err :
  forall (A B : Type) (R : remapper) (f : str -> A -> res B) (es : list (str * A)),
    entries_spec R f es = Err -> remap_entries R f es = Err.
Proof. exact entries_err. Qed.
Print Assumptions C07_entries_err.

(* Th 5, composed with C06: for quill's own remapper (C06's model of BRemapperImpl over a mapping
   tree and a super-class provider) a jar position becomes: the class row's name; the descriptor
   with every class name mapped, type by type; for a member, the row of the first type in the
   depth-first pre-order of the owner's super types that declares it, else the old name with the
   descriptor rewritten *)
Theorem C07_composes_with_C06 : c06_positions.
Proof. exact c06_positions_hold. Qed.
Print Assumptions C07_composes_with_C06.

(* non-vacuity *)
Theorem C07_examples : nonvacuous.
Proof. exact nonvacuous_holds. Qed.
Print Assumptions C07_examples.
