(* C02 — property theorems only.  Each is closed by [exact <lemma>] and followed by
   Print Assumptions; the statements are pinned here so they cannot be quietly weakened. *)
From FB Require Import C02.Model C02.Encode C02.Theory1.

(* The attempt loop of write_code needs at most (number of instructions + 1) attempts:
   every restart adds an instruction index that was not yet in the wide set. *)
Theorem C02_write_terminates : forall b last, wc_loop (S (length b)) [] b last <> None.
Proof. exact write_terminates. Qed.
Print Assumptions C02_write_terminates.

Theorem C02_write_code_terminates : forall hasmax b last tb, write_code hasmax b last tb <> None.
Proof. exact write_code_terminates. Qed.
Print Assumptions C02_write_code_terminates.

(* a restart names an instruction inside the body that is not yet written wide *)
Theorem C02_restart_fresh : forall W b last i,
  attempt W b last = ARestart i -> memN i W = false /\ (i < N.of_nat (length b))%N.
Proof. exact attempt_restart. Qed.
Print Assumptions C02_restart_fresh.
