(* C02 — property theorems only.  Each is closed by [exact <lemma>] and followed by
   Print Assumptions; the statements are pinned here so they cannot be quietly weakened. *)
From FB Require Import C02.Model C02.Encode C02.Theory1 C02.Theory2 C02.Theory3 C02.Theory4 C02.Theory5
  C02.Theory6 C02.Theory7 C02.Theory8 C02.Theory9 C02.Frames C02.TheoryF C02.Gen
  C02.Class C02.Decode C02.Facts C02.TheoryC1 C02.TheoryC2 C02.TheoryC3 C02.TheoryC4 C02.TheoryC5 C02.TheoryC6 C02.TheoryC7 C02.TheoryC8 C02.TheoryC9 C02.TheoryC10 C02.TheoryC11 C02.TheoryG C02.Expand C02.TheoryE C02.TheoryD C02.TheoryB1 C02.TheoryB2 C02.TheoryR C02.TheoryT C02.TheoryI C02.TheoryU C02.TheoryS C02.TheoryK C02.TheoryL C02.TheoryW.
From FB Require C18.Model.
Local Open Scope Z_scope.

(* ---------- termination of the branch-offset fixpoint ---------- *)
(* The attempt loop of write_code needs at most (number of instructions + 1) attempts:
   every restart adds an instruction index that was not yet in the wide set. *)
Theorem C02_write_terminates : forall b last, wc_loop (S (length b)) [] b last <> None.
Proof. exact write_terminates. Qed.
Print Assumptions C02_write_terminates.

Theorem C02_write_code_terminates : forall hasmax b last tb, write_code hasmax b last tb <> None.
Proof. exact write_code_terminates. Qed.
Print Assumptions C02_write_code_terminates.

Theorem C02_restart_fresh : forall W b last i,
  attempt W b last = ARestart i -> memN i W = false /\ (i < N.of_nat (length b))%N.
Proof. exact attempt_restart. Qed.
Print Assumptions C02_restart_fresh.

(* ---------- a successful output is an admissible encoding ---------- *)
(* For the forms [chs] the writer ends up with (chs_run: a resolved reference by its true
   offset, an unresolved one by membership in the final wide set W) the written code array is
   exactly the general position-dependent encoding of the body, with every label designating
   the position the layout itself assigns to the instruction that carries it; every narrow
   offset fits 16 bits, every wide one 32 bits, switches are well formed, 0 < length <= 65535. *)
Theorem C02_write_is_encode : forall b last w labs W,
  unique_labels b last ->
  wc_loop (S (length b)) [] b last = Some (OK (w, labs, W)) ->
  let chs := chs_run W 0%N 0 [] b in
  let L := labpos chs 0 b last in
  length chs = length b /\
  encode chs L 0 b = Some w /\
  admissible chs L 0 b = true /\
  (forall l, lget labs l = L l) /\
  zlen w = endpos chs 0 b /\ 0 < endpos chs 0 b <= 65535.
Proof. exact write_is_encode. Qed.
Print Assumptions C02_write_is_encode.

(* ---------- every branch / switch arm designates the same instruction ---------- *)
(* Decoding the written bytes with a decoder that sees only bytes, at the position of the k-th
   instruction of the tree, yields the label-free meaning of that instruction: each target is
   the position of the instruction carrying the target label; a far conditional decodes as the
   inverted condition jumping over an 8-byte trampoline whose goto_w has the target. *)
Theorem C02_targets_preserved : forall b last w labs W k lb e c q,
  unique_labels b last -> body_ok b = true ->
  wc_loop (S (length b)) [] b last = Some (OK (w, labs, W)) ->
  let chs := chs_run W 0%N 0 [] b in
  let L := labpos chs 0 b last in
  nth_error b k = Some (lb, e) -> nth_error chs k = Some c -> nth_error (positions chs 0 b) k = Some q ->
  exists ex, expected c L q e = Some ex /\ forall q' d, In (q', d) ex -> decode_at w q' = d.
Proof. exact targets_preserved_nth. Qed.
Print Assumptions C02_targets_preserved.

(* the index embedding: a label position is the position of the instruction that carries the
   label, or the end of the code for the last label *)
Theorem C02_label_positions : forall b chs p last l t,
  length chs = length b ->
  labpos chs p b last l = Some t ->
  (exists k e, nth_error b k = Some (Some l, e) /\ nth_error (positions chs p b) k = Some t)
  \/ (last = Some l /\ t = endpos chs p b).
Proof. exact labpos_positions. Qed.
Print Assumptions C02_label_positions.

(* exception ranges, line numbers, local-variable ranges, type-annotation targets: every pc
   written is the position of the labelled instruction in the same layout *)
Theorem C02_tables_resolve : forall hasmax b last tb w W rt,
  unique_labels b last ->
  write_code hasmax b last tb = Some (OK (w, W, rt)) ->
  let chs := chs_run W 0%N 0 [] b in
  let L := labpos chs 0 b last in
  mapO (L3 L) (t_exc tb) = Some (r_exc rt) /\
  mapO L (t_offs tb) = Some (r_offs rt) /\
  mapO (Lrange L) (t_ranges tb) = Some (r_ranges rt).
Proof. exact tables_resolve. Qed.
Print Assumptions C02_tables_resolve.

(* ---------- failing cleanly ---------- *)
(* never a panic; an error only for a stated cause at the final wide set: malformed switch,
   a referenced label on no instruction, empty code, or code larger than 65535 bytes; and a
   success has none of these causes *)
Theorem C02_write_fails_cleanly : forall b last,
  unique_labels b last -> spans_ok b = true ->
  match wc_loop (S (length b)) [] b last with
  | Some (OK (w, labs, W)) => ~ cause W b last
  | Some ERR => exists W, attempt W b last = AErr /\ cause W b last
  | Some PANIC => False
  | None => False
  end.
Proof. exact write_fails_cleanly. Qed.
Print Assumptions C02_write_fails_cleanly.

Theorem C02_write_code_no_panic : forall hasmax b last tb,
  unique_labels b last -> spans_ok b = true -> ranges_ok b last tb = true ->
  write_code hasmax b last tb <> Some PANIC.
Proof. exact write_code_no_panic. Qed.
Print Assumptions C02_write_code_no_panic.

(* ---------- the writer's constant pool ---------- *)
Theorem C02_pool_new : PInv pool_new.
Proof. exact pool_new_inv. Qed.
Print Assumptions C02_pool_new.

(* put returns an index that resolves to the entry, preserves every earlier index, stays
   within 1 .. count-1 <= 65534, and keeps the invariant *)
Theorem C02_pool_put : forall p e p' i,
  PInv p -> pool_put p e = Ok (p', i) ->
  PInv p' /\ pool_resolve p' i = Some e /\
  (forall j x, pool_resolve p j = Some x -> pool_resolve p' j = Some x) /\
  1 <= i < p_count p' /\ p_count p' <= 65535.
Proof. exact pool_put_spec. Qed.
Print Assumptions C02_pool_put.

(* constant_pool_count = 1 + slots, Long/Double taking two *)
Theorem C02_pool_count : forall p, PInv p -> p_count p = 1 + total (rev (p_inner p)).
Proof. exact pool_count. Qed.
Print Assumptions C02_pool_count.

Theorem C02_pool_no_dup : forall p i j e,
  PInv p -> pool_resolve p i = Some e -> pool_resolve p j = Some e -> i = j.
Proof. exact pool_no_dup. Qed.
Print Assumptions C02_pool_no_dup.

Theorem C02_pool_put_idem : forall p e p' i, PInv p -> pool_put p e = Ok (p', i) -> pool_put p' e = Ok (p', i).
Proof. exact pool_put_idem. Qed.
Print Assumptions C02_pool_put_idem.

Theorem C02_ldc_threshold : forall idx,
  (ldc_choose false idx = LDC idx <-> idx <= 255) /\ ldc_choose true idx = LDC2_W idx.
Proof. exact ldc_threshold. Qed.
Print Assumptions C02_ldc_threshold.

(* the BootstrapMethods table: de-duplicated, index = position, earlier indices preserved *)
Theorem C02_bsm_new : BInv bsm_new.
Proof. exact bsm_new_inv. Qed.
Print Assumptions C02_bsm_new.

Theorem C02_bsm_put : forall t e t' i,
  BInv t -> bsm_put t e = Ok (t', i) ->
  BInv t' /\ bsm_get t' i = Some e /\
  (forall j x, bsm_get t j = Some x -> bsm_get t' j = Some x) /\
  0 <= i < zlen (b_inner t') /\ i <= 65535.
Proof. exact bsm_put_spec. Qed.
Print Assumptions C02_bsm_put.

(* ---------- length fields ---------- *)
Theorem C02_attribute_length_exact : forall name_index body bs pre post,
  write_attribute name_index body = Ok bs ->
  bs = be16 name_index ++ be32 (zlen body) ++ body /\
  u32_at (pre ++ bs ++ post) (zlen pre + 2) = zlen body /\
  zlen bs = 6 + zlen body.
Proof. exact attribute_length_exact. Qed.
Print Assumptions C02_attribute_length_exact.

Theorem C02_count16_exact : forall elems bs pre post,
  write_slice16 elems = Ok bs ->
  u16_at (pre ++ bs ++ post) (zlen pre) = zlen elems /\ bs = be16 (zlen elems) ++ concat elems.
Proof. exact count16_exact. Qed.
Print Assumptions C02_count16_exact.

Theorem C02_code_length_exact : forall code pre post,
  zlen code <= 65535 -> u32_at (pre ++ frame_code code ++ post) (zlen pre) = zlen code.
Proof. exact code_length_exact. Qed.
Print Assumptions C02_code_length_exact.

(* the call sites of write_attribute_fix_length in the current source (regenerated) *)
Theorem C02_fix_lengths_exact :
  forallb (fun s => snd (fst s) =? sumZ (snd s)) fix_length_sites = true.
Proof. exact fix_lengths_exact. Qed.
Print Assumptions C02_fix_lengths_exact.

(* the call sites of if_helper / goto_helper in the current source (regenerated) *)
Theorem C02_helper_sites_ok :
  forallb (fun p => kind_ok (KCond (fst p) (snd p))) if_sites = true /\
  forallb (fun p => kind_ok (KJump (fst p) (snd p))) jump_sites = true /\
  length if_sites = 16%nat /\ length jump_sites = 2%nat.
Proof. exact helper_sites_ok. Qed.
Print Assumptions C02_helper_sites_ok.

Theorem C02_model_constants_match_source :
  GOTO_W = src_GOTO_W /\ TABLESWITCH = src_TABLESWITCH /\ LOOKUPSWITCH = src_LOOKUPSWITCH /\
  src_tramp_skip = 8 /\ src_LDC = 18%N /\ src_LDC_W = 19%N /\ src_LDC2_W = 20%N.
Proof. exact model_constants_match_source. Qed.
Print Assumptions C02_model_constants_match_source.

(* ---------- stack map frames (written since "fix: class writer writes the StackMapTable attribute") ---------- *)
(* A successful write of a method whose tree carries frames emits a StackMapTable whose body,
   decoded by a byte-only decoder that follows the reader (frame types 0..63, 64..127, 247, 248..250,
   251, 252..254, 255; verification types 0..8; offset = previous + delta + 1), yields exactly the
   frames of the tree, in the form the tree holds them, each at the position of the instruction
   that carries it in the written layout, with Uninitialized(label) at the position the layout
   gives the label; no frames <=> no attribute; the rest of the method is what write_code gives. *)
Theorem C02_frames_written : forall hasmax b last tb fs w W rt sm,
  unique_labels b last -> frames_ok fs = true -> length fs = length b ->
  write_code_f hasmax b last tb fs = Some (OK (w, W, rt, sm)) ->
  let chs := chs_run W 0%N 0 [] b in
  let L := labpos chs 0 b last in
  write_code hasmax b last tb = Some (OK (w, W, rt)) /\
  match sm with
  | None => has_frames fs = false
  | Some bs => has_frames fs = true /\
      exists ds, tree_frames L (positions chs 0 b) fs = Some ds /\ dec_stack_map bs = Some ds
  end.
Proof. exact frames_written. Qed.
Print Assumptions C02_frames_written.

(* the table alone: for every label map with u16 positions and every list of frames at u16 offsets *)
Theorem C02_stack_map_roundtrip : forall labs frs bs,
  lbounded labs ->
  forallb (fun pf => sframe_ok (snd pf)) frs = true ->
  Forall (fun pf => 0 <= fst pf <= 65535) frs ->
  emit_stack_map labs frs = OK bs ->
  exists ds, tframes (lget labs) frs = Some ds /\ dec_stack_map bs = Some ds.
Proof. exact emit_stack_map_dec. Qed.
Print Assumptions C02_stack_map_roundtrip.

Theorem C02_write_code_f_terminates : forall hasmax b last tb fs, write_code_f hasmax b last tb fs <> None.
Proof. exact write_code_f_terminates. Qed.
Print Assumptions C02_write_code_f_terminates.

Theorem C02_write_code_f_no_panic : forall hasmax b last tb fs,
  unique_labels b last -> spans_ok b = true -> ranges_ok b last tb = true ->
  write_code_f hasmax b last tb fs <> Some PANIC.
Proof. exact write_code_f_no_panic. Qed.
Print Assumptions C02_write_code_f_no_panic.

Theorem C02_frames_example :
  unique_labels exf_body None /\ frames_ok exf_frames = true /\
  exists w W rt bs, write_code_f true exf_body None exf_tables exf_frames = Some (OK (w, W, rt, Some bs)) /\
    bs = [0; 3;  0;  253; 0; 5; 7; 0; 9; 8; 0; 0;  255; 0; 0; 0; 1; 1; 0; 2; 4; 7; 0; 12]%N /\
    dec_stack_map bs = Some [(0, DSame); (6, DAppend [DObject 9; DUninit 0]); (7, DFull [DSimple 1] [DSimple 4; DObject 12])].
Proof. exact frames_example. Qed.
Print Assumptions C02_frames_example.

(* ---------- expand: the long form of a conditional as an explicit pair of instructions ---------- *)
(* expand chs b fresh replaces every conditional that has the long form under chs by three entries: the
   inverted conditional with a fresh label as target, goto_w to the original target, and a zero-length
   entry that carries the fresh label.  The expanded body, under forms in which no conditional is long,
   and with the label positions of its own layout, encodes to the same bytes; the labels of the tree keep
   their positions. *)
Theorem C02_expand_is_encode : forall b last chs fresh w,
  below fresh b last = true ->
  encode chs (labpos chs 0 b last) 0 b = Some w ->
  let b' := fst (expand chs b fresh) in
  let c' := snd (expand chs b fresh) in
  let L' := labpos c' 0 b' last in
  encode c' L' 0 b' = Some w /\
  (forall l, (l < fresh)%N -> L' l = labpos chs 0 b last l) /\
  (forall k lb op inv l, nth_error b' k = Some (lb, Br (KCond op inv) l) -> nth_error c' k = Some false).
Proof. exact expand_is_encode. Qed.
Print Assumptions C02_expand_is_encode.

(* write_is_encode with body' = expand W body: what write_code emits is the encoding of the expanded body *)
Theorem C02_write_is_encode_expanded : forall b last w labs W fresh,
  unique_labels b last -> below fresh b last = true ->
  wc_loop (S (length b)) [] b last = Some (OK (w, labs, W)) ->
  let chs := chs_run W 0%N 0 [] b in
  let b' := fst (expand chs b fresh) in
  let c' := snd (expand chs b fresh) in
  let L' := labpos c' 0 b' last in
  encode c' L' 0 b' = Some w /\
  (forall l, (l < fresh)%N -> L' l = lget labs l) /\
  (forall k lb op inv l, nth_error b' k = Some (lb, Br (KCond op inv) l) -> nth_error c' k = Some false).
Proof. exact write_is_encode_expanded. Qed.
Print Assumptions C02_write_is_encode_expanded.

Theorem C02_expand_example :
  below 10%N exe_body None = true /\
  expand [true; false; false] exe_body 10%N =
    ([(Some 1%N, Br (KCond 154 153) 10%N); (None, Br (KJump 167 200) 2%N); (Some 10%N, Plain []); (None, Plain [0]%N); (Some 2%N, Plain [177]%N)],
     [false; true; false; false; false]) /\
  encode [true; false; false] (labpos [true; false; false] 0 exe_body None) 0 exe_body = Some [154; 0; 8; 200; 0; 0; 0; 6; 0; 177]%N /\
  encode [false; true; false; false; false]
    (labpos [false; true; false; false; false] 0 (fst (expand [true; false; false] exe_body 10%N)) None) 0
    (fst (expand [true; false; false] exe_body 10%N)) = Some [154; 0; 8; 200; 0; 0; 0; 6; 0; 177]%N.
Proof. exact expand_example. Qed.
Print Assumptions C02_expand_example.

(* ---------- the whole class ---------- *)
(* write_class_aux (C02/Class.v) is the model of duke::write_class: magic, version, the pool (emitted
   last by the code, first in the file), access / this / super / interfaces, fields, methods and every
   attribute writer.  parse_class (C02/Decode.v) is an independent decoder of the JVMS layout that fails
   on any index that is out of range or designates an entry of the wrong kind, on any attribute whose
   length field differs from the bytes its content takes, on any unknown tag and on trailing bytes.
   For every tree that satisfies the decidable well-formedness cclass_ok (u16 / u8 / i32 / i64 ranges of
   the numeric fields, element-value tags matching their constants, type-annotation targets legal for
   their location, unknown-attribute names not predefined at their location, labels unique per method):
   if writing succeeds, the decoder accepts the file and returns exactly the facts of the tree
   (facts_of: header, members, and per location the attributes with every reference spelled out;
   positions in code are the offsets the written layout gives the labels; the code array is the one
   C02_write_is_encode / C02_targets_preserved speak about). *)
Theorem C02_write_class_decodes : forall t bs aux,
  cclass_ok t = true -> write_class_aux t = WOK (bs, aux) ->
  exists d, facts_of t aux = Some d /\ parse_class bs = Some d.
Proof. exact write_class_decodes. Qed.
Print Assumptions C02_write_class_decodes.

(* the constant pool as written: the decoder parses it entry by entry and sees, at every index the
   writer handed out, the entry that was put there *)
Theorem C02_pool_written_parses : forall p pb,
  PInv p -> Forall made (p_inner p) -> pool_bytes p = Ok pb ->
  exists c, agrees p c /\ forall rest, parse_pool (pb ++ rest) = Some (c, rest).
Proof. exact pool_bytes_ok. Qed.
Print Assumptions C02_pool_written_parses.

(* "of the right kind": the index a put returns resolves, through the decoder's kind-checked getter,
   in every later pool, to what was put (shown here for classes, member references and method handles;
   the other kinds are in C02/TheoryC2.v) *)
Theorem C02_put_class_refers : forall n, wspec (put_class n) (refers get_class n).
Proof. exact put_class_spec. Qed.
Print Assumptions C02_put_class_refers.
Theorem C02_put_methodref_refers : forall r, wspec (put_methodref r) (refers get_methodref r).
Proof. exact put_methodref_spec. Qed.
Print Assumptions C02_put_methodref_refers.
Theorem C02_put_handle_refers : forall h, handle_ok h = true -> wspec (put_handle h) (refers get_handle h).
Proof. exact put_handle_spec. Qed.
Print Assumptions C02_put_handle_refers.

(* the Code attribute alone (any state of the pool that satisfies the invariant) *)
Theorem C02_code_attribute_decodes : forall c, ccode_ok c = true ->
  wspec (write_code_attr c) (fun p r => exists d, fa_code c (snd r) = Some d /\ decodes p_code d p (fst r)).
Proof. exact write_code_attr_spec. Qed.
Print Assumptions C02_code_attribute_decodes.

(* the pool operands inside the code array: at the position of every instruction that carries a
   constant, the written code array holds the instruction's bytes with an index that designates the
   constant (class, field / method / interface-method reference with class, name and descriptor, the
   loadable of an ldc in the form the index demands; for invokedynamic and dynamic constants the
   entry, its name and type) — in the final pool and for every decoder view that agrees with it *)
Theorem C02_code_operands_resolve : forall c, ccode_ok c = true ->
  wspec (write_code_attr c) (fun p r => Forall2 (fun i q => operand_ok p (fst (fst (snd r))) q (snd i)) (c_insns c) (snd (snd r))).
Proof. exact code_operands_resolve. Qed.
Print Assumptions C02_code_operands_resolve.

(* writing succeeds or fails cleanly: the model of the whole writer never answers PANIC.  cclass_np
   (decidable): every tableswitch span fits i32 and, per method, the start label of every local-variable
   range (LocalVariableTable, LocalVariableTypeTable, localvar type-annotation targets) is not after its
   end label — the two places where the Rust code computes on i32 / u16 without a check *)
Theorem C02_write_class_no_panic : forall t, cclass_ok t = true -> cclass_np t = true -> write_class t <> PANIC.
Proof. exact write_class_no_panic. Qed.
Print Assumptions C02_write_class_no_panic.

Theorem C02_class_example :
  cclass_ok ex_class = true /\
  exists bs aux d, write_class_aux ex_class = WOK (bs, aux) /\ facts_of ex_class aux = Some d /\ parse_class bs = Some d /\
                   zlen bs = 567 /\ length (d_attrs d) = 5%nat /\ a_bsm aux = [(ex_handle, [19; 4])].
Proof. exact class_example. Qed.
Print Assumptions C02_class_example.

(* ---------- the whole-class model against the tables regenerated from the source ---------- *)
(* per writer function: the attributes in source order with their framing, as the model writes them *)
Theorem C02_attr_sites_match :
  attr_sites_of [119;114;105;116;101]%N = model_attrs_write /\
  attr_sites_of [119;114;105;116;101;95;102;105;101;108;100]%N = model_attrs_write_field /\
  attr_sites_of [119;114;105;116;101;95;109;101;116;104;111;100]%N = model_attrs_write_method /\
  attr_sites_of [119;114;105;116;101;95;99;111;100;101]%N = model_attrs_write_code /\
  attr_sites_of [119;114;105;116;101;95;114;101;99;111;114;100;95;99;111;109;112;111;110;101;110;116]%N = model_attrs_write_record_component.
Proof. exact attr_sites_match. Qed.
Print Assumptions C02_attr_sites_match.

Theorem C02_attr_sites_covered :
  length attr_use_sites = (length model_attrs_write + length model_attrs_write_field + length model_attrs_write_method + length model_attrs_write_code + length model_attrs_write_record_component)%nat.
Proof. exact attr_sites_covered. Qed.
Print Assumptions C02_attr_sites_covered.

Theorem C02_pool_tags_match :
  map (fun c => hd 0%N (centry_bytes c))
    [CUtf8 []; CInteger 0; CFloat 0; CLong 0; CDouble 0; CClass 0; CString 0; CFieldRef 0 0; CMethodRef 0 0; CIMethodRef 0 0;
     CNameAndType 0 0; CMethodHandle 0 0; CMethodType 0; CDynamic 0 0; CInvokeDynamic 0 0; CModule 0; CPackage 0] = src_pool_tags
  /\ MAGIC = be32 src_MAGIC.
Proof. exact pool_tags_match. Qed.
Print Assumptions C02_pool_tags_match.

Theorem C02_put_sites_match :
  sites_of [119;114;105;116;101]%N put_sites = model_puts_write /\
  sites_of [119;114;105;116;101;95;102;105;101;108;100]%N put_sites = model_puts_write_field /\
  sites_of [119;114;105;116;101;95;109;101;116;104;111;100]%N put_sites = model_puts_write_method /\
  sites_of [119;114;105;116;101;95;114;101;99;111;114;100;95;99;111;109;112;111;110;101;110;116]%N put_sites = model_puts_write_record_component /\
  sites_of [119;114;105;116;101;95;109;111;100;117;108;101]%N put_sites = model_puts_write_module /\
  sites_of [119;114;105;116;101;95;101;108;101;109;101;110;116;95;118;97;108;117;101;95;117;110;110;97;109;101;100]%N put_sites = model_puts_write_element_value_unnamed /\
  sites_of [119;114;105;116;101;95;118;101;114;105;102;105;99;97;116;105;111;110;95;116;121;112;101;95;105;110;102;111]%N put_sites = model_puts_write_verification_type_info /\
  sites_of [119;114;105;116;101;95;97;116;116;114;105;98;117;116;101]%N put_sites = model_puts_write_attribute /\
  sites_of [119;114;105;116;101;95;97;116;116;114;105;98;117;116;101;95;102;105;120;95;108;101;110;103;116;104]%N put_sites = model_puts_write_attribute_fix_length /\
  sites_of [119;114;105;116;101;95;97;110;110;111;116;97;116;105;111;110;115;95;97;116;116;114;105;98;117;116;101]%N put_sites = model_puts_write_annotations_attribute /\
  sites_of [119;114;105;116;101;95;101;108;101;109;101;110;116;95;118;97;108;117;101;115;95;110;97;109;101;100]%N put_sites = model_puts_write_element_values_named /\
  sites_of [119;114;105;116;101;95;116;121;112;101;95;97;110;110;111;116;97;116;105;111;110;115;95;97;116;116;114;105;98;117;116;101]%N put_sites = model_puts_write_type_annotations_attribute /\
  sites_of [119;114;105;116;101;95;116;121;112;101;95;97;110;110;111;116;97;116;105;111;110;115;95;97;116;116;114;105;98;117;116;101;95;99;111;100;101]%N put_sites = model_puts_write_type_annotations_attribute_code.
Proof. exact put_sites_match. Qed.
Print Assumptions C02_put_sites_match.

(* ---------- non-vacuity ---------- *)
Theorem C02_examples : nonvacuous.
Proof. exact nonvacuous_holds. Qed.
Print Assumptions C02_examples.

Theorem C02_far_conditional_widens : far_check = true.
Proof. exact far_conditional_widens. Qed.
Print Assumptions C02_far_conditional_widens.

(* ---------- the count operand of invokeinterface ---------- *)
(* args_size (C02/Class.v) models MethodDescriptorSlice::get_arguments_size on the modified-UTF-8 bytes of
   the descriptor; lower_insn writes `185, index, count, 0` with count = args_size of the reference's descriptor.
   For every method descriptor of the JVMS 4.3.3 grammar (C18's parser accepts exactly that grammar:
   C18_method_parse_iff_grammar) the count is 1 + the argument slots of the parsed parameter list — long and
   double two, everything else, arrays of long / double included, one — and more than 255 is an error. *)
Theorem C02_invokeinterface_count : forall s ps rt,
  C18.Model.parse_method s = Ok (ps, rt) ->
  args_size (mutf8 s) =
    (if 255 <? 1 + fold_right (fun t a => (match t with C18.Model.TD | C18.Model.TJ => 2 | _ => 1 end) + a) 0 ps then Err
     else Ok (1 + fold_right (fun t a => (match t with C18.Model.TD | C18.Model.TJ => 2 | _ => 1 end) + a) 0 ps)).
Proof. exact invokeinterface_count. Qed.
Print Assumptions C02_invokeinterface_count.

(* the loop consumes at least one byte per iteration: the fuel of the model never runs out *)
Theorem C02_args_size_fuel : forall f1 f2 s z, (length s < f1)%nat -> (length s < f2)%nat -> args_loop f1 s z = args_loop f2 s z.
Proof. exact args_loop_fuel. Qed.
Print Assumptions C02_args_size_fuel.

Theorem C02_args_size_range : forall desc n, args_size desc = Ok n -> 1 <= n <= 255.
Proof. exact args_size_range. Qed.
Print Assumptions C02_args_size_range.

(* in the written code array: at the position of every invokeinterface the bytes are 185, an index that
   designates the InterfaceMethodref of the instruction, the count computed from its descriptor, 0 *)
Theorem C02_invokeinterface_written : forall c, ccode_ok c = true ->
  wspec (write_code_attr c) (fun p r => Forall2 (fun i q =>
    match snd i with
    | IIface mr => exists x n, bytes_at (fst (fst (snd r))) q (185%N :: be16 x ++ [byte_of n; 0%N]) /\
                               refers get_imethodref mr p x /\ args_size (mr_desc mr) = Ok n
    | _ => True
    end) (c_insns c) (snd (snd r))).
Proof. exact invokeinterface_written. Qed.
Print Assumptions C02_invokeinterface_written.

Theorem C02_args_size_examples :
  args_size (mutf8 d_arrJ) = Ok 2 /\ C18.Model.parse_method d_arrJ = Ok ([C18.Model.TArr 1 C18.Model.AJ], None) /\
  args_size (mutf8 d_mixed) = Ok 6 /\
  args_size (mutf8 d_test) = Ok 5 /\
  C18.Model.parse_method d_test = Ok ([C18.Model.TI; C18.Model.TD; C18.Model.TObj [106; 47; 84]%N], Some (C18.Model.TObj [106; 47; 79]%N)) /\
  args_size (mutf8 (d_n 254 73%N)) = Ok 255 /\ args_size (mutf8 (d_n 255 73%N)) = Err /\
  args_size (mutf8 (d_n 127 74%N)) = Ok 255 /\ args_size (mutf8 (d_n 128 68%N)) = Err /\
  args_size [40; 41]%N = Ok 1 /\ args_size [] = Err /\ args_size [40; 73]%N = Err /\ args_size [40; 76; 97]%N = Err /\
  args_size [40; 195; 169; 41]%N = Ok 2 /\ args_size [40; 228; 184; 173; 41]%N = Ok 2 /\
  args_size [40; 237; 160; 189; 237; 184; 128; 41]%N = Ok 2.
Proof. exact args_size_examples. Qed.
Print Assumptions C02_args_size_examples.

(* ---------- the bootstrap-method table ---------- *)
(* put_bootstrap_method de-duplicates and only ever appends: whatever a writer does, an index of the table keeps
   its entry (and an index of the constant pool keeps its entry) — shown here for the three writers that can
   reach put_bootstrap_method and for a whole method *)
Theorem C02_bsm_only_grows :
  (forall e s i s', put_bsm_entry e s = WOK (i, s') ->
     0 <= i /\ nth_error (w_bsm s') (Z.to_nat i) = Some e /\ w_pool s' = w_pool s /\ exists r, w_bsm s' = w_bsm s ++ r) /\
  (forall l s i s', put_loadable l s = WOK (i, s') -> pool_ext (w_pool s) (w_pool s') /\ exists r, w_bsm s' = w_bsm s ++ r) /\
  (forall n d h a s i s', put_invoke_dynamic n d h a s = WOK (i, s') -> pool_ext (w_pool s) (w_pool s') /\ exists r, w_bsm s' = w_bsm s ++ r) /\
  (forall m s r s', write_method m s = WOK (r, s') -> pool_ext (w_pool s) (w_pool s') /\ exists r, w_bsm s' = w_bsm s ++ r).
Proof. exact bsm_only_grows. Qed.
Print Assumptions C02_bsm_only_grows.

(* what ldenotes says for a dynamic constant (the other loadables: loadable_refers of C02_code_operands_resolve):
   the index designates a CONSTANT_Dynamic entry (b, nt); nt resolves to the constant's name and descriptor; b is an
   index into the table whose entry is the constant's handle with argument indices that designate the constant's
   arguments, in order, recursively *)
Theorem C02_dynamic_denotes : forall p tbl n d h args x,
  ldenotes p tbl (LDynamic n d h args) x <->
  exists b nt idxs, resolves p x (CDynamic b nt) /\ refers get_nat (n, d) p nt /\
    0 <= b /\ nth_error tbl (Z.to_nat b) = Some (h, idxs) /\ Forall2 (ldenotes p tbl) args idxs.
Proof. exact ldenotes_dyn. Qed.
Print Assumptions C02_dynamic_denotes.

(* For every tree that satisfies cclass_ok: in the written class, at the position of every invokedynamic, the index
   operand designates a CONSTANT_InvokeDynamic entry (b, nt) of the written pool such that nt resolves to the
   instruction's name and descriptor and entry b of the written BootstrapMethods table is the instruction's handle with
   argument indices designating the instruction's arguments; the same for every ldc of a dynamic constant and,
   recursively, for dynamic constants among the arguments (a_pool aux is the pool that is written:
   C02_pool_written_parses; a_bsm aux is the table the decoder finds in the file: C02_bootstrap_table_written with
   C02_write_class_decodes) *)
Theorem C02_bootstrap_resolves : forall t bs aux,
  cclass_ok t = true -> write_class_aux t = WOK (bs, aux) ->
  Forall2 (fun m ca =>
    match md_code m, ca with
    | Some c, Some (w, labs, pos) =>
        Forall2 (fun i q =>
          match snd i with
          | ICp pre (KIndy n d h args) post =>
              exists x b nt idxs, bytes_at w q (pre ++ be16 x ++ post) /\ resolves (a_pool aux) x (CInvokeDynamic b nt) /\
                refers get_nat (n, d) (a_pool aux) nt /\ 0 <= b /\ nth_error (a_bsm aux) (Z.to_nat b) = Some (h, idxs) /\
                Forall2 (ldenotes (a_pool aux) (a_bsm aux)) args idxs
          | ILdc l => exists x, bytes_at w q (ldc_bytes l x) /\ ldenotes (a_pool aux) (a_bsm aux) l x
          | _ => True
          end) (c_insns c) pos
    | None, None => True
    | _, _ => False
    end) (k_methods t) (a_codes aux).
Proof. exact bootstrap_resolves_explicit. Qed.
Print Assumptions C02_bootstrap_resolves.

Theorem C02_bootstrap_table_written : forall t aux d,
  facts_of t aux = Some d -> a_bsm aux <> [] -> In (ABootstrapMethods (a_bsm aux)) (d_attrs d).
Proof. exact bootstrap_table_written. Qed.
Print Assumptions C02_bootstrap_table_written.

(* non-vacuity: an invokedynamic one of whose arguments is a dynamic constant with its own bootstrap method (put first:
   index 0), the same dynamic constant loaded again by ldc (found: no third entry) *)
Theorem C02_bootstrap_example :
  cclass_ok exb_class = true /\
  exists bs aux, write_class_aux exb_class = WOK (bs, aux) /\ length (a_bsm aux) = 2%nat /\
    map fst (a_bsm aux) = [exb_h2; ex_handle] /\ map (fun e => length (snd e)) (a_bsm aux) = [1%nat; 2%nat].
Proof. exact bootstrap_example. Qed.
Print Assumptions C02_bootstrap_example.

(* ---------- why the whole-class writer answers with an error ---------- *)
(* The model names the place of every error: write_class_aux answers WERR c, c : ecause (C02/Class.v) — one constructor
   per `?` on a checked conversion, `bail!` or missing label of the Rust code, carrying the values that decide it;
   write_class (what the correspondence compares with duke::write_class) forgets c.  Whenever the writer answers with
   an error, the condition that belongs to the cause holds:
     EPool p e        the constant is not yet in the pool p and count + slots would exceed 65535   (pool overflow)
     EBootstrap n     the bootstrap-method table already holds n > 65535 entries
     ECount16 n       a u16 count / length with n > 65535;  ECount8 n: a u8 count with n > 255
     ELen32 n         an attribute body / unknown attribute of n > 4294967295 bytes
     ENoMax           a method of the tree has code without max_stack / max_locals
     EArgs d          d is the descriptor of an invokeinterface of the tree and get_arguments_size fails on it
                      (malformed, or more than 255 argument slots: C02_invokeinterface_count)
     ECode es last    the branch-offset loop fails on the lowered body es of a method of the tree
                      (then C02_code_cause_explained: malformed switch, label on no instruction, empty code, or
                       code larger than 65535 bytes)
     ELabel labs ls   a table (exceptions, line numbers, local variables, type annotations) refers to a label of ls
                      that the final label map does not hold
     EFrameOffset / EFrame   a stack map frame not after the previous one / without class-file form (chop or append
                      of not 1..3 locals, more than 65535 locals or stack entries, Uninitialized on an unknown label)
     EUtf8 p          the pool holds a string of more than 65535 bytes
     EFuel            never *)
Theorem C02_write_class_errors : forall t c, write_class_aux t = WERR c ->
  match c with
  | EPool p e => pfind (p_map p) e = None /\ 65535 < p_count p + (if pe_two e then 2 else 1)
  | EBootstrap n => 65535 < n
  | ECount16 n => 65535 < n
  | ECount8 n => 255 < n
  | ELen32 n => 4294967295 < n
  | ENoMax => True
  | EArgs d => args_size d = Err
  | ECode es last => wc_loop (S (length es)) [] es last = Some ERR
  | ELabel labs ls => exists l, In l ls /\ lget labs l = None
  | EFrameOffset prev off => off <= prev
  | EFrame labs f => frame_unwritable labs f
  | EUtf8 p => exists e r, In e (p_inner p) /\ pe_key e = 1%N :: r /\ 65537 < zlen r
  | EFuel => False
  end /\
  match c with
  | ENoMax | EArgs _ | ECode _ _ =>
      exists m c0, In m (k_methods t) /\ md_code m = Some c0 /\
        match c with
        | ENoMax => c_max c0 = None
        | EArgs d => exists i r, In i (c_insns c0) /\ snd i = IIface r /\ d = mr_desc r
        | ECode es last => last = c_last c0 /\ map fst es = map (fun i => fst (fst i)) (c_insns c0) /\
                           Forall2 (fun i le => shape (snd i) (snd le)) (c_insns c0) es
        | _ => True
        end
  | _ => True
  end.
Proof. exact write_class_errors. Qed.
Print Assumptions C02_write_class_errors.

Theorem C02_write_class_err_causes : forall t, write_class t = ERR ->
  exists c, write_class_aux t = WERR c /\ ecause_holds c /\ class_info t c.
Proof. exact write_class_err_causes. Qed.
Print Assumptions C02_write_class_err_causes.

(* for a method of a tree that satisfies ccode_ok and cspans_ok, ECode means one of the causes of C02_write_fails_cleanly *)
Theorem C02_code_cause_explained : forall c es,
  ccode_ok c = true -> cspans_ok c = true ->
  wc_loop (S (length es)) [] es (c_last c) = Some ERR ->
  (c_last c = c_last c /\ map fst es = map (fun i => fst (fst i)) (c_insns c) /\
   Forall2 (fun i le => shape (snd i) (snd le)) (c_insns c) es) ->
  exists Wd, attempt Wd es (c_last c) = AErr /\ cause Wd es (c_last c).
Proof. exact code_cause_explained. Qed.
Print Assumptions C02_code_cause_explained.

(* the model computes the cause: no max_stack; 256 argument slots; a line number on a label no instruction carries; a
   goto to a label no instruction carries; a chop of 4 locals; a method without instructions *)
Theorem C02_error_examples :
  write_class_aux (class_of (code_of None [(None, None, IRaw [177]%N)] None)) = WERR ENoMax /\
  write_class_aux (class_of (code_of (Some (1, 1)) [(None, None, IIface (iface_ref d256)); (None, None, IRaw [177]%N)] None)) = WERR (EArgs d256) /\
  write_class_aux (class_of (code_of (Some (1, 1)) [(Some 1%N, None, IRaw [177]%N)] (Some [(7%N, 3)]))) = WERR (ELabel [(1%N, 0)] [7%N]) /\
  write_class_aux (class_of (code_of (Some (1, 1)) [(None, None, IBr (KJump 167 200) 5%N)] None)) = WERR (ECode [(None, Br (KJump 167 200) 5%N)] None) /\
  write_class_aux (class_of (code_of (Some (1, 1)) [(Some 1%N, Some (CFChop 4), IRaw [177]%N)] None)) = WERR (EFrame [(1%N, 0)] (FChop 4)) /\
  write_class_aux (class_of (code_of (Some (1, 1)) [] None)) = WERR (ECode [] None).
Proof. exact error_examples. Qed.
Print Assumptions C02_error_examples.

(* ---------- far backward conditionals; the code_length limit after growth ---------- *)
(* a conditional 32769 bytes after its target: the resolved path of if_helper — no restart, inverted condition +8,
   goto_w relative to the goto_w opcode; the byte-only decoder finds target 0.  (General statement: C02_write_is_encode
   and C02_targets_preserved, whose choice function chs_run takes the long form of a resolved reference by its true
   offset.)  At exactly -32768 the short form is kept. *)
Theorem C02_far_backward_conditional : far_back_check = true /\ near_back_check = true.
Proof. exact (conj far_backward_conditional near_backward_conditional). Qed.
Print Assumptions C02_far_backward_conditional.

(* whatever the pool does to the instruction sizes (ldc becomes ldc_w when its index passes 255, in this or an earlier
   method), the code array of a written Code attribute is what the loop produced for the lowered body, and
   0 < code_length <= 65535 *)
Theorem C02_code_length_limit : forall c, ccode_ok c = true ->
  forall s r s', write_code_attr c s = WOK (r, s') ->
  exists es Wd labs s1, mapW (fun i => e <- lower_insn (snd i) ;; ret (fst (fst i), e)) (c_insns c) s = WOK (es, s1) /\
    wc_loop (S (length es)) [] es (c_last c) = Some (OK (fst (fst (snd r)), labs, Wd)) /\
    0 < zlen (fst (fst (snd r))) <= 65535.
Proof. exact code_length_limit. Qed.
Print Assumptions C02_code_length_limit.

(* ---------- invariants of the bootstrap-method table (no hypothesis on the tree) ---------- *)
(* put_bootstrap_method de-duplicates: the written table holds no (handle, argument indices) pair twice *)
Theorem C02_bootstrap_table_nodup : forall t bs aux, write_class_aux t = WOK (bs, aux) -> NoDup (a_bsm aux).
Proof. exact bootstrap_table_nodup. Qed.
Print Assumptions C02_bootstrap_table_nodup.

(* every CONSTANT_Dynamic (tag 17) / CONSTANT_InvokeDynamic (tag 18) entry of the written pool has a
   bootstrap_method_attr_index inside the written table — what the decoder of C02/Decode.v does not check *)
Theorem C02_bootstrap_indices_in_table : forall t bs aux, write_class_aux t = WOK (bs, aux) ->
  zlen (a_bsm aux) <= 65536 /\
  Forall (fun e => forall tag b nt, (tag = 17%N \/ tag = 18%N) -> pe_key e = tag :: be16 b ++ be16 nt -> 0 <= b <= 65535 ->
                   b < zlen (a_bsm aux)) (p_inner (a_pool aux)).
Proof. exact bootstrap_indices_in_table. Qed.
Print Assumptions C02_bootstrap_indices_in_table.

(* ---------- modified UTF-8 (JVMS 4.4.7) ---------- *)
(* mutf8 (C02/Class.v) is the encoder the whole-class model uses for every string (and the specification side of
   C02_invokeinterface_count).  dec_units (C02/TheoryU.v) is a decoder that looks only at bytes and accepts only the forms of
   JVMS 4.4.7: 01..7F; C0 80 for NUL and two bytes for 0080..07FF; three bytes for 0800..FFFF; nothing else (a zero byte, a
   non-shortest form, a lead byte F0..FF, a missing continuation byte are errors).  For EVERY list of code points below
   0x110000 — NUL, unpaired surrogates, supplementary characters — decoding the encoding gives the UTF-16 code units of the
   list; joining surrogate pairs gives the list itself unless it holds a high-surrogate code point immediately before a
   low-surrogate code point (nsp; such a list has the same UTF-16 form, hence the same bytes, as the list with the one
   supplementary character: C02_mutf8_examples). *)
Theorem C02_mutf8_decodes_utf16 : forall s, cps_ok s -> dec_units (mutf8 s) = Some (utf16 s).
Proof. exact mutf8_decodes_utf16. Qed.
Print Assumptions C02_mutf8_decodes_utf16.

Theorem C02_mutf8_roundtrip : forall s, cps_ok s -> nsp s = true -> dec_mutf8 (mutf8 s) = Some s.
Proof. exact mutf8_roundtrip. Qed.
Print Assumptions C02_mutf8_roundtrip.

Theorem C02_mutf8_roundtrip_general : forall s, cps_ok s -> dec_mutf8 (mutf8 s) = Some (join (utf16 s)).
Proof. exact mutf8_roundtrip_general. Qed.
Print Assumptions C02_mutf8_roundtrip_general.

Theorem C02_mutf8_injective : forall s s', cps_ok s -> cps_ok s' -> nsp s = true -> nsp s' = true -> mutf8 s = mutf8 s' -> s = s'.
Proof. exact mutf8_injective. Qed.
Print Assumptions C02_mutf8_injective.

Theorem C02_mutf8_eq_iff_utf16 : forall s s', cps_ok s -> cps_ok s' -> (mutf8 s = mutf8 s' <-> utf16 s = utf16 s').
Proof. exact mutf8_eq_iff_utf16. Qed.
Print Assumptions C02_mutf8_eq_iff_utf16.

(* one to six bytes per code point, one to three per UTF-16 unit (what the u16 length of a CONSTANT_Utf8 counts) *)
Theorem C02_mutf8_length : forall s,
  (length s <= length (mutf8 s) <= 6 * length s)%nat /\
  (length (utf16 s) <= length (mutf8 s) <= 3 * length (utf16 s))%nat.
Proof. exact mutf8_length. Qed.
Print Assumptions C02_mutf8_length.

Theorem C02_mutf8_ascii : forall s, Forall (fun c => (0 < c /\ c < 128)%N) s -> mutf8 s = s.
Proof. exact mutf8_ascii. Qed.
Print Assumptions C02_mutf8_ascii.

(* no zero byte, no byte F0..FF *)
Theorem C02_mutf8_bytes : forall s, cps_ok s -> Forall (fun b => (0 < b /\ b < 240)%N) (mutf8 s).
Proof. exact mutf8_bytes. Qed.
Print Assumptions C02_mutf8_bytes.

Theorem C02_mutf8_examples :
  nsp exu = true /\ cps_ok exu /\
  mutf8 exu = [192;128; 65; 195;169; 228;184;173; 237;160;189; 237;160;189;237;184;128; 237;184;128;
               237;175;191;237;191;191; 237;184;128; 237;160;189]%N /\
  dec_mutf8 (mutf8 exu) = Some exu /\
  nsp [55357; 56832]%N = false /\ mutf8 [55357; 56832]%N = mutf8 [128512]%N /\ dec_mutf8 (mutf8 [55357; 56832]%N) = Some [128512]%N /\
  dec_units [0]%N = None /\ dec_units [192; 129]%N = None /\ dec_units [224; 128; 128]%N = None /\ dec_units [240; 159; 152; 128]%N = None /\
  dec_units [193; 191]%N = None /\ dec_units [194]%N = None.
Proof. exact mutf8_examples. Qed.
Print Assumptions C02_mutf8_examples.

(* ---------- the label map is reset between attempts (Labels::next_attempt) ---------- *)
(* An attempt of the model starts from the empty label map.  wc_loop_stale (C02/TheoryS.v) is the same loop with the map of
   the previous attempt carried into the next one.  The two are the same loop as long as no attempt is repeated; on
   `goto L; 32768 x nop; L: return` (one restart) the loop of the model writes goto_w +32773 = the position of L, the loop
   that keeps the map writes goto_w +32771, a nop two bytes before L: C02_write_is_encode and C02_targets_preserved are
   theorems about the loop that resets the map, and are false of the other. *)
Theorem C02_attempt_starts_empty : forall W b last, attempt W b last = fst (attempt_from [] W b last).
Proof. exact attempt_is_from_nil. Qed.
Print Assumptions C02_attempt_starts_empty.

Theorem C02_stale_same_without_restart : forall f W b last,
  (forall i, attempt W b last <> ARestart i) -> wc_loop_stale (S f) [] W b last = wc_loop (S f) W b last.
Proof. exact stale_same_without_restart. Qed.
Print Assumptions C02_stale_same_without_restart.

Theorem C02_stale_labels_break : stale_check = true.
Proof. exact stale_labels_break. Qed.
Print Assumptions C02_stale_labels_break.

(* ---------- the converse of C02_write_class_errors for the causes that can be read off the tree ---------- *)
(* class_fits (C02/TheoryK.v): every list the writer prefixes with a u16 count has at most 65535 elements (interfaces,
   fields, methods, inner classes, declared exceptions, exception table, line numbers, local variables with a descriptor /
   with a signature, annotations, element-value pairs and array values at every depth, type annotations, localvar target
   tables, the lists of a module and their inner lists, module packages, nest members, permitted subclasses, record
   components), every u8-counted list at most 255 (method parameters, type paths), every Code has max_stack / max_locals
   and get_arguments_size succeeds on the descriptor of every invokeinterface.  A successful write implies all of it; so a
   tree with one such cause is never written, and (no panic) is answered with an error. *)
Theorem C02_write_class_ok_fits : forall t r, write_class_aux t = WOK r -> class_fits t.
Proof. exact write_class_ok_fits. Qed.
Print Assumptions C02_write_class_ok_fits.

Theorem C02_write_class_unfit_is_error : forall t, cclass_ok t = true -> cclass_np t = true -> ~ class_fits t -> write_class t = ERR.
Proof. exact write_class_unfit_is_error. Qed.
Print Assumptions C02_write_class_unfit_is_error.

(* every CONSTANT_Utf8 of the written pool has at most 65535 bytes (key = tag, u16 length, bytes) *)
Theorem C02_written_utf8_fit : forall t bs aux, write_class_aux t = WOK (bs, aux) ->
  forall e r, In e (p_inner (a_pool aux)) -> pe_key e = 1%N :: r -> zlen r <= 65537.
Proof. exact ok_utf8_fit. Qed.
Print Assumptions C02_written_utf8_fit.

(* where nothing can fail before it, the cause is the answer: more than 65535 interfaces *)
Theorem C02_too_many_interfaces : forall t, 65535 < zlen (k_interfaces t) -> write_class_aux t = WERR (ECount16 (zlen (k_interfaces t))).
Proof. exact too_many_interfaces. Qed.
Print Assumptions C02_too_many_interfaces.

Theorem C02_fits_examples :
  write_class_aux (exk_class (exk_method (Some (repeat [69]%N (N.to_nat 65536))) None)) = WERR (ECount16 65536) /\
  write_class_aux (exk_class (exk_method None (Some (repeat (None, 0) 256)))) = WERR (ECount8 256) /\
  is_wok (write_class_aux (exk_class (exk_method None (Some (repeat (None, 0) 255))))) = true.
Proof. exact fits_examples. Qed.
Print Assumptions C02_fits_examples.

(* ---------- a table label that no instruction carries is an error ---------- *)
(* code_table_labels (C02/TheoryL.v): the labels named by the exception table, the line numbers, the local variables that
   have a descriptor or a signature, and the localvar / offset / type-argument targets of the code type annotations;
   code_labels: the labels the instructions carry and the last label.  A successful write implies that every table label
   is one of them (the converse of cause ELabel of C02_write_class_errors; for branch and switch targets the same is part
   of C02_write_fails_cleanly). *)
Theorem C02_write_code_labels_carried : forall c, ccode_ok c = true ->
  forall s r, write_code_attr c s = WOK r -> incl (code_table_labels c) (code_labels c).
Proof. exact write_code_labels_carried. Qed.
Print Assumptions C02_write_code_labels_carried.

Theorem C02_write_class_labels_carried : forall t r, cclass_ok t = true -> write_class_aux t = WOK r ->
  Forall (fun m => match md_code m with Some c => incl (code_table_labels c) (code_labels c) | None => True end) (k_methods t).
Proof. exact write_class_labels_carried. Qed.
Print Assumptions C02_write_class_labels_carried.

Theorem C02_labels_examples :
  ccode_ok (exl_code 7%N) = true /\ ccode_ok (exl_code 1%N) = true /\
  incl (code_table_labels (exl_code 7%N)) (code_labels (exl_code 7%N)) /\
  ~ incl (code_table_labels (exl_code 1%N)) (code_labels (exl_code 1%N)).
Proof. exact labels_examples. Qed.
Print Assumptions C02_labels_examples.

(* ---------- a closed form of the final wide set ---------- *)
(* For a method body without tableswitch / lookupswitch the set of instruction indices the loop of write_code ends with is
   the LEAST set on which an attempt succeeds: the attempt with W succeeds, and W is included in every C whose attempt
   succeeds (without switch padding every distance between two instructions is monotone in the wide set, so a reference
   that does not fit under W does not fit under any larger set that leaves it narrow: C02_restart_blocks).  With a switch
   there is no least set (C02_switch_not_least): padding can shrink when another jump is widened. *)
Theorem C02_restart_blocks : forall W C b last i,
  switch_free b -> wsub W C -> attempt W b last = ARestart i -> memN i C = false ->
  forall wc labsc, attempt C b last <> ADone wc labsc.
Proof. exact restart_blocks. Qed.
Print Assumptions C02_restart_blocks.

Theorem C02_final_wide_least : forall b last w labs W,
  switch_free b -> wc_loop (S (length b)) [] b last = Some (OK (w, labs, W)) ->
  attempt W b last = ADone w labs /\
  forall C wc labsc, attempt C b last = ADone wc labsc -> forall i, In i W -> In i C.
Proof. exact final_wide_least. Qed.
Print Assumptions C02_final_wide_least.

Theorem C02_wide_example : switch_free ex_w /\
  match wc_loop (S (length ex_w)) [] ex_w None with Some (OK (_, _, [0%N])) => True | _ => False end.
Proof. exact wide_example. Qed.
Print Assumptions C02_wide_example.

Theorem C02_switch_not_least : sw_check = true.
Proof. exact switch_not_least. Qed.
Print Assumptions C02_switch_not_least.

(* ================================================================================================ *)
(* Round 6 — THE CROSS-MODEL BRIDGE (coq/X12): the reader model of C01 (coq/C01/Model.v read_code, tied to
   duke's class reader by C01's correspondence) is an independent parser of what the writer model writes.
   C01 and C02 share no definition; coq/X12/BridgeDefs.v translates C02's vocabulary into C01's:
   a Plain entry (opaque bytes) is decoded with C01's own opcode tables and operand decoder into one
   instruction [plain_insn]; a conditional / goto / jsr / switch entry becomes the C01 instruction with the
   index [T_of chs b last l] of the instruction carrying the label as target; a conditional written in its long
   form becomes TWO instructions (opposite conditional to the instruction after the pair, then Goto to the
   target); goto_w / jsr_w are read as Goto / Jsr.  Outside: Plain [] or several instructions in one Plain; a
   jump / handler / start_pc / offset naming the LAST label (written by the writer, refused by the reader:
   C02_bridge_examples, third part); a body whose last entry is a conditional in its long form; stack-map
   frames; the pool. *)
From FB Require C01.Model C01.Theory4 C01.Theory14 X12.BridgeDefs X12.BridgePlain X12.BridgeEnc X12.Bridge X12.BridgeShape X12.BridgeEx.

(* Plain bytes vs structured operands: what [plain_insn] accepts is C01's own second-pass decoding of the bytes
   (empty label set: no branch, no switch), has no target, and C01's GENERAL encoder maps it — under the opcode
   form and ignored bytes read off the entry — back to exactly the bytes, at every position and layout. *)
Theorem C02_bridge_plain : forall bs i,
  X12.BridgeDefs.plain_insn bs = Some i -> C01.Theory14.is_bytes bs ->
  (forall posf pos, C01.Model.enc1 posf pos (X12.BridgeDefs.plain_choice bs) i = Some bs) /\
  C01.Model.targets i = [] /\
  exists i0 n, C01.Model.dec1 [] 0%N bs = Ok (i0, n, []) /\ i = C01.Model.map_insn X12.BridgeDefs.zN i0.
Proof. exact (fun bs i H B => conj (X12.BridgePlain.plain_enc bs i H B)
                              (conj (X12.BridgePlain.plain_targets bs i H) (X12.BridgePlain.plain_insn_dec1 bs i H))). Qed.
Print Assumptions C02_bridge_plain.

(* THE TRANSLATION COMMUTES WITH THE TWO ENCODERS: wherever C02's general encoder produces w admissibly
   (choices chs, labels at the positions of its own layout), C01's general encoder produces the same w from the
   translated body under the translated choice function, and C01's layout of the translated body puts every
   label at the same offset. *)
Theorem C02_bridge_encode : forall b chs last w,
  length chs = length b -> X12.BridgeDefs.body_in chs b = true ->
  encode chs (labpos chs 0 b last) 0 b = Some w ->
  admissible chs (labpos chs 0 b last) 0 b = true ->
  C01.Model.encode (X12.BridgeDefs.tr_ch chs b) (X12.BridgeDefs.tr_body chs b last) = Some w /\
  forall l t, labpos chs 0 b last l = Some t ->
    0 <= t /\
    C01.Model.posf_of (C01.Model.layout (X12.BridgeDefs.tr_ch chs b) (X12.BridgeDefs.tr_body chs b last))
                      (X12.BridgeDefs.T_of chs b last l) = Z.to_N t.
Proof. exact X12.Bridge.bridge_encode. Qed.
Print Assumptions C02_bridge_encode.

(* READ (C01) o WRITE (C02) on the Code array and its tables.  For every body of the fragment, with unique
   labels, whose jumps and table start / handler / offset labels are carried by instructions: whatever
   write_code answers (code array w, wide set Wd, resolved tables rt), C01's reader model, handed w and the
   tables as they stand in the file (offsets; local-variable ranges as start_pc / length; the first nl single
   offsets as line numbers with payloads [lines]), succeeds and delivers [expected body' tables']: the
   translated instruction list with every branch target and switch arm on the translated target, exactly the
   referenced instructions labelled, every exception range / line number / local-variable range / offset on
   the instruction (or end of code) the tree's label designates — labels compared by the instruction that
   carries them (C01_expected_shape says what [expected] contains). *)
Theorem C02_bridge_write_read : forall hasmax b last tb w Wd rt nl lines,
  unique_labels b last ->
  X12.BridgeDefs.body_in (chs_run Wd 0%N 0 [] b) b = true ->
  X12.BridgeDefs.refs_carried b = true -> X12.BridgeDefs.tables_carried b tb = true ->
  write_code hasmax b last tb = Some (OK (w, Wd, rt)) ->
  let chs := chs_run Wd 0%N 0 [] b in
  C01.Model.read_code (X12.BridgeDefs.code_in_of_written w rt nl lines)
  = Ok (C01.Theory4.expected (X12.BridgeDefs.tr_body chs b last)
                             (X12.BridgeDefs.tr_tables (X12.BridgeDefs.T_of chs b last) tb nl lines)).
Proof. exact X12.Bridge.bridge_write_read. Qed.
Print Assumptions C02_bridge_write_read.

(* [body_in chs b]: every entry in the fragment and the last entry not a conditional in its long form; it is
   implied by the condition that does not mention the outcome: no conditional in last place *)
Theorem C02_bridge_write_read_simple : forall hasmax b last tb w Wd rt nl lines,
  unique_labels b last ->
  X12.BridgeDefs.body_in_simple b = true ->
  X12.BridgeDefs.refs_carried b = true -> X12.BridgeDefs.tables_carried b tb = true ->
  write_code hasmax b last tb = Some (OK (w, Wd, rt)) ->
  let chs := chs_run Wd 0%N 0 [] b in
  C01.Model.read_code (X12.BridgeDefs.code_in_of_written w rt nl lines)
  = Ok (C01.Theory4.expected (X12.BridgeDefs.tr_body chs b last)
                             (X12.BridgeDefs.tr_tables (X12.BridgeDefs.T_of chs b last) tb nl lines)).
Proof. exact X12.Bridge.bridge_write_read_simple. Qed.
Print Assumptions C02_bridge_write_read_simple.

(* the same for ANY admissible encoding of the general encoder (not only the one write_code ends with) *)
Theorem C02_bridge_read_encoding : forall b chs last w tb rt nl lines,
  length chs = length b ->
  X12.BridgeDefs.body_in chs b = true -> X12.BridgeDefs.refs_carried b = true -> X12.BridgeDefs.tables_carried b tb = true ->
  encode chs (labpos chs 0 b last) 0 b = Some w ->
  admissible chs (labpos chs 0 b last) 0 b = true ->
  w <> [] -> (N.of_nat (length w) <= 65535)%N ->
  mapO (L3 (labpos chs 0 b last)) (t_exc tb) = Some (r_exc rt) ->
  mapO (labpos chs 0 b last) (t_offs tb) = Some (r_offs rt) ->
  mapO (Lrange (labpos chs 0 b last)) (t_ranges tb) = Some (r_ranges rt) ->
  Forall (fun x => 0 <= snd x) (r_ranges rt) ->
  C01.Model.read_code (X12.BridgeDefs.code_in_of_written w rt nl lines)
  = Ok (C01.Theory4.expected (X12.BridgeDefs.tr_body chs b last)
                             (X12.BridgeDefs.tr_tables (X12.BridgeDefs.T_of chs b last) tb nl lines)).
Proof. exact X12.Bridge.bridge_read_encoding. Qed.
Print Assumptions C02_bridge_read_encoding.

(* what the translated body is, entry by entry: the j-th entry of the tree is seen as [tr_entry T k c e]
   (one instruction; two for a conditional in its long form: Gen inv [OpT (2 + k)]; Gen 167 [OpT (T l)]) at
   index k = the number of instructions before it; a label is the index of the first instruction of the entry
   that carries it; the last label is the number of instructions. *)
Theorem C02_bridge_body_at : forall b chs last j lb e c k,
  nth_error b j = Some (lb, e) -> nth_error chs j = Some c -> nth_error (X12.BridgeShape.eidx chs 0 b) j = Some k ->
  firstn (X12.BridgeDefs.cnt c e) (skipn k (X12.BridgeDefs.tr_body chs b last))
  = X12.BridgeDefs.tr_entry (X12.BridgeDefs.T_of chs b last) k c e.
Proof. exact X12.BridgeShape.tr_body_at. Qed.
Print Assumptions C02_bridge_body_at.

Theorem C02_bridge_labels : forall b chs last,
  unique_labels b last ->
  (forall j l e k, nth_error b j = Some (Some l, e) -> nth_error (X12.BridgeShape.eidx chs 0 b) j = Some k ->
     X12.BridgeDefs.T_of chs b last l = k) /\
  (forall l, last = Some l -> length chs = length b ->
     X12.BridgeDefs.T_of chs b last l = length (X12.BridgeDefs.tr_body chs b last)).
Proof. exact X12.BridgeShape.bridge_labels. Qed.
Print Assumptions C02_bridge_labels.

(* pool operands: an instruction `opcode, u16 pool index, further operands` — and the three kinds the writer
   model assembles itself: ldc / ldc_w / ldc2_w and invokeinterface with its computed count byte — is seen by
   the reader model as the instruction with exactly the index the writer wrote *)
Theorem C02_bridge_pool_operands :
  (forall op ctor k rs x post ops,
     C01.Opcodes.pass2_entry op = C01.Opcodes.P2 ctor (C01.Opcodes.RCp16 k :: rs) -> 0 <= x < 65536 ->
     C01.Model.dec_ops [] 0%N rs post = Ok (ops, []) ->
     X12.BridgeDefs.plain_insn (op :: be16 x ++ post)
     = Some (C01.Model.Gen ctor (C01.Model.OpC k (Z.to_N x) :: map (C01.Model.map_op X12.BridgeDefs.zN) ops))) /\
  (forall i, X12.BridgeDefs.plain_insn [18; i]%N = Some (C01.Model.Gen 18%N [C01.Model.OpC 0%N i])) /\
  (forall x, 0 <= x < 65536 ->
     X12.BridgeDefs.plain_insn (19%N :: be16 x) = Some (C01.Model.Gen 18%N [C01.Model.OpC 0%N (Z.to_N x)]) /\
     X12.BridgeDefs.plain_insn (20%N :: be16 x) = Some (C01.Model.Gen 18%N [C01.Model.OpC 0%N (Z.to_N x)])) /\
  (forall x n, 0 <= x < 65536 ->
     X12.BridgeDefs.plain_insn (185%N :: be16 x ++ [byte_of n; 0%N]) = Some (C01.Model.Gen 185%N [C01.Model.OpC 4%N (Z.to_N x)])).
Proof. exact (conj X12.BridgeShape.plain_cp16 X12.BridgeShape.plain_writer_built). Qed.
Print Assumptions C02_bridge_pool_operands.

(* non-vacuity: (1) goto L; ifeq L; 32768 x nop; L: return — three attempts, both jumps widened; the reader
   model sees Goto L; IfNe +2; Goto L; …  (2) tableswitch, lookupswitch, ldc, bipush, invokeinterface, wide iinc,
   an exception range and a local-variable range ending at the last label;  (3) a goto to the last label is
   written and then refused by the reader: refs_carried is necessary *)
Theorem C02_bridge_examples : X12.BridgeEx.bridge_nonvacuous.
Proof. exact X12.BridgeEx.bridge_nonvacuous_holds. Qed.
Print Assumptions C02_bridge_examples.

(* ================================================================================================ *)
(* Round 6, second layer — THE WRITTEN CLASS FILE read by C01's class-file reader model: modified UTF-8, the
   constant pool, the class header (coq/X12/BridgeMutf8.v, BridgePool.v, BridgeClass.v). *)
From FB Require C01.Mutf8 C01.Pool C01.Fmt C01.ClassFile C01.Attr C01.Tables X12.BridgeMutf8 X12.BridgePool X12.BridgeClass.

(* C01's string decoder (the model of java_string's from_modified_utf8: valid standard UTF-8 is taken as it is,
   otherwise the modified form is decoded and surrogate pairs are joined) applied to C02's encoder (JVMS 4.4.7):
   the UTF-16 form with pairs joined for EVERY list of code points below 0x110000 — NUL, lone surrogates and
   supplementary characters included —, hence the list itself unless it holds a high-surrogate code point
   immediately followed by a low-surrogate one (nsp: the one ambiguity of the format) *)
Theorem C02_bridge_mutf8 : forall s, cps_ok s ->
  C01.Mutf8.mutf8_dec (mutf8 s) = Ok (join (utf16 s)) /\
  (nsp s = true -> C01.Mutf8.mutf8_dec (mutf8 s) = Ok s).
Proof. exact (fun s H => conj (X12.BridgeMutf8.mutf8_dec_mutf8_general s H) (X12.BridgeMutf8.mutf8_dec_mutf8 s H)). Qed.
Print Assumptions C02_bridge_mutf8.

(* the bytes PoolWrite::write emits for a pool built by put ARE C01's encoding of the translated entries (same
   tags, numbers Z -> N), which fit their fields … *)
Theorem C02_bridge_pool_bytes : forall p pb,
  PInv p -> Forall made (p_inner p) -> pool_bytes p = Ok pb ->
  exists cs, rev (p_inner p) = map mk cs /\ Forall centry_ok cs /\
             pb = C01.ClassFile.enc_pool (map X12.BridgePool.tr_centry cs) /\
             C01.ClassFile.pool_fits (map X12.BridgePool.tr_centry cs) = true.
Proof. exact X12.BridgePool.pool_bytes_enc. Qed.
Print Assumptions C02_bridge_pool_bytes.

(* … so C01's PoolRead::read model reads them to [rpool dec cs]: the translated entries with every Utf8 decoded,
   Long / Double followed by an unusable slot; and the same entry list is what C02's own decoder sees (agrees) *)
Theorem C02_bridge_pool_read : forall dec p pb rest,
  PInv p -> Forall made (p_inner p) -> pool_bytes p = Ok pb ->
  exists cs, rev (p_inner p) = map mk cs /\ Forall centry_ok cs /\
             agrees p (cslots cs 1) /\
             (X12.BridgePool.utf8s_decode dec cs ->
              C01.ClassFile.rd_pool dec (pb ++ rest) = Ok (X12.BridgePool.rpool dec cs, rest)).
Proof. exact X12.BridgePool.pool_read. Qed.
Print Assumptions C02_bridge_pool_read.

(* index by index: what C02's kind-checked decoder finds at an index, C01's accessor of the same kind finds at
   the same index of the pool it read, strings decoded (D = decode or, for an undecodable string, empty) *)
Theorem C02_bridge_pool_indices : forall dec cs,
  let c := cslots cs 1 in
  let P := X12.BridgePool.rpool dec cs in
  let D := X12.BridgePool.sdec dec in
  (forall i s, get_utf8 c i = Some s -> C01.Pool.get_utf8 P (Z.to_N i) = Ok (D s)) /\
  (forall i s, get_class c i = Some s -> C01.Pool.get_class P (Z.to_N i) = Ok (D s)) /\
  (forall i n d, get_nat c i = Some (n, d) -> C01.Pool.get_nt P (Z.to_N i) = Ok (D n, D d)) /\
  (forall i r, get_fieldref c i = Some r ->
     C01.Pool.get_field_ref P (Z.to_N i) = Ok (C01.Pool.VField (D (mr_class r)) (D (mr_name r)) (D (mr_desc r)))) /\
  (forall i r, get_methodref c i = Some r ->
     C01.Pool.get_method_ref P (Z.to_N i) = Ok (C01.Pool.VMethod (D (mr_class r)) (D (mr_name r)) (D (mr_desc r)) false)) /\
  (forall i r, get_imethodref c i = Some r ->
     C01.Pool.get_imethod_ref P (Z.to_N i) = Ok (C01.Pool.VMethod (D (mr_class r)) (D (mr_name r)) (D (mr_desc r)) true)) /\
  (forall i h, get_handle c i = Some h -> C01.Pool.get_method_handle P (Z.to_N i) = Ok (X12.BridgePool.handle_val dec h)) /\
  (forall i v, get_cvalue c i = Some v -> C01.Pool.get_constant_value P (Z.to_N i) = Ok (X12.BridgePool.cvalue_val dec v)) /\
  (forall i s, get_string c i = Some s -> X12.BridgePool.get_string_r P (Z.to_N i) = Ok (D s)) /\
  (forall i s, get_method_type c i = Some s -> X12.BridgePool.get_mtype_r P (Z.to_N i) = Ok (D s)) /\
  (forall i s, get_module c i = Some s -> X12.BridgePool.get_module_r P (Z.to_N i) = Ok (D s)) /\
  (forall i s, get_package c i = Some s -> X12.BridgePool.get_package_r P (Z.to_N i) = Ok (D s)).
Proof.
  exact (fun dec cs => conj (X12.BridgePool.ag_utf8 dec cs) (conj (X12.BridgePool.ag_class dec cs) (conj (X12.BridgePool.ag_nat dec cs)
    (conj (X12.BridgePool.ag_fieldref dec cs) (conj (X12.BridgePool.ag_methodref dec cs) (conj (X12.BridgePool.ag_imethodref dec cs)
    (conj (X12.BridgePool.ag_handle dec cs) (conj (X12.BridgePool.ag_cvalue dec cs) (conj (X12.BridgePool.ag_string dec cs)
    (conj (X12.BridgePool.ag_mtype dec cs) (conj (X12.BridgePool.ag_module dec cs) (X12.BridgePool.ag_package dec cs)))))))))))).
Qed.
Print Assumptions C02_bridge_pool_indices.

(* every `refers g x p0 i` fact of C02 (what the index a put returned designates in every later pool:
   C02_put_class_refers, C02_put_methodref_refers, …) holds of the pool C01's reader reads from the written bytes *)
Theorem C02_bridge_refers_read : forall (A B : Type) (g : cpool -> Z -> option A) (G : C01.Pool.pool -> N -> res B) (val : A -> B) dec,
  (forall cs i x, g (cslots cs 1) i = Some x -> G (X12.BridgePool.rpool dec cs) (Z.to_N i) = Ok (val x)) ->
  forall x p0 i p pb rest,
  refers g x p0 i -> pool_ext p0 p ->
  PInv p -> Forall made (p_inner p) -> pool_bytes p = Ok pb ->
  exists cs, (X12.BridgePool.utf8s_decode dec cs ->
              C01.ClassFile.rd_pool dec (pb ++ rest) = Ok (X12.BridgePool.rpool dec cs, rest)) /\
             G (X12.BridgePool.rpool dec cs) (Z.to_N i) = Ok (val x).
Proof. exact (@X12.BridgePool.refers_read). Qed.
Print Assumptions C02_bridge_refers_read.

(* THE CLASS HEADER.  [read_head] is the first part of C01's read_class (magic, version gate, constant pool,
   access_flags, this_class, super_class, interfaces): C02_bridge_read_head_is_read_class.  For every tree
   satisfying cclass_ok whose version passes the reader's gate and whose pool strings decode, reading what
   write_class_aux wrote yields the tree's version, the pool as above, the defined bits of the access flags, the
   class name, the super class (or none) and the interfaces in order — every name decoded from the Utf8 put. *)
Theorem C02_bridge_read_head_is_read_class : forall impl dec s minor major p head s5,
  X12.BridgeClass.read_head impl dec s = Ok (minor, major, p, head, s5) ->
  C01.ClassFile.read_class impl dec s =
  Base.Str.bind (C01.ClassFile.skip_members s5) (fun s6 =>
  Base.Str.bind (C01.ClassFile.skip_members s6) (fun s7 =>
  Base.Str.bind (C01.Fmt.rd_fmt impl dec (C01.ClassFile.acc p) C01.ClassFile.class_attrs_fmt s7) (fun '(attrs, _) =>
  Base.Str.bind (C01.Fmt.rd_fmt impl dec (C01.ClassFile.acc p) C01.ClassFile.fields_fmt s5) (fun '(fields, s8) =>
  Base.Str.bind (C01.Fmt.rd_fmt impl dec (C01.ClassFile.acc p) C01.ClassFile.methods_fmt s8) (fun '(methods, _) =>
  C01.ClassFile.build_class impl p minor major head attrs fields methods))))).
Proof. exact X12.BridgeClass.read_class_head. Qed.
Print Assumptions C02_bridge_read_head_is_read_class.

Theorem C02_bridge_class_head : forall impl dec t bs aux,
  cclass_ok t = true -> write_class_aux t = WOK (bs, aux) ->
  C01.Attr.header_ok C01.Tables.magic (Z.to_N (k_minor t)) (Z.to_N (k_major t)) = true ->
  X12.BridgeClass.pool_utf8_ok dec (a_pool aux) = true ->
  exists cs tail,
    rev (p_inner (a_pool aux)) = map mk cs /\
    X12.BridgeClass.read_head impl dec bs
    = Ok (Z.to_N (k_minor t), Z.to_N (k_major t), X12.BridgePool.rpool dec cs,
          C01.Fmt.VSeq [C01.Fmt.VN (C01.Attr.access_back 0%N (Z.to_N (k_access t)));
                        C01.Fmt.VC (C01.Pool.VClass (X12.BridgePool.sdec dec (k_name t)));
                        C01.Fmt.VO (option_map (fun n => C01.Pool.VClass (X12.BridgePool.sdec dec n)) (k_super t));
                        C01.Fmt.VList (map (fun n => C01.Fmt.VC (C01.Pool.VClass (X12.BridgePool.sdec dec n))) (k_interfaces t))],
          tail).
Proof. exact X12.BridgeClass.class_head_read. Qed.
Print Assumptions C02_bridge_class_head.

(* non-vacuity: a class named e-acute NUL U+1F600 with a super class and two interfaces (one named with the euro
   sign), version 61.0, written by write_class_aux and read by read_head with C01's decoder; decoder examples
   incl. the ambiguity (a split surrogate pair reads back joined) *)
Theorem C02_bridge_class_examples :
  (exists bs aux cs tail,
     write_class_aux X12.BridgeClass.ex_hd = WOK (bs, aux) /\ cclass_ok X12.BridgeClass.ex_hd = true /\
     X12.BridgeClass.pool_utf8_ok C01.Mutf8.mutf8_dec (a_pool aux) = true /\
     X12.BridgeClass.read_head true C01.Mutf8.mutf8_dec bs
     = Ok (0%N, 61%N, X12.BridgePool.rpool C01.Mutf8.mutf8_dec cs,
           C01.Fmt.VSeq [C01.Fmt.VN 33%N; C01.Fmt.VC (C01.Pool.VClass [233; 0; 128512]%N); C01.Fmt.VO (Some (C01.Pool.VClass [79]%N));
                         C01.Fmt.VList [C01.Fmt.VC (C01.Pool.VClass [73]%N); C01.Fmt.VC (C01.Pool.VClass [8364]%N)]],
           tail)) /\
  (C01.Mutf8.mutf8_dec (mutf8 [0; 65; 233; 8364; 128512; 55357; 65; 56832]%N) = Ok [0; 65; 233; 8364; 128512; 55357; 65; 56832]%N
   /\ nsp [0; 65; 233; 8364; 128512; 55357; 65; 56832]%N = true
   /\ nsp [55357; 56832]%N = false /\ C01.Mutf8.mutf8_dec (mutf8 [55357; 56832]%N) = Ok [128512]%N
   /\ mutf8 [55357; 56832]%N = mutf8 [128512]%N).
Proof. exact (conj X12.BridgeClass.class_head_example X12.BridgeMutf8.mutf8_dec_examples). Qed.
Print Assumptions C02_bridge_class_examples.

(* ================================================================================================ *)
(* Round 6, third layer — member headers, attribute framing, the Code attribute wrapper
   (coq/X12/BridgeMembers.v, BridgeCode.v). *)
From FB Require C01.Model X12.BridgeMembers X12.BridgeCode X12.BridgeDyn.

(* DECODER TO READER (any byte string).  Whatever C02's strict JVMS decoder accepts as a list of attributes / a
   list of members, C01's length-driven first pass (skip_attrs, skip_members) traverses to the same end — the
   attribute_length fields are exact because the decoder demands it —, and the member headers read with C01's
   format reader (access flags through the flag table, name and descriptor through the Utf8 accessor) are the
   decoder's, strings decoded.  [rd_headers] = C01's member loop reduced to the header: rd_fmt on the first three
   components of the member format, then skip_attrs; it ends where skip_members ends, and its header is what
   the full member format delivers in its first three components. *)
Theorem C02_bridge_decoder_to_reader :
  (forall (A : Type) c (body : bytes -> option (parser A)) unk s xs r,
     p_list16 (p_attr_with c body unk) s = Some (xs, r) -> C01.ClassFile.skip_attrs s = Ok r) /\
  (forall impl dec cs l k s ms r, p_list16 (p_member l (cslots cs 1)) s = Some (ms, r) ->
     X12.BridgeMembers.rd_headers impl dec (C01.ClassFile.acc (X12.BridgePool.rpool dec cs)) k s
     = Ok (map (X12.BridgeMembers.hdr_of dec k) ms, r)) /\
  (forall impl dec rs k s hs r, X12.BridgeMembers.rd_headers impl dec rs k s = Ok (hs, r) -> C01.ClassFile.skip_members s = Ok r) /\
  (forall impl dec rs k att s v1 v2 v3 v4 r,
     C01.Fmt.rd_fmt impl dec rs (C01.Fmt.FSeq [C01.Fmt.FFlags k; C01.Fmt.FIdx 8%N; C01.Fmt.FIdx 8%N; att]) s
     = Ok (C01.Fmt.VSeq [v1; v2; v3; v4], r) ->
     exists s3, C01.Fmt.rd_fmt impl dec rs (X12.BridgeMembers.hdr_fmt k) s = Ok (C01.Fmt.VSeq [v1; v2; v3], s3) /\
                C01.Fmt.rd_fmt impl dec rs att s3 = Ok (v4, r)).
Proof.
  exact (conj (@X12.BridgeMembers.attrs_skip) (conj X12.BridgeMembers.members_read
          (conj X12.BridgeMembers.rd_headers_skip X12.BridgeMembers.hdr_of_member_fmt))).
Qed.
Print Assumptions C02_bridge_decoder_to_reader.

(* THE WRITTEN CLASS: after the head, the fields and the methods are read header by header to the tree's (flags,
   name, descriptor) in order; the first pass of read_class passes over the fields, over the methods, lands on
   the class attributes, and skipping those ends exactly at the end of the file *)
Theorem C02_bridge_class_members : forall impl dec t bs aux,
  cclass_ok t = true -> write_class_aux t = WOK (bs, aux) ->
  C01.Attr.header_ok C01.Tables.magic (Z.to_N (k_minor t)) (Z.to_N (k_major t)) = true ->
  X12.BridgeClass.pool_utf8_ok dec (a_pool aux) = true ->
  exists cs s5 s6 s7,
    rev (p_inner (a_pool aux)) = map mk cs /\
    X12.BridgeClass.read_head impl dec bs
    = Ok (Z.to_N (k_minor t), Z.to_N (k_major t), X12.BridgePool.rpool dec cs, X12.BridgeClass.head_val dec t, s5) /\
    X12.BridgeMembers.rd_headers impl dec (C01.ClassFile.acc (X12.BridgePool.rpool dec cs)) 1%N s5
      = Ok (map (fun f => X12.BridgeMembers.hdr dec 1%N (f_access f) (f_name f) (f_desc f)) (k_fields t), s6) /\
    X12.BridgeMembers.rd_headers impl dec (C01.ClassFile.acc (X12.BridgePool.rpool dec cs)) 2%N s6
      = Ok (map (fun m => X12.BridgeMembers.hdr dec 2%N (md_access m) (md_name m) (md_desc m)) (k_methods t), s7) /\
    C01.ClassFile.skip_members s5 = Ok s6 /\ C01.ClassFile.skip_members s6 = Ok s7 /\ C01.ClassFile.skip_attrs s7 = Ok [].
Proof. exact X12.BridgeMembers.class_members_read. Qed.
Print Assumptions C02_bridge_class_members.

(* THE Code ATTRIBUTE, decoder to reader: what C02's decoder accepts as a Code payload, C01's Code format (its
   first four components: code_prefix_fmt) reads to the same max_stack, max_locals, code array and exception
   entries, and skip_attrs passes over the attributes of the Code attribute to the same end *)
Theorem C02_bridge_code_read :
  (forall impl dec cs s k r, p_code (cslots cs 1) s = Some (k, r) ->
     exists s4,
       C01.Fmt.rd_fmt impl dec (C01.ClassFile.acc (X12.BridgePool.rpool dec cs)) X12.BridgeCode.code_prefix_fmt s
       = Ok (C01.Fmt.VSeq [C01.Fmt.VN (Z.to_N (dc_max_stack k)); C01.Fmt.VN (Z.to_N (dc_max_locals k)); C01.Fmt.VB (dc_code k);
                           C01.Fmt.VList (map (X12.BridgeCode.exc_val dec) (dc_exceptions k))], s4) /\
       C01.ClassFile.skip_attrs s4 = Ok r) /\
  (forall impl dec rs s v r, C01.Fmt.rd_fmt impl dec rs C01.ClassFile.code_fmt s = Ok (v, r) ->
     exists vs att s4, v = C01.Fmt.VSeq (vs ++ [att]) /\
       C01.Fmt.rd_fmt impl dec rs X12.BridgeCode.code_prefix_fmt s = Ok (C01.Fmt.VSeq vs, s4) /\
       C01.Fmt.rd_fmt impl dec rs (C01.Fmt.FVec16 (C01.Fmt.FAttr C01.ClassFile.code_sel)) s4 = Ok (att, r)).
Proof. exact (conj X12.BridgeCode.code_read X12.BridgeCode.code_prefix_of_code_fmt). Qed.
Print Assumptions C02_bridge_code_read.

(* THE Code ATTRIBUTE, writer to reader, joining C02_bridge_write_read: for the payload write_code_attr writes
   (ccode_ok; any state with the writer's invariant; p = any later pool, e.g. the final one, with its entry list cs):
   the code array w and the exception triples C01 reads from the payload are what C02's layout-level write_code
   answers on the lowered body with the exception labels, and C01's read_code on them delivers the translated
   instruction list with the exception ranges on the translated instructions *)
Theorem C02_bridge_code_attr : forall impl dec c s payload w labs pos s' cs p,
  ccode_ok c = true -> winv s ->
  write_code_attr c s = WOK ((payload, (w, labs, pos)), s') ->
  pool_ext (w_pool s') p -> agrees p (cslots cs 1) ->
  exists ms ml es Wd ex,
    c_max c = Some (ms, ml) /\ length es = length (c_insns c) /\ unique_labels es (c_last c) /\
    write_code true es (c_last c) (X12.BridgeCode.exc_tables c)
    = Some (OK (w, Wd, {| r_exc := map X12.BridgeCode.exc3z ex; r_offs := []; r_ranges := [] |})) /\
    (forall rest, exists s4,
       C01.Fmt.rd_fmt impl dec (C01.ClassFile.acc (X12.BridgePool.rpool dec cs)) X12.BridgeCode.code_prefix_fmt (payload ++ rest)
       = Ok (C01.Fmt.VSeq [C01.Fmt.VN (Z.to_N ms); C01.Fmt.VN (Z.to_N ml); C01.Fmt.VB w;
                           C01.Fmt.VList (map (X12.BridgeCode.exc_val dec) ex)], s4) /\
       C01.ClassFile.skip_attrs s4 = Ok rest) /\
    C01.Pool.map_res C01.ClassFile.exc_triple (map (X12.BridgeCode.exc_val dec) ex) = Ok (map X12.BridgeCode.exc3 ex) /\
    (let chs := chs_run Wd 0%N 0 [] es in
     X12.BridgeDefs.body_in chs es = true -> X12.BridgeDefs.refs_carried es = true ->
     X12.BridgeDefs.tables_carried es (X12.BridgeCode.exc_tables c) = true ->
     C01.Model.read_code {| C01.Model.ci_code := w; C01.Model.ci_exc := map X12.BridgeCode.exc3 ex; C01.Model.ci_lines := [];
                            C01.Model.ci_ranges := []; C01.Model.ci_frames := []; C01.Model.ci_cldc := None; C01.Model.ci_points := [] |}
     = Ok (C01.Theory4.expected (X12.BridgeDefs.tr_body chs es (c_last c))
             (X12.BridgeDefs.tr_tables (X12.BridgeDefs.T_of chs es (c_last c)) (X12.BridgeCode.exc_tables c) 0 []))).
Proof. exact X12.BridgeCode.code_attr_bridge. Qed.
Print Assumptions C02_bridge_code_attr.

(* non-vacuity on C02's example class (a field with attributes; a method whose Code attribute holds new, ldc, a
   conditional, invokedynamic, return, an exception range, line numbers, a local variable, frames): the headers
   read back, the first pass ends at the end of the file; the lowered body of the example method lies inside
   the code-array bridge *)
Theorem C02_bridge_members_examples :
  (exists bs aux cs s5 s6 s7,
     write_class_aux ex_class = WOK (bs, aux) /\
     X12.BridgeClass.read_head true C01.Mutf8.mutf8_dec bs
     = Ok (0%N, 61%N, X12.BridgePool.rpool C01.Mutf8.mutf8_dec cs, X12.BridgeClass.head_val C01.Mutf8.mutf8_dec ex_class, s5) /\
     X12.BridgeMembers.rd_headers true C01.Mutf8.mutf8_dec (C01.ClassFile.acc (X12.BridgePool.rpool C01.Mutf8.mutf8_dec cs)) 1%N s5
       = Ok ([C01.Fmt.VSeq [C01.Fmt.VN 25%N; C01.Fmt.VC (C01.Pool.VUtf8 [102]%N); C01.Fmt.VC (C01.Pool.VUtf8 [73]%N)]], s6) /\
     X12.BridgeMembers.rd_headers true C01.Mutf8.mutf8_dec (C01.ClassFile.acc (X12.BridgePool.rpool C01.Mutf8.mutf8_dec cs)) 2%N s6
       = Ok ([C01.Fmt.VSeq [C01.Fmt.VN 9%N; C01.Fmt.VC (C01.Pool.VUtf8 [109]%N); C01.Fmt.VC (C01.Pool.VUtf8 [40; 41; 86]%N)]], s7) /\
     C01.ClassFile.skip_members s5 = Ok s6 /\ C01.ClassFile.skip_members s6 = Ok s7 /\ C01.ClassFile.skip_attrs s7 = Ok []) /\
  (ccode_ok ex_code = true /\ X12.BridgeCode.ex_code_check = true).
Proof. exact (conj X12.BridgeCode.members_example X12.BridgeCode.code_example). Qed.
Print Assumptions C02_bridge_members_examples.

(* LOADABLE CONSTANTS through the BootstrapMethods table (coq/X12/BridgeDyn.v): the writer side is C02's ldenotes
   (C02_bootstrap_resolves), the reader side C01's get_loadable / get_invoke_dynamic (C01_dynamic_resolution).  With
   a reader-side table B that agrees with the writer's table (same argument indices, a handle index at which the
   decoder finds the entry's handle: what the written attribute holds, C02_bridge_bootstrap_table), the reader
   resolves the index put_loadable returned to the tree's constant — strings decoded; for a Dynamic: name and
   descriptor from its own NameAndType, handle and arguments from its bootstrap method, recursively, for every
   nesting below the fuel (66 at an ldc, 65 for the arguments of an invokedynamic) *)
Theorem C02_bridge_loadable_read : forall dec cs p tbl B,
  agrees p (cslots cs 1) -> X12.BridgeDyn.table_agrees cs tbl B ->
  forall l x fuel, ldenotes p tbl l x -> (X12.BridgeDyn.ldepth l < fuel)%nat ->
  C01.Pool.get_loadable fuel (X12.BridgePool.rpool dec cs) B (Z.to_N x) = Ok (X12.BridgeDyn.lval dec l).
Proof. exact X12.BridgeDyn.loadable_read. Qed.
Print Assumptions C02_bridge_loadable_read.

Theorem C02_bridge_indy_read : forall dec cs p tbl B x b nt n d h idxs args,
  agrees p (cslots cs 1) -> X12.BridgeDyn.table_agrees cs tbl B ->
  resolves p x (CInvokeDynamic b nt) -> refers get_nat (n, d) p nt -> 0 <= b ->
  nth_error tbl (Z.to_nat b) = Some (h, idxs) -> Forall2 (ldenotes p tbl) args idxs ->
  Forall (fun a => (X12.BridgeDyn.ldepth a < pred C01.Pool.nesting_fuel)%nat) args ->
  C01.Pool.get_invoke_dynamic (X12.BridgePool.rpool dec cs) B (Z.to_N x)
  = Ok (C01.Pool.VIndy (X12.BridgePool.sdec dec n) (X12.BridgePool.sdec dec d) (X12.BridgePool.handle_val dec h)
                       (map (X12.BridgeDyn.lval dec) args)).
Proof. exact X12.BridgeDyn.indy_read. Qed.
Print Assumptions C02_bridge_indy_read.

Theorem C02_bridge_bootstrap_table : forall cs s tbl r,
  p_list16 (X12.BridgeDyn.p_bsm (cslots cs 1)) s = Some (tbl, r) ->
  exists B, length B = length tbl /\ X12.BridgeDyn.table_agrees cs tbl B.
Proof. exact X12.BridgeDyn.table_from_decoder. Qed.
Print Assumptions C02_bridge_bootstrap_table.

(* ================================================================================================ *)
(* Round 6, fourth layer — attributes through C01's formats and THE WHOLE FILE for a fragment of trees
   (coq/X12/BridgeFmt.v, BridgeFile.v). *)
From FB Require C01.Formats X12.BridgeFmt X12.BridgeFile.

(* decoder to reader, attribute by attribute, through C01's FAttr and its name-selected formats: what C02's decoder
   accepts as a SourceFile / ConstantValue / LineNumberTable / Code attribute (Code: max_stack, max_locals, code,
   exception table with catch types, and inside only LineNumberTable attributes), C01's format reader reads from
   the same bytes followed by anything, to the explicit value, leaving the same rest.  names_ok dec: the decoder maps
   the four (ASCII) attribute names to C01's name constants *)
Theorem C02_bridge_attr_formats : forall impl dec cs, X12.BridgeFmt.names_ok dec = true ->
  (forall s sf r t, p_attr AtClass (cslots cs 1) s = Some (ASourceFile sf, r) ->
     C01.Fmt.rd_fmt impl dec (C01.ClassFile.acc (X12.BridgePool.rpool dec cs)) (C01.Fmt.FAttr C01.ClassFile.class_sel) (s ++ t)
     = Ok (X12.BridgeFmt.v_SourceFile dec sf, r ++ t)) /\
  (forall s v r t, p_attr AtField (cslots cs 1) s = Some (AConstantValue v, r) ->
     C01.Fmt.rd_fmt impl dec (C01.ClassFile.acc (X12.BridgePool.rpool dec cs)) (C01.Fmt.FAttr C01.ClassFile.field_sel) (s ++ t)
     = Ok (X12.BridgeFmt.v_ConstantValue dec v, r ++ t)) /\
  (forall s l r t, p_attr0 AtCode (cslots cs 1) s = Some (ALineNumberTable l, r) ->
     C01.Fmt.rd_fmt impl dec (C01.ClassFile.acc (X12.BridgePool.rpool dec cs)) (C01.Fmt.FAttr C01.ClassFile.code_sel) (s ++ t)
     = Ok (X12.BridgeFmt.v_LineNumberTable l, r ++ t)) /\
  (forall s k r t, X12.BridgeFmt.code_okP k -> p_attr AtMethod (cslots cs 1) s = Some (ACode k, r) ->
     C01.Fmt.rd_fmt impl dec (C01.ClassFile.acc (X12.BridgePool.rpool dec cs)) (C01.Fmt.FAttr C01.ClassFile.method_sel) (s ++ t)
     = Ok (X12.BridgeFmt.v_Code dec k, r ++ t)).
Proof.
  exact (fun impl dec cs Hn => conj (fun s sf r t => X12.BridgeFmt.attr_SourceFile impl dec cs s sf r t Hn)
    (conj (fun s v r t => X12.BridgeFmt.attr_ConstantValue impl dec cs s v r t Hn)
    (conj (fun s l r t => X12.BridgeFmt.attr_LineNumberTable impl dec cs s l r t Hn)
          (fun s k r t Hk => X12.BridgeFmt.attr_Code impl dec cs s k r t Hn Hk)))).
Qed.
Print Assumptions C02_bridge_attr_formats.

(* THE WHOLE FILE.  Fragment (dclass_frag, decidable on facts_of t aux; in_fragment t aux): class attributes ⊆
   {SourceFile}, field attributes ⊆ {ConstantValue}, method attributes ⊆ {Code}, attributes of a Code attribute ⊆
   {LineNumberTable}; any number of members, any code, exception tables with catch types, any pool.  For such a
   cclass_ok tree inside the reader's version gate: C01's read_class on the bytes write_class_aux wrote is C01's own
   build_class applied to the pool as read and to the explicitly given values of the head, the class attributes, the
   fields and the methods — the reader's whole parsing phase (gate, pool, head, both skip passes, class_attrs_fmt,
   fields_fmt, methods_fmt, every attribute through its format) is computed from the tree's facts; each method's Code
   value holds max_stack, max_locals, the code array and the exception entries of C02_bridge_code_attr *)
Theorem C02_bridge_class_file : forall impl dec t bs aux d,
  cclass_ok t = true -> write_class_aux t = WOK (bs, aux) ->
  C01.Attr.header_ok C01.Tables.magic (Z.to_N (k_minor t)) (Z.to_N (k_major t)) = true ->
  X12.BridgeClass.pool_utf8_ok dec (a_pool aux) = true -> X12.BridgeFmt.names_ok dec = true ->
  facts_of t aux = Some d -> X12.BridgeFile.dclass_frag d = true ->
  exists cs,
    rev (p_inner (a_pool aux)) = map mk cs /\
    C01.ClassFile.read_class impl dec bs
    = C01.ClassFile.build_class impl (X12.BridgePool.rpool dec cs) (Z.to_N (k_minor t)) (Z.to_N (k_major t))
        (X12.BridgeClass.head_val dec t)
        (C01.Fmt.VList (map (X12.BridgeFile.cattr_val dec) (d_attrs d)))
        (C01.Fmt.VList (map (X12.BridgeFile.member_val dec 1%N (X12.BridgeFile.fattr_val dec)) (d_fields d)))
        (C01.Fmt.VList (map (X12.BridgeFile.member_val dec 2%N (X12.BridgeFile.mattr_val dec)) (d_methods d))).
Proof. exact X12.BridgeFile.class_file_read. Qed.
Print Assumptions C02_bridge_class_file.

(* non-vacuity: class A extends O with SourceFile, a field with ConstantValue -5, a method m()V whose Code has two
   labelled instructions, an exception range catching O and a LineNumberTable: in the fragment; and C01's read_class on
   the written bytes, computed, succeeds with one field and one method whose code has 2 instructions, 1 exception
   range, 1 line number, max_stack 2 *)
Theorem C02_bridge_class_file_example : exists bs aux d cs,
  write_class_aux X12.BridgeFile.ex_file = WOK (bs, aux) /\ cclass_ok X12.BridgeFile.ex_file = true /\
  facts_of X12.BridgeFile.ex_file aux = Some d /\ X12.BridgeFile.in_fragment X12.BridgeFile.ex_file aux = true /\
  C01.ClassFile.read_class true C01.Mutf8.mutf8_dec bs
  = C01.ClassFile.build_class true (X12.BridgePool.rpool C01.Mutf8.mutf8_dec cs) 0%N 61%N
      (X12.BridgeClass.head_val C01.Mutf8.mutf8_dec X12.BridgeFile.ex_file)
      (C01.Fmt.VList (map (X12.BridgeFile.cattr_val C01.Mutf8.mutf8_dec) (d_attrs d)))
      (C01.Fmt.VList (map (X12.BridgeFile.member_val C01.Mutf8.mutf8_dec 1%N (X12.BridgeFile.fattr_val C01.Mutf8.mutf8_dec)) (d_fields d)))
      (C01.Fmt.VList (map (X12.BridgeFile.member_val C01.Mutf8.mutf8_dec 2%N (X12.BridgeFile.mattr_val C01.Mutf8.mutf8_dec)) (d_methods d))) /\
  X12.BridgeFile.desc_check (C01.ClassFile.read_class true C01.Mutf8.mutf8_dec bs) = true.
Proof. exact X12.BridgeFile.class_file_example. Qed.
Print Assumptions C02_bridge_class_file_example.

(* the BootstrapMethods table through C01's own f_BootstrapMethods format and bsm_entry: the table C01 extracts from
   the attribute agrees (table_agrees) with the table C02's decoder reads — the hypothesis of
   C02_bridge_loadable_read / C02_bridge_indy_read *)
Theorem C02_bridge_bootstrap_table_read : forall impl dec cs s tbl r t,
  p_list16 (X12.BridgeDyn.p_bsm (cslots cs 1)) s = Some (tbl, r) ->
  exists vs B,
    C01.Fmt.rd_fmt impl dec (C01.ClassFile.acc (X12.BridgePool.rpool dec cs)) C01.Formats.f_BootstrapMethods (s ++ t)
    = Ok (C01.Fmt.VList vs, r ++ t) /\
    C01.Pool.map_res C01.ClassFile.bsm_entry vs = Ok B /\ X12.BridgeDyn.table_agrees cs tbl B.
Proof. exact X12.BridgeFile.bootstrap_table_read. Qed.
Print Assumptions C02_bridge_bootstrap_table_read.

(* ================================================================================================ *)
(* Round 6, fifth layer — the widened fragment (coq/X12/BridgeFmt2.v, BridgeFile2.v). *)
From FB Require X12.BridgeFmt2 X12.BridgeFile2.

(* THE WHOLE FILE, widened fragment (dclass_frag2, decidable on facts_of t aux):
     class  within {SourceFile, Signature, InnerClasses, NestHost, NestMembers, BootstrapMethods, Deprecated, Synthetic}
     field  within {ConstantValue, Signature, Deprecated, Synthetic}
     method within {Code, Exceptions, Signature, Deprecated, Synthetic}
     Code   within {LineNumberTable, LocalVariableTable, LocalVariableTypeTable}
   read_class on the written bytes = build_class on the pool as read and explicit values; the class attribute values
   are related to the facts by crel: equal to the explicit value, except that a BootstrapMethods attribute is given up to
   the handle indices standing in the file — its bsm_entry projection is a table that agrees with the writer's
   (table_agrees), the hypothesis under which C02_bridge_loadable_read / C02_bridge_indy_read resolve the Dynamic /
   InvokeDynamic constants of the file; names_ok2: the decoder maps the 14 attribute names to themselves *)
Theorem C02_bridge_class_file_wide : forall impl dec t bs aux d,
  cclass_ok t = true -> write_class_aux t = WOK (bs, aux) ->
  C01.Attr.header_ok C01.Tables.magic (Z.to_N (k_minor t)) (Z.to_N (k_major t)) = true ->
  X12.BridgeClass.pool_utf8_ok dec (a_pool aux) = true -> X12.BridgeFmt2.names_ok2 dec = true ->
  facts_of t aux = Some d -> X12.BridgeFile2.dclass_frag2 d = true ->
  exists cs cattrs,
    rev (p_inner (a_pool aux)) = map mk cs /\ agrees (a_pool aux) (cslots cs 1) /\
    Forall2 (X12.BridgeFile2.crel dec cs) (d_attrs d) cattrs /\
    C01.ClassFile.read_class impl dec bs
    = C01.ClassFile.build_class impl (X12.BridgePool.rpool dec cs) (Z.to_N (k_minor t)) (Z.to_N (k_major t))
        (X12.BridgeClass.head_val dec t)
        (C01.Fmt.VList cattrs)
        (C01.Fmt.VList (map (X12.BridgeFile.member_val dec 1%N (X12.BridgeFile2.fattr_val2 dec)) (d_fields d)))
        (C01.Fmt.VList (map (X12.BridgeFile.member_val dec 2%N (X12.BridgeFile2.mattr_val2 dec)) (d_methods d))).
Proof. exact X12.BridgeFile2.class_file_read2. Qed.
Print Assumptions C02_bridge_class_file_wide.

(* non-vacuity: a deprecated generic class with InnerClasses, NestMembers, SourceFile, Signature and BootstrapMethods; a
   deprecated synthetic field with ConstantValue and Signature; a generic method throwing O whose Code holds new, ldc, a
   conditional, an invokedynamic call site (handle kind 6, arguments an Integer and a Class), return, an exception range,
   two line numbers and a local variable with descriptor and signature.  In the fragment; and C01's read_class on the
   written bytes, computed (invokedynamic resolved through the table it read), succeeds with 5 instructions, 1 exception
   range, 2 line numbers and 2 local-variable entries *)
Theorem C02_bridge_class_file_wide_example : exists bs aux d cs cattrs,
  write_class_aux X12.BridgeFile2.ex_file2 = WOK (bs, aux) /\ cclass_ok X12.BridgeFile2.ex_file2 = true /\ length (a_bsm aux) = 1%nat /\
  facts_of X12.BridgeFile2.ex_file2 aux = Some d /\ X12.BridgeFile2.in_fragment2 X12.BridgeFile2.ex_file2 aux = true /\
  Forall2 (X12.BridgeFile2.crel C01.Mutf8.mutf8_dec cs) (d_attrs d) cattrs /\ length cattrs = 6%nat /\
  C01.ClassFile.read_class true C01.Mutf8.mutf8_dec bs
  = C01.ClassFile.build_class true (X12.BridgePool.rpool C01.Mutf8.mutf8_dec cs) 0%N 61%N
      (X12.BridgeClass.head_val C01.Mutf8.mutf8_dec X12.BridgeFile2.ex_file2)
      (C01.Fmt.VList cattrs)
      (C01.Fmt.VList (map (X12.BridgeFile.member_val C01.Mutf8.mutf8_dec 1%N (X12.BridgeFile2.fattr_val2 C01.Mutf8.mutf8_dec)) (d_fields d)))
      (C01.Fmt.VList (map (X12.BridgeFile.member_val C01.Mutf8.mutf8_dec 2%N (X12.BridgeFile2.mattr_val2 C01.Mutf8.mutf8_dec)) (d_methods d))) /\
  X12.BridgeFile2.desc_check2 (C01.ClassFile.read_class true C01.Mutf8.mutf8_dec bs) = true.
Proof. exact X12.BridgeFile2.class_file_example2. Qed.
Print Assumptions C02_bridge_class_file_wide_example.

(* a closed form of build_class's Code step, for a Code attribute without inner attributes: the tree receives the
   instructions of S — the label-free form C01's read_code delivers on (code array, exception triples), which by
   C02_bridge_code_attr / C02_bridge_write_read is the translated instruction list — with their pool operands resolved,
   and the exception entries with their offsets replaced by the instruction indices of S *)
Theorem C02_bridge_build_code_closed : forall impl dec p b k S,
  dc_attrs k = [] -> C01.Model.read_code (X12.BridgeFile2.ci_of k) = Ok S ->
  exists ix,
    C01.Model.cs_exc S = map (fun e => match e with (s, e', h) => (ix s, ix e', ix h) end) (map X12.BridgeCode.exc3 (dc_exceptions k)) /\
    C01.ClassFile.build_code impl p b (X12.BridgeFile2.code_val2 dec k)
    = Base.Str.bind (C01.Pool.map_res (C01.ClassFile.resolve_entry p b) (C01.Model.cs_insns S)) (fun xi =>
        Ok {| C01.ClassFile.k_max_stack := Z.to_N (dc_max_stack k); C01.ClassFile.k_max_locals := Z.to_N (dc_max_locals k);
              C01.ClassFile.k_insns := xi; C01.ClassFile.k_last := C01.Model.cs_last S;
              C01.ClassFile.k_exc := map (C01.Fmt.map_pcs ix) (map (X12.BridgeCode.exc_val dec) (dc_exceptions k));
              C01.ClassFile.k_lines := []; C01.ClassFile.k_lvs := []; C01.ClassFile.k_frames := [];
              C01.ClassFile.k_vta := []; C01.ClassFile.k_ita := []; C01.ClassFile.k_unknown := [] |}).
Proof. exact X12.BridgeFile2.build_code_closed. Qed.
Print Assumptions C02_bridge_build_code_closed.

(* ================================================================================================ *)
(* Round 6, sixth layer — StackMapTable (coq/X12/BridgeFrames.v, BridgeFile3.v). *)
From FB Require X12.BridgeFrames X12.BridgeFile3.

(* one frame, decoder to reader: whatever C02's frame decoder (transcribed from read_stack_map_frame) accepts and
   resolves (Object types through get_class), C01's frame_fmt reads from the same bytes to a value whose
   offset_delta (C01's frame_delta) is the decoder's and whose normal form (C01's frame_norm) is the decoder's
   frame: same / same_locals_1 / chop k / append / full, verification types as simple tags (Long 4, Double 3, …),
   Object with the decoded class name, Uninitialized with its offset.  The frame_type encoding itself (same vs
   same_frame_extended, …) is not part of the decoder's answer: hence "a value such that" *)
Theorem C02_bridge_frame_read : forall impl dec cs s d f r t ff,
  dec_frame s = Some (d, f, r) -> resolve_frame (cslots cs 1) f = Some ff ->
  exists v, C01.Fmt.rd_fmt impl dec (C01.ClassFile.acc (X12.BridgePool.rpool dec cs)) C01.ClassFile.frame_fmt (s ++ t) = Ok (v, r ++ t) /\
            C01.ClassFile.frame_delta v = Ok (Z.to_N d) /\ C01.ClassFile.frame_norm v = X12.BridgeFrames.ff_val dec ff.
Proof. exact X12.BridgeFrames.frame_read. Qed.
Print Assumptions C02_bridge_frame_read.

(* the StackMapTable attribute through C01's Code format: the frames C01 reads have, under C01's own offset rule
   frame_offsets (JVMS 4.7.4: C01_frame_offsets_jvms), the decoder's absolute offsets and, under frame_norm, the
   decoder's contents (smt_rel) — and by C02_frames_written the decoder's frames are the tree's at the labelled positions *)
Theorem C02_bridge_stack_map_table : forall impl dec cs s l r t,
  X12.BridgePool.sdec dec s_StackMapTable = C01.Formats.a_StackMapTable ->
  p_attr0 AtCode (cslots cs 1) s = Some (AStackMapTable l, r) ->
  exists v, C01.Fmt.rd_fmt impl dec (C01.ClassFile.acc (X12.BridgePool.rpool dec cs)) (C01.Fmt.FAttr C01.ClassFile.code_sel) (s ++ t) = Ok (v, r ++ t) /\
            X12.BridgeFrames.smt_rel dec l v.
Proof. exact X12.BridgeFrames.attr_StackMapTable. Qed.
Print Assumptions C02_bridge_stack_map_table.

(* THE WHOLE FILE with StackMapTable: dclass_frag3 = the widened fragment + StackMapTable inside Code (the shape of
   javac output for Java 7+ without annotations).  As C02_bridge_class_file_wide, with the method values related to the
   facts (member_rel / mrel / code_rel / inner_rel: the explicit values of the widened fragment, a StackMapTable
   attribute up to smt_rel) *)
Theorem C02_bridge_class_file_frames : forall impl dec t bs aux d,
  cclass_ok t = true -> write_class_aux t = WOK (bs, aux) ->
  C01.Attr.header_ok C01.Tables.magic (Z.to_N (k_minor t)) (Z.to_N (k_major t)) = true ->
  X12.BridgeClass.pool_utf8_ok dec (a_pool aux) = true -> X12.BridgeFile3.names_ok3 dec = true ->
  facts_of t aux = Some d -> X12.BridgeFile3.dclass_frag3 d = true ->
  exists cs cattrs mvals,
    rev (p_inner (a_pool aux)) = map mk cs /\ agrees (a_pool aux) (cslots cs 1) /\
    Forall2 (X12.BridgeFile2.crel dec cs) (d_attrs d) cattrs /\
    Forall2 (X12.BridgeFile3.member_rel dec 2%N (X12.BridgeFile3.mrel dec)) (d_methods d) mvals /\
    C01.ClassFile.read_class impl dec bs
    = C01.ClassFile.build_class impl (X12.BridgePool.rpool dec cs) (Z.to_N (k_minor t)) (Z.to_N (k_major t))
        (X12.BridgeClass.head_val dec t)
        (C01.Fmt.VList cattrs)
        (C01.Fmt.VList (map (X12.BridgeFile.member_val dec 1%N (X12.BridgeFile2.fattr_val2 dec)) (d_fields d)))
        (C01.Fmt.VList mvals).
Proof. exact X12.BridgeFile3.class_file_read3. Qed.
Print Assumptions C02_bridge_class_file_frames.

(* non-vacuity: the class of the widened example plus a method whose branch targets carry frames — append [Long; Double]
   (tags 4, 3), same, full [Object A; Integer] / [Uninitialized L1]: inside dclass_frag3, outside dclass_frag2; and C01's
   read_class on the written bytes, computed, delivers the three frames *)
Theorem C02_bridge_class_file_frames_example : exists bs aux d cs cattrs mvals,
  write_class_aux X12.BridgeFile3.ex_file3 = WOK (bs, aux) /\ cclass_ok X12.BridgeFile3.ex_file3 = true /\
  facts_of X12.BridgeFile3.ex_file3 aux = Some d /\
  X12.BridgeFile3.in_fragment3 X12.BridgeFile3.ex_file3 aux = true /\ X12.BridgeFile2.in_fragment2 X12.BridgeFile3.ex_file3 aux = false /\
  Forall2 (X12.BridgeFile2.crel C01.Mutf8.mutf8_dec cs) (d_attrs d) cattrs /\
  Forall2 (X12.BridgeFile3.member_rel C01.Mutf8.mutf8_dec 2%N (X12.BridgeFile3.mrel C01.Mutf8.mutf8_dec)) (d_methods d) mvals /\ length mvals = 2%nat /\
  C01.ClassFile.read_class true C01.Mutf8.mutf8_dec bs
  = C01.ClassFile.build_class true (X12.BridgePool.rpool C01.Mutf8.mutf8_dec cs) 0%N 61%N
      (X12.BridgeClass.head_val C01.Mutf8.mutf8_dec X12.BridgeFile3.ex_file3)
      (C01.Fmt.VList cattrs)
      (C01.Fmt.VList (map (X12.BridgeFile.member_val C01.Mutf8.mutf8_dec 1%N (X12.BridgeFile2.fattr_val2 C01.Mutf8.mutf8_dec)) (d_fields d)))
      (C01.Fmt.VList mvals) /\
  X12.BridgeFile3.desc_check3 (C01.ClassFile.read_class true C01.Mutf8.mutf8_dec bs) = true.
Proof. exact X12.BridgeFile3.class_file_example3. Qed.
Print Assumptions C02_bridge_class_file_frames_example.

(* UNKNOWN ATTRIBUTES through C01's formats (coq/X12/BridgeUnknown.v): where C02's decoder returns an unknown attribute
   (name nb, bytes b) at class / field / method level or inside Code, and the DECODED name is none of the 31 names of
   C01's tables (unk_ok dec nb, decidable on the name: the injectivity condition on the decoder), C01's reader falls
   back to the raw bytes as well and delivers the decoded name with exactly the bytes *)
From FB Require X12.BridgeUnknown.
Theorem C02_bridge_unknown_attributes : forall impl dec cs,
  (forall l s nb b r t, (l = AtClass \/ l = AtField \/ l = AtMethod) -> X12.BridgeUnknown.unk_ok dec nb = true ->
     p_attr l (cslots cs 1) s = Some (ALeaf (AUnknown nb b), r) ->
     C01.Fmt.rd_fmt impl dec (C01.ClassFile.acc (X12.BridgePool.rpool dec cs))
       (C01.Fmt.FAttr (match l with AtClass => C01.ClassFile.class_sel | AtField => C01.ClassFile.field_sel | _ => C01.ClassFile.method_sel end)) (s ++ t)
     = Ok (X12.BridgeUnknown.v_Unknown dec nb b, r ++ t)) /\
  (forall s nb b r t, X12.BridgeUnknown.unk_ok dec nb = true ->
     p_attr0 AtCode (cslots cs 1) s = Some (AUnknown nb b, r) ->
     C01.Fmt.rd_fmt impl dec (C01.ClassFile.acc (X12.BridgePool.rpool dec cs)) (C01.Fmt.FAttr C01.ClassFile.code_sel) (s ++ t)
     = Ok (X12.BridgeUnknown.v_Unknown dec nb b, r ++ t)).
Proof.
  exact (fun impl dec cs => conj (fun l s nb b r t => X12.BridgeUnknown.attr_Unknown impl dec cs l s nb b r t)
                                 (fun s nb b r t => X12.BridgeUnknown.attr_Unknown0 impl dec cs s nb b r t)).
Qed.
Print Assumptions C02_bridge_unknown_attributes.

(* ================================================================================================ *)
(* Round 6, seventh layer — unknown attributes and three more kinds inside the fragment (coq/X12/BridgeFmt3.v, BridgeFile4.v). *)
From FB Require X12.BridgeFmt3 X12.BridgeFile4.

(* THE WHOLE FILE, fragment 4 (dclass_frag4 dec, decidable on facts_of t aux and the decoder) = fragment 3
   + unknown attributes at class / field / method level and inside Code, each with a decoded name outside C01's 31
     known names (unk_ok) — read back verbatim: decoded name, exactly the bytes, in order;
   + EnclosingMethod, PermittedSubclasses (class), MethodParameters (method) *)
Theorem C02_bridge_class_file_unknown : forall impl dec t bs aux d,
  cclass_ok t = true -> write_class_aux t = WOK (bs, aux) ->
  C01.Attr.header_ok C01.Tables.magic (Z.to_N (k_minor t)) (Z.to_N (k_major t)) = true ->
  X12.BridgeClass.pool_utf8_ok dec (a_pool aux) = true -> X12.BridgeFile4.names_ok4 dec = true ->
  facts_of t aux = Some d -> X12.BridgeFile4.dclass_frag4 dec d = true ->
  exists cs cattrs mvals,
    rev (p_inner (a_pool aux)) = map mk cs /\ agrees (a_pool aux) (cslots cs 1) /\
    Forall2 (X12.BridgeFile4.crel4 dec cs) (d_attrs d) cattrs /\
    Forall2 (X12.BridgeFile3.member_rel dec 2%N (X12.BridgeFile4.mrel4 dec)) (d_methods d) mvals /\
    C01.ClassFile.read_class impl dec bs
    = C01.ClassFile.build_class impl (X12.BridgePool.rpool dec cs) (Z.to_N (k_minor t)) (Z.to_N (k_major t))
        (X12.BridgeClass.head_val dec t)
        (C01.Fmt.VList cattrs)
        (C01.Fmt.VList (map (X12.BridgeFile.member_val dec 1%N (X12.BridgeFile4.fattr_val4 dec)) (d_fields d)))
        (C01.Fmt.VList mvals).
Proof. exact X12.BridgeFile4.class_file_read4. Qed.
Print Assumptions C02_bridge_class_file_unknown.

(* non-vacuity: a class with EnclosingMethod, NestHost, PermittedSubclasses, SourceFile and an unknown attribute "X"; a field
   with an unknown attribute; a method with MethodParameters, an unknown attribute, and inside its Code a frame, a line
   number and an unknown attribute: inside fragment 4, outside fragment 3; C01's read_class on the written bytes, computed,
   keeps one unknown attribute at each of the four levels *)
Theorem C02_bridge_class_file_unknown_example : exists bs aux d cs cattrs mvals,
  write_class_aux X12.BridgeFile4.ex_file4 = WOK (bs, aux) /\ cclass_ok X12.BridgeFile4.ex_file4 = true /\
  facts_of X12.BridgeFile4.ex_file4 aux = Some d /\
  X12.BridgeFile4.in_fragment4 C01.Mutf8.mutf8_dec X12.BridgeFile4.ex_file4 aux = true /\
  X12.BridgeFile3.in_fragment3 X12.BridgeFile4.ex_file4 aux = false /\
  Forall2 (X12.BridgeFile4.crel4 C01.Mutf8.mutf8_dec cs) (d_attrs d) cattrs /\ length cattrs = 5%nat /\
  Forall2 (X12.BridgeFile3.member_rel C01.Mutf8.mutf8_dec 2%N (X12.BridgeFile4.mrel4 C01.Mutf8.mutf8_dec)) (d_methods d) mvals /\
  C01.ClassFile.read_class true C01.Mutf8.mutf8_dec bs
  = C01.ClassFile.build_class true (X12.BridgePool.rpool C01.Mutf8.mutf8_dec cs) 0%N 61%N
      (X12.BridgeClass.head_val C01.Mutf8.mutf8_dec X12.BridgeFile4.ex_file4)
      (C01.Fmt.VList cattrs)
      (C01.Fmt.VList (map (X12.BridgeFile.member_val C01.Mutf8.mutf8_dec 1%N (X12.BridgeFile4.fattr_val4 C01.Mutf8.mutf8_dec)) (d_fields d)))
      (C01.Fmt.VList mvals) /\
  X12.BridgeFile4.desc_check4 (C01.ClassFile.read_class true C01.Mutf8.mutf8_dec bs) = true.
Proof. exact X12.BridgeFile4.class_file_example4. Qed.
Print Assumptions C02_bridge_class_file_unknown_example.

(* THE FRAMES LAND ON THE TRANSLATED INSTRUCTIONS (coq/X12/BridgeAttach.v): composition of C02_frames_written, the layout
   agreement of the code-array bridge, C01's attach rule (C01_frames_attached) and, through C02_bridge_stack_map_table,
   C01's own reading of the attribute.  For what write_code_f writes for a body with frames: the written StackMapTable
   decodes to the tree's frames at offsets that are exactly the offsets C01's layout gives the translated instructions
   FI = fidx … (the first instruction of every entry that carries a frame); and frames queued at these offsets are
   attached by C01's reader, in order, to exactly the instructions FI: the m-th frame of the tree on instruction FI[m] *)
From FB Require X12.BridgeAttach.
Theorem C02_bridge_frames_attach : forall hasmax b last tb fs w Wd rt sm,
  unique_labels b last -> frames_ok fs = true -> length fs = length b ->
  write_code_f hasmax b last tb fs = Some (OK (w, Wd, rt, Some sm)) ->
  let chs := chs_run Wd 0%N 0 [] b in
  X12.BridgeDefs.body_in chs b = true ->
  let body' := X12.BridgeDefs.tr_body chs b last in
  let posf := C01.Model.posf_of (C01.Model.layout (X12.BridgeDefs.tr_ch chs b) body') in
  let FI := X12.BridgeAttach.fidx chs 0 b fs in
  exists ds,
    dec_stack_map sm = Some ds /\ tree_frames (labpos chs 0 b last) (positions chs 0 b) fs = Some ds /\
    map (fun e => Z.to_N (fst e)) ds = map posf FI /\
    C01.Theory4.incr_from 0 FI /\ (forall f, In f FI -> (f < length body')%nat) /\
    (forall is : list (C01.Model.ainsn N), length is = length body' ->
       C01.Model.attach (combine (map posf (seq 0 (length is))) is) (map posf FI) 0 = C01.Theory4.attach_idx 0 (length is) FI 0) /\
    (forall m f, nth_error FI m = Some f -> nth_error (C01.Theory4.attach_idx 0 (length body') FI 0) f = Some (Some m)).
Proof. exact X12.BridgeAttach.frames_attach. Qed.
Print Assumptions C02_bridge_frames_attach.

Theorem C02_bridge_frames_attach_example : exists w rt sm,
  write_code_f true X12.BridgeAttach.exa_b None X12.BridgeAttach.exa_tb X12.BridgeAttach.exa_fs = Some (OK (w, [], rt, Some sm)) /\
  unique_labels X12.BridgeAttach.exa_b None /\ frames_ok X12.BridgeAttach.exa_fs = true /\
  length X12.BridgeAttach.exa_fs = length X12.BridgeAttach.exa_b /\
  X12.BridgeDefs.body_in (chs_run [] 0%N 0 [] X12.BridgeAttach.exa_b) X12.BridgeAttach.exa_b = true /\
  X12.BridgeAttach.fidx (chs_run [] 0%N 0 [] X12.BridgeAttach.exa_b) 0 X12.BridgeAttach.exa_b X12.BridgeAttach.exa_fs = [2%nat].
Proof. exact X12.BridgeAttach.attach_example. Qed.
Print Assumptions C02_bridge_frames_attach_example.

(* ================================================================================================ *)
(* Round 6, eighth layer — annotations, AnnotationDefault, the Module attributes and Record inside the fragment
   (coq/X12/BridgeAnnot.v, BridgeModule.v, BridgeRecord.v, BridgeFile5.v). *)
From FB Require X12.BridgeAnnot X12.BridgeModule X12.BridgeRecord X12.BridgeFile5.

(* ELEMENT VALUES: whatever element_value tree C02's decoder (parse_elem, any fuel) accepts from a prefix, C01's reader reads
   from the same bytes followed by anything through its tag-selected format ev_fmt k, for every k that bounds the nesting
   of annotation- and array-valued elements (ev_depth); the value is the tree with every string decoded and every constant
   taken through the accessor C01's table selects for the tag (B as i8, C as u16, S as i16, Z as != 0: econst_val) *)
Theorem C02_bridge_element_value : forall impl dec cs fuel k s e r t,
  parse_elem fuel (cslots cs 1) s = Some (e, r) -> (X12.BridgeAnnot.ev_depth e <= k)%nat ->
  C01.Fmt.rd_fmt impl dec (C01.ClassFile.acc (X12.BridgePool.rpool dec cs)) (C01.ClassFile.ev_fmt k) (s ++ t)
  = Ok (X12.BridgeAnnot.ev_val dec e, r ++ t).
Proof. exact X12.BridgeAnnot.elem_read. Qed.
Print Assumptions C02_bridge_element_value.

(* RuntimeVisibleAnnotations / RuntimeInvisibleAnnotations at class, field or method level (any selector that maps the
   two names to annotations_fmt: class_sel, field_sel, method_sel do), and AnnotationDefault; anns_ok / ev_nest_ok:
   element values nest at most 64 deep (C01's max_ev_nesting, duke's limit), decidable on the decoder's answer *)
Theorem C02_bridge_annotations : forall impl dec cs,
  (forall l sel s vis la r t,
     X12.BridgePool.sdec dec s_RVAnn = C01.Formats.a_RuntimeVisibleAnnotations ->
     X12.BridgePool.sdec dec s_RIAnn = C01.Formats.a_RuntimeInvisibleAnnotations ->
     (l = AtClass \/ l = AtField \/ l = AtMethod) -> X12.BridgeAnnot.ann_sel_ok sel -> X12.BridgeAnnot.anns_ok la = true ->
     p_attr l (cslots cs 1) s = Some (ALeaf (AAnnotations vis la), r) ->
     C01.Fmt.rd_fmt impl dec (C01.ClassFile.acc (X12.BridgePool.rpool dec cs)) (C01.Fmt.FAttr sel) (s ++ t)
     = Ok (X12.BridgeAnnot.v_Annotations dec vis la, r ++ t)) /\
  (X12.BridgeAnnot.ann_sel_ok C01.ClassFile.class_sel /\ X12.BridgeAnnot.ann_sel_ok C01.ClassFile.field_sel /\
   X12.BridgeAnnot.ann_sel_ok C01.ClassFile.method_sel) /\
  (forall s e r t,
     X12.BridgePool.sdec dec s_AnnotationDefault = C01.Formats.a_AnnotationDefault -> X12.BridgeAnnot.ev_nest_ok e = true ->
     p_attr AtMethod (cslots cs 1) s = Some (AAnnotationDefault e, r) ->
     C01.Fmt.rd_fmt impl dec (C01.ClassFile.acc (X12.BridgePool.rpool dec cs)) (C01.Fmt.FAttr C01.ClassFile.method_sel) (s ++ t)
     = Ok (X12.BridgeAnnot.v_AnnotationDefault dec e, r ++ t)).
Proof.
  intros impl dec cs. split; [|split].
  - intros l sel s vis la r t. exact (X12.BridgeAnnot.attr_Annotations impl dec cs l sel s vis la r t).
  - exact (conj X12.BridgeAnnot.ann_sel_class (conj X12.BridgeAnnot.ann_sel_field X12.BridgeAnnot.ann_sel_method)).
  - intros s e r t. exact (X12.BridgeAnnot.attr_AnnotationDefault impl dec cs s e r t).
Qed.
Print Assumptions C02_bridge_annotations.

(* Module (name, flags, version, requires, exports, opens, uses, provides), ModulePackages, ModuleMainClass, and Record
   (each component: name, descriptor and its own attribute list read through C01's record_sel: Signature, the two annotation
   attributes, unknown attributes under unk_ok — rcompb, decidable) *)
Theorem C02_bridge_module_record : forall impl dec cs,
  (forall s x r t, X12.BridgePool.sdec dec s_Module = C01.Formats.a_Module ->
     p_attr AtClass (cslots cs 1) s = Some (AModule x, r) ->
     C01.Fmt.rd_fmt impl dec (C01.ClassFile.acc (X12.BridgePool.rpool dec cs)) (C01.Fmt.FAttr C01.ClassFile.class_sel) (s ++ t)
     = Ok (X12.BridgeModule.v_Module dec x, r ++ t)) /\
  (forall s x r t, X12.BridgePool.sdec dec s_ModulePackages = C01.Formats.a_ModulePackages ->
     p_attr AtClass (cslots cs 1) s = Some (AModulePackages x, r) ->
     C01.Fmt.rd_fmt impl dec (C01.ClassFile.acc (X12.BridgePool.rpool dec cs)) (C01.Fmt.FAttr C01.ClassFile.class_sel) (s ++ t)
     = Ok (X12.BridgeModule.v_ModulePackages dec x, r ++ t)) /\
  (forall s x r t, X12.BridgePool.sdec dec s_ModuleMainClass = C01.Formats.a_ModuleMainClass ->
     p_attr AtClass (cslots cs 1) s = Some (AModuleMainClass x, r) ->
     C01.Fmt.rd_fmt impl dec (C01.ClassFile.acc (X12.BridgePool.rpool dec cs)) (C01.Fmt.FAttr C01.ClassFile.class_sel) (s ++ t)
     = Ok (X12.BridgeModule.v_ModuleMainClass dec x, r ++ t)) /\
  (forall s x r t, X12.BridgePool.sdec dec s_Record = C01.Formats.a_Record ->
     X12.BridgePool.sdec dec s_Signature = C01.Formats.a_Signature ->
     X12.BridgePool.sdec dec s_RVAnn = C01.Formats.a_RuntimeVisibleAnnotations ->
     X12.BridgePool.sdec dec s_RIAnn = C01.Formats.a_RuntimeInvisibleAnnotations ->
     forallb (X12.BridgeRecord.rcompb dec) x = true ->
     p_attr AtClass (cslots cs 1) s = Some (ARecord x, r) ->
     C01.Fmt.rd_fmt impl dec (C01.ClassFile.acc (X12.BridgePool.rpool dec cs)) (C01.Fmt.FAttr C01.ClassFile.class_sel) (s ++ t)
     = Ok (X12.BridgeRecord.v_Record dec x, r ++ t)).
Proof.
  intros impl dec cs. repeat split.
  - intros s x r t. exact (X12.BridgeModule.attr_Module impl dec cs s x r t).
  - intros s x r t. exact (X12.BridgeModule.attr_ModulePackages impl dec cs s x r t).
  - intros s x r t. exact (X12.BridgeModule.attr_ModuleMainClass impl dec cs s x r t).
  - intros s x r t. exact (X12.BridgeRecord.attr_Record impl dec cs s x r t).
Qed.
Print Assumptions C02_bridge_module_record.

(* THE WHOLE FILE, fragment 5 (dclass_frag5 dec, decidable on facts_of t aux and the decoder) = fragment 4
   + RuntimeVisibleAnnotations / RuntimeInvisibleAnnotations at class, field and method level, AnnotationDefault (element
     values nested at most 64 deep)
   + Module, ModulePackages, ModuleMainClass, Record (class) *)
Theorem C02_bridge_class_file_annotations : forall impl dec t bs aux d,
  cclass_ok t = true -> write_class_aux t = WOK (bs, aux) ->
  C01.Attr.header_ok C01.Tables.magic (Z.to_N (k_minor t)) (Z.to_N (k_major t)) = true ->
  X12.BridgeClass.pool_utf8_ok dec (a_pool aux) = true -> X12.BridgeFile5.names_ok5 dec = true ->
  facts_of t aux = Some d -> X12.BridgeFile5.dclass_frag5 dec d = true ->
  exists cs cattrs mvals,
    rev (p_inner (a_pool aux)) = map mk cs /\ agrees (a_pool aux) (cslots cs 1) /\
    Forall2 (X12.BridgeFile5.crel5 dec cs) (d_attrs d) cattrs /\
    Forall2 (X12.BridgeFile3.member_rel dec 2%N (X12.BridgeFile5.mrel5 dec)) (d_methods d) mvals /\
    C01.ClassFile.read_class impl dec bs
    = C01.ClassFile.build_class impl (X12.BridgePool.rpool dec cs) (Z.to_N (k_minor t)) (Z.to_N (k_major t))
        (X12.BridgeClass.head_val dec t)
        (C01.Fmt.VList cattrs)
        (C01.Fmt.VList (map (X12.BridgeFile.member_val dec 1%N (X12.BridgeFile5.fattr_val5 dec)) (d_fields d)))
        (C01.Fmt.VList mvals).
Proof. exact X12.BridgeFile5.class_file_read5. Qed.
Print Assumptions C02_bridge_class_file_annotations.

(* non-vacuity: the class of the previous example with the three Module attributes, a Record component (signature, the
   nested annotation, an unknown attribute), a nested annotation on the class and the method (an array-valued element with
   an int and a boolean, an annotation-valued element holding an enum constant, a class literal, a string), an invisible
   marker annotation on class and field, and an AnnotationDefault that is an array holding an annotation and a short:
   inside fragment 5, outside fragment 4; C01's read_class on the written bytes, computed, succeeds, and its description
   holds exactly the translated annotation in the class's RuntimeVisibleAnnotations slot and the translated default value
   in the method's AnnotationDefault slot *)
Theorem C02_bridge_class_file_annotations_example : exists bs aux d cs cattrs mvals cd,
  write_class_aux X12.BridgeFile5.ex_file5 = WOK (bs, aux) /\ cclass_ok X12.BridgeFile5.ex_file5 = true /\
  facts_of X12.BridgeFile5.ex_file5 aux = Some d /\
  X12.BridgeFile5.in_fragment5 C01.Mutf8.mutf8_dec X12.BridgeFile5.ex_file5 aux = true /\
  X12.BridgeFile4.in_fragment4 C01.Mutf8.mutf8_dec X12.BridgeFile5.ex_file5 aux = false /\
  Forall2 (X12.BridgeFile5.crel5 C01.Mutf8.mutf8_dec cs) (d_attrs d) cattrs /\ length cattrs = 11%nat /\
  Forall2 (X12.BridgeFile3.member_rel C01.Mutf8.mutf8_dec 2%N (X12.BridgeFile5.mrel5 C01.Mutf8.mutf8_dec)) (d_methods d) mvals /\
  C01.ClassFile.read_class true C01.Mutf8.mutf8_dec bs
  = C01.ClassFile.build_class true (X12.BridgePool.rpool C01.Mutf8.mutf8_dec cs) 0%N 61%N
      (X12.BridgeClass.head_val C01.Mutf8.mutf8_dec X12.BridgeFile5.ex_file5)
      (C01.Fmt.VList cattrs)
      (C01.Fmt.VList (map (X12.BridgeFile.member_val C01.Mutf8.mutf8_dec 1%N (X12.BridgeFile5.fattr_val5 C01.Mutf8.mutf8_dec)) (d_fields d)))
      (C01.Fmt.VList mvals) /\
  C01.ClassFile.read_class true C01.Mutf8.mutf8_dec bs = Ok cd /\
  In (C01.Formats.a_RuntimeVisibleAnnotations, C01.Fmt.VList [X12.BridgeAnnot.ann_val C01.Mutf8.mutf8_dec X12.BridgeFile5.ex_ann])
     (C01.ClassFile.cd_slots cd) /\
  match C01.ClassFile.cd_methods cd with
  | [m] => In (C01.Formats.a_AnnotationDefault, X12.BridgeAnnot.ev_val C01.Mutf8.mutf8_dec X12.BridgeFile5.ex_default)
              (C01.ClassFile.md_slots m)
  | _ => False
  end.
Proof. exact X12.BridgeFile5.class_file_example5. Qed.
Print Assumptions C02_bridge_class_file_annotations_example.

(* ================================================================================================ *)
(* Round 6, ninth layer — type annotations at all five locations and SourceDebugExtension
   (coq/X12/BridgeTypeAnn.v, BridgeFile6.v): the fragment now names every attribute kind of C02's decoded class. *)
From FB Require X12.BridgeTypeAnn X12.BridgeFile6.

(* TARGET_INFO: whatever target C02's decoder accepts (inside or outside Code), C01's reader reads through the table-driven
   target format of ANY location (tbl, extra) under tgt_ok — C01's own tag test for that location, and the field layout
   its table gives the tag is the layout C02's decoder parsed (both decidable on the decoder's answer) *)
Theorem C02_bridge_target_info : forall impl dec rs tbl extra ic s tg r t,
  p_target ic s = Some (tg, r) -> X12.BridgeTypeAnn.tgt_ok impl tbl extra tg = true ->
  C01.Fmt.rd_fmt impl dec rs (C01.ClassFile.target_fmt tbl extra) (s ++ t) = Ok (X12.BridgeTypeAnn.target_val tg, r ++ t).
Proof. exact X12.BridgeTypeAnn.target_read. Qed.
Print Assumptions C02_bridge_target_info.

(* RuntimeVisibleTypeAnnotations / RuntimeInvisibleTypeAnnotations: at class / field / method level, and at a location
   whose attributes are leaf attributes (inside Code, record component), for any selector that maps the two names to
   type_annotations_fmt (target_fmt tbl extra); tas_ok = tgt_ok for every target and the nesting bound on the pairs *)
Theorem C02_bridge_type_annotations : forall impl dec cs sel tbl extra,
  X12.BridgePool.sdec dec s_RVTAnn = C01.Formats.a_RuntimeVisibleTypeAnnotations ->
  X12.BridgePool.sdec dec s_RITAnn = C01.Formats.a_RuntimeInvisibleTypeAnnotations ->
  (forall len, sel C01.Formats.a_RuntimeVisibleTypeAnnotations len = C01.ClassFile.type_annotations_fmt (C01.ClassFile.target_fmt tbl extra)) ->
  (forall len, sel C01.Formats.a_RuntimeInvisibleTypeAnnotations len = C01.ClassFile.type_annotations_fmt (C01.ClassFile.target_fmt tbl extra)) ->
  (forall l s vis la r t, (l = AtClass \/ l = AtField \/ l = AtMethod) -> X12.BridgeTypeAnn.tas_ok impl tbl extra la = true ->
     p_attr l (cslots cs 1) s = Some (ALeaf (ATypeAnnotations vis la), r) ->
     C01.Fmt.rd_fmt impl dec (C01.ClassFile.acc (X12.BridgePool.rpool dec cs)) (C01.Fmt.FAttr sel) (s ++ t)
     = Ok (X12.BridgeTypeAnn.v_TypeAnnotations dec vis la, r ++ t)) /\
  (forall l s vis la r t, X12.BridgeTypeAnn.tas_ok impl tbl extra la = true ->
     p_attr0 l (cslots cs 1) s = Some (ATypeAnnotations vis la, r) ->
     C01.Fmt.rd_fmt impl dec (C01.ClassFile.acc (X12.BridgePool.rpool dec cs)) (C01.Fmt.FAttr sel) (s ++ t)
     = Ok (X12.BridgeTypeAnn.v_TypeAnnotations dec vis la, r ++ t)).
Proof.
  intros impl dec cs sel tbl extra N1 N2 S1 S2. split.
  - intros l s vis la r t Hl Ha H. exact (X12.BridgeTypeAnn.attr_TypeAnnotations impl dec cs l sel tbl extra s vis la r t N1 N2 Hl S1 S2 Ha H).
  - intros l s vis la r t Ha H. exact (X12.BridgeTypeAnn.attr_TypeAnnotations0 impl dec cs l sel tbl extra s vis la r t N1 N2 S1 S2 Ha H).
Qed.
Print Assumptions C02_bridge_type_annotations.

(* SourceDebugExtension: C02 keeps the bytes, C01 decodes them; under sde_ok (the reader's decoder accepts the bytes) C01
   reads the decoded string *)
Theorem C02_bridge_source_debug_extension : forall impl dec cs s x r t,
  X12.BridgePool.sdec dec s_SourceDebugExtension = C01.Formats.a_SourceDebugExtension -> X12.BridgeFile6.sde_ok dec x = true ->
  p_attr AtClass (cslots cs 1) s = Some (ASourceDebugExtension x, r) ->
  C01.Fmt.rd_fmt impl dec (C01.ClassFile.acc (X12.BridgePool.rpool dec cs)) (C01.Fmt.FAttr C01.ClassFile.class_sel) (s ++ t)
  = Ok (X12.BridgeFile6.v_SDE dec x, r ++ t).
Proof. exact X12.BridgeFile6.attr_SDE. Qed.
Print Assumptions C02_bridge_source_debug_extension.

(* THE WHOLE FILE, fragment 6 (dclass_frag6 impl dec) = fragment 5 + type annotations at class / field / method / record
   component level and inside Code (each under C01's per-location target condition) + SourceDebugExtension (sde_ok) *)
Theorem C02_bridge_class_file_all_kinds : forall impl dec t bs aux d,
  cclass_ok t = true -> write_class_aux t = WOK (bs, aux) ->
  C01.Attr.header_ok C01.Tables.magic (Z.to_N (k_minor t)) (Z.to_N (k_major t)) = true ->
  X12.BridgeClass.pool_utf8_ok dec (a_pool aux) = true -> X12.BridgeFile6.names_ok6 dec = true ->
  facts_of t aux = Some d -> X12.BridgeFile6.dclass_frag6 impl dec d = true ->
  exists cs cattrs mvals,
    rev (p_inner (a_pool aux)) = map mk cs /\ agrees (a_pool aux) (cslots cs 1) /\
    Forall2 (X12.BridgeFile6.crel6 dec cs) (d_attrs d) cattrs /\
    Forall2 (X12.BridgeFile3.member_rel dec 2%N (X12.BridgeFile6.mrel6 dec)) (d_methods d) mvals /\
    C01.ClassFile.read_class impl dec bs
    = C01.ClassFile.build_class impl (X12.BridgePool.rpool dec cs) (Z.to_N (k_minor t)) (Z.to_N (k_major t))
        (X12.BridgeClass.head_val dec t)
        (C01.Fmt.VList cattrs)
        (C01.Fmt.VList (map (X12.BridgeFile.member_val dec 1%N (X12.BridgeFile6.fattr_val6 dec)) (d_fields d)))
        (C01.Fmt.VList mvals).
Proof. exact X12.BridgeFile6.class_file_read6. Qed.
Print Assumptions C02_bridge_class_file_all_kinds.

(* non-vacuity: the class of the previous example with SourceDebugExtension and type annotations at all five locations
   (class: supertype; field: empty target; method: formal parameter and return type; record component: empty target;
   Code: an offset target on a label, a local-variable table target, a catch target), each with a type path and a pair:
   inside fragment 6, outside fragment 5, 13 class attributes; C01's read_class on the written bytes, computed, succeeds
   and its description holds exactly the translated class-level type annotation *)
Theorem C02_bridge_class_file_all_kinds_example : exists bs aux d cs cattrs mvals cd,
  write_class_aux X12.BridgeFile6.ex_file6 = WOK (bs, aux) /\ cclass_ok X12.BridgeFile6.ex_file6 = true /\
  facts_of X12.BridgeFile6.ex_file6 aux = Some d /\
  X12.BridgeFile6.in_fragment6 true C01.Mutf8.mutf8_dec X12.BridgeFile6.ex_file6 aux = true /\
  X12.BridgeFile5.in_fragment5 C01.Mutf8.mutf8_dec X12.BridgeFile6.ex_file6 aux = false /\
  Forall2 (X12.BridgeFile6.crel6 C01.Mutf8.mutf8_dec cs) (d_attrs d) cattrs /\ length cattrs = 13%nat /\
  Forall2 (X12.BridgeFile3.member_rel C01.Mutf8.mutf8_dec 2%N (X12.BridgeFile6.mrel6 C01.Mutf8.mutf8_dec)) (d_methods d) mvals /\
  C01.ClassFile.read_class true C01.Mutf8.mutf8_dec bs
  = C01.ClassFile.build_class true (X12.BridgePool.rpool C01.Mutf8.mutf8_dec cs) 0%N 61%N
      (X12.BridgeClass.head_val C01.Mutf8.mutf8_dec X12.BridgeFile6.ex_file6)
      (C01.Fmt.VList cattrs)
      (C01.Fmt.VList (map (X12.BridgeFile.member_val C01.Mutf8.mutf8_dec 1%N (X12.BridgeFile6.fattr_val6 C01.Mutf8.mutf8_dec)) (d_fields d)))
      (C01.Fmt.VList mvals) /\
  C01.ClassFile.read_class true C01.Mutf8.mutf8_dec bs = Ok cd /\
  In (C01.Formats.a_RuntimeVisibleTypeAnnotations,
      C01.Fmt.VList [X12.BridgeTypeAnn.ta_val C01.Mutf8.mutf8_dec (X12.BridgeFile6.ex_ta (TSupertype 16%N 65535))])
     (C01.ClassFile.cd_slots cd).
Proof. exact X12.BridgeFile6.class_file_example6. Qed.
Print Assumptions C02_bridge_class_file_all_kinds_example.

(* ================================================================================================ *)
(* Round 6, tenth layer — the kind part of fragment 6 holds for every written class (coq/X12/BridgeKinds.v). *)
From FB Require X12.BridgeKinds.

(* for the decoded class of ANY written cclass_ok tree, dclass_frag6 follows from dclass_side6 — the side conditions alone:
   cside6 / fside6 / mside6 / iside6 / rside6 map every constructor of dattr / dattr0 to `true` or to one of
   unk_ok (unknown name), anns_ok / ev_nest_ok (nesting <= 64), tas_ok (per-location targets), sde_ok (decodable bytes);
   none is mapped to `false`.  Proof: whatever C02's decoder returns at a location is a kind fragment 6 names there *)
Theorem C02_bridge_written_kinds : forall impl dec t bs aux d,
  cclass_ok t = true -> write_class_aux t = WOK (bs, aux) ->
  C01.Attr.header_ok C01.Tables.magic (Z.to_N (k_minor t)) (Z.to_N (k_major t)) = true ->
  X12.BridgeClass.pool_utf8_ok dec (a_pool aux) = true ->
  facts_of t aux = Some d -> X12.BridgeKinds.dclass_side6 impl dec d = true -> X12.BridgeFile6.dclass_frag6 impl dec d = true.
Proof. exact X12.BridgeKinds.written_kinds. Qed.
Print Assumptions C02_bridge_written_kinds.

(* THE WHOLE FILE FOR EVERY cclass_ok TREE: C02_bridge_class_file_all_kinds with the fragment hypothesis replaced by the
   side conditions (all decidable: header_ok, pool_utf8_ok, names_ok6, dclass_side6) *)
Theorem C02_bridge_class_file_every_tree : forall impl dec t bs aux d,
  cclass_ok t = true -> write_class_aux t = WOK (bs, aux) ->
  C01.Attr.header_ok C01.Tables.magic (Z.to_N (k_minor t)) (Z.to_N (k_major t)) = true ->
  X12.BridgeClass.pool_utf8_ok dec (a_pool aux) = true -> X12.BridgeFile6.names_ok6 dec = true ->
  facts_of t aux = Some d -> X12.BridgeKinds.dclass_side6 impl dec d = true ->
  exists cs cattrs mvals,
    rev (p_inner (a_pool aux)) = map mk cs /\ agrees (a_pool aux) (cslots cs 1) /\
    Forall2 (X12.BridgeFile6.crel6 dec cs) (d_attrs d) cattrs /\
    Forall2 (X12.BridgeFile3.member_rel dec 2%N (X12.BridgeFile6.mrel6 dec)) (d_methods d) mvals /\
    C01.ClassFile.read_class impl dec bs
    = C01.ClassFile.build_class impl (X12.BridgePool.rpool dec cs) (Z.to_N (k_minor t)) (Z.to_N (k_major t))
        (X12.BridgeClass.head_val dec t)
        (C01.Fmt.VList cattrs)
        (C01.Fmt.VList (map (X12.BridgeFile.member_val dec 1%N (X12.BridgeFile6.fattr_val6 dec)) (d_fields d)))
        (C01.Fmt.VList mvals).
Proof. exact X12.BridgeKinds.class_file_read_all. Qed.
Print Assumptions C02_bridge_class_file_every_tree.

(* non-vacuity: the side conditions hold (computed) for the decoded class of the all-kinds example *)
Theorem C02_bridge_class_file_every_tree_example : exists bs aux d,
  write_class_aux X12.BridgeFile6.ex_file6 = WOK (bs, aux) /\ facts_of X12.BridgeFile6.ex_file6 aux = Some d /\
  X12.BridgeKinds.dclass_side6 true C01.Mutf8.mutf8_dec d = true.
Proof. exact X12.BridgeKinds.side_example. Qed.
Print Assumptions C02_bridge_class_file_every_tree_example.

(* ================================================================================================ *)
(* Round 6, eleventh layer — the code-array equation with frames (coq/X12/BridgeFramesEq.v). *)
From FB Require X12.BridgeFramesEq.

(* READING WHAT write_code_f WRITES, FRAMES INCLUDED: C01's read_code on the written code array, the written tables and the
   offset_deltas of the written StackMapTable (any delta list whose running offsets — C01's frame_offsets — are the offsets
   C02's decoder finds in the written attribute) is the label-free form of the translated body with the tree's frames
   attached to the instructions fidx (tables with t_frames := fidx chs 0 b fs).  One equation composing
   C02_bridge_write_read, C02_frames_written and C02_bridge_frames_attach with C01's read_encode_gen *)
Theorem C02_bridge_write_read_frames : forall hasmax b last tb fs w Wd rt sm nl lines,
  unique_labels b last -> frames_ok fs = true -> length fs = length b ->
  write_code_f hasmax b last tb fs = Some (OK (w, Wd, rt, Some sm)) ->
  let chs := chs_run Wd 0%N 0 [] b in
  X12.BridgeDefs.body_in chs b = true -> X12.BridgeDefs.refs_carried b = true -> X12.BridgeDefs.tables_carried b tb = true ->
  exists ds,
    dec_stack_map sm = Some ds /\ tree_frames (labpos chs 0 b last) (positions chs 0 b) fs = Some ds /\
    forall deltas, C01.Model.frame_offsets true 0 deltas = Ok (map (fun e => Z.to_N (fst e)) ds) ->
      C01.Model.read_code (X12.BridgeFramesEq.with_frames (X12.BridgeDefs.code_in_of_written w rt nl lines) deltas)
      = Ok (C01.Theory4.expected (X12.BridgeDefs.tr_body chs b last)
              (X12.BridgeFramesEq.with_tframes (X12.BridgeDefs.tr_tables (X12.BridgeDefs.T_of chs b last) tb nl lines)
                 (X12.BridgeAttach.fidx chs 0 b fs))).
Proof. exact X12.BridgeFramesEq.bridge_write_read_frames. Qed.
Print Assumptions C02_bridge_write_read_frames.

(* … with the deltas C01's own frame format reads from the written attribute: for the value v that C01's StackMapTable
   format returns (smt_rel, the conclusion of C02_bridge_stack_map_table, for the resolved frames l at the decoded
   offsets), the deltas C01 extracts from v (frame_delta) satisfy the equation *)
Theorem C02_bridge_write_read_frames_as_read : forall hasmax b last tb fs w Wd rt sm nl lines,
  unique_labels b last -> frames_ok fs = true -> length fs = length b ->
  write_code_f hasmax b last tb fs = Some (OK (w, Wd, rt, Some sm)) ->
  let chs := chs_run Wd 0%N 0 [] b in
  X12.BridgeDefs.body_in chs b = true -> X12.BridgeDefs.refs_carried b = true -> X12.BridgeDefs.tables_carried b tb = true ->
  exists ds,
    dec_stack_map sm = Some ds /\
    forall dec l v, map fst l = map fst ds -> X12.BridgeFrames.smt_rel dec l v ->
      exists vs deltas,
        v = C01.Fmt.VAttr C01.Formats.a_StackMapTable (C01.Fmt.VList vs) /\
        C01.Pool.map_res C01.ClassFile.frame_delta vs = Ok deltas /\
        C01.Model.read_code (X12.BridgeFramesEq.with_frames (X12.BridgeDefs.code_in_of_written w rt nl lines) deltas)
        = Ok (C01.Theory4.expected (X12.BridgeDefs.tr_body chs b last)
                (X12.BridgeFramesEq.with_tframes (X12.BridgeDefs.tr_tables (X12.BridgeDefs.T_of chs b last) tb nl lines)
                   (X12.BridgeAttach.fidx chs 0 b fs))).
Proof. exact X12.BridgeFramesEq.bridge_write_read_smt. Qed.
Print Assumptions C02_bridge_write_read_frames_as_read.

(* non-vacuity: C02's frames example (new #9; ifeq L2; L2: nop; return — a same frame, an append frame with an object and
   an uninitialized local, a full frame): deltas 0, 5, 0; read_code returns the translated body with frame 0 on
   instruction 0, frame 1 on instruction 2, frame 2 on instruction 3 and none on the conditional *)
Theorem C02_bridge_write_read_frames_example : exists w Wd rt sm,
  write_code_f true exf_body None exf_tables exf_frames = Some (OK (w, Wd, rt, Some sm)) /\
  let chs := chs_run Wd 0%N 0 [] exf_body in
  X12.BridgeDefs.body_in chs exf_body = true /\ X12.BridgeAttach.fidx chs 0 exf_body exf_frames = [0; 2; 3]%nat /\
  C01.Model.read_code (X12.BridgeFramesEq.with_frames (X12.BridgeDefs.code_in_of_written w rt 0 []) [0; 5; 0]%N)
  = Ok (C01.Theory4.expected (X12.BridgeDefs.tr_body chs exf_body None)
          (X12.BridgeFramesEq.with_tframes (X12.BridgeDefs.tr_tables (X12.BridgeDefs.T_of chs exf_body None) exf_tables 0 []) [0; 2; 3]%nat)) /\
  map (fun x => snd (fst x))
      (C01.Model.cs_insns (C01.Theory4.expected (X12.BridgeDefs.tr_body chs exf_body None)
          (X12.BridgeFramesEq.with_tframes (X12.BridgeDefs.tr_tables (X12.BridgeDefs.T_of chs exf_body None) exf_tables 0 []) [0; 2; 3]%nat)))
  = [Some 0; None; Some 1; Some 2]%nat.
Proof. exact X12.BridgeFramesEq.frames_eq_example. Qed.
Print Assumptions C02_bridge_write_read_frames_example.

(* ================================================================================================ *)
(* Round 7 — the closed form of build_class's interpretation step, layer by layer (coq/X12/BridgeFold.v, BridgeClosed.v). *)
From FB Require X12.BridgeFold X12.BridgeClosed.

(* C01's attribute bookkeeping in closed form (pure C01 vocabulary, every list of attribute values): when no known attribute
   name occurs twice (once_ok: decidable; an unknown attribute holds bytes, an extendable one a list), folding apply_simple
   is not an error and the state is the state before plus one slot per known attribute, in file order (a flag attribute
   stores VSeq []), plus (name, bytes) of every unknown attribute *)
Theorem C02_bridge_fold_simple_closed : forall impl ctx l st,
  X12.BridgeFold.once_ok impl ctx (map fst (C01.ClassFile.st_slots st)) l = true ->
  C01.ClassFile.fold_attrs (C01.ClassFile.apply_simple impl ctx) st l
  = Ok (X12.BridgeFold.st_add st (flat_map (X12.BridgeFold.slot_of impl ctx) l) (flat_map (X12.BridgeFold.unk_of impl ctx) l)).
Proof. exact X12.BridgeFold.fold_simple_closed. Qed.
Print Assumptions C02_bridge_fold_simple_closed.

(* … the same for apply_attr (class and member level), a Record attribute included: its slot is the list of its components,
   each VSeq [name; descriptor; closed state of its own attributes] (comp_closed); a Code attribute is outside once_oka *)
Theorem C02_bridge_fold_attr_closed : forall impl p b ctx l st,
  X12.BridgeFold.once_oka impl ctx (map fst (C01.ClassFile.st_slots st)) (C01.ClassFile.st_had_record st) l = true ->
  C01.ClassFile.fold_attrs (C01.ClassFile.apply_attr impl p b ctx) st l
  = Ok (X12.BridgeFold.st_adda st (flat_map (X12.BridgeFold.slot_ofa impl ctx) l) (flat_map (X12.BridgeFold.unk_of impl ctx) l)
          (existsb (X12.BridgeFold.is_record impl ctx) l)).
Proof. exact X12.BridgeFold.fold_attr_closed. Qed.
Print Assumptions C02_bridge_fold_attr_closed.

(* layer 2, fields: C01's build_member on the field values of the whole-file theorem is, for ANY pool and bootstrap table,
   the direct translation tr_field of the decoded field (flags, name, descriptor, one slot per attribute, unknown attributes) *)
Theorem C02_bridge_fields_closed : forall impl dec p b d,
  X12.BridgeClosed.fields_once impl dec d = true ->
  C01.Pool.map_res (C01.ClassFile.build_member impl p b 1%N) (X12.BridgeClosed.field_vals dec d)
  = Ok (map (X12.BridgeClosed.tr_field impl dec) (d_fields d)).
Proof. exact X12.BridgeClosed.fields_closed. Qed.
Print Assumptions C02_bridge_fields_closed.

(* THE CLOSED FORM, no build_class and no pool on the right-hand side: for every cclass_ok tree whose decoded facts hold no
   Code and no BootstrapMethods attribute (interfaces, annotation types, abstract classes, module-info, …), under the side
   conditions of C02_bridge_class_file_every_tree and the decidable once-conditions (no known attribute name twice at a
   location), C01's read_class on the written bytes IS the direct translation tr_class of the tree:
   version, flags, this / super / interfaces, every field and method (tr_field / tr_method), the class-level slots
   (Record with its components) and the unknown attributes *)
Theorem C02_bridge_read_class_codeless_closed : forall impl dec t bs aux d,
  cclass_ok t = true -> write_class_aux t = WOK (bs, aux) ->
  C01.Attr.header_ok C01.Tables.magic (Z.to_N (k_minor t)) (Z.to_N (k_major t)) = true ->
  X12.BridgeClass.pool_utf8_ok dec (a_pool aux) = true -> X12.BridgeFile6.names_ok6 dec = true ->
  facts_of t aux = Some d -> X12.BridgeKinds.dclass_side6 impl dec d = true ->
  X12.BridgeClosed.codeless d = true -> X12.BridgeClosed.class_once impl dec d = true ->
  X12.BridgeClosed.no_bsm_slot impl dec d = true -> X12.BridgeClosed.fields_once impl dec d = true ->
  forallb (X12.BridgeClosed.method_once impl dec) (d_methods d) = true ->
  C01.ClassFile.read_class impl dec bs = Ok (X12.BridgeClosed.tr_class impl dec t d).
Proof. exact X12.BridgeClosed.read_class_codeless_closed. Qed.
Print Assumptions C02_bridge_read_class_codeless_closed.

(* what tr_class is (pinned): *)
Theorem C02_bridge_tr_class_is : forall impl dec t d,
  X12.BridgeClosed.tr_class impl dec t d
  = {| C01.ClassFile.cd_minor := Z.to_N (k_minor t); C01.ClassFile.cd_major := Z.to_N (k_major t);
       C01.ClassFile.cd_access := C01.Attr.access_back 0 (Z.to_N (k_access t));
       C01.ClassFile.cd_this := X12.BridgePool.sdec dec (k_name t);
       C01.ClassFile.cd_super := option_map (X12.BridgePool.sdec dec) (k_super t);
       C01.ClassFile.cd_interfaces := map (X12.BridgePool.sdec dec) (k_interfaces t);
       C01.ClassFile.cd_fields :=
         map (fun f => X12.BridgeFold.member_closed impl 1%N (X12.BridgeFile.member_val dec 1%N (X12.BridgeFile6.fattr_val6 dec) f)) (d_fields d);
       C01.ClassFile.cd_methods :=
         map (fun m => X12.BridgeFold.member_closed impl 2%N (X12.BridgeFile.member_val dec 2%N (X12.BridgeClosed.mattr_val6 dec) m)) (d_methods d);
       C01.ClassFile.cd_slots := flat_map (X12.BridgeFold.slot_ofa impl 0%N) (map (X12.BridgeClosed.cattr_val6 dec) (d_attrs d));
       C01.ClassFile.cd_unknown := flat_map (X12.BridgeFold.unk_of impl 0%N) (map (X12.BridgeClosed.cattr_val6 dec) (d_attrs d)) |}.
Proof. exact (fun _ _ _ _ => eq_refl). Qed.
Print Assumptions C02_bridge_tr_class_is.

(* EVERY cclass_ok TREE (Code or not): whatever read_class answers on the written bytes has the translated head, the
   translated fields, and method by method the translated flags / name / descriptor — and the whole translated method
   (tr_method) wherever the method has no Code *)
Theorem C02_bridge_read_class_closed_parts : forall impl dec t bs aux d cd,
  cclass_ok t = true -> write_class_aux t = WOK (bs, aux) ->
  C01.Attr.header_ok C01.Tables.magic (Z.to_N (k_minor t)) (Z.to_N (k_major t)) = true ->
  X12.BridgeClass.pool_utf8_ok dec (a_pool aux) = true -> X12.BridgeFile6.names_ok6 dec = true ->
  facts_of t aux = Some d -> X12.BridgeKinds.dclass_side6 impl dec d = true -> X12.BridgeClosed.fields_once impl dec d = true ->
  C01.ClassFile.read_class impl dec bs = Ok cd ->
  C01.ClassFile.cd_minor cd = Z.to_N (k_minor t) /\ C01.ClassFile.cd_major cd = Z.to_N (k_major t) /\
  C01.ClassFile.cd_access cd = C01.Attr.access_back 0 (Z.to_N (k_access t)) /\
  C01.ClassFile.cd_this cd = X12.BridgePool.sdec dec (k_name t) /\
  C01.ClassFile.cd_super cd = option_map (X12.BridgePool.sdec dec) (k_super t) /\
  C01.ClassFile.cd_interfaces cd = map (X12.BridgePool.sdec dec) (k_interfaces t) /\
  C01.ClassFile.cd_fields cd = map (X12.BridgeClosed.tr_field impl dec) (d_fields d) /\
  Forall2 (fun m md =>
             C01.ClassFile.md_access md = C01.Attr.access_back 2 (Z.to_N (dm_access m)) /\
             C01.ClassFile.md_name md = X12.BridgePool.sdec dec (dm_name m) /\
             C01.ClassFile.md_desc md = X12.BridgePool.sdec dec (dm_desc m) /\
             (X12.BridgeClosed.no_code m = true -> X12.BridgeClosed.method_once impl dec m = true ->
              md = X12.BridgeClosed.tr_method impl dec m))
          (d_methods d) (C01.ClassFile.cd_methods cd).
Proof. exact X12.BridgeClosed.read_class_closed_parts. Qed.
Print Assumptions C02_bridge_read_class_closed_parts.

(* non-vacuity: the all-kinds example class with its method made abstract satisfies every hypothesis (computed); the closed
   form has 14 class-level slots (the Record with its component among them), a method with 7 slots, a field with an unknown attribute *)
Theorem C02_bridge_read_class_codeless_example : exists bs aux d,
  write_class_aux X12.BridgeClosed.ex_codeless = WOK (bs, aux) /\ cclass_ok X12.BridgeClosed.ex_codeless = true /\
  facts_of X12.BridgeClosed.ex_codeless aux = Some d /\
  X12.BridgeClass.pool_utf8_ok C01.Mutf8.mutf8_dec (a_pool aux) = true /\ X12.BridgeKinds.dclass_side6 true C01.Mutf8.mutf8_dec d = true /\
  X12.BridgeClosed.codeless d = true /\ X12.BridgeClosed.class_once true C01.Mutf8.mutf8_dec d = true /\
  X12.BridgeClosed.no_bsm_slot true C01.Mutf8.mutf8_dec d = true /\
  X12.BridgeClosed.fields_once true C01.Mutf8.mutf8_dec d = true /\
  forallb (X12.BridgeClosed.method_once true C01.Mutf8.mutf8_dec) (d_methods d) = true /\
  C01.ClassFile.read_class true C01.Mutf8.mutf8_dec bs = Ok (X12.BridgeClosed.tr_class true C01.Mutf8.mutf8_dec X12.BridgeClosed.ex_codeless d) /\
  length (C01.ClassFile.cd_slots (X12.BridgeClosed.tr_class true C01.Mutf8.mutf8_dec X12.BridgeClosed.ex_codeless d)) = 14%nat /\
  map (fun md => length (C01.ClassFile.md_slots md))
      (C01.ClassFile.cd_methods (X12.BridgeClosed.tr_class true C01.Mutf8.mutf8_dec X12.BridgeClosed.ex_codeless d)) = [7%nat] /\
  map (fun md => length (C01.ClassFile.md_unknown md))
      (C01.ClassFile.cd_fields (X12.BridgeClosed.tr_class true C01.Mutf8.mutf8_dec X12.BridgeClosed.ex_codeless d)) = [1%nat].
Proof. exact X12.BridgeClosed.codeless_example. Qed.
Print Assumptions C02_bridge_read_class_codeless_example.

(* non-vacuity of C02_bridge_read_class_closed_parts: the all-kinds example (a method with Code) is read, fields_once holds, codeless does not *)
Theorem C02_bridge_read_class_closed_parts_example : exists bs aux d cd,
  write_class_aux X12.BridgeFile6.ex_file6 = WOK (bs, aux) /\ facts_of X12.BridgeFile6.ex_file6 aux = Some d /\
  X12.BridgeClosed.fields_once true C01.Mutf8.mutf8_dec d = true /\
  C01.ClassFile.read_class true C01.Mutf8.mutf8_dec bs = Ok cd /\ X12.BridgeClosed.codeless d = false.
Proof. exact X12.BridgeClosed.closed_parts_example. Qed.
Print Assumptions C02_bridge_read_class_closed_parts_example.

(* ---- the Code attribute: build_code with the attribute bookkeeping computed (any Code value, inner attributes included) ---- *)
(* pure C01 vocabulary, every list ivs of inner attribute values meeting the decidable code_once (an unknown attribute holds
   bytes, the table attributes hold lists, at most one StackMapTable, no CLDC StackMap): build_code is code_closed *)
Theorem C02_bridge_build_code_closed_general : forall impl p b ms ml code exc ivs,
  X12.BridgeFold.code_once impl ivs = true ->
  C01.ClassFile.build_code impl p b
    (C01.Fmt.VSeq [C01.Fmt.VN ms; C01.Fmt.VN ml; C01.Fmt.VB code; C01.Fmt.VList exc; C01.Fmt.VList ivs])
  = X12.BridgeFold.code_closed impl p b ms ml code exc ivs.
Proof. exact X12.BridgeFold.build_code_closed_gen. Qed.
Print Assumptions C02_bridge_build_code_closed_general.

(* what code_closed is (pinned): the tables handed to C01's code-array reader are given explicitly — line numbers = all
   LineNumberTable entries in file order (ext_of), local-variable ranges = LocalVariableTable entries tagged 0 and
   LocalVariableTypeTable entries tagged 1 in file order (lvs_of), frames = the entries of the one StackMapTable, offsets
   of both type-annotation attributes; the description holds the same tables with offsets turned into instruction indices *)
Theorem C02_bridge_code_closed_is : forall impl p b ms ml code exc ivs,
  X12.BridgeFold.code_closed impl p b ms ml code exc ivs
  = Base.Str.bind (C01.Pool.map_res C01.ClassFile.exc_triple exc) (fun ex =>
    Base.Str.bind (C01.Pool.map_res C01.ClassFile.line_pair (X12.BridgeFold.ext_of impl C01.Formats.a_LineNumberTable ivs)) (fun ln =>
    Base.Str.bind (C01.Pool.map_res C01.ClassFile.frame_delta (X12.BridgeFold.smt_frames impl ivs)) (fun ds =>
    let tas := X12.BridgeFold.ext_of impl C01.Formats.a_RuntimeVisibleTypeAnnotations ivs
               ++ X12.BridgeFold.ext_of impl C01.Formats.a_RuntimeInvisibleTypeAnnotations ivs in
    let ci := {| C01.Model.ci_code := code; C01.Model.ci_exc := ex; C01.Model.ci_lines := ln;
                 C01.Model.ci_ranges := flat_map C01.Fmt.ranges_of (X12.BridgeFold.lvs_of impl ivs) ++ flat_map C01.Fmt.ranges_of tas;
                 C01.Model.ci_frames := ds; C01.Model.ci_cldc := None;
                 C01.Model.ci_points := flat_map C01.Fmt.pcs_of (X12.BridgeFold.smt_frames impl ivs) ++ flat_map C01.Fmt.pcs_of tas |} in
    Base.Str.bind (C01.Model.read_code_raw ci) (fun cr =>
    let cs := C01.Model.sem ci cr in
    Base.Str.bind (C01.Pool.map_res (C01.ClassFile.resolve_entry p b) (C01.Model.cs_insns cs)) (fun xi =>
    Ok {| C01.ClassFile.k_max_stack := ms; C01.ClassFile.k_max_locals := ml; C01.ClassFile.k_insns := xi;
          C01.ClassFile.k_last := C01.Model.cs_last cs;
          C01.ClassFile.k_exc := map (C01.Fmt.map_pcs (C01.ClassFile.ixf cr)) exc;
          C01.ClassFile.k_lines := map (C01.Fmt.map_pcs (C01.ClassFile.ixf cr)) (X12.BridgeFold.ext_of impl C01.Formats.a_LineNumberTable ivs);
          C01.ClassFile.k_lvs := map (C01.Fmt.map_pcs (C01.ClassFile.ixf cr)) (X12.BridgeFold.lvs_of impl ivs);
          C01.ClassFile.k_frames :=
            firstn (C01.ClassFile.count_some (map (fun x => snd (fst x)) (C01.Model.cs_insns cs)))
                   (map (fun f => C01.Fmt.map_pcs (C01.ClassFile.ixf cr) f) (map C01.ClassFile.frame_norm (X12.BridgeFold.smt_frames impl ivs)));
          C01.ClassFile.k_vta := map (C01.Fmt.map_pcs (C01.ClassFile.ixf cr)) (X12.BridgeFold.ext_of impl C01.Formats.a_RuntimeVisibleTypeAnnotations ivs);
          C01.ClassFile.k_ita := map (C01.Fmt.map_pcs (C01.ClassFile.ixf cr)) (X12.BridgeFold.ext_of impl C01.Formats.a_RuntimeInvisibleTypeAnnotations ivs);
          C01.ClassFile.k_unknown := flat_map (X12.BridgeFold.unk_of impl 3%N) ivs |}))))).
Proof. exact (fun _ _ _ _ _ _ _ _ => eq_refl). Qed.
Print Assumptions C02_bridge_code_closed_is.

(* … and it applies to every Code value of the whole-file theorem: the values C01's formats deliver for the inner attributes
   C02's decoder found (code_rel6, under the per-attribute side conditions innerb6) meet code_once as soon as the decoded
   Code attribute holds at most one StackMapTable (smt_once, decidable; the writer emits at most one) *)
Theorem C02_bridge_code_attr_closed : forall impl dec p b k cv,
  X12.BridgeFile6.code_rel6 dec k cv -> forallb (X12.BridgeFile6.innerb6 impl dec) (dc_attrs k) = true ->
  X12.BridgeClosed.smt_once k = true ->
  exists ivs, Forall2 (X12.BridgeFile6.inner_rel6 dec) (dc_attrs k) ivs /\ X12.BridgeFold.code_once impl ivs = true /\
    C01.ClassFile.build_code impl p b cv
    = X12.BridgeFold.code_closed impl p b (Z.to_N (dc_max_stack k)) (Z.to_N (dc_max_locals k)) (dc_code k)
        (map (X12.BridgeCode.exc_val dec) (dc_exceptions k)) ivs.
Proof. exact X12.BridgeClosed.code_closed6. Qed.
Print Assumptions C02_bridge_code_attr_closed.

(* a method WITH Code: build_member on its value is `do c <- code_closed …; Ok (tr_method_code m c)` — flags, name,
   descriptor, one slot per other attribute (before and after the Code attribute), the unknown attributes, Some c *)
Theorem C02_bridge_method_code_closed : forall impl dec p b m v a1 k a2,
  X12.BridgeClosed.split_code (dm_attrs m) = Some (a1, k, a2) -> X12.BridgeClosed.code_method_once impl dec m = true ->
  forallb (X12.BridgeFile6.innerb6 impl dec) (dc_attrs k) = true ->
  X12.BridgeFile3.member_rel dec 2%N (X12.BridgeFile6.mrel6 dec) m v ->
  exists ivs, Forall2 (X12.BridgeFile6.inner_rel6 dec) (dc_attrs k) ivs /\ X12.BridgeFold.code_once impl ivs = true /\
    C01.ClassFile.build_member impl p b 2%N v
    = Base.Str.bind (X12.BridgeFold.code_closed impl p b (Z.to_N (dc_max_stack k)) (Z.to_N (dc_max_locals k)) (dc_code k)
                       (map (X12.BridgeCode.exc_val dec) (dc_exceptions k)) ivs)
        (fun c => Ok (X12.BridgeClosed.tr_method_code impl dec m c)).
Proof. exact X12.BridgeClosed.method_code_closed. Qed.
Print Assumptions C02_bridge_method_code_closed.

(* EVERY cclass_ok TREE, methods with Code: whatever read_class answers on the written bytes, each method with a Code
   attribute (under the decidable code_method_once) is tr_method_code m c where c is what code_closed returns on the decoded
   Code attribute, for the pool as read and the bootstrap table the reader extracted.  Together with
   C02_bridge_read_class_closed_parts: build_class's interpretation step is computed everywhere except inside code_closed
   (C01's code-array reader on explicit tables — the object of C02_bridge_write_read_frames — and resolve_entry) *)
Theorem C02_bridge_read_class_closed_code_methods : forall impl dec t bs aux d cd,
  cclass_ok t = true -> write_class_aux t = WOK (bs, aux) ->
  C01.Attr.header_ok C01.Tables.magic (Z.to_N (k_minor t)) (Z.to_N (k_major t)) = true ->
  X12.BridgeClass.pool_utf8_ok dec (a_pool aux) = true -> X12.BridgeFile6.names_ok6 dec = true ->
  facts_of t aux = Some d -> X12.BridgeKinds.dclass_side6 impl dec d = true ->
  C01.ClassFile.read_class impl dec bs = Ok cd ->
  exists cs b, rev (p_inner (a_pool aux)) = map mk cs /\
    Forall2 (fun m md =>
               forall a1 k a2, X12.BridgeClosed.split_code (dm_attrs m) = Some (a1, k, a2) ->
                 X12.BridgeClosed.code_method_once impl dec m = true ->
                 exists ivs c, Forall2 (X12.BridgeFile6.inner_rel6 dec) (dc_attrs k) ivs /\ X12.BridgeFold.code_once impl ivs = true /\
                   X12.BridgeFold.code_closed impl (X12.BridgePool.rpool dec cs) b (Z.to_N (dc_max_stack k)) (Z.to_N (dc_max_locals k))
                     (dc_code k) (map (X12.BridgeCode.exc_val dec) (dc_exceptions k)) ivs = Ok c /\
                   md = X12.BridgeClosed.tr_method_code impl dec m c)
            (d_methods d) (C01.ClassFile.cd_methods cd).
Proof. exact X12.BridgeClosed.read_class_closed_code_methods. Qed.
Print Assumptions C02_bridge_read_class_closed_code_methods.

(* non-vacuity: the method of the all-kinds example meets code_method_once; read back, its code description has 3
   instructions, 1 line number, 1 attached frame, 2 visible type annotations and 1 unknown attribute *)
Theorem C02_bridge_code_methods_example : exists bs aux d cd,
  write_class_aux X12.BridgeFile6.ex_file6 = WOK (bs, aux) /\ facts_of X12.BridgeFile6.ex_file6 aux = Some d /\
  forallb (X12.BridgeClosed.code_method_once true C01.Mutf8.mutf8_dec) (d_methods d) = true /\
  C01.ClassFile.read_class true C01.Mutf8.mutf8_dec bs = Ok cd /\
  map (fun md => match C01.ClassFile.md_code md with
                 | Some c => (length (C01.ClassFile.k_insns c), length (C01.ClassFile.k_lines c), length (C01.ClassFile.k_frames c),
                              length (C01.ClassFile.k_vta c), length (C01.ClassFile.k_unknown c))
                 | None => (0, 0, 0, 0, 0)%nat
                 end) (C01.ClassFile.cd_methods cd) = [(3, 1, 1, 2, 1)%nat].
Proof. exact X12.BridgeClosed.code_methods_example. Qed.
Print Assumptions C02_bridge_code_methods_example.

(* ---- the once-condition of the fields is a theorem (coq/X12/BridgeOnce.v) ---- *)
From FB Require X12.BridgeOnce.
(* facts_of lists a field's attributes in a fixed order, each named attribute at most once, then the unknown attributes;
   so fields_once follows from the side conditions of the whole-file theorem *)
Theorem C02_bridge_fields_once_written : forall impl dec t aux d,
  facts_of t aux = Some d -> X12.BridgeKinds.dclass_side6 impl dec d = true -> X12.BridgeClosed.fields_once impl dec d = true.
Proof. exact X12.BridgeOnce.fields_once_written. Qed.
Print Assumptions C02_bridge_fields_once_written.

(* … and so does method_once for every method without Code (Deprecated, Synthetic, Exceptions, Signature, the four annotation
   attributes, AnnotationDefault, MethodParameters, each at most once, then the unknown attributes) *)
Theorem C02_bridge_methods_once_written : forall impl dec t aux d,
  facts_of t aux = Some d -> X12.BridgeKinds.dclass_side6 impl dec d = true ->
  forall m, In m (d_methods d) -> X12.BridgeClosed.no_code m = true -> X12.BridgeClosed.method_once impl dec m = true.
Proof. exact X12.BridgeOnce.methods_once_written. Qed.
Print Assumptions C02_bridge_methods_once_written.

(* C02_bridge_read_class_closed_parts under the hypotheses of C02_bridge_class_file_every_tree ALONE (no once-condition
   left): for EVERY cclass_ok tree, whatever read_class answers on the written bytes has the translated version, flags,
   this / super / interfaces, the translated fields (tr_field), the translated flags / name / descriptor of every method, and
   every method without Code IS tr_method *)
Theorem C02_bridge_read_class_closed_parts_all : forall impl dec t bs aux d cd,
  cclass_ok t = true -> write_class_aux t = WOK (bs, aux) ->
  C01.Attr.header_ok C01.Tables.magic (Z.to_N (k_minor t)) (Z.to_N (k_major t)) = true ->
  X12.BridgeClass.pool_utf8_ok dec (a_pool aux) = true -> X12.BridgeFile6.names_ok6 dec = true ->
  facts_of t aux = Some d -> X12.BridgeKinds.dclass_side6 impl dec d = true ->
  C01.ClassFile.read_class impl dec bs = Ok cd ->
  C01.ClassFile.cd_minor cd = Z.to_N (k_minor t) /\ C01.ClassFile.cd_major cd = Z.to_N (k_major t) /\
  C01.ClassFile.cd_access cd = C01.Attr.access_back 0 (Z.to_N (k_access t)) /\
  C01.ClassFile.cd_this cd = X12.BridgePool.sdec dec (k_name t) /\
  C01.ClassFile.cd_super cd = option_map (X12.BridgePool.sdec dec) (k_super t) /\
  C01.ClassFile.cd_interfaces cd = map (X12.BridgePool.sdec dec) (k_interfaces t) /\
  C01.ClassFile.cd_fields cd = map (X12.BridgeClosed.tr_field impl dec) (d_fields d) /\
  Forall2 (fun m md =>
             C01.ClassFile.md_access md = C01.Attr.access_back 2 (Z.to_N (dm_access m)) /\
             C01.ClassFile.md_name md = X12.BridgePool.sdec dec (dm_name m) /\
             C01.ClassFile.md_desc md = X12.BridgePool.sdec dec (dm_desc m) /\
             (X12.BridgeClosed.no_code m = true -> md = X12.BridgeClosed.tr_method impl dec m))
          (d_methods d) (C01.ClassFile.cd_methods cd).
Proof. exact X12.BridgeOnce.read_class_closed_parts_final. Qed.
Print Assumptions C02_bridge_read_class_closed_parts_all.

(* the closed form for a class without Code and BootstrapMethods with the field and method once-conditions discharged: the
   remaining decidable conditions are class-level only (class_once: no known class attribute name twice, no_bsm_slot) *)
Theorem C02_bridge_read_class_codeless_closed_all : forall impl dec t bs aux d,
  cclass_ok t = true -> write_class_aux t = WOK (bs, aux) ->
  C01.Attr.header_ok C01.Tables.magic (Z.to_N (k_minor t)) (Z.to_N (k_major t)) = true ->
  X12.BridgeClass.pool_utf8_ok dec (a_pool aux) = true -> X12.BridgeFile6.names_ok6 dec = true ->
  facts_of t aux = Some d -> X12.BridgeKinds.dclass_side6 impl dec d = true ->
  X12.BridgeClosed.codeless d = true -> X12.BridgeClosed.class_once impl dec d = true ->
  X12.BridgeClosed.no_bsm_slot impl dec d = true ->
  C01.ClassFile.read_class impl dec bs = Ok (X12.BridgeClosed.tr_class impl dec t d).
Proof. exact X12.BridgeOnce.read_class_codeless_closed_all. Qed.
Print Assumptions C02_bridge_read_class_codeless_closed_all.

(* ---- the once-conditions of a method WITH Code are theorems as well (coq/X12/BridgeOnce.v) ---- *)
(* a Code attribute of facts_of holds at most one StackMapTable: the hypothesis smt_once of C02_bridge_code_attr_closed holds
   for every Code attribute the writer's facts contain *)
Theorem C02_bridge_smt_once_written : forall c a k, fa_code c a = Some k -> X12.BridgeClosed.smt_once k = true.
Proof. exact X12.BridgeOnce.smt_once_written. Qed.
Print Assumptions C02_bridge_smt_once_written.

(* every method of the decoded class of a written tree meets code_method_once or has no Code *)
Theorem C02_bridge_code_methods_once_written : forall impl dec t aux d,
  facts_of t aux = Some d -> X12.BridgeKinds.dclass_side6 impl dec d = true ->
  forall m, In m (d_methods d) -> X12.BridgeClosed.code_method_once impl dec m = true \/ X12.BridgeClosed.no_code m = true.
Proof. exact X12.BridgeOnce.code_methods_once_written. Qed.
Print Assumptions C02_bridge_code_methods_once_written.

(* C02_bridge_read_class_closed_code_methods under the hypotheses of C02_bridge_class_file_every_tree ALONE: for EVERY
   cclass_ok tree, every method with a Code attribute of whatever read_class answers is tr_method_code m c, c being what
   code_closed returns on the decoded Code attribute (pool as read, bootstrap table as extracted by the reader) *)
Theorem C02_bridge_read_class_closed_code_methods_all : forall impl dec t bs aux d cd,
  cclass_ok t = true -> write_class_aux t = WOK (bs, aux) ->
  C01.Attr.header_ok C01.Tables.magic (Z.to_N (k_minor t)) (Z.to_N (k_major t)) = true ->
  X12.BridgeClass.pool_utf8_ok dec (a_pool aux) = true -> X12.BridgeFile6.names_ok6 dec = true ->
  facts_of t aux = Some d -> X12.BridgeKinds.dclass_side6 impl dec d = true ->
  C01.ClassFile.read_class impl dec bs = Ok cd ->
  exists cs b, rev (p_inner (a_pool aux)) = map mk cs /\
    Forall2 (fun m md =>
               forall a1 k a2, X12.BridgeClosed.split_code (dm_attrs m) = Some (a1, k, a2) ->
                 exists ivs c, Forall2 (X12.BridgeFile6.inner_rel6 dec) (dc_attrs k) ivs /\ X12.BridgeFold.code_once impl ivs = true /\
                   X12.BridgeFold.code_closed impl (X12.BridgePool.rpool dec cs) b (Z.to_N (dc_max_stack k)) (Z.to_N (dc_max_locals k))
                     (dc_code k) (map (X12.BridgeCode.exc_val dec) (dc_exceptions k)) ivs = Ok c /\
                   md = X12.BridgeClosed.tr_method_code impl dec m c)
            (d_methods d) (C01.ClassFile.cd_methods cd).
Proof. exact X12.BridgeOnce.read_class_closed_code_methods_all. Qed.
Print Assumptions C02_bridge_read_class_closed_code_methods_all.
