(* C02 — property theorems only.  Each is closed by [exact <lemma>] and followed by
   Print Assumptions; the statements are pinned here so they cannot be quietly weakened. *)
From FB Require Import C02.Model C02.Encode C02.Theory1 C02.Theory2 C02.Theory3 C02.Theory4 C02.Theory5
  C02.Theory6 C02.Theory7 C02.Theory8 C02.Theory9 C02.Frames C02.TheoryF C02.Gen.
Local Open Scope Z_scope.

(* ---------- termination of the branch-offset fixpoint ---------- *)
(* The attempt loop of write_code needs at most (number of instructions + 1) attempts:
   every restart adds an instruction index that was not yet in the wide set. *)
Theorem C02_write_terminates : forall b last, wc_loop (S (length b)) [] b last <> None.
Proof. exact write_terminates. Qed.
Print Assumptions C02_write_terminates.

Theorem C02_write_code_terminates : forall hasmax b last tb, write_code hasmax b last tb <> None.
Proof. exact write_code_terminates. Qed.
Print Assumptions C02_write_code_terminates.

Theorem C02_restart_fresh : forall W b last i,
  attempt W b last = ARestart i -> memN i W = false /\ (i < N.of_nat (length b))%N.
Proof. exact attempt_restart. Qed.
Print Assumptions C02_restart_fresh.

(* ---------- a successful output is an admissible encoding ---------- *)
(* For the forms [chs] the writer ends up with (chs_run: a resolved reference by its true
   offset, an unresolved one by membership in the final wide set W) the written code array is
   exactly the general position-dependent encoding of the body, with every label designating
   the position the layout itself assigns to the instruction that carries it; every narrow
   offset fits 16 bits, every wide one 32 bits, switches are well formed, 0 < length <= 65535. *)
Theorem C02_write_is_encode : forall b last w labs W,
  unique_labels b last ->
  wc_loop (S (length b)) [] b last = Some (OK (w, labs, W)) ->
  let chs := chs_run W 0%N 0 [] b in
  let L := labpos chs 0 b last in
  length chs = length b /\
  encode chs L 0 b = Some w /\
  admissible chs L 0 b = true /\
  (forall l, lget labs l = L l) /\
  zlen w = endpos chs 0 b /\ 0 < endpos chs 0 b <= 65535.
Proof. exact write_is_encode. Qed.
Print Assumptions C02_write_is_encode.

(* ---------- every branch / switch arm designates the same instruction ---------- *)
(* Decoding the written bytes with a decoder that sees only bytes, at the position of the k-th
   instruction of the tree, yields the label-free meaning of that instruction: each target is
   the position of the instruction carrying the target label; a far conditional decodes as the
   inverted condition jumping over an 8-byte trampoline whose goto_w has the target. *)
Theorem C02_targets_preserved : forall b last w labs W k lb e c q,
  unique_labels b last -> body_ok b = true ->
  wc_loop (S (length b)) [] b last = Some (OK (w, labs, W)) ->
  let chs := chs_run W 0%N 0 [] b in
  let L := labpos chs 0 b last in
  nth_error b k = Some (lb, e) -> nth_error chs k = Some c -> nth_error (positions chs 0 b) k = Some q ->
  exists ex, expected c L q e = Some ex /\ forall q' d, In (q', d) ex -> decode_at w q' = d.
Proof. exact targets_preserved_nth. Qed.
Print Assumptions C02_targets_preserved.

(* the index embedding: a label position is the position of the instruction that carries the
   label, or the end of the code for the last label *)
Theorem C02_label_positions : forall b chs p last l t,
  length chs = length b ->
  labpos chs p b last l = Some t ->
  (exists k e, nth_error b k = Some (Some l, e) /\ nth_error (positions chs p b) k = Some t)
  \/ (last = Some l /\ t = endpos chs p b).
Proof. exact labpos_positions. Qed.
Print Assumptions C02_label_positions.

(* exception ranges, line numbers, local-variable ranges, type-annotation targets: every pc
   written is the position of the labelled instruction in the same layout *)
Theorem C02_tables_resolve : forall hasmax b last tb w W rt,
  unique_labels b last ->
  write_code hasmax b last tb = Some (OK (w, W, rt)) ->
  let chs := chs_run W 0%N 0 [] b in
  let L := labpos chs 0 b last in
  mapO (L3 L) (t_exc tb) = Some (r_exc rt) /\
  mapO L (t_offs tb) = Some (r_offs rt) /\
  mapO (Lrange L) (t_ranges tb) = Some (r_ranges rt).
Proof. exact tables_resolve. Qed.
Print Assumptions C02_tables_resolve.

(* ---------- failing cleanly ---------- *)
(* never a panic; an error only for a stated cause at the final wide set: malformed switch,
   a referenced label on no instruction, empty code, or code larger than 65535 bytes; and a
   success has none of these causes *)
Theorem C02_write_fails_cleanly : forall b last,
  unique_labels b last -> spans_ok b = true ->
  match wc_loop (S (length b)) [] b last with
  | Some (OK (w, labs, W)) => ~ cause W b last
  | Some ERR => exists W, attempt W b last = AErr /\ cause W b last
  | Some PANIC => False
  | None => False
  end.
Proof. exact write_fails_cleanly. Qed.
Print Assumptions C02_write_fails_cleanly.

Theorem C02_write_code_no_panic : forall hasmax b last tb,
  unique_labels b last -> spans_ok b = true -> ranges_ok b last tb = true ->
  write_code hasmax b last tb <> Some PANIC.
Proof. exact write_code_no_panic. Qed.
Print Assumptions C02_write_code_no_panic.

(* ---------- the writer's constant pool ---------- *)
Theorem C02_pool_new : PInv pool_new.
Proof. exact pool_new_inv. Qed.
Print Assumptions C02_pool_new.

(* put returns an index that resolves to the entry, preserves every earlier index, stays
   within 1 .. count-1 <= 65534, and keeps the invariant *)
Theorem C02_pool_put : forall p e p' i,
  PInv p -> pool_put p e = Ok (p', i) ->
  PInv p' /\ pool_resolve p' i = Some e /\
  (forall j x, pool_resolve p j = Some x -> pool_resolve p' j = Some x) /\
  1 <= i < p_count p' /\ p_count p' <= 65535.
Proof. exact pool_put_spec. Qed.
Print Assumptions C02_pool_put.

(* constant_pool_count = 1 + slots, Long/Double taking two *)
Theorem C02_pool_count : forall p, PInv p -> p_count p = 1 + total (rev (p_inner p)).
Proof. exact pool_count. Qed.
Print Assumptions C02_pool_count.

Theorem C02_pool_no_dup : forall p i j e,
  PInv p -> pool_resolve p i = Some e -> pool_resolve p j = Some e -> i = j.
Proof. exact pool_no_dup. Qed.
Print Assumptions C02_pool_no_dup.

Theorem C02_pool_put_idem : forall p e p' i, PInv p -> pool_put p e = Ok (p', i) -> pool_put p' e = Ok (p', i).
Proof. exact pool_put_idem. Qed.
Print Assumptions C02_pool_put_idem.

Theorem C02_ldc_threshold : forall idx,
  (ldc_choose false idx = LDC idx <-> idx <= 255) /\ ldc_choose true idx = LDC2_W idx.
Proof. exact ldc_threshold. Qed.
Print Assumptions C02_ldc_threshold.

(* the BootstrapMethods table: de-duplicated, index = position, earlier indices preserved *)
Theorem C02_bsm_new : BInv bsm_new.
Proof. exact bsm_new_inv. Qed.
Print Assumptions C02_bsm_new.

Theorem C02_bsm_put : forall t e t' i,
  BInv t -> bsm_put t e = Ok (t', i) ->
  BInv t' /\ bsm_get t' i = Some e /\
  (forall j x, bsm_get t j = Some x -> bsm_get t' j = Some x) /\
  0 <= i < zlen (b_inner t') /\ i <= 65535.
Proof. exact bsm_put_spec. Qed.
Print Assumptions C02_bsm_put.

(* ---------- length fields ---------- *)
Theorem C02_attribute_length_exact : forall name_index body bs pre post,
  write_attribute name_index body = Ok bs ->
  bs = be16 name_index ++ be32 (zlen body) ++ body /\
  u32_at (pre ++ bs ++ post) (zlen pre + 2) = zlen body /\
  zlen bs = 6 + zlen body.
Proof. exact attribute_length_exact. Qed.
Print Assumptions C02_attribute_length_exact.

Theorem C02_count16_exact : forall elems bs pre post,
  write_slice16 elems = Ok bs ->
  u16_at (pre ++ bs ++ post) (zlen pre) = zlen elems /\ bs = be16 (zlen elems) ++ concat elems.
Proof. exact count16_exact. Qed.
Print Assumptions C02_count16_exact.

Theorem C02_code_length_exact : forall code pre post,
  zlen code <= 65535 -> u32_at (pre ++ frame_code code ++ post) (zlen pre) = zlen code.
Proof. exact code_length_exact. Qed.
Print Assumptions C02_code_length_exact.

(* the call sites of write_attribute_fix_length in the current source (regenerated) *)
Theorem C02_fix_lengths_exact :
  forallb (fun s => snd (fst s) =? sumZ (snd s)) fix_length_sites = true.
Proof. exact fix_lengths_exact. Qed.
Print Assumptions C02_fix_lengths_exact.

(* the call sites of if_helper / goto_helper in the current source (regenerated) *)
Theorem C02_helper_sites_ok :
  forallb (fun p => kind_ok (KCond (fst p) (snd p))) if_sites = true /\
  forallb (fun p => kind_ok (KJump (fst p) (snd p))) jump_sites = true /\
  length if_sites = 16%nat /\ length jump_sites = 2%nat.
Proof. exact helper_sites_ok. Qed.
Print Assumptions C02_helper_sites_ok.

Theorem C02_model_constants_match_source :
  GOTO_W = src_GOTO_W /\ TABLESWITCH = src_TABLESWITCH /\ LOOKUPSWITCH = src_LOOKUPSWITCH /\
  src_tramp_skip = 8 /\ src_LDC = 18%N /\ src_LDC_W = 19%N /\ src_LDC2_W = 20%N.
Proof. exact model_constants_match_source. Qed.
Print Assumptions C02_model_constants_match_source.

(* ---------- stack map frames (written since "fix: class writer writes the StackMapTable attribute") ---------- *)
(* A successful write of a method whose tree carries frames emits a StackMapTable whose body,
   decoded by a byte-only decoder that follows the reader (frame types 0..63, 64..127, 247, 248..250,
   251, 252..254, 255; verification types 0..8; offset = previous + delta + 1), yields exactly the
   frames of the tree, in the form the tree holds them, each at the position of the instruction
   that carries it in the written layout, with Uninitialized(label) at the position the layout
   gives the label; no frames <=> no attribute; the rest of the method is what write_code gives. *)
Theorem C02_frames_written : forall hasmax b last tb fs w W rt sm,
  unique_labels b last -> frames_ok fs = true -> length fs = length b ->
  write_code_f hasmax b last tb fs = Some (OK (w, W, rt, sm)) ->
  let chs := chs_run W 0%N 0 [] b in
  let L := labpos chs 0 b last in
  write_code hasmax b last tb = Some (OK (w, W, rt)) /\
  match sm with
  | None => has_frames fs = false
  | Some bs => has_frames fs = true /\
      exists ds, tree_frames L (positions chs 0 b) fs = Some ds /\ dec_stack_map bs = Some ds
  end.
Proof. exact frames_written. Qed.
Print Assumptions C02_frames_written.

(* the table alone: for every label map with u16 positions and every list of frames at u16 offsets *)
Theorem C02_stack_map_roundtrip : forall labs frs bs,
  lbounded labs ->
  forallb (fun pf => sframe_ok (snd pf)) frs = true ->
  Forall (fun pf => 0 <= fst pf <= 65535) frs ->
  emit_stack_map labs frs = OK bs ->
  exists ds, tframes (lget labs) frs = Some ds /\ dec_stack_map bs = Some ds.
Proof. exact emit_stack_map_dec. Qed.
Print Assumptions C02_stack_map_roundtrip.

Theorem C02_write_code_f_terminates : forall hasmax b last tb fs, write_code_f hasmax b last tb fs <> None.
Proof. exact write_code_f_terminates. Qed.
Print Assumptions C02_write_code_f_terminates.

Theorem C02_write_code_f_no_panic : forall hasmax b last tb fs,
  unique_labels b last -> spans_ok b = true -> ranges_ok b last tb = true ->
  write_code_f hasmax b last tb fs <> Some PANIC.
Proof. exact write_code_f_no_panic. Qed.
Print Assumptions C02_write_code_f_no_panic.

Theorem C02_frames_example :
  unique_labels exf_body None /\ frames_ok exf_frames = true /\
  exists w W rt bs, write_code_f true exf_body None exf_tables exf_frames = Some (OK (w, W, rt, Some bs)) /\
    bs = [0; 3;  0;  253; 0; 5; 7; 0; 9; 8; 0; 0;  255; 0; 0; 0; 1; 1; 0; 2; 4; 7; 0; 12]%N /\
    dec_stack_map bs = Some [(0, DSame); (6, DAppend [DObject 9; DUninit 0]); (7, DFull [DSimple 1] [DSimple 4; DObject 12])].
Proof. exact frames_example. Qed.
Print Assumptions C02_frames_example.

(* ---------- non-vacuity ---------- *)
Theorem C02_examples : nonvacuous.
Proof. exact nonvacuous_holds. Qed.
Print Assumptions C02_examples.

Theorem C02_far_conditional_widens : far_check = true.
Proof. exact far_conditional_widens. Qed.
Print Assumptions C02_far_conditional_widens.
