(* C16 — property theorems only.  Each is closed by [exact <lemma>] and followed by
   Print Assumptions; the statements are pinned here so they cannot be quietly weakened.

   The theorems are about the Gallina model of coq/C16/Model.v: the arithmetic, indexing and
   recursion skeleton of the parsers' dangerous spots, with outcome Done | Fail | Panic, following
   the code after this property's fix: commits.  "Never Panic" for the class reader as a whole is
   NOT claimed (see stated_not_proved in props/c16.py); the harness covers it by search. *)
From FB Require Import C16.Model C16.Theory C16.Theory2 C16.Theory3 C18.Model.

(* Labels: a local-variable range is computed without overflow ... *)
Theorem C16_no_panic_label_range : forall code_len start len, get_or_create_range code_len start len <> Panic.
Proof. exact range_no_panic. Qed.
Print Assumptions C16_no_panic_label_range.

(* ... and accepted exactly when it lies inside the code *)
Theorem C16_label_range_accepts_iff_inside : forall code_len start len,
  get_or_create_range code_len start len = Done tt <-> start < code_len /\ start + len <= code_len /\ start + len <= u16_max.
Proof. exact range_spec. Qed.
Print Assumptions C16_label_range_accepts_iff_inside.

(* Labels: any sequence of label requests is answered without panic, and the u16 id counter
   never hands out an id twice (at most 65536 distinct labelled offsets exist) *)
Theorem C16_no_panic_label_ids : forall code_len reqs, labels_requests code_len reqs <> Panic.
Proof. exact labels_no_panic. Qed.
Print Assumptions C16_no_panic_label_ids.

Theorem C16_label_ids_unique : forall code_len reqs st,
  labels_requests code_len reqs = Done st ->
  NoDup (lab_pcs st) /\ N.of_nat (length (lab_pcs st)) <= 65536
  /\ lab_next st = N.of_nat (length (lab_pcs st)) mod 65536.
Proof. exact labels_ids_unique. Qed.
Print Assumptions C16_label_ids_unique.

(* StackMapTable: offset accumulation over any list of deltas *)
Theorem C16_no_panic_stack_map_offsets : forall code_len deltas, stack_map code_len deltas <> Panic.
Proof. exact stack_map_no_panic. Qed.
Print Assumptions C16_no_panic_stack_map_offsets.

(* Bytecode first pass: cursor slice `r.get_ref()[pos..]`, operand skipping, branch targets,
   tableswitch / lookupswitch counts and entries — for every byte string *)
Theorem C16_no_panic_code_scan : forall code, scan code <> Panic.
Proof. exact scan_no_panic. Qed.
Print Assumptions C16_no_panic_code_scan.

Theorem C16_tableswitch_count_fits_i64 : forall lo hi,
  (i32_min <= lo <= i32_max)%Z -> (i32_min <= hi <= i32_max)%Z -> (lo <= hi)%Z -> (1 <= hi - lo + 1 <= 4294967296)%Z.
Proof. exact tableswitch_count_fits. Qed.
Print Assumptions C16_tableswitch_count_fits_i64.

(* Bootstrap arguments: for every pool and every (also cyclic) argument graph a stack of 67
   frames suffices, because of the nesting limit; more stack does not change the answer *)
Theorem C16_no_panic_bootstrap_arguments : forall pool bsms idx indy budget,
  resolve resolve_fuel (Some max_nesting) pool bsms idx (if indy : bool then 1 else 0) budget <> Panic.
Proof. exact bootstrap_no_panic. Qed.
Print Assumptions C16_no_panic_bootstrap_arguments.

Theorem C16_bootstrap_fuel_immaterial : forall fuel limit pool bsms idx nesting budget r,
  resolve fuel limit pool bsms idx nesting budget = r -> r <> Panic ->
  resolve (S fuel) limit pool bsms idx nesting budget = r.
Proof. exact resolve_fuel_mono. Qed.
Print Assumptions C16_bootstrap_fuel_immaterial.

(* Bootstrap arguments, the bound on the work: ONE budget of 65536 for all top-level arguments of
   one instruction.  [indy_instruction_w] / [ldc_instruction_w] count the calls of
   get_loadable_nested next to the result: never Panic; at most 65537 (65538 for ldc, whose root
   is not charged) calls whatever the outcome; and an accepted instruction made exactly
   65536 - left of them, i.e. total expansions per instruction <= 65536 or Err. *)
Theorem C16_bootstrap_work_bounded_invokedynamic : forall pool bsms args,
  let wr := indy_instruction_w pool bsms args in
  snd wr = indy_instruction pool bsms args /\ snd wr <> Panic /\ fst wr <= max_expanded + 1 /\
  (forall lft, snd wr = Done lft -> fst wr + lft = max_expanded).
Proof. exact indy_instruction_bounded. Qed.
Print Assumptions C16_bootstrap_work_bounded_invokedynamic.

Theorem C16_bootstrap_work_bounded_ldc : forall pool bsms idx,
  let wr := ldc_instruction_w pool bsms idx in
  snd wr = ldc_instruction pool bsms idx /\ snd wr <> Panic /\ fst wr <= max_expanded + 2 /\
  (forall lft, snd wr = Done lft -> fst wr + lft = max_expanded + 1).
Proof. exact ldc_instruction_bounded. Qed.
Print Assumptions C16_bootstrap_work_bounded_ldc.

(* ... and the budget decides: an accepting run consumes c = B - left whatever the budget is, and
   the same arguments are accepted with budget B' iff c <= B' (so: accepted iff the total number
   of expanded arguments of the instruction is at most 65536) *)
Theorem C16_bootstrap_budget_decides : forall pool bsms args B lft,
  resolve_all resolve_fuel (Some max_nesting) pool bsms args 1 B = Done lft ->
  lft <= B /\ forall B', resolve_all resolve_fuel (Some max_nesting) pool bsms args 1 B' = if (B - lft) <=? B' then Done (B' - (B - lft)) else Fail.
Proof. exact indy_accepts_iff_total_within_budget. Qed.
Print Assumptions C16_bootstrap_budget_decides.

(* the model distinguishes the per-instruction budget from a per-argument one (3 x 32767 constants) *)
Theorem C16_per_argument_budget_would_exceed : per_argument_budget_witness.
Proof. exact per_argument_budget_witness_holds. Qed.
Print Assumptions C16_per_argument_budget_would_exceed.

(* Class writer, invokeinterface count operand: MethodDescriptorSlice::get_arguments_size on any
   string (the reader accepts every descriptor) — an error past 255 slots, never an u8 overflow *)
Theorem C16_no_panic_arguments_size : forall s, arguments_size s <> Panic.
Proof. exact arguments_size_no_panic. Qed.
Print Assumptions C16_no_panic_arguments_size.

Theorem C16_arguments_size_fits_u8 : forall s n, arguments_size s = Done n -> n <= 255.
Proof. exact arguments_size_fits_u8. Qed.
Print Assumptions C16_arguments_size_fits_u8.

Theorem C16_unrepaired_arguments_size_overflows : arguments_size_unrepaired_witnesses.
Proof. exact arguments_size_unrepaired_witnesses_hold. Qed.
Print Assumptions C16_unrepaired_arguments_size_overflows.

(* Element values and Enigma CLASS sections: any tree, bounded recursion *)
Theorem C16_no_panic_nesting : forall t, read_nest nest_fuel (Some max_nesting) 0 t <> Panic.
Proof. exact nesting_no_panic. Qed.
Print Assumptions C16_no_panic_nesting.

(* read_u8_vec: allocation bounded by 64 KiB + twice the remaining input, for every declared length *)
Theorem C16_no_panic_read_u8_vec : forall declared remaining, read_u8_vec declared remaining <> Panic.
Proof. exact read_u8_vec_no_panic. Qed.
Print Assumptions C16_no_panic_read_u8_vec.

(* Known finding F17 (open): bootstrap arguments are copied into every instruction that uses
   them; outside the witness class the copies stay within the linear heap bound, inside it they
   do not (refuted by the 7200-byte witness that the harness replays) *)
Theorem C16_shared_bootstrap_arguments_partial : forall k a len,
  known_class_F17 k a len = false -> shared_args_alloc k a len <> Panic.
Proof. exact shared_args_no_panic_partial. Qed.
Print Assumptions C16_shared_bootstrap_arguments_partial.

Theorem C16_shared_bootstrap_arguments_refuted :
  exists k a len, known_class_F17 k a len = true /\ ~ (shared_args_alloc k a len <> Panic).
Proof. exact shared_args_refuted. Qed.
Print Assumptions C16_shared_bootstrap_arguments_refuted.

(* Text parsers: `&line[idents..]` on a line that is a String *)
Theorem C16_no_panic_text_line : forall l, text_line l <> Panic.
Proof. exact text_line_no_panic. Qed.
Print Assumptions C16_no_panic_text_line.

(* Comments: tiny_v2::unescape (shared by the tiny v2 and tiny diff readers) works on chars, is
   total by construction, and never produces more than it was given *)
Theorem C16_unescape_never_longer : forall s, (length (unescape_cp s) <= length s)%nat.
Proof. exact unescape_cp_length. Qed.
Print Assumptions C16_unescape_never_longer.

(* Descriptor parsers are total *)
Theorem C16_descriptor_parser_total : forall s, (exists t, parse_field s = Ok t) \/ parse_field s = Err.
Proof. exact descriptor_total. Qed.
Print Assumptions C16_descriptor_parser_total.

Theorem C16_no_panic_descriptors : forall kind s, desc_out kind s <> Panic.
Proof. exact desc_no_panic. Qed.
Print Assumptions C16_no_panic_descriptors.

(* The model can express the failures: the code before the fixes reaches Panic on the witnesses *)
Theorem C16_unrepaired_code_panics : unrepaired_witnesses.
Proof. exact unrepaired_witnesses_hold. Qed.
Print Assumptions C16_unrepaired_code_panics.

Theorem C16_unrepaired_scan_panics : scan_unrepaired_witnesses.
Proof. exact scan_unrepaired_witnesses_hold. Qed.
Print Assumptions C16_unrepaired_scan_panics.
