(* C16 — property theorems only.  Each is closed by [exact <lemma>] and followed by
   Print Assumptions; the statements are pinned here so they cannot be quietly weakened.

   The theorems are about the Gallina model of coq/C16/Model.v: the arithmetic, indexing and
   recursion skeleton of the parsers' dangerous spots, with outcome Done | Fail | Panic, following
   the code after this property's fix: commits.  "Never Panic" for the class reader as a whole is
   NOT claimed (see stated_not_proved in props/c16.py); the harness covers it by search. *)
From FB Require Import C16.Model C16.ModelText C16.ModelEv C16.SitesGen C16.Theory C16.Theory2 C16.Theory3 C16.TheoryText C16.TheoryText2 C16.TheoryRD C16.TheoryEv C16.TheorySites C16.TheorySitesReader C16.TheoryDesc C18.Model.
From FB Require Import C16.ModelClsRead C16.TheoryCls C16.TheoryClsAttr C16.TheoryClsCode C16.TheoryClsCode2 C16.TheoryClsCode3 C16.TheoryClsRead C16.TheoryClsWit.
From FB Require C01.Opcodes.

(* Labels: a local-variable range is computed without overflow ... *)
Theorem C16_no_panic_label_range : forall code_len start len, get_or_create_range code_len start len <> Panic.
Proof. exact range_no_panic. Qed.
Print Assumptions C16_no_panic_label_range.

(* ... and accepted exactly when it lies inside the code *)
Theorem C16_label_range_accepts_iff_inside : forall code_len start len,
  get_or_create_range code_len start len = Done tt <-> start < code_len /\ start + len <= code_len /\ start + len <= u16_max.
Proof. exact range_spec. Qed.
Print Assumptions C16_label_range_accepts_iff_inside.

(* Labels: any sequence of label requests is answered without panic, and the u16 id counter
   never hands out an id twice (at most 65536 distinct labelled offsets exist) *)
Theorem C16_no_panic_label_ids : forall code_len reqs, labels_requests code_len reqs <> Panic.
Proof. exact labels_no_panic. Qed.
Print Assumptions C16_no_panic_label_ids.

Theorem C16_label_ids_unique : forall code_len reqs st,
  labels_requests code_len reqs = Done st ->
  NoDup (lab_pcs st) /\ N.of_nat (length (lab_pcs st)) <= 65536
  /\ lab_next st = N.of_nat (length (lab_pcs st)) mod 65536.
Proof. exact labels_ids_unique. Qed.
Print Assumptions C16_label_ids_unique.

(* StackMapTable: offset accumulation over any list of deltas *)
Theorem C16_no_panic_stack_map_offsets : forall code_len deltas, stack_map code_len deltas <> Panic.
Proof. exact stack_map_no_panic. Qed.
Print Assumptions C16_no_panic_stack_map_offsets.

(* Bytecode first pass: cursor slice `r.get_ref()[pos..]`, operand skipping, branch targets,
   tableswitch / lookupswitch counts and entries — for every byte string *)
Theorem C16_no_panic_code_scan : forall code, scan code <> Panic.
Proof. exact scan_no_panic. Qed.
Print Assumptions C16_no_panic_code_scan.

Theorem C16_tableswitch_count_fits_i64 : forall lo hi,
  (i32_min <= lo <= i32_max)%Z -> (i32_min <= hi <= i32_max)%Z -> (lo <= hi)%Z -> (1 <= hi - lo + 1 <= 4294967296)%Z.
Proof. exact tableswitch_count_fits. Qed.
Print Assumptions C16_tableswitch_count_fits_i64.

(* Bootstrap arguments: for every pool and every (also cyclic) argument graph a stack of 67
   frames suffices, because of the nesting limit; more stack does not change the answer *)
Theorem C16_no_panic_bootstrap_arguments : forall pool bsms idx indy budget,
  resolve resolve_fuel (Some max_nesting) pool bsms idx (if indy : bool then 1 else 0) budget <> Panic.
Proof. exact bootstrap_no_panic. Qed.
Print Assumptions C16_no_panic_bootstrap_arguments.

Theorem C16_bootstrap_fuel_immaterial : forall fuel limit pool bsms idx nesting budget r,
  resolve fuel limit pool bsms idx nesting budget = r -> r <> Panic ->
  resolve (S fuel) limit pool bsms idx nesting budget = r.
Proof. exact resolve_fuel_mono. Qed.
Print Assumptions C16_bootstrap_fuel_immaterial.

(* Bootstrap arguments, the bound on the work: ONE budget of 65536 for all top-level arguments of
   one instruction.  [indy_instruction_w] / [ldc_instruction_w] count the calls of
   get_loadable_nested next to the result: never Panic; at most 65537 (65538 for ldc, whose root
   is not charged) calls whatever the outcome; and an accepted instruction made exactly
   65536 - left of them, i.e. total expansions per instruction <= 65536 or Err. *)
Theorem C16_bootstrap_work_bounded_invokedynamic : forall pool bsms args,
  let wr := indy_instruction_w pool bsms args in
  snd wr = indy_instruction pool bsms args /\ snd wr <> Panic /\ fst wr <= max_expanded + 1 /\
  (forall lft, snd wr = Done lft -> fst wr + lft = max_expanded).
Proof. exact indy_instruction_bounded. Qed.
Print Assumptions C16_bootstrap_work_bounded_invokedynamic.

Theorem C16_bootstrap_work_bounded_ldc : forall pool bsms idx,
  let wr := ldc_instruction_w pool bsms idx in
  snd wr = ldc_instruction pool bsms idx /\ snd wr <> Panic /\ fst wr <= max_expanded + 2 /\
  (forall lft, snd wr = Done lft -> fst wr + lft = max_expanded + 1).
Proof. exact ldc_instruction_bounded. Qed.
Print Assumptions C16_bootstrap_work_bounded_ldc.

(* ... and the budget decides: an accepting run consumes c = B - left whatever the budget is, and
   the same arguments are accepted with budget B' iff c <= B' (so: accepted iff the total number
   of expanded arguments of the instruction is at most 65536) *)
Theorem C16_bootstrap_budget_decides : forall pool bsms args B lft,
  resolve_all resolve_fuel (Some max_nesting) pool bsms args 1 B = Done lft ->
  lft <= B /\ forall B', resolve_all resolve_fuel (Some max_nesting) pool bsms args 1 B' = if (B - lft) <=? B' then Done (B' - (B - lft)) else Fail.
Proof. exact indy_accepts_iff_total_within_budget. Qed.
Print Assumptions C16_bootstrap_budget_decides.

(* the model distinguishes the per-instruction budget from a per-argument one (3 x 32767 constants) *)
Theorem C16_per_argument_budget_would_exceed : per_argument_budget_witness.
Proof. exact per_argument_budget_witness_holds. Qed.
Print Assumptions C16_per_argument_budget_would_exceed.

(* Class writer, invokeinterface count operand: MethodDescriptorSlice::get_arguments_size on any
   string (the reader accepts every descriptor) — an error past 255 slots, never an u8 overflow *)
Theorem C16_no_panic_arguments_size : forall s, arguments_size s <> Panic.
Proof. exact arguments_size_no_panic. Qed.
Print Assumptions C16_no_panic_arguments_size.

Theorem C16_arguments_size_fits_u8 : forall s n, arguments_size s = Done n -> n <= 255.
Proof. exact arguments_size_fits_u8. Qed.
Print Assumptions C16_arguments_size_fits_u8.

Theorem C16_unrepaired_arguments_size_overflows : arguments_size_unrepaired_witnesses.
Proof. exact arguments_size_unrepaired_witnesses_hold. Qed.
Print Assumptions C16_unrepaired_arguments_size_overflows.

(* Element values and Enigma CLASS sections: any tree, bounded recursion *)
Theorem C16_no_panic_nesting : forall t, read_nest nest_fuel (Some max_nesting) 0 t <> Panic.
Proof. exact nesting_no_panic. Qed.
Print Assumptions C16_no_panic_nesting.

(* read_u8_vec: allocation bounded by 64 KiB + twice the remaining input, for every declared length *)
Theorem C16_no_panic_read_u8_vec : forall declared remaining, read_u8_vec declared remaining <> Panic.
Proof. exact read_u8_vec_no_panic. Qed.
Print Assumptions C16_no_panic_read_u8_vec.

(* Known finding F17 (open): bootstrap arguments are copied into every instruction that uses
   them; outside the witness class the copies stay within the linear heap bound, inside it they
   do not (refuted by the 7200-byte witness that the harness replays) *)
Theorem C16_shared_bootstrap_arguments_partial : forall k a len,
  known_class_F17 k a len = false -> shared_args_alloc k a len <> Panic.
Proof. exact shared_args_no_panic_partial. Qed.
Print Assumptions C16_shared_bootstrap_arguments_partial.

Theorem C16_shared_bootstrap_arguments_refuted :
  exists k a len, known_class_F17 k a len = true /\ ~ (shared_args_alloc k a len <> Panic).
Proof. exact shared_args_refuted. Qed.
Print Assumptions C16_shared_bootstrap_arguments_refuted.

(* Text parsers: `&line[idents..]` on a line that is a String *)
Theorem C16_no_panic_text_line : forall l, text_line l <> Panic.
Proof. exact text_line_no_panic. Qed.
Print Assumptions C16_no_panic_text_line.

(* Comments: tiny_v2::unescape (shared by the tiny v2 and tiny diff readers) works on chars, is
   total by construction, and never produces more than it was given *)
Theorem C16_unescape_never_longer : forall s, (length (unescape_cp s) <= length s)%nat.
Proof. exact unescape_cp_length. Qed.
Print Assumptions C16_unescape_never_longer.

(* Descriptor parsers are total *)
Theorem C16_descriptor_parser_total : forall s, (exists t, parse_field s = Ok t) \/ parse_field s = Err.
Proof. exact descriptor_total. Qed.
Print Assumptions C16_descriptor_parser_total.

Theorem C16_no_panic_descriptors : forall kind s, desc_out kind s <> Panic.
Proof. exact desc_no_panic. Qed.
Print Assumptions C16_no_panic_descriptors.

(* ... and the one arithmetic operation in them, the u8 dimension counter of read_field_type
   (`array_dimension += 1`), never overflows because of the `== 255` check in front of it: the counter that
   can panic is the bracket count of the (panic-free by construction) C18 model, for every string *)
Theorem C16_no_panic_array_dimension : forall s dim, dim <= 255 ->
  array_dims true s dim <> Panic /\ array_dims true s dim = res_to_out (count_brackets s dim)
  /\ forall d r, array_dims true s dim = Done (d, r) -> d <= 255.
Proof. exact array_dims_spec. Qed.
Print Assumptions C16_no_panic_array_dimension.

Theorem C16_unguarded_array_dimension_overflows : array_dims_unguarded_witness.
Proof. exact array_dims_unguarded_witness_holds. Qed.
Print Assumptions C16_unguarded_array_dimension_overflows.

(* The model can express the failures: the code before the fixes reaches Panic on the witnesses *)
Theorem C16_unrepaired_code_panics : unrepaired_witnesses.
Proof. exact unrepaired_witnesses_hold. Qed.
Print Assumptions C16_unrepaired_code_panics.

Theorem C16_unrepaired_scan_panics : scan_unrepaired_witnesses.
Proof. exact scan_unrepaired_witnesses_hold. Qed.
Print Assumptions C16_unrepaired_scan_panics.

(* ------------------------------------------------------------------------------------------ *)
(* WHOLE text parsers (coq/C16/ModelText.v): strings are UTF-8 byte lists, slicing off a char
   boundary / past the end, from_str_radix with a bad radix and more than 68 frames of nested
   loops are Panic; the std functions listed at the top of ModelText.v are assumed total.       *)

(* tiny_v2::read::<n, _> on every byte string, every n *)
Theorem C16_no_panic_tiny_v2 : forall n input, tiny_v2_out n input <> Panic.
Proof. exact tiny_v2_no_panic. Qed.
Print Assumptions C16_no_panic_tiny_v2.

(* ... and the reader relies on nothing about unescape but its totality *)
Theorem C16_no_panic_tiny_v2_for_total_unescape : forall unesc n input,
  (forall s, unesc s <> Panic) -> tiny_v2_with unesc n input <> Panic.
Proof. exact tiny_v2_with_no_panic. Qed.
Print Assumptions C16_no_panic_tiny_v2_for_total_unescape.

(* tiny_v2_diff::read *)
Theorem C16_no_panic_tiny_diff : forall input, tiny_diff_out input <> Panic.
Proof. exact tiny_diff_no_panic. Qed.
Print Assumptions C16_no_panic_tiny_diff.

Theorem C16_no_panic_tiny_diff_for_total_unescape : forall unesc input,
  (forall s, unesc s <> Panic) -> tiny_diff_with unesc input <> Panic.
Proof. exact tiny_diff_with_no_panic. Qed.
Print Assumptions C16_no_panic_tiny_diff_for_total_unescape.

(* dukenest Nests::read *)
Theorem C16_no_panic_nests : forall input, nests_out input <> Panic.
Proof. exact nests_no_panic. Qed.
Print Assumptions C16_no_panic_nests.

(* enigma_file::read_into: never Panic; in particular never more than 68 frames of nested loops
   (root + 65 CLASS sections + METHOD + ARG) whatever the input *)
Theorem C16_no_panic_enigma : forall input, enigma_out input <> Panic.
Proof. exact enigma_no_panic. Qed.
Print Assumptions C16_no_panic_enigma.

(* ... which depends on the nesting limit: without it the frames grow with the input *)
Theorem C16_enigma_without_limit_grows : enigma_unrepaired_witnesses.
Proof. exact enigma_unrepaired_witnesses_hold. Qed.
Print Assumptions C16_enigma_without_limit_grows.

(* unescape: iterating chars (what the code does; fuel = length + 1 suffices, more changes nothing)
   is the same as reading the bytes of a String one by one; the result is a String, not longer *)
Theorem C16_unescape_chars_is_bytewise : forall l, utf8_valid l = true -> unescape_b l = unescape_cp l.
Proof. exact unescape_b_bytewise. Qed.
Print Assumptions C16_unescape_chars_is_bytewise.

Theorem C16_unescape_fuel_immaterial : forall l k, utf8_valid l = true -> unescape_chars (S (length l) + k) l = unescape_b l.
Proof. exact unescape_fuel_immaterial. Qed.
Print Assumptions C16_unescape_fuel_immaterial.

Theorem C16_unescape_returns_string : forall l, utf8_valid l = true ->
  utf8_valid (unescape_b l) = true /\ (length (unescape_b l) <= length l)%nat.
Proof. exact unescape_b_is_string. Qed.
Print Assumptions C16_unescape_returns_string.

(* the model can express the crash of an unescape that slices bytes (backslash before a multi-byte
   character), in isolation and through both readers; the same files are read fine by the code's unescape *)
Theorem C16_sliced_unescape_panics : sliced_unescape_witnesses.
Proof. exact sliced_unescape_witnesses_hold. Qed.
Print Assumptions C16_sliced_unescape_panics.

(* ------------------------------------------------------------------------------------------ *)
(* The inventory of operations that can panic / allocate / loop / recurse, regenerated from the
   sources on every run (coq/C16/SitesGen.v), is the one the model accounts for.                *)
Theorem C16_text_panic_sites_match : map strip text_model = text_sites.
Proof. exact text_sites_match. Qed.
Print Assumptions C16_text_panic_sites_match.

Theorem C16_writer_panic_sites_match : map strip writer_model = writer_sites.
Proof. exact writer_sites_match. Qed.
Print Assumptions C16_writer_panic_sites_match.

(* the class reader's own files: class_reader.rs, class_reader/pool.rs, class_reader/labels.rs, the ClassRead
   trait of lib.rs, jstring, macros (the newtypes), the descriptor parsers, the name predicates, the
   tree-building visitors — every slice / index, unwrap family call, panicking macro, unsafe, arithmetic
   operation, `as` cast, allocation call, loop, recursion, checked conversion AND every placeholder of every
   formatting macro (display / debug / other trait) is in the hand-written table with its justification *)
Theorem C16_reader_panic_sites_match : map strip reader_model = reader_sites.
Proof. exact reader_sites_match. Qed.
Print Assumptions C16_reader_panic_sites_match.

(* the `{}` placeholders (Display, LowerHex) of the text readers and of the class writer *)
Theorem C16_text_fmt_sites_match : map strip text_fmt_model = text_fmt_sites.
Proof. exact text_fmt_sites_match. Qed.
Print Assumptions C16_text_fmt_sites_match.

Theorem C16_writer_fmt_sites_match : map strip writer_fmt_model = writer_fmt_sites.
Proof. exact writer_fmt_sites_match. Qed.
Print Assumptions C16_writer_fmt_sites_match.

(* Display of duke's name / descriptor newtypes returns fmt::Error on an unpaired surrogate, which makes
   format! / anyhow! panic: every `{}` of the three inventories is classified as an integer, a lossy
   JavaString or a &str — except inside the Debug impl of PoolRead ... *)
Theorem C16_fallible_display_only_in_pool_debug :
  forallb display_row_ok reader_model = true /\ forallb display_row_ok text_fmt_model = true /\ forallb display_row_ok writer_fmt_model = true.
Proof. exact fallible_display_only_in_pool_debug. Qed.
Print Assumptions C16_fallible_display_only_in_pool_debug.

(* ... which no placeholder of the reader reaches *)
Theorem C16_nothing_formats_the_pool : forallb not_the_pool reader_model = true.
Proof. exact nothing_formats_the_pool. Qed.
Print Assumptions C16_nothing_formats_the_pool.

Theorem C16_reader_debug_placeholders_total : forallb debug_row_ok reader_model = true.
Proof. exact debug_rows_total. Qed.
Print Assumptions C16_reader_debug_placeholders_total.

(* no unwrap / expect anywhere in the reader's files; the only slices are the two cursor slices of read_code *)
Theorem C16_reader_has_no_unwrap_or_index : forallb reader_row_safe_shape reader_model = true.
Proof. exact reader_has_no_unwrap. Qed.
Print Assumptions C16_reader_has_no_unwrap_or_index.

(* the checklist: each of the 231 rows is either inside the whole-reader model (65 rows: its justification names the
   definition with the checked operation and the lemma that discharges it) or of a kind that is total *)
Theorem C16_reader_rows_covered :
  forallb (fun x => row_in_whole_model x || row_total x) reader_model = true
  /\ length (filter row_in_whole_model reader_model) = 65%nat.
Proof. exact reader_rows_covered. Qed.
Print Assumptions C16_reader_rows_covered.

(* the arithmetic behind the GUARDED / BOUNDED / UNREACHABLE entries of the reader's table *)
Theorem C16_reader_u16_casts_preserve : forall x, x <= 65535 -> as_u16 x = x.
Proof. exact as_u16_small. Qed.
Print Assumptions C16_reader_u16_casts_preserve.

Theorem C16_reader_align_mask_lt_4 : forall m, N.land m 3 < 4.
Proof. exact reader_align_mask_lt_4. Qed.
Print Assumptions C16_reader_align_mask_lt_4.

(* iload_0..aload_3 / istore_0..astore_3: no u8 underflow / overflow, the computed opcode is one of the five
   the inner match lists, and the writer's short form is its inverse *)
Theorem C16_reader_short_forms_decode : short_decode_ok 21 26 = true /\ short_decode_ok 54 59 = true.
Proof. exact reader_short_forms_ok. Qed.
Print Assumptions C16_reader_short_forms_decode.

Theorem C16_reader_frame_type_arith : forall t,
  (64 <= t <= 127 -> 64 <= t /\ t - 64 < 64) /\
  (248 <= t <= 250 -> t <= 251 /\ 1 <= 251 - t <= 3) /\
  (252 <= t <= 254 -> 251 <= t /\ 1 <= t - 251 <= 3).
Proof. exact reader_frame_arith_ok. Qed.
Print Assumptions C16_reader_frame_type_arith.

(* a lookupswitch accepted by the first pass has its pairs in the code array: the second pass's
   `Vec::with_capacity(npairs)` is bounded by the input *)
Theorem C16_reader_lookupswitch_npairs_small : forall count cl p c1 c' e,
  N.of_nat (length (rest c1)) <= 65535 ->
  insn_operands count cl p 171 c1 = Done (c', e) ->
  exists n, lookupswitch_npairs cl p c1 = Done n /\ (0 <= n <= 8190)%Z /\ (8 * n <= Z.of_nat (length (rest c1)))%Z.
Proof. exact reader_lookupswitch_npairs_small. Qed.
Print Assumptions C16_reader_lookupswitch_npairs_small.

(* the class writer's conversions: checked ones are an error, the unchecked ones sit under guards
   that make them value preserving / overflow free *)
Theorem C16_writer_checked_conversions_never_panic : forall max x,
  try_from_max max x <> Panic /\ forall y, try_from_max max x = Done y -> y = x /\ y <= max.
Proof. exact checked_conversion_never_panics. Qed.
Print Assumptions C16_writer_checked_conversions_never_panic.

Theorem C16_writer_index_as_u8_small : forall x, x < 4 -> as_u8 x = x.
Proof. exact as_u8_small. Qed.
Print Assumptions C16_writer_index_as_u8_small.

Theorem C16_writer_short_load_store_fits : short_forms_ok = true.
Proof. exact short_load_store_fits. Qed.
Print Assumptions C16_writer_short_load_store_fits.

Theorem C16_writer_frame_type_fits : forall k d, 1 <= k <= 3 -> d < 64 ->
  as_u8 k = k /\ 251 + k <= 255 /\ k <= 251 /\ 248 <= 251 - k /\ 64 + d <= 127.
Proof. exact frame_type_fits. Qed.
Print Assumptions C16_writer_frame_type_fits.

Theorem C16_writer_signed_offset_fits : forall t p, t <= 65535 -> p <= 65535 -> (i32_min <= Z.of_N t - Z.of_N p <= i32_max)%Z.
Proof. exact signed_offset_fits. Qed.
Print Assumptions C16_writer_signed_offset_fits.

(* what the reader guarantees the writer: an accepted tableswitch spans at most 16383 values, so the
   writer's `high - low + 1` on i32 does not overflow (the code array has at most 65535 bytes) *)
Theorem C16_reader_tableswitch_span_small : forall cl p c1 c' e,
  N.of_nat (length (rest c1)) <= 65535 ->
  insn_operands tableswitch_count cl p 170 c1 = Done (c', e) ->
  exists low high, tableswitch_bounds cl p c1 = Done (low, high)
    /\ (low <= high)%Z /\ (1 <= high - low + 1 <= 16383)%Z /\ (i32_min <= high - low <= i32_max)%Z.
Proof. exact reader_tableswitch_span. Qed.
Print Assumptions C16_reader_tableswitch_span_small.

(* ------------------------------------------------------------------------------------------ *)
(* The element_value readers (three functions, five recursive calls; coq/C16/ModelEv.v) with the
   nesting arguments, limit checks and limit as translate/c16_sites.py reads them from the source. *)
Theorem C16_element_value_checks_as_modelled : ev_checks = checks_expected.
Proof. exact ev_checks_as_modelled. Qed.
Print Assumptions C16_element_value_checks_as_modelled.

(* with the increments the source has now: every entry point, every element value, 3 * (limit + 3) + 3
   frames suffice (204 for the limit 64) *)
Theorem C16_element_value_depth_bounded : exists incs, incs_src = Some incs
  /\ rank_ok incs (rank_of incs) = true
  /\ forall f arg, ev_read incs ev_limit (ev_fuel ev_limit) f 0 arg <> Panic.
Proof. exact ev_depth_bounded_src. Qed.
Print Assumptions C16_element_value_depth_bounded.

(* the general statement: bounded whenever the calls that do not increase `nesting` cannot form a cycle *)
Theorem C16_element_value_depth_bounded_if_ranked : forall incs c limit, rank_ok incs c = true ->
  forall f arg, ev_read incs limit (ev_fuel limit) f 0 arg <> Panic.
Proof. exact ev_depth_bounded. Qed.
Print Assumptions C16_element_value_depth_bounded_if_ranked.

(* the bound depends on the increments of the annotation -> array -> annotation cycle: either one
   may go (the cycle still counts once), both may not — then every stack is overflowed by some class *)
Theorem C16_element_value_single_removal_bounded :
  (forall f arg, ev_read incs_b3_first 64 (ev_fuel 64) f 0 arg <> Panic)
  /\ (forall f arg, ev_read incs_b3_second 64 (ev_fuel 64) f 0 arg <> Panic).
Proof. exact ev_single_removal_bounded. Qed.
Print Assumptions C16_element_value_single_removal_bounded.

Theorem C16_element_value_both_removed_unbounded : rank_ok incs_b3 (rank_of incs_b3) = false /\
  forall fuel, exists v, ev_read incs_b3 64 fuel FNamed 0 [v] = Panic.
Proof. exact ev_b3_unbounded. Qed.
Print Assumptions C16_element_value_both_removed_unbounded.

(* an element value that the reader accepts (increments as in the source: every container adds one)
   nests at most 64 containers; so the class writer's recursion over it is bounded by the reader *)
Theorem C16_accepted_element_values_are_shallow : forall fuel f arg v,
  ev_read incs_expected 64 fuel f 0 arg = Done tt -> In v arg -> (ev_depth v <= 64)%nat.
Proof. exact ev_accepted_depth. Qed.
Print Assumptions C16_accepted_element_values_are_shallow.

(* non-vacuity of the whole-parser theorems: the valid fixtures of the harness are accepted by their
   parser (and refused, not crashed on, by the others) *)
Theorem C16_text_fixtures_accepted : text_fixtures_accepted.
Proof. exact text_fixtures_accepted_hold. Qed.
Print Assumptions C16_text_fixtures_accepted.

(* ------------------------------------------------------------------------------------------ *)
(* The indentation machine of ModelText.v (a flat loop over the lines with a stack of frames) is the
   nested-loop recursion of the Rust readers ([rd]: the loop of one section; a handler that starts a
   sub-section runs the loop of that sub-section to its end, closes it, and goes on), for every
   handler that rewrites its own frame and starts at most one sub-section per line — with fuel
   (number of lines + 1) always sufficient, and with the same Fail / Panic outcomes.           *)
Theorem C16_machine_is_nested_loops : forall (F St L : Type) limit (mk : bytes -> out (option L)) ind
    (close : F -> St -> out St) handle bottom s ls,
  handler_ok handle ->
  run_lines limit mk ind close handle [bottom] s ls =
  (let! (top', s', _) := rd (S (length ls)) limit mk ind close handle bottom [] s ls in close_all close [top'] s').
Proof. intros F St L. exact (@rd_is_the_machine F St L). Qed.
Print Assumptions C16_machine_is_nested_loops.

Theorem C16_enigma_is_nested_loops : forall limit input,
  enigma_with limit input =
  (let! (top', s', _) := rd (S (length (raw_lines input))) (Some enigma_max_frames) enigma_line tl_ind enigma_close
                            (enigma_handle limit) ETop [] [] (raw_lines input) in
   let! _ := close_all enigma_close [top'] s' in Done tt).
Proof. exact enigma_is_nested_loops. Qed.
Print Assumptions C16_enigma_is_nested_loops.

Theorem C16_tiny_v2_body_is_nested_loops : forall n unesc body,
  run_lines None tiny_line tl_ind tiny_close (tiny_handle n unesc) [THeaderSub false; TTop] [] body =
  (let! (h', s1, ls1) := rd (S (length body)) None tiny_line tl_ind tiny_close (tiny_handle n unesc) (THeaderSub false) [TTop] [] body in
   let! s2 := tiny_close h' s1 in
   let! (t', s3, _) := rd (S (length body)) None tiny_line tl_ind tiny_close (tiny_handle n unesc) TTop [] s2 ls1 in
   close_all tiny_close [t'] s3).
Proof. exact tiny_v2_body_is_nested_loops. Qed.
Print Assumptions C16_tiny_v2_body_is_nested_loops.

Theorem C16_tiny_diff_body_is_nested_loops : forall unesc body,
  run_lines None tiny_line tl_ind diff_close (diff_handle unesc) [DTop] [] body =
  (let! (top', s', _) := rd (S (length body)) None tiny_line tl_ind diff_close (diff_handle unesc) DTop [] [] body in
   close_all diff_close [top'] s').
Proof. exact tiny_diff_body_is_nested_loops. Qed.
Print Assumptions C16_tiny_diff_body_is_nested_loops.

(* ------------------------------------------------------------------------------------------ *)
(* The WHOLE class reader (coq/C16/ModelCls*.v): class_reader::read with its constant pool (pool.rs), labels
   (labels.rs) and read_code, as a computation over the cursor with outcome Done | Fail | Panic.  Panic: the
   u8 / usize / i64 arithmetic of the source under overflow checks, `unreachable!()`, the cursor slices of
   read_code, an allocation made before its data is read that the input does not back (read_u8_vec, read_vec,
   the switch tables), running out of fuel (pool loop, code loops, element values, bootstrap arguments).   *)

(* step 1: header and constant pool — magic, version, tags, two-slot entries, Utf8 lengths, the pool loop
   (count - pool.len() iterations suffice), this / super / interfaces with index validation on use *)
Theorem C16_no_panic_class_header : forall bytes, header_out bytes <> Panic.
Proof. exact header_no_panic. Qed.
Print Assumptions C16_no_panic_class_header.

Theorem C16_pool_loop_fuel_suffices : forall fuel count plen acc,
  (N.to_nat (count - plen) <= fuel)%nat -> forall c, pool_loop fuel count plen acc c <> Panic.
Proof. exact np_pool_loop. Qed.
Print Assumptions C16_pool_loop_fuel_suffices.

(* step 2: the skip over fields and methods (attribute_length up to 4 GiB, seeks past the end), the seek back
   (with_pos) and the member loops with their attribute framing, for every pool and bootstrap table *)
Theorem C16_no_panic_class_members_skipped : forall bytes, members_skipped_out bytes <> Panic.
Proof. exact members_skipped_no_panic. Qed.
Print Assumptions C16_no_panic_class_members_skipped.

Theorem C16_no_panic_class_members : forall v p bsms c, read_members v p bsms c <> Panic.
Proof. exact np_read_members. Qed.
Print Assumptions C16_no_panic_class_members.

(* step 3: the attribute arms — element values on bytes (2 * (65 - nesting) + 1 frames suffice), annotations,
   type annotations with type paths and target infos, the Module attribute, every class attribute *)
Theorem C16_element_value_reader_fuel_suffices : forall p fuel f nesting,
  ev_ok f nesting -> (ev_need f nesting <= fuel)%nat -> forall c, ev fuel p f nesting c <> Panic.
Proof. exact np_ev. Qed.
Print Assumptions C16_element_value_reader_fuel_suffices.

Theorem C16_no_panic_attribute_readers : forall p level c,
  read_annotations p c <> Panic /\ read_type_annotations level p c <> Panic /\ read_type_path c <> Panic
  /\ read_target_info level c <> Panic /\ read_module p c <> Panic /\ skip_attributes c <> Panic
  /\ read_element_value_unnamed p c <> Panic.
Proof.
  exact (fun p level c => conj (np_read_annotations p c) (conj (np_read_type_annotations level p c) (conj (np_read_type_path c)
         (conj (np_read_target_info level c) (conj (np_read_module p c) (conj (np_skip_attributes c) (np_read_element_value_unnamed p c))))))).
Qed.
Print Assumptions C16_no_panic_attribute_readers.

Theorem C16_no_panic_class_attribute : forall v p s c, class_attr v p s c <> Panic.
Proof. exact np_class_attr. Qed.
Print Assumptions C16_no_panic_class_attribute.

(* bootstrap arguments on the full pool (every entry kind, names checked): 67 frames suffice *)
Theorem C16_no_panic_loadable : forall fuel p bsms idx nesting budget,
  nesting <= 65 -> (67 <= fuel + N.to_nat nesting)%nat -> loadable fuel p bsms idx nesting budget <> Panic.
Proof. exact loadable_np. Qed.
Print Assumptions C16_no_panic_loadable.

(* step 4: read_code.  The first pass, for every code array and every declared length ... *)
Theorem C16_no_panic_first_pass : forall cl code, pass1 cl code <> Panic.
Proof. exact pass1_np. Qed.
Print Assumptions C16_no_panic_first_pass.

(* ... the loops of both passes: an invariant that keeps the position inside the code and a body that consumes
   input bound the iterations by the length (fuel = length + 1 suffices) *)
Theorem C16_code_loop_fuel_suffices : forall (A : Type) cl (body : N -> A -> M A) (I : rcur -> Prop),
  (forall c, I c -> rpos c <= cl) ->
  (forall pos a c, I c -> body pos a c <> Panic) ->
  (forall pos a c a' c', I c -> body pos a c = Done (a', c') -> I c' /\ (rlen c' < rlen c)%nat) ->
  forall fuel a c, I c -> (rlen c < fuel)%nat -> code_loop fuel cl body a c <> Panic.
Proof. exact @code_loop_np. Qed.
Print Assumptions C16_code_loop_fuel_suffices.

(* ... the regenerated opcode tables of the two passes (coq/C01/Opcodes.v) agree on the operand bytes of every
   opcode, plain and wide, and the u8 arithmetic of the short load / store forms stays in range ... *)
Theorem C16_opcode_tables_agree : forall op,
  compat (Opcodes.pass1_class op) (Opcodes.pass2_entry op) = true
  /\ wide_compat (Opcodes.pass1_wide op) (Opcodes.pass2_wide_entry op) = true /\ short_ok op = true.
Proof. exact (fun op => conj (tables_compat op) (conj (tables_wide_compat op) (tables_short_ok op))). Qed.
Print Assumptions C16_opcode_tables_agree.

(* ... hence the two passes leave every instruction at the same cursor (whenever both accept it) ... *)
Theorem C16_passes_in_lockstep : forall cl pos s1 p bsms st fr c s1' c1 fr' c2,
  p1_insn cl pos s1 c = Done (s1', c1) -> p2_insn p bsms cl st pos fr c = Done (fr', c2) -> c1 = c2.
Proof. exact (fun cl pos s1 p bsms st fr c s1' c1 fr' c2 H1 H2 => proj1 (lockstep cl pos s1 p bsms st fr c s1' c1 fr' c2 H1 H2)). Qed.
Print Assumptions C16_passes_in_lockstep.

(* ... and the second pass never panics on code the first pass accepted: its cursor slice stays inside the code
   (reads only), and `Vec::with_capacity(npairs)` of a lookupswitch is backed by the pairs the first pass read *)
Theorem C16_no_panic_second_pass : forall p bsms cl code st fr st0,
  cl <= 65535 -> N.of_nat (length code) = cl -> pass1 cl code = Done st0 -> pass2 p bsms cl code st fr <> Panic.
Proof. exact pass2_np. Qed.
Print Assumptions C16_no_panic_second_pass.

Theorem C16_no_panic_read_code : forall v p bsms c, read_code v p bsms c <> Panic.
Proof. exact np_read_code. Qed.
Print Assumptions C16_no_panic_read_code.

(* the composition: class_reader::read with ANY visitor (interests, declined class / members / code, refusal of
   duplicates), and duke::read_class, on every byte string *)
Theorem C16_no_panic_read_class_any_visitor : forall v bytes, read_class_with v bytes <> Panic.
Proof. exact read_class_with_no_panic. Qed.
Print Assumptions C16_no_panic_read_class_any_visitor.

Theorem C16_no_panic_read_class : forall bytes, read_class_out bytes <> Panic.
Proof. exact read_class_no_panic. Qed.
Print Assumptions C16_no_panic_read_class.

(* non-vacuity: real class files are accepted, truncated ones refused *)
Theorem C16_class_fixtures_accepted : class_fixtures_accepted.
Proof. exact class_fixtures_accepted_hold. Qed.
Print Assumptions C16_class_fixtures_accepted.

(* the model can express what the theorems exclude: without the position check of the first pass, without a
   first pass before the second, with a 32-bit count for read_vec, outside the match ranges of the u8
   arithmetic, with too little fuel — Panic (computed) *)
Theorem C16_class_model_can_panic : class_model_witnesses.
Proof. exact class_model_witnesses_hold. Qed.
Print Assumptions C16_class_model_can_panic.

(* ------------------------------------------------------------------------------------------ *)
(* writer_total, the reader's half: the tree duke::read_class returns satisfies conjuncts of the hypotheses
   cclass_ok / cfield_ok / cmethod_ok / ccode_ok / cinner_ok of C02_write_class_no_panic, and its lists fit the
   u16 / u8 counts of the file.  coq/C16/ModelClsTree.v is the reader of ModelClsRead.v returning the numbers it
   hands to the visitor instead of dropping them (u16ok x := x <= 65535, count_ok l := length l <= 65535,
   count8_ok l := length l <= 255). *)
From FB Require Import C16.ModelClsTree C16.TheoryClsTree.

(* u16ok of this file is C02's u16ok (coq/C02/TheoryC4.v, the test inside cclass_ok / cfield_ok / cmethod_ok / ccode_ok /
   cinner_ok / cmodule_ok) on the Z image of the number *)
From FB Require C16.TheoryClsTreeC02 C02.TheoryC4.
Theorem C16_u16ok_is_C02_u16ok : forall x : N, C02.TheoryC4.u16ok (Z.of_N x) = u16ok x.
Proof. exact C16.TheoryClsTreeC02.u16ok_is_C02_u16ok. Qed.
Print Assumptions C16_u16ok_is_C02_u16ok.

(* the instrumented reader IS the validated model: erasing the tree gives its outcome, for every visitor *)
Theorem C16_reader_tree_erases : forall v bytes, erase (read_class_tree_with v bytes) = read_class_with v bytes.
Proof. exact read_class_tree_erases. Qed.
Print Assumptions C16_reader_tree_erases.

Theorem C16_reader_tree_accepts_iff : forall bytes, (exists t, read_class_tree bytes = Done t) <-> read_class_out bytes = Done tt.
Proof. exact read_class_tree_accepts_iff. Qed.
Print Assumptions C16_reader_tree_accepts_iff.

(* the composed statement, for every visitor *)
Theorem C16_reader_tree_ranges : forall v bytes t, read_class_tree_with v bytes = Done t -> rtree_ok t = true.
Proof. exact reader_tree_ranges. Qed.
Print Assumptions C16_reader_tree_ranges.

(* conjunct by conjunct, for duke::read_class *)
Theorem C16_reader_class_scalars : forall bytes t, read_class_tree bytes = Done t ->
  u16ok (t_minor t) && u16ok (t_major t) && u16ok (t_access t) = true.
Proof. exact reader_class_scalars. Qed.
Print Assumptions C16_reader_class_scalars.

Theorem C16_reader_interfaces_count : forall bytes t, read_class_tree bytes = Done t ->
  count_ok (t_interfaces t) && forallb u16ok (t_interfaces t) = true.
Proof. exact reader_interfaces_count. Qed.
Print Assumptions C16_reader_interfaces_count.

Theorem C16_reader_inner_classes : forall bytes t l, read_class_tree bytes = Done t -> t_inner_flags t = Some l ->
  count_ok l && forallb u16ok l = true.
Proof. exact reader_inner_classes. Qed.
Print Assumptions C16_reader_inner_classes.

Theorem C16_reader_module : forall bytes t m, read_class_tree bytes = Done t -> t_module t = Some m -> rmodule_ok m = true.
Proof. exact reader_module. Qed.
Print Assumptions C16_reader_module.

Theorem C16_reader_fields : forall bytes t, read_class_tree bytes = Done t ->
  count_ok (t_fields t) && forallb (fun f => u16ok (rf_access f)) (t_fields t) = true.
Proof. exact reader_fields. Qed.
Print Assumptions C16_reader_fields.

Theorem C16_reader_methods_count : forall bytes t, read_class_tree bytes = Done t -> count_ok (t_methods t) = true.
Proof. exact reader_methods_count. Qed.
Print Assumptions C16_reader_methods_count.

Theorem C16_reader_method_access : forall bytes t m, read_class_tree bytes = Done t -> In m (t_methods t) -> u16ok (rm_access m) = true.
Proof. exact reader_method_access. Qed.
Print Assumptions C16_reader_method_access.

(* max_stack / max_locals are present (and u16) whenever Code is; exception table, line numbers, local variable indices *)
Theorem C16_reader_method_code : forall bytes t m c, read_class_tree bytes = Done t -> In m (t_methods t) -> ma_code (rm_attrs m) = Some c ->
  u16ok (rc_max_stack c) && u16ok (rc_max_locals c) = true
  /\ count_ok (rc_handlers c) && forallb u16ok (rc_handlers c) = true
  /\ forallb u16ok (rc_lines c) = true /\ forallb u16ok (rc_lvidx c) = true.
Proof. exact reader_method_code. Qed.
Print Assumptions C16_reader_method_code.

Theorem C16_reader_method_exceptions : forall bytes t m l, read_class_tree bytes = Done t -> In m (t_methods t) ->
  ma_exceptions (rm_attrs m) = Some l -> count_ok l && forallb u16ok l = true.
Proof. exact reader_method_exceptions. Qed.
Print Assumptions C16_reader_method_exceptions.

Theorem C16_reader_method_parameters : forall bytes t m l, read_class_tree bytes = Done t -> In m (t_methods t) ->
  ma_parameters (rm_attrs m) = Some l -> count8_ok l && forallb u16ok l = true.
Proof. exact reader_method_parameters. Qed.
Print Assumptions C16_reader_method_parameters.

(* non-vacuity: the trees of two real class files (computed), a truncated file, and two trees rtree_ok refuses *)
Theorem C16_reader_tree_fixtures : tree_fixtures_read.
Proof. exact tree_fixtures_read_hold. Qed.
Print Assumptions C16_reader_tree_fixtures.
