(* C11 theory, round 5: the extension specification is COMPLETE.  C11_extend_spec says a successful
   extension satisfies [ext_rel]; here: on a well-formed set and a non-first namespace, whenever some
   M' satisfies [ext_rel M ns M'] the extension succeeds and returns exactly that M'.  Together:
   extend M name = Ok M' <-> ext_rel M ns M'  (a functional characterisation, not only a safety half). *)
From FB Require Import C11.Model C11.Theory C11.Theory2.

Lemma Forall2_in_left {A B} (R : A -> B -> Prop) l l' x :
  Forall2 R l l' -> In x l -> exists y, In y l' /\ R x y.
Proof.
  intros H. induction H as [|a b l l' Hab _ IH]; intros Hin; [destruct Hin|].
  destruct Hin as [->|Hin].
  - exists b. split; [left; reflexivity|exact Hab].
  - destruct (IH Hin) as (y & Hy & Hr). exists y. split; [right; exact Hy|exact Hr].
Qed.

Lemma Ext_not_Broken cs ns src b r : Ext cs ns src b r -> ~ Broken cs ns src.
Proof.
  intros HE HB. apply (map_name_ok_iff cs ns src b r) in HE. apply (map_name_err_iff cs ns src b) in HB.
  rewrite HE in HB. discriminate.
Qed.

Theorem extend_complete M name ns M' :
  wf M = true -> ns_index (ms_ns M) name = Some ns -> ns <> O ->
  ext_rel M ns M' -> extend M name = Ok M'.
Proof.
  intros Hwf Hns Hn0 Hrel. destruct (extend M name) as [M''|] eqn:E.
  - destruct (extend_spec M name M'' E) as (ns' & Hns' & Hrel' & _).
    rewrite Hns in Hns'. injection Hns' as <-. f_equal. exact (ext_rel_unique M ns M'' M' Hrel' Hrel).
  - exfalso. apply (extend_err_nonfirst M name ns Hwf Hns Hn0) in E.
    destruct E as (c & src & b & Hc & Hk & Hb & HB).
    destruct Hrel as (_ & _ & HF). destruct (Forall2_in_left _ _ _ c HF Hc) as (c' & _ & ((_ & _ & Hrow) & _)).
    rewrite Hb in Hrow. destruct Hrow as (src' & r & Hf & HE & _).
    unfold class_key in Hk. rewrite Hk in Hf. injection Hf as <-.
    exact (Ext_not_Broken _ _ _ _ _ HE HB).
Qed.

Theorem extend_iff M name ns M' :
  wf M = true -> ns_index (ms_ns M) name = Some ns -> ns <> O ->
  (extend M name = Ok M' <-> ext_rel M ns M').
Proof.
  intros Hwf Hns Hn0. split.
  - intros E. destruct (extend_spec M name M' E) as (ns' & Hns' & Hrel & _).
    rewrite Hns in Hns'. injection Hns' as <-. exact Hrel.
  - apply extend_complete; assumption.
Qed.

(* [ext_rel] spelled out *)
Theorem ext_rel_definition M ns M' :
  ext_rel M ns M' <->
  ms_ns M' = ms_ns M /\ ms_doc M' = ms_doc M /\
  Forall2 (fun c c' =>
    (length (c_names c') = length (c_names c)
     /\ (forall j, j <> ns -> nth_name (c_names c') j = nth_name (c_names c) j)
     /\ match nth_name (c_names c) ns with
        | None => nth_name (c_names c') ns = None
        | Some b => exists src r, first_name (c_names c) = Some src /\ Ext (ms_classes M) ns src b r
                                  /\ nth_name (c_names c') ns = Some r
        end)
    /\ c_doc c' = c_doc c /\ c_fields c' = c_fields c /\ c_methods c' = c_methods c)
    (ms_classes M) (ms_classes M').
Proof. reflexivity. Qed.
