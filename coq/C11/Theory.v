(* C11 theory: what extend_inner_class_names / contract_inner_class_names compute, for ALL
   mapping sets and any nesting depth (induction on the recursion of `map`). *)
From FB Require Import C11.Model C18.Theory.
From Coq Require Import Arith.
Arguments N.add : simpl never.
Arguments N.eqb : simpl never.

(* ------------------------------------------------------------------ *)
(* lists *)

Lemma set_nth_length {A} (l : list A) i x : length (set_nth l i x) = length l.
Proof. revert i; induction l as [|y l IH]; intros [|i]; cbn [set_nth length]; auto. Qed.

Lemma nth_set_nth_eq {A} (l : list A) i x d : (i < length l)%nat -> nth i (set_nth l i x) d = x.
Proof.
  revert i; induction l as [|y l IH]; intros [|i]; cbn [set_nth length nth]; intros H; try lia; auto.
  apply IH. lia.
Qed.

Lemma nth_set_nth_neq {A} (l : list A) i j x d : i <> j -> nth j (set_nth l i x) d = nth j l d.
Proof.
  revert i j; induction l as [|y l IH]; intros [|i] [|j] H; cbn [set_nth nth]; auto; congruence.
Qed.

Lemma set_nth_nth {A} (l : list A) i d : set_nth l i (nth i l d) = l.
Proof.
  revert i; induction l as [|y l IH]; intros [|i]; cbn [set_nth nth]; auto. f_equal. apply IH.
Qed.

Lemma set_nth_twice {A} (l : list A) i x y : set_nth (set_nth l i x) i y = set_nth l i y.
Proof.
  revert i; induction l as [|z l IH]; intros [|i]; cbn [set_nth]; auto. f_equal. apply IH.
Qed.

Lemma forallb_set_nth {A} (f : A -> bool) l i x :
  forallb f l = true -> f x = true -> forallb f (set_nth l i x) = true.
Proof.
  revert i; induction l as [|y l IH]; intros [|i]; cbn [set_nth forallb]; auto;
    rewrite !andb_true_iff; intros [H1 H2] Hx; auto.
Qed.

Lemma Ok_inj {A} (a b : A) : Ok a = Ok b -> a = b.
Proof. intros [= H]. exact H. Qed.

Lemma nth_name_lt (l : names) i b : nth_name l i = Some b -> (i < length l)%nat.
Proof.
  unfold nth_name. intros H. destruct (lt_dec i (length l)) as [|Hn]; [assumption|].
  rewrite nth_overflow in H by lia. discriminate.
Qed.

Lemma Forall2_fun {A B} (R : A -> B -> Prop) :
  (forall a b1 b2, R a b1 -> R a b2 -> b1 = b2) ->
  forall l l1 l2, Forall2 R l l1 -> Forall2 R l l2 -> l1 = l2.
Proof.
  intros HR l l1 l2 H1. revert l2. induction H1 as [|a b l l1 Hab _ IH]; intros l2 H2; inversion H2; subst.
  - reflexivity.
  - f_equal; [eapply HR; eauto|apply IH; assumption].
Qed.

Lemma Forall2_impl {A B} (R S : A -> B -> Prop) :
  (forall a b, R a b -> S a b) -> forall l l', Forall2 R l l' -> Forall2 S l l'.
Proof. intros H l l' HF. induction HF; constructor; auto. Qed.

Lemma mapM_ok {A B} (f : A -> res B) l l' :
  mapM f l = Ok l' <-> Forall2 (fun x y => f x = Ok y) l l'.
Proof.
  revert l'; induction l as [|x l IH]; intros l'; cbn [mapM].
  - split; [intros [= <-]; constructor|intros H; inversion H; reflexivity].
  - destruct (f x) as [y|] eqn:E.
    + destruct (mapM f l) as [ys|] eqn:E2.
      * split.
        -- intros [= <-]. constructor; [exact E|]. apply IH. reflexivity.
        -- intros H. inversion H as [|? y' ? l2 Hy Hl]; subst. apply IH in Hl.
           rewrite E in Hy. injection Hy as <-. injection Hl as <-. reflexivity.
      * split; [discriminate|]. intros H. inversion H as [|? y' ? l2 Hy Hl]; subst.
        apply IH in Hl. discriminate.
    + split; [discriminate|]. intros H. inversion H as [|? y' ? l2 Hy Hl]; subst. congruence.
Qed.

Lemma mapM_err {A B} (f : A -> res B) l : mapM f l = Err <-> exists x, In x l /\ f x = Err.
Proof.
  induction l as [|x l IH]; cbn [mapM].
  - split; [discriminate|intros (x & [] & _)].
  - destruct (f x) as [y|] eqn:E.
    + destruct (mapM f l) as [ys|] eqn:E2.
      * split; [discriminate|]. intros (z & [<-|Hz] & Ez); [congruence|].
        assert (H : Ok ys = @Err (list B)) by (apply IH; exists z; auto). discriminate.
      * split; [|reflexivity]. intros _. destruct IH as [IH _]. destruct (IH eq_refl) as (z & Hz & Ez).
        exists z. split; [right; exact Hz|exact Ez].
    + split; [|reflexivity]. intros _. exists x. split; [left; reflexivity|exact E].
Qed.

(* ------------------------------------------------------------------ *)
(* strings *)

Lemma split_inner_shorter s p i : split_inner s = Some (p, i) -> (length p < length s)%nat.
Proof.
  intros H. apply join_split in H as [<- _]. unfold join_inner. rewrite app_length. cbn [length]. lia.
Qed.

Lemma ends_with_char_app c x y : y <> [] -> ends_with_char c (x ++ y) = ends_with_char c y.
Proof.
  intros Hy. unfold ends_with_char. rewrite rev_app_distr.
  destruct (rev y) as [|z r] eqn:E.
  - exfalso. apply Hy. rewrite <- (rev_involutive y), E. reflexivity.
  - reflexivity.
Qed.

Lemma ends_with_char_notin c s : ~ In c s -> ends_with_char c s = false.
Proof.
  intros H. unfold ends_with_char. destruct (rev s) as [|z r] eqn:E; [reflexivity|].
  destruct (N.eqb_spec z c) as [->|]; [|reflexivity].
  exfalso. apply H. apply in_rev. rewrite E. left. reflexivity.
Qed.

Lemma mem_N_false c s : mem_N c s = false <-> ~ In c s.
Proof.
  split.
  - intros H Hin. apply mem_N_In in Hin. congruence.
  - intros H. destruct (mem_N c s) eqn:E; [|reflexivity]. apply mem_N_In in E. contradiction.
Qed.

Lemma is_nil_false {A} (l : list A) : is_nil l = false <-> l <> [].
Proof. destruct l; cbn; split; congruence. Qed.

(* ------------------------------------------------------------------ *)
(* lookup *)

Lemma find_class_spec cs k c : find_class cs k = Some c -> In c cs /\ class_key c = Some k.
Proof.
  unfold find_class. intros H. apply find_some in H as [Hin Hk]. split; [exact Hin|].
  unfold has_key in Hk. destruct (class_key c) as [n|]; [|discriminate].
  apply str_eqb_eq in Hk. subst. reflexivity.
Qed.

Lemma find_class_none cs k : find_class cs k = None <-> forall c, In c cs -> class_key c <> Some k.
Proof.
  unfold find_class. split.
  - intros H c Hin Hk. pose proof (find_none _ _ H c Hin) as Hf. unfold has_key in Hf.
    rewrite Hk, str_eqb_refl in Hf. discriminate.
  - intros H. destruct (find (has_key k) cs) as [c|] eqn:E; [|reflexivity].
    apply find_some in E as [Hin Hk]. exfalso. apply (H c Hin).
    unfold has_key in Hk. destruct (class_key c) as [n|]; [|discriminate].
    apply str_eqb_eq in Hk. subst. reflexivity.
Qed.

(* ------------------------------------------------------------------ *)
(* Specification of the extended name.
   [Ext cs ns src b r]: a class with source name [src] and name [b] in namespace [ns] gets the
   extended name [r]: b itself when src is not nested; otherwise the extended name of the outer
   class (looked up by its source name, with its own name in ns), `$`, b. *)

Inductive Ext (cs : list class) (ns : nat) : str -> str -> str -> Prop :=
| Ext_top src b : split_inner src = None -> Ext cs ns src b b
| Ext_nested src b p i pc mp r :
    split_inner src = Some (p, i) ->
    find_class cs p = Some pc ->
    nth_name (c_names pc) ns = Some mp ->
    Ext cs ns p mp r ->
    Ext cs ns src b (join_inner r b).

(* [Broken cs ns src]: somewhere on the chain of outer classes of [src] a class is missing from
   the set or has no name in ns *)
Inductive Broken (cs : list class) (ns : nat) : str -> Prop :=
| Broken_missing src p i :
    split_inner src = Some (p, i) -> find_class cs p = None -> Broken cs ns src
| Broken_unnamed src p i pc :
    split_inner src = Some (p, i) -> find_class cs p = Some pc ->
    nth_name (c_names pc) ns = None -> Broken cs ns src
| Broken_outer src p i pc mp :
    split_inner src = Some (p, i) -> find_class cs p = Some pc ->
    nth_name (c_names pc) ns = Some mp -> Broken cs ns p -> Broken cs ns src.

Lemma map_name_sound cs ns fuel : forall src b r, map_name fuel cs ns src b = Ok r -> Ext cs ns src b r.
Proof.
  induction fuel as [|f IH]; intros src b r; cbn [map_name];
    destruct (split_inner src) as [[p i]|] eqn:E.
  - discriminate.
  - intros [= <-]. apply Ext_top. exact E.
  - unfold get_class_name. destruct (find_class cs p) as [pc|] eqn:F; [|discriminate].
    destruct (nth_name (c_names pc) ns) as [mp|] eqn:G; [|discriminate].
    destruct (map_name f cs ns p mp) as [r'|] eqn:R; [|discriminate].
    intros [= <-]. eapply Ext_nested; eauto.
  - intros [= <-]. apply Ext_top. exact E.
Qed.

Lemma map_name_complete cs ns src b r :
  Ext cs ns src b r -> forall fuel, (length src <= fuel)%nat -> map_name fuel cs ns src b = Ok r.
Proof.
  induction 1 as [src b E|src b p i pc mp r E F G _ IH]; intros fuel Hlen.
  - destruct fuel; cbn [map_name]; rewrite E; reflexivity.
  - pose proof (split_inner_shorter _ _ _ E) as Hs.
    destruct fuel as [|f]; [lia|]. cbn [map_name]. rewrite E. unfold get_class_name. rewrite F, G.
    rewrite IH by lia. reflexivity.
Qed.

Lemma Ext_fun cs ns src b r1 r2 : Ext cs ns src b r1 -> Ext cs ns src b r2 -> r1 = r2.
Proof.
  intros H1 H2. apply map_name_complete with (fuel := length src) in H1; [|lia].
  apply map_name_complete with (fuel := length src) in H2; [|lia]. congruence.
Qed.

Lemma map_name_err_sound cs ns fuel : forall src b,
  (length src <= fuel)%nat -> map_name fuel cs ns src b = Err -> Broken cs ns src.
Proof.
  induction fuel as [|f IH]; intros src b Hlen; cbn [map_name];
    destruct (split_inner src) as [[p i]|] eqn:E; try discriminate.
  - apply split_inner_shorter in E. lia.
  - pose proof (split_inner_shorter _ _ _ E) as Hs.
    unfold get_class_name. destruct (find_class cs p) as [pc|] eqn:F.
    + destruct (nth_name (c_names pc) ns) as [mp|] eqn:G.
      * destruct (map_name f cs ns p mp) as [r'|] eqn:R; [discriminate|]. intros _.
        eapply Broken_outer; eauto. apply (IH p mp); [lia|exact R].
      * intros _. eapply Broken_unnamed; eauto.
    + intros _. eapply Broken_missing; eauto.
Qed.

Lemma map_name_err_complete cs ns src :
  Broken cs ns src -> forall fuel b, map_name fuel cs ns src b = Err.
Proof.
  induction 1 as [src p i E F|src p i pc E F G|src p i pc mp E F G _ IH]; intros fuel b;
    (destruct fuel as [|f]; cbn [map_name]; rewrite E; [reflexivity|]); unfold get_class_name; rewrite F.
  - reflexivity.
  - rewrite G. reflexivity.
  - rewrite G, IH. reflexivity.
Qed.

(* fuel = length of the source name suffices: more fuel never changes the answer *)
Lemma map_name_fuel cs ns src b fuel :
  (length src <= fuel)%nat -> map_name fuel cs ns src b = map_name (length src) cs ns src b.
Proof.
  intros Hlen. destruct (map_name (length src) cs ns src b) as [r|] eqn:R.
  - apply map_name_sound in R. apply map_name_complete; assumption.
  - apply map_name_err_sound in R; [|lia]. apply map_name_err_complete. exact R.
Qed.

Lemma Ext_or_Broken cs ns src b : (exists r, Ext cs ns src b r) \/ Broken cs ns src.
Proof.
  destruct (map_name (length src) cs ns src b) as [r|] eqn:R.
  - left. exists r. eapply map_name_sound; eauto.
  - right. eapply map_name_err_sound; eauto.
Qed.

Lemma Ext_not_Broken cs ns src b r : Ext cs ns src b r -> ~ Broken cs ns src.
Proof.
  intros H1 H2. apply map_name_complete with (fuel := length src) in H1; [|lia].
  rewrite (map_name_err_complete _ _ _ H2) in H1. discriminate.
Qed.

(* Broken does not depend on the class's own name: only on the outer classes *)
Lemma Broken_iff_no_Ext cs ns src b : Broken cs ns src <-> ~ exists r, Ext cs ns src b r.
Proof.
  split.
  - intros H (r & Hr). eapply Ext_not_Broken; eauto.
  - intros H. destruct (Ext_or_Broken cs ns src b) as [Hr|Hb]; [contradiction|exact Hb].
Qed.

(* ------------------------------------------------------------------ *)
(* one row of names *)

Definition row_ext (cs : list class) (ns : nat) (l l' : names) : Prop :=
  length l' = length l /\
  (forall j, j <> ns -> nth_name l' j = nth_name l j) /\
  match nth_name l ns with
  | None => nth_name l' ns = None
  | Some b => exists src r, first_name l = Some src /\ Ext cs ns src b r /\ nth_name l' ns = Some r
  end.

Lemma extend_names_ok cs ns l l' :
  extend_names cs ns l = Ok l' -> ns <> O /\ (2 <= length l)%nat /\ row_ext cs ns l l'.
Proof.
  unfold extend_names. destruct ns as [|n]; [discriminate|].
  destruct l as [|h [|x t]]; try discriminate.
  destruct (nth_name (h :: x :: t) (S n)) as [b|] eqn:G.
  - destruct h as [src|]; [|discriminate].
    destruct (map_name (length src) cs (S n) src b) as [r|] eqn:R; [|discriminate].
    intros Heq. apply Ok_inj in Heq. subst l'. split; [discriminate|]. split; [cbn [length]; lia|].
    unfold row_ext. split; [apply set_nth_length|].
    split; [intros j Hj; unfold nth_name; apply nth_set_nth_neq; auto|].
    rewrite G. exists src, r. split; [reflexivity|]. split; [eapply map_name_sound; eauto|].
    unfold nth_name. apply nth_set_nth_eq. eapply nth_name_lt; eauto.
  - intros Heq. apply Ok_inj in Heq. subst l'. split; [discriminate|]. split; [cbn [length]; lia|].
    unfold row_ext. rewrite G. auto.
Qed.

Lemma extend_names_err cs ns l :
  extend_names cs ns l = Err <->
  ns = O \/ (length l < 2)%nat \/
  exists b, nth_name l ns = Some b /\
    (first_name l = None \/ exists src, first_name l = Some src /\ Broken cs ns src).
Proof.
  split.
  - destruct ns as [|n]; [left; reflexivity|].
    destruct l as [|h [|x t]]; [right; left; cbn [length]; lia|right; left; cbn [length]; lia|].
    unfold extend_names. destruct (nth_name (h :: x :: t) (S n)) as [b|] eqn:G; [|discriminate].
    destruct h as [src|].
    + destruct (map_name (length src) cs (S n) src b) as [r|] eqn:R; [discriminate|]. intros _.
      right; right. exists b. split; [reflexivity|]. right. exists src. split; [reflexivity|].
      eapply map_name_err_sound; eauto.
    + intros _. right; right. exists b. split; [reflexivity|]. left. reflexivity.
  - intros [->|[H|(b & G & H)]]; [reflexivity| |].
    + destruct ns as [|n]; [reflexivity|].
      destruct l as [|h [|x t]]; cbn [length] in H; try lia; reflexivity.
    + destruct ns as [|n]; [reflexivity|].
      destruct l as [|h [|x t]]; try reflexivity.
      unfold extend_names. rewrite G. destruct h as [src|]; [|reflexivity].
      destruct H as [H|(src' & H1 & H2)]; [discriminate|].
      cbn [first_name] in H1. injection H1 as <-.
      rewrite (map_name_err_complete _ _ _ H2). reflexivity.
Qed.

Lemma row_ext_unique cs ns l l1 l2 : row_ext cs ns l l1 -> row_ext cs ns l l2 -> l1 = l2.
Proof.
  intros (L1 & O1 & T1) (L2 & O2 & T2).
  apply nth_ext with (d := None) (d' := None); [congruence|]. intros j _.
  change (nth_name l1 j = nth_name l2 j).
  destruct (Nat.eq_dec j ns) as [->|Hj].
  - destruct (nth_name l ns) as [b|].
    + destruct T1 as (s1 & r1 & F1 & E1 & N1). destruct T2 as (s2 & r2 & F2 & E2 & N2).
      rewrite F1 in F2. injection F2 as <-. rewrite (Ext_fun _ _ _ _ _ _ E1 E2) in N1. congruence.
    + congruence.
  - rewrite (O1 j Hj), (O2 j Hj). reflexivity.
Qed.

(* rows that stay as they are: no name in ns, or a source name that is not nested *)
Lemma row_ext_id cs ns l :
  (nth_name l ns = None \/ exists src, first_name l = Some src /\ split_inner src = None) ->
  row_ext cs ns l l.
Proof.
  intros H. split; [reflexivity|]. split; [reflexivity|].
  destruct (nth_name l ns) as [b|] eqn:G; [|reflexivity].
  destruct H as [H|(src & F & E)]; [discriminate|].
  exists src, b. split; [exact F|]. split; [apply Ext_top; exact E|reflexivity].
Qed.

(* ------------------------------------------------------------------ *)
(* classes and mapping sets *)

Definition class_ext (cs : list class) (ns : nat) (c c' : class) : Prop :=
  row_ext cs ns (c_names c) (c_names c') /\
  c_doc c' = c_doc c /\ c_fields c' = c_fields c /\ c_methods c' = c_methods c.

(* the extension specification: namespaces, comment, every class's comment, fields and methods
   identical; in every names row all cells but ns identical; the cell ns rewritten by Ext *)
Definition ext_rel (M : mappings) (ns : nat) (M' : mappings) : Prop :=
  ms_ns M' = ms_ns M /\ ms_doc M' = ms_doc M /\
  Forall2 (class_ext (ms_classes M) ns) (ms_classes M) (ms_classes M').

Lemma extend_class_ok cs ns c c' :
  extend_class cs ns c = Ok c' -> ns <> O /\ (2 <= length (c_names c))%nat /\ class_ext cs ns c c'.
Proof.
  unfold extend_class. destruct (extend_names cs ns (c_names c)) as [l|] eqn:E; [|discriminate].
  intros [= <-]. apply extend_names_ok in E as (H0 & H2 & Hr).
  split; [exact H0|]. split; [exact H2|]. unfold class_ext. cbn. auto.
Qed.

Lemma class_ext_unique cs ns c c1 c2 : class_ext cs ns c c1 -> class_ext cs ns c c2 -> c1 = c2.
Proof.
  intros (R1 & D1 & F1 & M1) (R2 & D2 & F2 & M2).
  pose proof (row_ext_unique _ _ _ _ _ R1 R2) as HN.
  destruct c1, c2; cbn in *. congruence.
Qed.

Theorem extend_idx_spec M ns M' :
  extend_idx M ns = Ok M' -> ext_rel M ns M' /\ (ms_classes M <> [] -> ns <> O).
Proof.
  unfold extend_idx. destruct (mapM (extend_class (ms_classes M) ns) (ms_classes M)) as [cs'|] eqn:E; [|discriminate].
  intros [= <-]. apply mapM_ok in E. split.
  - unfold ext_rel. cbn [ms_ns ms_doc ms_classes]. split; [reflexivity|]. split; [reflexivity|].
    eapply Forall2_impl; [|exact E]. intros c c' H. apply extend_class_ok in H. tauto.
  - intros Hne. inversion E as [Hnil|c c' l l' Hc _ Hl]; [congruence|].
    apply extend_class_ok in Hc. tauto.
Qed.

Theorem ext_rel_unique M ns M1 M2 : ext_rel M ns M1 -> ext_rel M ns M2 -> M1 = M2.
Proof.
  intros (N1 & D1 & C1) (N2 & D2 & C2).
  assert (HC : ms_classes M1 = ms_classes M2).
  { eapply Forall2_fun; [|exact C1|exact C2]. intros a b1 b2. apply class_ext_unique. }
  destruct M1, M2; cbn in *. congruence.
Qed.

(* a class that is not nested, or has no name in ns, comes out identical *)
Theorem ext_rel_untouched M ns M' :
  ext_rel M ns M' ->
  Forall2 (fun c c' =>
    (nth_name (c_names c) ns = None \/ exists src, class_key c = Some src /\ split_inner src = None) -> c' = c)
    (ms_classes M) (ms_classes M').
Proof.
  intros (_ & _ & C). eapply Forall2_impl; [|exact C].
  intros c c' Hc Hid. eapply class_ext_unique; [exact Hc|].
  split; [apply row_ext_id; exact Hid|auto].
Qed.

(* the public entry point: the namespace is resolved by name first *)
Theorem extend_spec M name M' :
  extend M name = Ok M' ->
  exists ns, ns_index (ms_ns M) name = Some ns /\ ext_rel M ns M' /\ (ms_classes M <> [] -> ns <> O).
Proof.
  unfold extend. destruct (ns_index (ms_ns M) name) as [ns|]; [|discriminate].
  intros H. exists ns. split; [reflexivity|]. apply extend_idx_spec. exact H.
Qed.

Lemma ns_index_spec l name i :
  ns_index l name = Some i <->
  nth_error l i = Some name /\ forall j, (j < i)%nat -> nth_error l j <> Some name.
Proof.
  revert i; induction l as [|x l IH]; intros i; cbn [ns_index].
  - split; [discriminate|]. intros [H _]. destruct i; discriminate.
  - destruct (str_eqb_spec x name) as [->|Hne].
    + split.
      * intros [= <-]. split; [reflexivity|]. intros j Hj. lia.
      * intros [H1 H2]. destruct i as [|i]; [reflexivity|]. exfalso. apply (H2 O); [lia|reflexivity].
    + destruct (ns_index l name) as [k|] eqn:E.
      * split.
        -- intros [= <-]. destruct (proj1 (IH k) eq_refl) as [H1 H2]. split; [exact H1|].
           intros [|j] Hj; cbn [nth_error]; [congruence|]. apply H2. lia.
        -- intros [H1 H2]. destruct i as [|i]; cbn [nth_error] in H1; [congruence|].
           f_equal. assert (Hk : Some k = Some i); [|congruence].
           apply IH. split; [exact H1|]. intros j Hj. apply (H2 (S j)). lia.
      * split; [discriminate|]. intros [H1 H2]. destruct i as [|i]; cbn [nth_error] in H1; [congruence|].
        assert (Hk : @None nat = Some i); [|discriminate].
        apply IH. split; [exact H1|]. intros j Hj. apply (H2 (S j)). lia.
Qed.

(* ------------------------------------------------------------------ *)
(* failure *)

Definition class_fails (cs : list class) (ns : nat) (c : class) : Prop :=
  ns = O \/ (length (c_names c) < 2)%nat \/
  exists b, nth_name (c_names c) ns = Some b /\
    (first_name (c_names c) = None \/ exists src, first_name (c_names c) = Some src /\ Broken cs ns src).

Theorem extend_idx_err_gen M ns :
  extend_idx M ns = Err <-> exists c, In c (ms_classes M) /\ class_fails (ms_classes M) ns c.
Proof.
  unfold extend_idx. destruct (mapM (extend_class (ms_classes M) ns) (ms_classes M)) as [cs'|] eqn:E.
  - split; [discriminate|]. intros (c & Hin & Hf). exfalso.
    assert (H : Ok cs' = @Err (list class)); [|discriminate]. rewrite <- E. apply mapM_err.
    exists c. split; [exact Hin|]. unfold extend_class.
    rewrite (proj2 (extend_names_err _ _ _) Hf). reflexivity.
  - split; [|reflexivity]. intros _. apply mapM_err in E as (c & Hin & Hc). exists c. split; [exact Hin|].
    unfold extend_class in Hc. destruct (extend_names (ms_classes M) ns (c_names c)) eqn:E2; [discriminate|].
    apply extend_names_err. exact E2.
Qed.

Lemma wf_class_row M c :
  wf M = true -> In c (ms_classes M) ->
  (2 <= length (c_names c))%nat /\ length (c_names c) = length (ms_ns M) /\
  (exists src, class_key c = Some src) /\
  forallb (fun o => match o with Some [] => false | _ => true end) (c_names c) = true.
Proof.
  unfold wf. rewrite !andb_true_iff. intros [[[Hn _] Hc] _] Hin.
  rewrite forallb_forall in Hc. specialize (Hc c Hin). unfold wf_class in Hc.
  rewrite !andb_true_iff in Hc. destruct Hc as [[[[[Hok Hk] _] _] _] _].
  unfold names_ok in Hok. rewrite andb_true_iff in Hok. destruct Hok as [Hlen Hne].
  apply Nat.eqb_eq in Hlen. apply Nat.leb_le in Hn.
  split; [lia|]. split; [exact Hlen|]. split; [|exact Hne].
  destruct (class_key c) as [src|]; [eauto|discriminate].
Qed.

(* on a well-formed mapping set: extension fails iff it is asked for the first namespace (and
   there is a class at all), or some class that has a name in ns sits under a broken chain of
   outer classes *)
Theorem extend_idx_err M ns :
  wf M = true ->
  (extend_idx M ns = Err <->
   (ns = O /\ ms_classes M <> []) \/
   exists c src b, In c (ms_classes M) /\ class_key c = Some src /\
     nth_name (c_names c) ns = Some b /\ Broken (ms_classes M) ns src).
Proof.
  intros Hwf. rewrite extend_idx_err_gen. split.
  - intros (c & Hin & [->|[Hlt|(b & G & [Hf|(src & Hf & Hb)])]]).
    + left. split; [reflexivity|]. intros E. rewrite E in Hin. destruct Hin.
    + destruct (wf_class_row _ _ Hwf Hin) as (H2 & _). lia.
    + destruct (wf_class_row _ _ Hwf Hin) as (_ & _ & (src & Hk) & _). unfold class_key in Hk. congruence.
    + right. exists c, src, b. auto.
  - intros [[-> Hne]|(c & src & b & Hin & Hk & G & Hb)].
    + destruct (ms_classes M) as [|c l]; [congruence|]. exists c. split; [left; reflexivity|]. left. reflexivity.
    + exists c. split; [exact Hin|]. right; right. exists b. split; [exact G|]. right. exists src. auto.
Qed.

Theorem extend_err M name :
  wf M = true ->
  (extend M name = Err <->
   ns_index (ms_ns M) name = None \/
   (ns_index (ms_ns M) name = Some O /\ ms_classes M <> []) \/
   exists ns c src b, ns_index (ms_ns M) name = Some ns /\ In c (ms_classes M) /\ class_key c = Some src /\
     nth_name (c_names c) ns = Some b /\ Broken (ms_classes M) ns src).
Proof.
  intros Hwf. unfold extend. destruct (ns_index (ms_ns M) name) as [ns|].
  - rewrite (extend_idx_err M ns Hwf). split.
    + intros [[-> Hne]|(c & src & b & H)]; [right; left; auto|]. right; right. exists ns, c, src, b. tauto.
    + intros [H|[[[= ->] Hne]|(ns' & c & src & b & [= <-] & H)]]; [discriminate|left; auto|].
      right. exists c, src, b. exact H.
  - split; [auto|reflexivity].
Qed.

Corollary extend_first_namespace M :
  ms_classes M <> [] -> extend_idx M O = Err.
Proof.
  intros Hne. apply extend_idx_err_gen. destruct (ms_classes M) as [|c l]; [congruence|].
  exists c. split; [left; reflexivity|left; reflexivity].
Qed.
