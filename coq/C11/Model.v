(* C11 model: quill/src/action/extend_inner_class_names.rs (map, extend_inner_class_name,
   contract_inner_class_name, Mappings::{extend,contract}_inner_class_names), the pieces of
   quill/src/tree/mod.rs they call (Namespaces::get_namespace, Names::get_mut_with_src) and
   Mappings::get_class_name.  The split/join of inner class names (duke/src/tree/class.rs
   split_inner_class_parent_and_name, from_inner_class) is the model of C18.
   Definitions only; proofs are in Theory.v. *)
From FB Require Export Quill.Mappings C18.Model.

(* Namespaces::get_namespace: index of the FIRST namespace with that name *)
Fixpoint ns_index (l : list str) (name : str) : option nat :=
  match l with
  | [] => None
  | x :: l' => if str_eqb x name then Some O
               else match ns_index l' name with Some i => Some (S i) | None => None end
  end.

(* names[namespace] = x *)
Fixpoint set_nth {A} (l : list A) (i : nat) (x : A) : list A :=
  match l, i with
  | [], _ => []
  | _ :: l', O => x :: l'
  | y :: l', S i' => y :: set_nth l' i' x
  end.

(* IndexMap::get by key; the key of a class is its first-namespace name *)
Definition has_key (k : str) (c : class) : bool :=
  match class_key c with Some n => str_eqb n k | None => false end.
Definition find_class (cs : list class) (k : str) : option class := find (has_key k) cs.

(* Mappings::get_class_name: Err when there is no entry, Err when the entry has no name in ns *)
Definition get_class_name (cs : list class) (k : str) (ns : nat) : res str :=
  match find_class cs k with
  | Some c => match nth_name (c_names c) ns with Some n => Ok n | None => Err end
  | None => Err
  end.

(* fn map(mappings, namespace, name, mapped): recursion on the inner-class parent of the SOURCE
   name; every recursive call is on a strictly shorter name, [fuel] bounds the depth
   (out of fuel = Err; Theory.map_name_fuel shows fuel = length name suffices). *)
Fixpoint map_name (fuel : nat) (cs : list class) (ns : nat) (name mapped : str) : res str :=
  match split_inner name with
  | None => Ok mapped
  | Some (parent, _) =>
      match fuel with
      | O => Err
      | S f =>
          match get_class_name cs parent ns with
          | Err => Err
          | Ok mapped_parent =>
              match map_name f cs ns parent mapped_parent with
              | Err => Err
              | Ok result => Ok (join_inner result mapped)
              end
          end
      end
  end.

(* Names::extend_inner_class_name, with get_mut_with_src inlined:
   namespace 0 -> Err; fewer than two cells -> Err; no name in ns -> unchanged (the source name
   is not even looked at); a name in ns but none in the first namespace -> Err *)
Definition extend_names (cs : list class) (ns : nat) (l : names) : res names :=
  match ns with
  | O => Err
  | S _ =>
      match l with
      | [] | [_] => Err
      | head :: _ =>
          match nth_name l ns with
          | None => Ok l
          | Some b =>
              match head with
              | None => Err
              | Some src =>
                  match map_name (length src) cs ns src b with
                  | Ok r => Ok (set_nth l ns (Some r))
                  | Err => Err
                  end
              end
          end
      end
  end.

Definition extend_class (cs : list class) (ns : nat) (c : class) : res class :=
  match extend_names cs ns (c_names c) with
  | Ok l => Ok (mkClass l (c_doc c) (c_fields c) (c_methods c))
  | Err => Err
  end.

(* iter().map(..).collect::<Result<_>>() : the first error wins *)
Fixpoint mapM {A B} (f : A -> res B) (l : list A) : res (list B) :=
  match l with
  | [] => Ok []
  | x :: l' =>
      match f x with
      | Err => Err
      | Ok y => match mapM f l' with Ok ys => Ok (y :: ys) | Err => Err end
      end
  end.

Definition extend_idx (M : mappings) (ns : nat) : res mappings :=
  match mapM (extend_class (ms_classes M) ns) (ms_classes M) with
  | Ok cs => Ok (mkMappings (ms_ns M) (ms_doc M) cs)
  | Err => Err
  end.

(* Mappings::extend_inner_class_names(namespace: &str) *)
Definition extend (M : mappings) (name : str) : res mappings :=
  match ns_index (ms_ns M) name with
  | Some ns => extend_idx M ns
  | None => Err
  end.

(* get_inner_class_name().unwrap_or(b) *)
Definition innermost (b : str) : str :=
  match split_inner b with Some (_, i) => i | None => b end.

(* Names::contract_inner_class_name: never fails *)
Definition contract_names (ns : nat) (l : names) : names :=
  set_nth l ns (match nth_name l ns with Some b => Some (innermost b) | None => None end).

Definition contract_class (ns : nat) (c : class) : class :=
  mkClass (contract_names ns (c_names c)) (c_doc c) (c_fields c) (c_methods c).

Definition contract_idx (M : mappings) (ns : nat) : mappings :=
  mkMappings (ms_ns M) (ms_doc M) (map (contract_class ns) (ms_classes M)).

(* Mappings::contract_inner_class_names(namespace: &str): unknown namespace -> Err; the first
   namespace -> Err (fix 4d8ec0a: its names are the map keys) *)
Definition contract (M : mappings) (name : str) : res mappings :=
  match ns_index (ms_ns M) name with
  | Some O => Err
  | Some ns => Ok (contract_idx M ns)
  | None => Err
  end.

(* ---- the decidable hypothesis of contract ∘ extend = id ----
   For a class that has a name b in ns (and a source name src):
   b is not empty; if src is nested, b contains neither `$` nor `/`; if src is top-level,
   b is not splittable as an inner class name and does not end with `/`. *)
Definition name_cond (src b : str) : bool :=
  negb (is_nil b) &&
  match split_inner src with
  | Some _ => negb (mem_N cDOLLAR b) && negb (mem_N cSLASH b)
  | None => negb (is_some (split_inner b)) && negb (ends_with_char cSLASH b)
  end.
Definition simple_row (ns : nat) (l : names) : bool :=
  match nth_name l ns, first_name l with
  | Some b, Some src => name_cond src b
  | _, _ => true
  end.
Definition simple_names (M : mappings) (ns : nat) : bool :=
  forallb (fun c => simple_row ns (c_names c)) (ms_classes M).
