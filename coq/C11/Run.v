(* C11 correspondence cases: the input together with what the implementation answered *)
From FB Require Export C11.Model.

Inductive case :=
| CExtend (M : mappings) (name : str) (r : res mappings)
    (* Mappings::extend_inner_class_names(name); classes in IndexMap iteration order *)
| CContract (M : mappings) (name : str) (r : res mappings)
    (* Mappings::contract_inner_class_names(name) *)
| CRound (M : mappings) (name : str) (same : res bool)
    (* contract(extend(M)) == M on the implementation (Err when extend failed) *)
| CHyp (M : mappings) (ns : N) (simple wellformed : bool)
    (* the harness' own evaluation of the theorems' hypotheses on this input *)
| CJoin (p i r : str)
    (* ObjClassName::from_inner_class *)
| CInner (s : str) (parent inner : option str).
    (* get_inner_class_parent / get_inner_class_name *)

Definition round_trip (M : mappings) (name : str) : res bool :=
  match extend M name with
  | Ok M' => match contract M' name with Ok M'' => Ok (mappings_eqb M'' M) | Err => Err end
  | Err => Err
  end.

Definition check (c : case) : bool :=
  match c with
  | CExtend M name r => res_eqb mappings_eqb (extend M name) r
  | CContract M name r => res_eqb mappings_eqb (contract M name) r
  | CRound M name b => res_eqb Bool.eqb (round_trip M name) b
  | CHyp M ns s w => Bool.eqb (simple_names M (N.to_nat ns)) s && Bool.eqb (wf M) w
  | CJoin p i r => str_eqb (join_inner p i) r
  | CInner s p i =>
      opt_eqb str_eqb (match split_inner s with Some (p', _) => Some p' | None => None end) p
      && opt_eqb str_eqb (match split_inner s with Some (_, i') => Some i' | None => None end) i
  end.
