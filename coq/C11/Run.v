(* C11 correspondence cases: the input together with what the implementation answered *)
From FB Require Export C11.Model.

(* Compact form of an answer: the harness has checked (in Rust, cell by cell) that the
   implementation's result is the input with the column of class names in the chosen namespace
   replaced by [col] (one entry per class, in IndexMap order); the model value is rebuilt here
   and compared IN FULL with the model's answer.  When that check fails the harness sends the
   whole result instead (CExtend / CContract). *)
Definition col := list (option str).

Fixpoint set_col (cs : list class) (ns : nat) (c : col) : list class :=
  match cs, c with
  | k :: cs', x :: c' =>
      mkClass (set_nth (c_names k) ns x) (c_doc k) (c_fields k) (c_methods k) :: set_col cs' ns c'
  | _, _ => []
  end.
Definition with_col (M : mappings) (ns : nat) (c : col) : mappings :=
  mkMappings (ms_ns M) (ms_doc M) (set_col (ms_classes M) ns c).

Inductive case :=
| CExtend (M : mappings) (name : str) (r : res mappings)
    (* Mappings::extend_inner_class_names(name); classes in IndexMap iteration order *)
| CContract (M : mappings) (name : str) (r : res mappings)
    (* Mappings::contract_inner_class_names(name) *)
| CRun (M : mappings) (name : str) (ext con conext : res col) (simple wellformed : bool)
    (* extend(M), contract(M), contract(extend(M)) in compact form (conext = Err when extend
       failed), and the harness' own evaluation of the theorems' hypotheses on this input *)
| CJoin (p i r : str)
    (* ObjClassName::from_inner_class *)
| CInner (s : str) (parent inner : option str)
    (* get_inner_class_parent / get_inner_class_name *)
| CSimple (s r : str)
    (* ObjClassNameSlice::get_simple_name *)
| CValid (s : str) (b : bool).
    (* ObjClassName::check_valid(s).is_ok() *)

Definition rebuild (M : mappings) (ons : option nat) (r : res col) : res mappings :=
  match r with
  | Err => Err
  | Ok c => match ons with Some ns => Ok (with_col M ns c) | None => Ok M end
  end.

Definition check (c : case) : bool :=
  match c with
  | CExtend M name r => res_eqb mappings_eqb (extend M name) r
  | CContract M name r => res_eqb mappings_eqb (contract M name) r
  | CRun M name ext con conext simple wellformed =>
      let ons := ns_index (ms_ns M) name in
      res_eqb mappings_eqb (extend M name) (rebuild M ons ext)
      && res_eqb mappings_eqb (contract M name) (rebuild M ons con)
      && match extend M name with
         | Ok E => res_eqb mappings_eqb (contract E name) (rebuild M ons conext)
         | Err => match conext with Err => true | Ok _ => false end
         end
      && match ons with
         | Some ns => Bool.eqb (simple_names M ns) simple
         | None => true
         end
      && Bool.eqb (wf M) wellformed
  | CJoin p i r => str_eqb (join_inner p i) r
  | CInner s p i =>
      opt_eqb str_eqb (match split_inner s with Some (p', _) => Some p' | None => None end) p
      && opt_eqb str_eqb (match split_inner s with Some (_, i') => Some i' | None => None end) i
  | CSimple s r => str_eqb (get_simple_name s) r
  | CValid s b => Bool.eqb (is_valid_obj_class_name s) b
  end.
