(* C11 theory, third part (round 4):
   - the chain of outer classes is finite and acyclic: every outer class name is a PROPER PREFIX
     of the nested name (termination measure of `map` = length of the source name);
   - frame: the extended name of a class depends only on the (source name -> name in ns) relation
     of its ANCESTORS; adding, removing or changing any other class changes nothing;
   - contraction is idempotent; on a set with simple names it is the identity, hence
     contract (extend M) = contract M there (and not in general);
   - extending an already extended set never fails and prepends the extended names of all
     outer classes once more (closed form) — extension is NOT idempotent. *)
From FB Require Import C11.Model C18.Theory C11.Theory C11.Theory2.
From Coq Require Import Arith.
Arguments N.add : simpl never.
Arguments N.eqb : simpl never.

(* ------------------------------------------------------------------ *)
(* ancestors: the outer classes of a (source) name, at any distance *)

Inductive Ancestor : str -> str -> Prop :=
| Anc_parent s p i : split_inner s = Some (p, i) -> Ancestor p s
| Anc_outer s p i a : split_inner s = Some (p, i) -> Ancestor a p -> Ancestor a s.

(* an ancestor is a proper prefix, cut in front of a `$` *)
Theorem ancestor_prefix a s : Ancestor a s -> exists t, s = a ++ cDOLLAR :: t.
Proof.
  induction 1 as [s p i E|s p i a E _ IH].
  - apply join_split in E as [<- _]. exists i. reflexivity.
  - destruct IH as (t & ->). apply join_split in E as [<- _]. unfold join_inner.
    exists (t ++ cDOLLAR :: i). rewrite <- app_assoc. reflexivity.
Qed.

Theorem ancestor_shorter a s : Ancestor a s -> (length a < length s)%nat.
Proof.
  intros H. destruct (ancestor_prefix _ _ H) as (t & ->). rewrite app_length. cbn [length]. lia.
Qed.

(* hence the "outer class of" relation has no cycle, whatever the class set looks like:
   the recursion of `map` follows it and stops after at most (length of the name) steps *)
Theorem ancestor_acyclic s : ~ Ancestor s s.
Proof. intros H. apply ancestor_shorter in H. lia. Qed.

Theorem ancestor_trans a b c : Ancestor a b -> Ancestor b c -> Ancestor a c.
Proof.
  intros Hab Hbc. induction Hbc as [s p i E|s p i b E _ IH].
  - eapply Anc_outer; eauto.
  - eapply Anc_outer; [exact E|]. apply IH. exact Hab.
Qed.

(* the number of ancestors is bounded by the length of the name: every ancestor is one of the
   proper prefixes *)
Theorem ancestor_firstn a s : Ancestor a s -> a = firstn (length a) s /\ (length a < length s)%nat.
Proof.
  intros H. split; [|apply ancestor_shorter; exact H].
  destruct (ancestor_prefix _ _ H) as (t & ->).
  rewrite firstn_app, Nat.sub_diag, firstn_all. cbn [firstn]. rewrite app_nil_r. reflexivity.
Qed.

Theorem ancestor_proper_prefix a s :
  Ancestor a s -> (exists t, s = a ++ cDOLLAR :: t) /\ (length a < length s)%nat /\ a <> s.
Proof.
  intros H. split; [exact (ancestor_prefix a s H)|]. split; [exact (ancestor_shorter a s H)|].
  intros ->. exact (ancestor_acyclic _ H).
Qed.

Theorem ancestor_definition a s :
  Ancestor a s <-> exists p i, split_inner s = Some (p, i) /\ (a = p \/ Ancestor a p).
Proof.
  split.
  - intros H. destruct H as [s p i E|s p i a E Ha]; exists p, i; auto.
  - intros (p & i & E & [->|Ha]); [eapply Anc_parent|eapply Anc_outer]; eauto.
Qed.

(* ------------------------------------------------------------------ *)
(* frame *)

(* the recursion looks at the class set only through get_class_name on ancestors *)
Theorem map_name_frame fuel : forall cs1 cs2 ns src b,
  (forall a, Ancestor a src -> get_class_name cs1 a ns = get_class_name cs2 a ns) ->
  map_name fuel cs1 ns src b = map_name fuel cs2 ns src b.
Proof.
  induction fuel as [|f IH]; intros cs1 cs2 ns src b H; cbn [map_name];
    destruct (split_inner src) as [[p i]|] eqn:E; try reflexivity.
  rewrite <- (H p (Anc_parent _ _ _ E)).
  destruct (get_class_name cs1 p ns) as [mp|]; [|reflexivity].
  rewrite (IH cs1 cs2 ns p mp); [reflexivity|].
  intros a Ha. apply H. eapply Anc_outer; eauto.
Qed.

Theorem extend_names_frame cs1 cs2 ns l :
  (forall src a, first_name l = Some src -> Ancestor a src ->
     get_class_name cs1 a ns = get_class_name cs2 a ns) ->
  extend_names cs1 ns l = extend_names cs2 ns l.
Proof.
  intros H. unfold extend_names. destruct ns as [|n]; [reflexivity|].
  destruct l as [|h [|x t]]; try reflexivity.
  destruct (nth_name (h :: x :: t) (S n)) as [b|]; [|reflexivity].
  destruct h as [src|]; [|reflexivity].
  rewrite (map_name_frame (length src) cs1 cs2 (S n) src b); [reflexivity|].
  intros a Ha. apply (H src a); [reflexivity|exact Ha].
Qed.

Lemma find_class_app cs1 cs2 k :
  find_class (cs1 ++ cs2) k = match find_class cs1 k with Some c => Some c | None => find_class cs2 k end.
Proof.
  unfold find_class. induction cs1 as [|c cs1 IH]; cbn [app find]; [reflexivity|].
  destruct (has_key k c); [reflexivity|exact IH].
Qed.

Lemma has_key_false k c : class_key c <> Some k -> has_key k c = false.
Proof.
  unfold has_key. destruct (class_key c) as [n|]; [|reflexivity]. intros H.
  destruct (str_eqb_spec n k) as [->|]; [congruence|reflexivity].
Qed.

(* replacing (or, with [opt_cons], adding / removing) a class whose key is not [a] does not change the
   lookup of [a] *)
Definition opt_cons (o : option class) (l : list class) : list class :=
  match o with Some c => c :: l | None => l end.
Definition key_differs (o : option class) (a : str) : Prop :=
  match o with Some c => class_key c <> Some a | None => True end.

Lemma get_class_name_other pre o o' post a ns :
  key_differs o a -> key_differs o' a ->
  get_class_name (pre ++ opt_cons o post) a ns = get_class_name (pre ++ opt_cons o' post) a ns.
Proof.
  intros H H'. unfold get_class_name. rewrite !find_class_app.
  destruct (find_class pre a); [reflexivity|].
  assert (E : forall x, key_differs x a -> find_class (opt_cons x post) a = find_class post a).
  { intros [c|] Hc; [|reflexivity]. unfold find_class. cbn [opt_cons find].
    rewrite (has_key_false _ _ Hc). reflexivity. }
  rewrite (E o H), (E o' H'). reflexivity.
Qed.

(* Frame theorem: the row of a class comes out the same when any class that is not one of its
   outer classes is added (o = None), removed (o' = None) or replaced by any other such class
   (e.g. the same class renamed in ns), anywhere in the set. *)
Theorem extend_frame pre o o' post ns l :
  (forall src a, first_name l = Some src -> Ancestor a src -> key_differs o a /\ key_differs o' a) ->
  extend_names (pre ++ opt_cons o post) ns l = extend_names (pre ++ opt_cons o' post) ns l.
Proof.
  intros H. apply extend_names_frame. intros src a Hs Ha.
  destruct (H src a Hs Ha) as [H1 H2]. apply get_class_name_other; assumption.
Qed.

Lemma frame_definitions :
  (forall c l, opt_cons (Some c) l = c :: l) /\ (forall l, opt_cons None l = l) /\
  (forall c a, key_differs (Some c) a <-> class_key c <> Some a) /\ (forall a, key_differs None a <-> True).
Proof. repeat split; auto. Qed.

(* in particular a class never depends on its own row, nor on its inner classes or siblings *)
Corollary not_own_ancestor src a : Ancestor a src -> a <> src.
Proof. intros H ->. exact (ancestor_acyclic _ H). Qed.

(* ------------------------------------------------------------------ *)
(* contraction is idempotent *)

Lemma split_inner_no_dollar s : ~ In cDOLLAR s -> split_inner s = None.
Proof.
  intros H. destruct (split_inner s) as [[p i]|] eqn:E; [|reflexivity].
  apply join_split in E as [<- _]. exfalso. apply H. unfold join_inner.
  apply in_or_app. right. left. reflexivity.
Qed.

(* contraction looks only at the name it is given (never at the source name): it keeps what
   follows the last `$` when that split is admissible, else everything; the result is never
   splittable again *)
Lemma innermost_not_splittable b : split_inner (innermost b) = None.
Proof.
  destruct (innermost_spec b) as [(p & H)|[H1 H2]].
  - apply join_split in H as [_ (_ & _ & _ & _ & Hd)]. apply split_inner_no_dollar. exact Hd.
  - rewrite H2. exact H1.
Qed.

Theorem innermost_full_spec b :
  ((exists p, split_inner b = Some (p, innermost b)) \/ (split_inner b = None /\ innermost b = b))
  /\ split_inner (innermost b) = None.
Proof. split; [exact (innermost_spec b)|exact (innermost_not_splittable b)]. Qed.

Lemma innermost_idem b : innermost (innermost b) = innermost b.
Proof. unfold innermost at 1. rewrite innermost_not_splittable. reflexivity. Qed.

Lemma contract_names_idem ns l : contract_names ns (contract_names ns l) = contract_names ns l.
Proof.
  pose proof (contract_names_spec ns l) as (_ & _ & E).
  change (contract_names ns (contract_names ns l))
    with (set_nth (contract_names ns l) ns
            (match nth_name (contract_names ns l) ns with Some b => Some (innermost b) | None => None end)).
  rewrite E. unfold contract_names. rewrite set_nth_twice.
  destruct (nth_name l ns) as [b|]; [rewrite innermost_idem|]; reflexivity.
Qed.

Lemma contract_class_idem ns c : contract_class ns (contract_class ns c) = contract_class ns c.
Proof. unfold contract_class. cbn [c_names c_doc c_fields c_methods]. rewrite contract_names_idem. reflexivity. Qed.

Theorem contract_idx_idem M ns : contract_idx (contract_idx M ns) ns = contract_idx M ns.
Proof.
  unfold contract_idx. cbn [ms_ns ms_doc ms_classes]. rewrite map_map. f_equal.
  apply map_ext. intros c. apply contract_class_idem.
Qed.

Theorem contract_idem M name M' : contract M name = Ok M' -> contract M' name = Ok M'.
Proof.
  unfold contract. destruct (ns_index (ms_ns M) name) as [[|ns]|] eqn:E; try discriminate.
  intros Heq. apply Ok_inj in Heq. subst M'. cbn [contract_idx ms_ns]. rewrite E.
  rewrite contract_idx_idem. reflexivity.
Qed.

(* ------------------------------------------------------------------ *)
(* on simple names contraction changes nothing *)

Lemma name_cond_innermost src b : name_cond src b = true -> innermost b = b.
Proof.
  unfold name_cond. destruct (split_inner src) as [[p i]|]; cbv iota beta;
    rewrite !andb_true_iff, !negb_true_iff; intros (_ & H1 & _).
  - apply mem_N_false in H1. unfold innermost. rewrite (split_inner_no_dollar _ H1). reflexivity.
  - unfold innermost. destruct (split_inner b); [discriminate|reflexivity].
Qed.

Lemma contract_names_simple ns l :
  first_name l <> None -> simple_row ns l = true -> contract_names ns l = l.
Proof.
  intros Hf Hs. unfold contract_names. unfold simple_row in Hs.
  destruct (nth_name l ns) as [b|] eqn:G.
  - destruct (first_name l) as [src|]; [|congruence].
    rewrite (name_cond_innermost _ _ Hs). rewrite <- G. apply set_nth_nth.
  - rewrite <- G. apply set_nth_nth.
Qed.

Theorem contract_simple_id M ns : wf M = true -> simple_names M ns = true -> contract_idx M ns = M.
Proof.
  intros Hwf Hs. unfold simple_names in Hs. rewrite forallb_forall in Hs.
  unfold contract_idx.
  assert (E : map (contract_class ns) (ms_classes M) = ms_classes M).
  { rewrite <- (map_id (ms_classes M)) at 2. apply map_ext_in. intros c Hin.
    unfold contract_class. rewrite contract_names_simple.
    - destruct c; reflexivity.
    - destruct (wf_class_row _ _ Hwf Hin) as (_ & _ & (src & Hk) & _). unfold class_key in Hk. congruence.
    - apply Hs. exact Hin. }
  rewrite E. destruct M; reflexivity.
Qed.

(* contracting the extended set gives what contracting the original gives (namely the original) *)
Theorem contract_after_extend M name ns M' :
  wf M = true -> ns_index (ms_ns M) name = Some ns -> ns <> O -> simple_names M ns = true ->
  extend M name = Ok M' -> contract M' name = contract M name /\ contract M name = Ok M.
Proof.
  intros Hwf Hns Hn0 Hs HE.
  assert (HM : contract M name = Ok M).
  { unfold contract. rewrite Hns. destruct ns as [|k]; [congruence|].
    rewrite (contract_simple_id _ _ Hwf Hs). reflexivity. }
  split; [|exact HM]. rewrite HM. eapply contract_extend; eauto.
Qed.

(* ------------------------------------------------------------------ *)
(* extending twice *)

Lemma Forall2_In_r {A B} (R : A -> B -> Prop) l l' y :
  Forall2 R l l' -> In y l' -> exists x, In x l /\ R x y.
Proof.
  induction 1 as [|a b l l' Hab _ IH]; intros Hin; [destruct Hin|].
  destruct Hin as [<-|Hin]; [exists a; split; [left; reflexivity|exact Hab]|].
  destruct (IH Hin) as (x & Hx & Hr). exists x. split; [right; exact Hx|exact Hr].
Qed.

Lemma extend_class_key cs ns c c' : extend_class cs ns c = Ok c' -> class_key c' = class_key c.
Proof.
  intros H. apply extend_class_ok in H as (Hns & _ & ((_ & Hoth & _) & _)).
  unfold class_key. rewrite !first_name_nth. apply Hoth. auto.
Qed.

(* lookups in the extended set: the same keys, every found class is the extension of the class
   found in the original *)
Lemma find_class_extended cs ns l l' :
  Forall2 (fun c c' => extend_class cs ns c = Ok c') l l' ->
  forall k, match find_class l k with
            | Some c => exists c', find_class l' k = Some c' /\ extend_class cs ns c = Ok c'
            | None => find_class l' k = None
            end.
Proof.
  unfold find_class. induction 1 as [|c c' l l' Hc _ IH]; intros k; cbn [find]; [reflexivity|].
  assert (Hk : has_key k c' = has_key k c).
  { unfold has_key. rewrite (extend_class_key _ _ _ _ Hc). reflexivity. }
  rewrite Hk. destruct (has_key k c); [exists c'; auto|apply IH].
Qed.

Lemma extended_name cs ns c c' :
  extend_class cs ns c = Ok c' ->
  match nth_name (c_names c) ns with
  | None => nth_name (c_names c') ns = None
  | Some b => exists src r, class_key c = Some src /\ Ext cs ns src b r /\ nth_name (c_names c') ns = Some r
  end.
Proof. intros H. apply extend_class_ok in H as (_ & _ & ((_ & _ & H) & _)). exact H. Qed.

Lemma Broken_extended cs ns cs' :
  Forall2 (fun c c' => extend_class cs ns c = Ok c') cs cs' ->
  forall src, Broken cs' ns src -> Broken cs ns src.
Proof.
  intros HF src HB.
  induction HB as [src p i E F|src p i pc' E F G|src p i pc' mp' E F G _ IH];
    pose proof (find_class_extended _ _ _ _ HF p) as HL;
    destruct (find_class cs p) as [pc|] eqn:Fp.
  - destruct HL as (c' & HL & _). congruence.
  - eapply Broken_missing; eauto.
  - destruct HL as (c' & HL & Hc). rewrite F in HL. injection HL as <-.
    apply extended_name in Hc. destruct (nth_name (c_names pc) ns) as [b|] eqn:Gp.
    + destruct Hc as (? & r & _ & _ & Hr). congruence.
    + eapply Broken_unnamed; eauto.
  - congruence.
  - destruct (nth_name (c_names pc) ns) as [b|] eqn:Gp.
    + eapply Broken_outer; eauto.
    + eapply Broken_unnamed; eauto.
  - congruence.
Qed.

(* the second extension never fails *)
Theorem extend_twice_ok M ns M' : extend_idx M ns = Ok M' -> exists M'', extend_idx M' ns = Ok M''.
Proof.
  intros HE. destruct (extend_idx M' ns) as [M''|] eqn:E2; [eauto|]. exfalso.
  apply extend_idx_err_gen in E2 as (c' & Hin' & Hf).
  unfold extend_idx in HE.
  destruct (mapM (extend_class (ms_classes M) ns) (ms_classes M)) as [cs'|] eqn:E; [|discriminate].
  apply Ok_inj in HE. subst M'. cbn [ms_classes] in *. apply mapM_ok in E.
  destruct (Forall2_In_r _ _ _ _ E Hin') as (c & Hin & Hc).
  pose proof (extend_class_key _ _ _ _ Hc) as Hkey.
  pose proof (extended_name _ _ _ _ Hc) as Hname.
  apply extend_class_ok in Hc as (Hns & Hlen & ((Hl & _ & _) & _)).
  destruct Hf as [->|[Hlt|(r & G & Hb)]]; [congruence|lia|].
  destruct (nth_name (c_names c) ns) as [b|] eqn:Gc; [|congruence].
  destruct Hname as (src & r' & Hk & HExt & Hr). unfold class_key in *.
  destruct Hb as [Hb|(src' & Hs' & Hb)]; [congruence|].
  rewrite Hkey, Hk in Hs'. injection Hs' as <-.
  apply (Ext_not_Broken _ _ _ _ _ HExt). eapply Broken_extended; eauto.
Qed.

(* closed form: the names (in ns) of the outer classes m0, m1, .., mk have become
   m0, m0$m1, .., m0$..$mk, so the second extension of a class named b gives
   m0 $ m0$m1 $ .. $ m0$..$mk $ m0$..$mk$b *)
Fixpoint nonempty_prefixes {A} (l : list A) : list (list A) :=
  match l with
  | [] => []
  | x :: t => [x] :: map (cons x) (nonempty_prefixes t)
  end.

Lemma nonempty_prefixes_snoc {A} (l : list A) x :
  nonempty_prefixes (l ++ [x]) = nonempty_prefixes l ++ [l ++ [x]].
Proof.
  induction l as [|y l IH]; [reflexivity|].
  cbn [app nonempty_prefixes]. rewrite IH, map_app. reflexivity.
Qed.

Theorem Chain_extended cs ns cs' :
  Forall2 (fun c c' => extend_class cs ns c = Ok c') cs cs' ->
  forall src ms, Chain cs ns src ms -> Chain cs' ns src (map join_dollar (nonempty_prefixes ms)).
Proof.
  intros HF src ms HC. induction HC as [src E|src p i pc mp ms E F G HC IH].
  - apply Chain_top. exact E.
  - rewrite nonempty_prefixes_snoc, map_app. cbn [map].
    pose proof (find_class_extended _ _ _ _ HF p) as HL. rewrite F in HL.
    destruct HL as (pc' & F' & Hc). pose proof (extended_name _ _ _ _ Hc) as Hn. rewrite G in Hn.
    destruct Hn as (src0 & r & Hk & HExt & Hr).
    apply find_class_spec in F as [_ Hkp]. rewrite Hkp in Hk. injection Hk as <-.
    assert (Hr' : r = join_dollar (ms ++ [mp])).
    { eapply Ext_fun; [exact HExt|]. apply Ext_chain. exists ms. auto. }
    subst r. eapply Chain_nested; eauto.
Qed.

Theorem extend_twice M ns M' :
  extend_idx M ns = Ok M' ->
  (exists M'', extend_idx M' ns = Ok M'') /\
  forall src ms b r2,
    Chain (ms_classes M) ns src ms ->
    (Ext (ms_classes M') ns src (join_dollar (ms ++ [b])) r2 <->
     r2 = join_dollar (map join_dollar (nonempty_prefixes ms) ++ [join_dollar (ms ++ [b])])).
Proof.
  intros HE. split; [eapply extend_twice_ok; eauto|].
  intros src ms b r2 HC.
  unfold extend_idx in HE.
  destruct (mapM (extend_class (ms_classes M) ns) (ms_classes M)) as [cs'|] eqn:E; [|discriminate].
  apply Ok_inj in HE. subst M'. cbn [ms_classes]. apply mapM_ok in E.
  pose proof (Chain_extended _ _ _ E _ _ HC) as HC'.
  split.
  - intros HExt. eapply Ext_fun; [exact HExt|]. apply Ext_chain. eexists. split; [exact HC'|reflexivity].
  - intros ->. apply Ext_chain. eexists. split; [exact HC'|reflexivity].
Qed.

(* ------------------------------------------------------------------ *)
(* Both operations only ever produce valid object class names from valid ones.  This is what the
   `unsafe { from_inner_unchecked }` blocks of from_inner_class / split_inner_class_parent_and_name
   rely on ("Joining two object class names with `$` together always creates a valid object class
   name"), lifted to whole mapping sets.  ClassNameG is the JVMS 4.2.1 binary-name grammar of
   C18 (C18_obj_class_name: is_valid_obj_class_name s = true <-> ClassNameG s). *)

Lemma Unq_join u v : Unq u -> Unq v -> Unq (u ++ cDOLLAR :: v).
Proof.
  intros [Hu Fu] [Hv Fv]. split; [destruct u; discriminate|].
  apply Forall_app. split; [exact Fu|]. constructor; [|exact Fv].
  cbn [In]. intros [H|[H|[H|[H|[]]]]]; discriminate.
Qed.

Lemma Unq_join_class u i : Unq u -> ClassNameG i -> ClassNameG (u ++ cDOLLAR :: i).
Proof.
  intros Hu Hi. destruct Hi as [v Hv|v r Hv Hr].
  - apply CN_one. apply Unq_join; assumption.
  - replace (u ++ cDOLLAR :: v ++ cSLASH :: r) with ((u ++ cDOLLAR :: v) ++ cSLASH :: r)
      by (rewrite <- app_assoc; reflexivity).
    apply CN_cons; [apply Unq_join; assumption|exact Hr].
Qed.

Lemma join_valid p i : ClassNameG p -> ClassNameG i -> ClassNameG (join_inner p i).
Proof.
  unfold join_inner. intros Hp Hi. induction Hp as [u Hu|u r Hu Hr IH].
  - apply Unq_join_class; assumption.
  - rewrite <- app_assoc. cbn [app]. apply CN_cons; [exact Hu|exact IH].
Qed.

Definition plain_char (c : N) : Prop := ~ In c [cDOT; cSEMI; cLBRACK].

Lemma ClassNameG_plain s : ClassNameG s -> Forall plain_char s.
Proof.
  assert (HU : forall u, Unq u -> Forall plain_char u).
  { intros u [_ F]. eapply Forall_impl; [|exact F]. intros c Hc Hin. apply Hc.
    cbn [In] in *. tauto. }
  induction 1 as [u Hu|u r Hu _ IH]; [apply HU; exact Hu|].
  apply Forall_app. split; [apply HU; exact Hu|]. constructor; [|exact IH].
  unfold plain_char. cbn [In]. intros [H|[H|[H|[]]]]; discriminate.
Qed.

Lemma innermost_valid b : ClassNameG b -> ClassNameG (innermost b).
Proof.
  intros Hb. destruct (innermost_spec b) as [(p & H)|[_ ->]]; [|exact Hb].
  apply join_split in H as [Hj (_ & Hi & _ & Hs & _)].
  apply CN_one. split; [exact Hi|].
  apply ClassNameG_plain in Hb. rewrite <- Hj in Hb. unfold join_inner in Hb.
  apply Forall_app in Hb as [_ Hb]. inversion Hb as [|? ? _ Hb']; subst.
  rewrite Forall_forall in *. intros c Hc Hin. cbn [In] in Hin.
  destruct Hin as [<-|[<-|[<-|[<-|[]]]]].
  - apply (Hb' _ Hc). cbn [In]. auto.
  - apply (Hb' _ Hc). cbn [In]. auto.
  - apply (Hb' _ Hc). cbn [In]. auto.
  - exact (Hs Hc).
Qed.

(* every name in the chosen namespace is a valid object class name *)
Definition names_valid (cs : list class) (ns : nat) : Prop :=
  forall c b, In c cs -> nth_name (c_names c) ns = Some b -> ClassNameG b.

Lemma Ext_valid cs ns src b r : names_valid cs ns -> Ext cs ns src b r -> ClassNameG b -> ClassNameG r.
Proof.
  intros HV HE. induction HE as [src b E|src b p i pc mp r E F G _ IH]; intros Hb; [exact Hb|].
  apply join_valid; [|exact Hb]. apply IH. apply find_class_spec in F as [Hin _]. exact (HV pc mp Hin G).
Qed.

Theorem extend_valid M ns M' :
  extend_idx M ns = Ok M' -> names_valid (ms_classes M) ns -> names_valid (ms_classes M') ns.
Proof.
  unfold extend_idx.
  destruct (mapM (extend_class (ms_classes M) ns) (ms_classes M)) as [cs'|] eqn:E; [|discriminate].
  intros Heq HV. apply Ok_inj in Heq. subst M'. cbn [ms_classes]. apply mapM_ok in E.
  intros c' r Hin' Hr. destruct (Forall2_In_r _ _ _ _ E Hin') as (c & Hin & Hc).
  apply extended_name in Hc. destruct (nth_name (c_names c) ns) as [b|] eqn:G; [|congruence].
  destruct Hc as (src & r0 & _ & HE & Hr0). rewrite Hr in Hr0. injection Hr0 as <-.
  eapply Ext_valid; [exact HV|exact HE|exact (HV c b Hin G)].
Qed.

Theorem contract_valid M ns :
  names_valid (ms_classes M) ns -> names_valid (ms_classes (contract_idx M ns)) ns.
Proof.
  intros HV c' r Hin' Hr. unfold contract_idx in Hin'. cbn [ms_classes] in Hin'.
  apply in_map_iff in Hin' as (c & <- & Hin). unfold contract_class in Hr. cbn [c_names] in Hr.
  pose proof (contract_names_spec ns (c_names c)) as (_ & _ & E). rewrite E in Hr.
  destruct (nth_name (c_names c) ns) as [b|] eqn:G; [|discriminate]. injection Hr as <-.
  apply innermost_valid. exact (HV c b Hin G).
Qed.

(* the hypothesis is decidable with the implementation's own validity test *)
Definition names_validb (cs : list class) (ns : nat) : bool :=
  forallb (fun c => match nth_name (c_names c) ns with Some b => is_valid_obj_class_name b | None => true end) cs.

Theorem names_valid_iff cs ns : names_valid cs ns <-> names_validb cs ns = true.
Proof.
  unfold names_valid, names_validb. rewrite forallb_forall. split.
  - intros H c Hin. destruct (nth_name (c_names c) ns) as [b|] eqn:G; [|reflexivity].
    apply obj_class_name_spec. exact (H c b Hin G).
  - intros H c b Hin G. specialize (H c Hin). rewrite G in H. apply obj_class_name_spec. exact H.
Qed.

Theorem valid_preserved M name M' :
  (extend M name = Ok M' \/ contract M name = Ok M') ->
  forall ns, ns_index (ms_ns M) name = Some ns ->
  names_validb (ms_classes M) ns = true -> names_validb (ms_classes M') ns = true.
Proof.
  intros H ns Hns HV. apply names_valid_iff. apply names_valid_iff in HV.
  destruct H as [H|H].
  - unfold extend in H. rewrite Hns in H. eapply extend_valid; eauto.
  - unfold contract in H. rewrite Hns in H. destruct ns as [|k]; [discriminate|].
    apply Ok_inj in H. subst M'. apply contract_valid. exact HV.
Qed.

Lemma names_valid_definition cs ns :
  names_validb cs ns = true <->
  forall c b, In c cs -> nth_name (c_names c) ns = Some b -> ClassNameG b.
Proof. symmetry. apply names_valid_iff. Qed.

(* ------------------------------------------------------------------ *)
(* concrete values *)

(* A -> a, A$B -> b, X -> a, X$B -> b, A$B$C -> c, X$B$C -> c : two branches whose classes have
   pairwise EQUAL names in the target namespace; the extended names are nevertheless computed
   per branch along the SOURCE names (a cache keyed by the mapped name of the outer class would
   be wrong as soon as the roots differ: second set) *)
Definition ex_twins (rootX : str) : mappings := mkMappings [nA; nB] None
  [ mkClass (row2 [65] [97]) None [] [];
    mkClass (row2 [65; 36; 66] [98]) None [] [];
    mkClass (row2 [65; 36; 66; 36; 67] [99]) None [] [];
    mkClass (row2 [88] rootX) None [] [];
    mkClass (row2 [88; 36; 66] [98]) None [] [];
    mkClass (row2 [88; 36; 66; 36; 67] [99]) None [] [] ].
Definition ex_twins_out (rootX : str) : mappings := mkMappings [nA; nB] None
  [ mkClass (row2 [65] [97]) None [] [];
    mkClass (row2 [65; 36; 66] [97; 36; 98]) None [] [];
    mkClass (row2 [65; 36; 66; 36; 67] [97; 36; 98; 36; 99]) None [] [];
    mkClass (row2 [88] rootX) None [] [];
    mkClass (row2 [88; 36; 66] (rootX ++ [36; 98])) None [] [];
    mkClass (row2 [88; 36; 66; 36; 67] (rootX ++ [36; 98; 36; 99])) None [] [] ].

(* source names flat, names in nB nested: contraction looks at the nB name only *)
Definition ex_flat : mappings := mkMappings [nA; nB] None
  [ mkClass (row2 [97] [112; 47; 79; 36; 73]) None [] [];       (* a -> p/O$I *)
    mkClass (row2 [98] [79; 36; 73; 36; 74]) None [] [] ].      (* b -> O$I$J *)
Definition ex_flat_out : mappings := mkMappings [nA; nB] None
  [ mkClass (row2 [97] [73]) None [] []; mkClass (row2 [98] [74]) None [] [] ].

Definition ex_out2 : mappings := mkMappings [nA; nB] None
  [ mkClass (row2 [65; 36; 66; 36; 67] [97; 36; 97; 36; 98; 36; 97; 36; 98; 36; 99]) (Some [100]) [] [];
    mkClass (row2 [65] [97]) None [ex_field] [];
    mkClass (row2 [65; 36; 66] [97; 36; 97; 36; 98]) None [] [ex_meth] ].

Definition examples3 : Prop :=
  (* equal target names on two branches *)
  extend (ex_twins [97]) nB = Ok (ex_twins_out [97]) /\
  extend (ex_twins [122]) nB = Ok (ex_twins_out [122]) /\
  ex_twins_out [122] <> ex_twins_out [97] /\
  (* contraction of nested names under flat source names; idempotent *)
  contract ex_flat nB = Ok ex_flat_out /\ contract ex_flat_out nB = Ok ex_flat_out /\
  extend ex_flat nB = Ok ex_flat /\
  (* ancestors *)
  Ancestor [65] [65; 36; 66; 36; 67] /\ ~ Ancestor [65; 36; 66; 36; 67] [65] /\
  (* extension is not idempotent: a second extension prepends the outer names again *)
  (exists M2, extend ex_out nB = Ok M2 /\ M2 <> ex_out /\
     firstn 3 (ms_classes M2) = ms_classes ex_out2 /\ contract M2 nB = Ok ex_in) /\
  (* the names of the examples are valid object class names, before and after *)
  names_validb (ms_classes ex_in) 1 = true /\ names_validb (ms_classes ex_out) 1 = true /\
  (* without simple names contract (extend M) and contract M differ *)
  (exists M', wf ex_pkg = true /\ extend ex_pkg nB = Ok M' /\ contract M' nB <> contract ex_pkg nB).

Theorem examples3_hold : examples3.
Proof.
  unfold examples3.
  split; [vm_compute; reflexivity|]. split; [vm_compute; reflexivity|]. split; [vm_compute; discriminate|].
  split; [vm_compute; reflexivity|]. split; [vm_compute; reflexivity|]. split; [vm_compute; reflexivity|].
  split; [eapply Anc_outer; [vm_compute; reflexivity|]; eapply Anc_parent; vm_compute; reflexivity|].
  split; [intros H; apply ancestor_shorter in H; cbn [length] in H; lia|].
  split.
  { eexists. split; [vm_compute; reflexivity|]. split; [vm_compute; discriminate|].
    split; vm_compute; reflexivity. }
  split; [vm_compute; reflexivity|]. split; [vm_compute; reflexivity|].
  eexists. split; [vm_compute; reflexivity|]. split; [vm_compute; reflexivity|]. vm_compute. discriminate.
Qed.
