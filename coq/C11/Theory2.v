(* C11 theory, second part: contraction, contract ∘ extend = id under [simple_names],
   preservation of well-formedness, the closed form of the extended name along a chain of
   outer classes, and the concrete examples (non-vacuity, necessity of the hypothesis). *)
From FB Require Import C11.Model C18.Theory C11.Theory.
From Coq Require Import Arith.
Arguments N.add : simpl never.
Arguments N.eqb : simpl never.

(* ------------------------------------------------------------------ *)
(* contraction *)

Lemma innermost_spec b :
  (exists p, split_inner b = Some (p, innermost b)) \/ (split_inner b = None /\ innermost b = b).
Proof.
  unfold innermost. destruct (split_inner b) as [[p i]|]; [left; exists p; reflexivity|right; auto].
Qed.

(* one row: only the cell ns changes, to the innermost simple name *)
Definition row_contract (ns : nat) (l l' : names) : Prop :=
  length l' = length l /\
  (forall j, j <> ns -> nth_name l' j = nth_name l j) /\
  nth_name l' ns = match nth_name l ns with Some b => Some (innermost b) | None => None end.

Lemma contract_names_spec ns l : row_contract ns l (contract_names ns l).
Proof.
  unfold row_contract, contract_names. split; [apply set_nth_length|].
  split; [intros j Hj; unfold nth_name; apply nth_set_nth_neq; auto|].
  destruct (lt_dec ns (length l)) as [Hlt|Hge].
  - unfold nth_name at 1. apply nth_set_nth_eq. exact Hlt.
  - unfold nth_name. rewrite (nth_overflow l) by lia.
    rewrite nth_overflow; [reflexivity|]. rewrite set_nth_length. lia.
Qed.

Definition contract_rel (M : mappings) (ns : nat) (M' : mappings) : Prop :=
  ms_ns M' = ms_ns M /\ ms_doc M' = ms_doc M /\
  Forall2 (fun c c' => row_contract ns (c_names c) (c_names c') /\
                       c_doc c' = c_doc c /\ c_fields c' = c_fields c /\ c_methods c' = c_methods c)
          (ms_classes M) (ms_classes M').

Theorem contract_idx_spec M ns : contract_rel M ns (contract_idx M ns).
Proof.
  unfold contract_rel, contract_idx. cbn [ms_ns ms_doc ms_classes].
  split; [reflexivity|]. split; [reflexivity|].
  induction (ms_classes M) as [|c l IH]; cbn [map]; constructor; [|exact IH].
  unfold contract_class. cbn. split; [apply contract_names_spec|auto].
Qed.

Theorem contract_spec M name :
  (forall M', contract M name = Ok M' ->
     exists ns, ns_index (ms_ns M) name = Some ns /\ ns <> O /\ contract_rel M ns M') /\
  (contract M name = Err <-> ns_index (ms_ns M) name = None \/ ns_index (ms_ns M) name = Some O).
Proof.
  unfold contract. destruct (ns_index (ms_ns M) name) as [[|ns]|].
  - split; [discriminate|]. split; auto.
  - split.
    + intros M' Heq. apply Ok_inj in Heq. subst M'. exists (S ns).
      split; [reflexivity|]. split; [discriminate|apply contract_idx_spec].
    + split; [discriminate|]. intros [H|H]; discriminate.
  - split; [discriminate|]. split; auto.
Qed.

(* ------------------------------------------------------------------ *)
(* contract ∘ extend *)

Lemma name_cond_nonempty src b : name_cond src b = true -> b <> [].
Proof.
  unfold name_cond. rewrite andb_true_iff, negb_true_iff. intros [H _]. apply is_nil_false. exact H.
Qed.

(* the extended name of a class under [name_cond] is non-empty and does not end with `/` *)
Lemma Ext_good_tail cs ns src b r :
  Ext cs ns src b r -> name_cond src b = true -> r <> [] /\ ends_with_char cSLASH r = false.
Proof.
  intros HE HC. pose proof (name_cond_nonempty _ _ HC) as Hb. unfold name_cond in HC.
  destruct HE as [src b E|src b p i pc mp r E F G HE'].
  - rewrite E in HC. rewrite !andb_true_iff, !negb_true_iff in HC. tauto.
  - rewrite E in HC. rewrite !andb_true_iff, !negb_true_iff in HC. destruct HC as (_ & _ & HS).
    unfold join_inner. split; [destruct r; discriminate|].
    rewrite ends_with_char_app by discriminate.
    change (cDOLLAR :: b) with ([cDOLLAR] ++ b). rewrite ends_with_char_app by exact Hb.
    apply ends_with_char_notin. apply mem_N_false. exact HS.
Qed.

Lemma simple_row_cond ns c src b :
  simple_row ns (c_names c) = true -> class_key c = Some src -> nth_name (c_names c) ns = Some b ->
  name_cond src b = true.
Proof.
  unfold simple_row, class_key. intros H K G. rewrite G, K in H. exact H.
Qed.

Lemma Ext_innermost cs ns src b r :
  (forall c, In c cs -> simple_row ns (c_names c) = true) ->
  Ext cs ns src b r -> name_cond src b = true -> innermost r = b.
Proof.
  intros Hall HE HC. pose proof (name_cond_nonempty _ _ HC) as Hb.
  destruct HE as [src b E|src b p i pc mp r E F G HE'].
  - unfold name_cond in HC. rewrite E in HC. rewrite !andb_true_iff, !negb_true_iff in HC.
    destruct HC as (_ & HS & _). unfold innermost. destruct (split_inner b); [discriminate|reflexivity].
  - apply find_class_spec in F as [Hin Hk].
    pose proof (simple_row_cond _ _ _ _ (Hall pc Hin) Hk G) as HCp.
    destruct (Ext_good_tail _ _ _ _ _ HE' HCp) as [Hr1 Hr2].
    unfold name_cond in HC. rewrite E in HC. rewrite !andb_true_iff, !negb_true_iff in HC.
    destruct HC as (_ & HD & HS). apply mem_N_false in HD. apply mem_N_false in HS.
    unfold innermost. rewrite split_join; [reflexivity|].
    unfold inner_ok. auto.
Qed.

Lemma contract_extend_names cs ns l l' :
  (forall c, In c cs -> simple_row ns (c_names c) = true) -> simple_row ns l = true ->
  extend_names cs ns l = Ok l' -> contract_names ns l' = l.
Proof.
  intros Hall Hrow. unfold extend_names. destruct ns as [|n]; [discriminate|].
  destruct l as [|h [|x t]]; try discriminate.
  destruct (nth_name (h :: x :: t) (S n)) as [b|] eqn:G.
  - destruct h as [src|]; [|discriminate].
    destruct (map_name (length src) cs (S n) src b) as [r|] eqn:R; [|discriminate].
    intros Heq. apply Ok_inj in Heq. subst l'.
    apply map_name_sound in R.
    assert (HC : name_cond src b = true).
    { unfold simple_row in Hrow. rewrite G in Hrow. exact Hrow. }
    pose proof (Ext_innermost _ _ _ _ _ Hall R HC) as Hi.
    unfold contract_names. unfold nth_name at 1.
    rewrite nth_set_nth_eq by (eapply nth_name_lt; eauto).
    rewrite set_nth_twice, Hi.
    pose proof (set_nth_nth (Some src :: x :: t) (S n) None) as H.
    unfold nth_name in G. rewrite G in H. exact H.
  - intros Heq. apply Ok_inj in Heq. subst l'. unfold contract_names. rewrite G.
    pose proof (set_nth_nth (h :: x :: t) (S n) None) as H.
    unfold nth_name in G. rewrite G in H. exact H.
Qed.

Lemma contract_extend_classes cs ns l l' :
  (forall c, In c cs -> simple_row ns (c_names c) = true) ->
  (forall c, In c l -> simple_row ns (c_names c) = true) ->
  Forall2 (fun c c' => extend_class cs ns c = Ok c') l l' ->
  map (contract_class ns) l' = l.
Proof.
  intros Hall Hl HF. induction HF as [|c c' l l' Hc _ IH]; [reflexivity|].
  cbn [map]. f_equal.
  - unfold extend_class in Hc. destruct (extend_names cs ns (c_names c)) as [row|] eqn:E; [|discriminate].
    apply Ok_inj in Hc. subst c'. unfold contract_class. cbn [c_names c_doc c_fields c_methods].
    rewrite (contract_extend_names _ _ _ _ Hall (Hl c (or_introl eq_refl)) E).
    destruct c; reflexivity.
  - apply IH. intros d Hd. apply Hl. right. exact Hd.
Qed.

Theorem contract_extend_idx M ns M' :
  simple_names M ns = true -> extend_idx M ns = Ok M' -> contract_idx M' ns = M.
Proof.
  unfold simple_names. rewrite forallb_forall. intros Hall.
  unfold extend_idx. destruct (mapM (extend_class (ms_classes M) ns) (ms_classes M)) as [cs'|] eqn:E; [|discriminate].
  intros Heq. apply Ok_inj in Heq. subst M'. apply mapM_ok in E.
  unfold contract_idx. cbn [ms_ns ms_doc ms_classes].
  rewrite (contract_extend_classes _ _ _ _ Hall Hall E). destruct M; reflexivity.
Qed.

Theorem contract_extend M name ns M' :
  ns_index (ms_ns M) name = Some ns -> ns <> O -> simple_names M ns = true ->
  extend M name = Ok M' -> contract M' name = Ok M.
Proof.
  intros Hns Hn0 Hs. unfold extend, contract. rewrite Hns. intros HE.
  pose proof (extend_idx_spec _ _ _ HE) as [(HN & _) _]. rewrite HN, Hns.
  rewrite (contract_extend_idx _ _ _ Hs HE). destruct ns; [congruence|reflexivity].
Qed.

(* ------------------------------------------------------------------ *)
(* the recursion with the fuel the model uses *)

Theorem map_name_ok_iff cs ns src b r :
  map_name (length src) cs ns src b = Ok r <-> Ext cs ns src b r.
Proof.
  split; [apply map_name_sound|]. intros H. apply map_name_complete; [exact H|lia].
Qed.

Theorem map_name_err_iff cs ns src b :
  map_name (length src) cs ns src b = Err <-> Broken cs ns src.
Proof.
  split; [apply map_name_err_sound; lia|]. intros H. apply map_name_err_complete. exact H.
Qed.

(* ------------------------------------------------------------------ *)
(* closed form: the extended name is the `$`-joined list of the names (in ns) of all outer
   classes, outermost first, followed by the class's own name — at any nesting depth *)

Inductive Chain (cs : list class) (ns : nat) : str -> list str -> Prop :=
| Chain_top src : split_inner src = None -> Chain cs ns src []
| Chain_nested src p i pc mp ms :
    split_inner src = Some (p, i) ->
    find_class cs p = Some pc ->
    nth_name (c_names pc) ns = Some mp ->
    Chain cs ns p ms ->
    Chain cs ns src (ms ++ [mp]).

Fixpoint join_dollar (parts : list str) : str :=
  match parts with
  | [] => []
  | x :: rest => match rest with [] => x | _ :: _ => x ++ cDOLLAR :: join_dollar rest end
  end.

Lemma join_dollar_snoc l b : l <> [] -> join_dollar (l ++ [b]) = join_inner (join_dollar l) b.
Proof.
  unfold join_inner. induction l as [|x l IH]; [congruence|]. intros _.
  destruct l as [|y t].
  - reflexivity.
  - change ((x :: y :: t) ++ [b]) with (x :: ((y :: t) ++ [b])).
    change (join_dollar (x :: (y :: t) ++ [b])) with (x ++ cDOLLAR :: join_dollar ((y :: t) ++ [b])).
    rewrite IH by discriminate.
    change (join_dollar (x :: y :: t)) with (x ++ cDOLLAR :: join_dollar (y :: t)).
    rewrite <- app_assoc. reflexivity.
Qed.

Theorem Ext_chain cs ns src b r :
  Ext cs ns src b r <-> exists ms, Chain cs ns src ms /\ r = join_dollar (ms ++ [b]).
Proof.
  split.
  - induction 1 as [src b E|src b p i pc mp r E F G _ IH].
    + exists []. split; [apply Chain_top; exact E|reflexivity].
    + destruct IH as (ms & HC & ->). exists (ms ++ [mp]). split; [eapply Chain_nested; eauto|].
      rewrite (join_dollar_snoc (ms ++ [mp]) b); [reflexivity|]. destruct ms; discriminate.
  - intros (ms & HC & ->). revert b. induction HC as [src E|src p i pc mp ms E F G _ IH]; intros b.
    + apply Ext_top. exact E.
    + rewrite (join_dollar_snoc (ms ++ [mp]) b) by (destruct ms; discriminate).
      eapply Ext_nested; eauto.
Qed.

(* ------------------------------------------------------------------ *)
(* keys and well-formedness are preserved: the derived key (first-namespace name) of every
   class is unchanged, so the model's "key = first name" reading stays valid after the calls *)

Lemma first_name_nth l : first_name l = nth_name l O.
Proof. destruct l as [|[x|] t]; reflexivity. Qed.

Lemma forallb_nth {A} (f : A -> bool) l i d x :
  forallb f l = true -> nth i l d = x -> (i < length l)%nat -> f x = true.
Proof.
  intros H E Hlt. rewrite forallb_forall in H. apply H. subst x. apply nth_In. exact Hlt.
Qed.

Definition cell_ok (o : option str) : bool := match o with Some [] => false | _ => true end.

Lemma names_ok_unfold n l : names_ok n l = Nat.eqb (length l) n && forallb cell_ok l.
Proof. reflexivity. Qed.

Lemma Ext_nonempty cs ns src b r : Ext cs ns src b r -> b <> [] -> r <> [].
Proof.
  intros H Hb. destruct H; [exact Hb|]. unfold join_inner. destruct r; discriminate.
Qed.

Lemma extend_names_names_ok cs ns l l' n :
  names_ok n l = true -> extend_names cs ns l = Ok l' ->
  names_ok n l' = true /\ first_name l' = first_name l.
Proof.
  intros Hok HE. pose proof (extend_names_ok _ _ _ _ HE) as (Hns & _ & (Hlen & Hoth & Hcell)).
  split.
  - rewrite names_ok_unfold in *. rewrite andb_true_iff in *. destruct Hok as [H1 H2].
    split; [rewrite Hlen; exact H1|].
    revert HE. unfold extend_names. destruct ns as [|k]; [congruence|].
    destruct l as [|h [|x t]]; try discriminate.
    destruct (nth_name (h :: x :: t) (S k)) as [b|] eqn:G.
    + destruct h as [src|]; [|discriminate].
      destruct (map_name (length src) cs (S k) src b) as [r|] eqn:R; [|discriminate].
      intros Heq. apply Ok_inj in Heq. subst l'.
      apply forallb_set_nth; [exact H2|].
      apply map_name_sound in R.
      assert (Hb : cell_ok (Some b) = true).
      { eapply forallb_nth; [exact H2|exact G|eapply nth_name_lt; eauto]. }
      assert (Hr : r <> []).
      { eapply Ext_nonempty; [exact R|]. destruct b; [discriminate|discriminate]. }
      destruct r; [congruence|reflexivity].
    + intros Heq. apply Ok_inj in Heq. subst l'. exact H2.
  - rewrite !first_name_nth. apply Hoth. auto.
Qed.

Lemma extend_class_wf cs ns n c c' :
  wf_class n c = true -> extend_class cs ns c = Ok c' ->
  wf_class n c' = true /\ class_key c' = class_key c.
Proof.
  unfold extend_class. destruct (extend_names cs ns (c_names c)) as [l|] eqn:E; [|discriminate].
  intros Hwf Heq. apply Ok_inj in Heq. subst c'.
  unfold wf_class in Hwf. rewrite !andb_true_iff in Hwf. destruct Hwf as [[[[[H1 H2] H3] H4] H5] H6].
  destruct (extend_names_names_ok _ _ _ _ _ H1 E) as [Hok Hfirst].
  unfold wf_class, class_key in *. cbn [c_names c_doc c_fields c_methods].
  rewrite Hok, Hfirst, H2, H3, H4, H5, H6. auto.
Qed.

Lemma extend_classes_wf cs ns n l l' :
  Forall2 (fun c c' => extend_class cs ns c = Ok c') l l' ->
  forallb (wf_class n) l = true ->
  forallb (wf_class n) l' = true /\ map class_key l' = map class_key l.
Proof.
  induction 1 as [|c c' l l' Hc _ IH]; [auto|]. cbn [forallb map]. rewrite andb_true_iff.
  intros [H1 H2]. destruct (extend_class_wf _ _ _ _ _ H1 Hc) as [Hw Hk].
  destruct (IH H2) as [Hws Hks]. rewrite Hw, Hws, Hk, Hks. auto.
Qed.

Theorem extend_idx_wf M ns M' :
  wf M = true -> extend_idx M ns = Ok M' ->
  wf M' = true /\ map class_key (ms_classes M') = map class_key (ms_classes M).
Proof.
  unfold extend_idx. destruct (mapM (extend_class (ms_classes M) ns) (ms_classes M)) as [cs'|] eqn:E; [|discriminate].
  intros Hwf Heq. apply Ok_inj in Heq. subst M'. apply mapM_ok in E.
  unfold wf in *. cbn [ms_ns ms_doc ms_classes]. rewrite !andb_true_iff in Hwf.
  destruct Hwf as [[[H1 H2] H3] H4].
  destruct (extend_classes_wf _ _ _ _ _ E H3) as [Hw Hk].
  rewrite H1, H2, Hw, Hk, H4. auto.
Qed.

Lemma innermost_nonempty b : b <> [] -> innermost b <> [].
Proof.
  intros Hb. destruct (innermost_spec b) as [(p & H)|[_ ->]]; [|exact Hb].
  apply join_split in H as [_ (_ & Hi & _)]. exact Hi.
Qed.

Lemma contract_names_names_ok n k l :
  names_ok n l = true ->
  names_ok n (contract_names (S k) l) = true /\ first_name (contract_names (S k) l) = first_name l.
Proof.
  intros Hok. pose proof (contract_names_spec (S k) l) as (Hlen & Hoth & _). split.
  - rewrite names_ok_unfold in *. rewrite andb_true_iff in *. destruct Hok as [H1 H2].
    split; [rewrite Hlen; exact H1|]. unfold contract_names.
    apply forallb_set_nth; [exact H2|].
    destruct (nth_name l (S k)) as [b|] eqn:G; [|reflexivity].
    assert (Hb : cell_ok (Some b) = true).
    { eapply forallb_nth; [exact H2|exact G|eapply nth_name_lt; eauto]. }
    assert (Hi : innermost b <> []) by (apply innermost_nonempty; destruct b; discriminate).
    cbn [cell_ok]. destruct (innermost b); [congruence|reflexivity].
  - rewrite !first_name_nth. apply Hoth. auto.
Qed.

Theorem contract_idx_wf M ns :
  wf M = true -> ns <> O ->
  wf (contract_idx M ns) = true /\
  map class_key (ms_classes (contract_idx M ns)) = map class_key (ms_classes M).
Proof.
  intros Hwf Hns. destruct ns as [|k]; [congruence|].
  unfold wf in *. unfold contract_idx. cbn [ms_ns ms_doc ms_classes]. rewrite !andb_true_iff in Hwf.
  destruct Hwf as [[[H1 H2] H3] H4].
  assert (H : forallb (wf_class (length (ms_ns M))) (map (contract_class (S k)) (ms_classes M)) = true /\
              map class_key (map (contract_class (S k)) (ms_classes M)) = map class_key (ms_classes M)).
  { clear H4. induction (ms_classes M) as [|c l IH]; [auto|]. cbn [forallb map] in *.
    rewrite andb_true_iff in H3. destruct H3 as [Hc Hl]. destruct (IH Hl) as [IH1 IH2].
    unfold wf_class in Hc. rewrite !andb_true_iff in Hc. destruct Hc as [[[[[C1 C2] C3] C4] C5] C6].
    destruct (contract_names_names_ok _ k _ C1) as [Hok Hfirst].
    unfold wf_class, class_key, contract_class in *. cbn [c_names c_doc c_fields c_methods].
    rewrite Hok, Hfirst, C2, C3, C4, C5, C6, IH1, IH2. auto. }
  destruct H as [Hw Hk]. rewrite H1, H2, Hw, Hk, H4. auto.
Qed.

(* ------------------------------------------------------------------ *)
(* concrete values: the repository's fixture (class rows A, A$B, A$B$C, Outer, Outer$Inner with
   one member each) extended by a chain of depth 4 *)

Definition nA : str := [110; 65].   (* nA *)
Definition nB : str := [110; 66].   (* nB *)
Definition ex_field : field := mkField [76; 65; 59] [Some [117]; Some [102]] (Some [100; 111; 99]).
Definition ex_meth : meth := mkMeth [40; 73; 41; 86] [Some [109]; Some [110]] None [mkParam 0 [None; Some [112]] (Some [100])].
Definition row2 (a b : str) : names := [Some a; Some b].

Definition ex_in : mappings := mkMappings [nA; nB] None
  [ mkClass (row2 [65; 36; 66; 36; 67] [99]) (Some [100]) [] [];          (* A$B$C -> c, listed before its outer classes *)
    mkClass (row2 [65] [97]) None [ex_field] [];                          (* A -> a *)
    mkClass (row2 [65; 36; 66] [98]) None [] [ex_meth];                   (* A$B -> b *)
    mkClass (row2 [79] [112; 47; 77; 79]) None [] [ex_meth];              (* O -> p/MO *)
    mkClass (row2 [79; 36; 73] [77; 73]) None [ex_field] [];              (* O$I -> MI *)
    mkClass (row2 [65; 36; 66; 36; 67; 36; 68] [100]) None [] [];         (* A$B$C$D -> d *)
    mkClass (row2 [65; 36; 66; 36; 67; 36; 68; 36; 69] [101]) None [] []; (* A$B$C$D$E -> e *)
    mkClass [Some [90; 36; 89]; None] None [] [] ].                       (* Z$Y, no name in nB, outer class absent *)

Definition ex_out : mappings := mkMappings [nA; nB] None
  [ mkClass (row2 [65; 36; 66; 36; 67] [97; 36; 98; 36; 99]) (Some [100]) [] [];
    mkClass (row2 [65] [97]) None [ex_field] [];
    mkClass (row2 [65; 36; 66] [97; 36; 98]) None [] [ex_meth];
    mkClass (row2 [79] [112; 47; 77; 79]) None [] [ex_meth];
    mkClass (row2 [79; 36; 73] [112; 47; 77; 79; 36; 77; 73]) None [ex_field] [];
    mkClass (row2 [65; 36; 66; 36; 67; 36; 68] [97; 36; 98; 36; 99; 36; 100]) None [] [];
    mkClass (row2 [65; 36; 66; 36; 67; 36; 68; 36; 69] [97; 36; 98; 36; 99; 36; 100; 36; 101]) None [] [];
    mkClass [Some [90; 36; 89]; None] None [] [] ].

(* A -> a, A$B -> p/b : the inner class's name carries a package *)
Definition ex_pkg : mappings := mkMappings [nA; nB] None
  [ mkClass (row2 [65] [97]) None [] []; mkClass (row2 [65; 36; 66] [112; 47; 98]) None [] [] ].
(* A$B -> b without A;  A (unnamed in nB), A$B -> b *)
Definition ex_missing : mappings := mkMappings [nA; nB] None [ mkClass (row2 [65; 36; 66] [98]) None [] [] ].
Definition ex_unnamed : mappings := mkMappings [nA; nB] None
  [ mkClass [Some [65]; None] None [] []; mkClass (row2 [65; 36; 66] [98]) None [] [] ].

Definition examples : Prop :=
  wf ex_in = true /\ simple_names ex_in 1 = true /\ ns_index (ms_ns ex_in) nB = Some 1%nat /\
  extend ex_in nB = Ok ex_out /\ contract ex_out nB = Ok ex_in /\ ex_out <> ex_in /\
  Chain (ms_classes ex_in) 1 [65; 36; 66; 36; 67; 36; 68; 36; 69] [[97]; [98]; [99]; [100]] /\
  extend ex_in nA = Err /\ contract ex_in nA = Err /\
  extend ex_missing nB = Err /\ Broken (ms_classes ex_missing) 1 [65; 36; 66] /\
  extend ex_unnamed nB = Err /\ Broken (ms_classes ex_unnamed) 1 [65; 36; 66] /\
  (* the hypothesis of contract_extend is needed *)
  wf ex_pkg = true /\ simple_names ex_pkg 1 = false /\
  exists M', extend ex_pkg nB = Ok M' /\ contract M' nB <> Ok ex_pkg.

Theorem examples_hold : examples.
Proof.
  unfold examples.
  split; [vm_compute; reflexivity|]. split; [vm_compute; reflexivity|]. split; [vm_compute; reflexivity|].
  split; [vm_compute; reflexivity|]. split; [vm_compute; reflexivity|]. split; [vm_compute; discriminate|].
  split.
  { change [[97]; [98]; [99]; [100]] with (((([] ++ [[97]]) ++ [[98]]) ++ [[99]]) ++ [[100]]).
    eapply Chain_nested; [vm_compute; reflexivity|vm_compute; reflexivity|vm_compute; reflexivity|].
    eapply Chain_nested; [vm_compute; reflexivity|vm_compute; reflexivity|vm_compute; reflexivity|].
    eapply Chain_nested; [vm_compute; reflexivity|vm_compute; reflexivity|vm_compute; reflexivity|].
    eapply Chain_nested; [vm_compute; reflexivity|vm_compute; reflexivity|vm_compute; reflexivity|].
    apply Chain_top. vm_compute. reflexivity. }
  split; [vm_compute; reflexivity|]. split; [vm_compute; reflexivity|].
  split; [vm_compute; reflexivity|].
  split; [apply (map_name_err_iff (ms_classes ex_missing) 1 [65; 36; 66] []); vm_compute; reflexivity|].
  split; [vm_compute; reflexivity|].
  split; [apply (map_name_err_iff (ms_classes ex_unnamed) 1 [65; 36; 66] []); vm_compute; reflexivity|].
  split; [vm_compute; reflexivity|]. split; [vm_compute; reflexivity|].
  eexists. split; [vm_compute; reflexivity|]. vm_compute. discriminate.
Qed.

(* ------------------------------------------------------------------ *)
(* The property speaks of a target namespace at a NON-FIRST index.  This is [extend_err] restricted
   to that domain: it says nothing about asking for the first namespace (where the code at present
   succeeds on a set without classes and fails otherwise — behaviour of the code, followed by the
   model, not promised by the property), so it survives an early bail for namespace 0 in `extend`. *)
Corollary extend_err_nonfirst M name ns :
  wf M = true -> ns_index (ms_ns M) name = Some ns -> ns <> O ->
  (extend M name = Err <->
   exists c src b, In c (ms_classes M) /\ class_key c = Some src /\
     nth_name (c_names c) ns = Some b /\ Broken (ms_classes M) ns src).
Proof.
  intros Hwf Hi Hns. rewrite (extend_err M name Hwf). split.
  - intros [H|[[H _]|(ns' & c & src & b & H & R)]].
    + rewrite Hi in H. discriminate.
    + rewrite Hi in H. injection H as H. contradiction.
    + rewrite Hi in H. injection H as H. subst ns'. exists c, src, b. exact R.
  - intros (c & src & b & H). right; right. exists ns, c, src, b. split; [exact Hi|exact H].
Qed.
