(* C11 theory, second part: contraction, contract ∘ extend = id under [simple_names],
   preservation of well-formedness, the closed form of the extended name along a chain of
   outer classes, and the concrete examples (non-vacuity, necessity of the hypothesis). *)
From FB Require Import C11.Model C18.Theory C11.Theory.
From Coq Require Import Arith.
Arguments N.add : simpl never.
Arguments N.eqb : simpl never.

(* ------------------------------------------------------------------ *)
(* contraction *)

Lemma innermost_spec b :
  (exists p, split_inner b = Some (p, innermost b)) \/ (split_inner b = None /\ innermost b = b).
Proof.
  unfold innermost. destruct (split_inner b) as [[p i]|]; [left; exists p; reflexivity|right; auto].
Qed.

(* one row: only the cell ns changes, to the innermost simple name *)
Definition row_contract (ns : nat) (l l' : names) : Prop :=
  length l' = length l /\
  (forall j, j <> ns -> nth_name l' j = nth_name l j) /\
  nth_name l' ns = match nth_name l ns with Some b => Some (innermost b) | None => None end.

Lemma contract_names_spec ns l : row_contract ns l (contract_names ns l).
Proof.
  unfold row_contract, contract_names. split; [apply set_nth_length|].
  split; [intros j Hj; unfold nth_name; apply nth_set_nth_neq; auto|].
  destruct (lt_dec ns (length l)) as [Hlt|Hge].
  - unfold nth_name at 1. apply nth_set_nth_eq. exact Hlt.
  - unfold nth_name. rewrite (nth_overflow l) by lia.
    rewrite nth_overflow; [reflexivity|]. rewrite set_nth_length. lia.
Qed.

Definition contract_rel (M : mappings) (ns : nat) (M' : mappings) : Prop :=
  ms_ns M' = ms_ns M /\ ms_doc M' = ms_doc M /\
  Forall2 (fun c c' => row_contract ns (c_names c) (c_names c') /\
                       c_doc c' = c_doc c /\ c_fields c' = c_fields c /\ c_methods c' = c_methods c)
          (ms_classes M) (ms_classes M').

Theorem contract_idx_spec M ns : contract_rel M ns (contract_idx M ns).
Proof.
  unfold contract_rel, contract_idx. cbn [ms_ns ms_doc ms_classes].
  split; [reflexivity|]. split; [reflexivity|].
  induction (ms_classes M) as [|c l IH]; cbn [map]; constructor; [|exact IH].
  unfold contract_class. cbn. split; [apply contract_names_spec|auto].
Qed.

Theorem contract_spec M name :
  (forall M', contract M name = Ok M' ->
     exists ns, ns_index (ms_ns M) name = Some ns /\ contract_rel M ns M') /\
  (contract M name = Err <-> ns_index (ms_ns M) name = None).
Proof.
  unfold contract. destruct (ns_index (ms_ns M) name) as [ns|].
  - split; [|split; discriminate]. intros M' [= <-]. exists ns. split; [reflexivity|apply contract_idx_spec].
  - split; [discriminate|split; reflexivity].
Qed.

(* ------------------------------------------------------------------ *)
(* contract ∘ extend *)

Lemma name_cond_nonempty src b : name_cond src b = true -> b <> [].
Proof.
  unfold name_cond. rewrite andb_true_iff, negb_true_iff. intros [H _]. apply is_nil_false. exact H.
Qed.

(* the extended name of a class under [name_cond] is non-empty and does not end with `/` *)
Lemma Ext_good_tail cs ns src b r :
  Ext cs ns src b r -> name_cond src b = true -> r <> [] /\ ends_with_char cSLASH r = false.
Proof.
  intros HE HC. pose proof (name_cond_nonempty _ _ HC) as Hb. unfold name_cond in HC.
  destruct HE as [src b E|src b p i pc mp r E F G HE'].
  - rewrite E in HC. rewrite !andb_true_iff, !negb_true_iff in HC. tauto.
  - rewrite E in HC. rewrite !andb_true_iff, !negb_true_iff in HC. destruct HC as (_ & _ & HS).
    unfold join_inner. split; [destruct r; discriminate|].
    rewrite ends_with_char_app by discriminate.
    change (cDOLLAR :: b) with ([cDOLLAR] ++ b). rewrite ends_with_char_app by exact Hb.
    apply ends_with_char_notin. apply mem_N_false. exact HS.
Qed.

Lemma simple_row_cond ns c src b :
  simple_row ns (c_names c) = true -> class_key c = Some src -> nth_name (c_names c) ns = Some b ->
  name_cond src b = true.
Proof.
  unfold simple_row, class_key. intros H K G. rewrite G, K in H. exact H.
Qed.

Lemma Ext_innermost cs ns src b r :
  (forall c, In c cs -> simple_row ns (c_names c) = true) ->
  Ext cs ns src b r -> name_cond src b = true -> innermost r = b.
Proof.
  intros Hall HE HC. pose proof (name_cond_nonempty _ _ HC) as Hb.
  destruct HE as [src b E|src b p i pc mp r E F G HE'].
  - unfold name_cond in HC. rewrite E in HC. rewrite !andb_true_iff, !negb_true_iff in HC.
    destruct HC as (_ & HS & _). unfold innermost. destruct (split_inner b); [discriminate|reflexivity].
  - apply find_class_spec in F as [Hin Hk].
    pose proof (simple_row_cond _ _ _ _ (Hall pc Hin) Hk G) as HCp.
    destruct (Ext_good_tail _ _ _ _ _ HE' HCp) as [Hr1 Hr2].
    unfold name_cond in HC. rewrite E in HC. rewrite !andb_true_iff, !negb_true_iff in HC.
    destruct HC as (_ & HD & HS). apply mem_N_false in HD. apply mem_N_false in HS.
    unfold innermost. rewrite split_join; [reflexivity|].
    unfold inner_ok. auto.
Qed.

Lemma contract_extend_names cs ns l l' :
  (forall c, In c cs -> simple_row ns (c_names c) = true) -> simple_row ns l = true ->
  extend_names cs ns l = Ok l' -> contract_names ns l' = l.
Proof.
  intros Hall Hrow. unfold extend_names. destruct ns as [|n]; [discriminate|].
  destruct l as [|h [|x t]]; try discriminate.
  destruct (nth_name (h :: x :: t) (S n)) as [b|] eqn:G.
  - destruct h as [src|]; [|discriminate].
    destruct (map_name (length src) cs (S n) src b) as [r|] eqn:R; [|discriminate].
    intros Heq. apply Ok_inj in Heq. subst l'.
    apply map_name_sound in R.
    assert (HC : name_cond src b = true).
    { unfold simple_row in Hrow. rewrite G in Hrow. exact Hrow. }
    pose proof (Ext_innermost _ _ _ _ _ Hall R HC) as Hi.
    unfold contract_names. unfold nth_name at 1.
    rewrite nth_set_nth_eq by (eapply nth_name_lt; eauto).
    rewrite set_nth_twice, Hi.
    pose proof (set_nth_nth (Some src :: x :: t) (S n) None) as H.
    unfold nth_name in G. rewrite G in H. exact H.
  - intros Heq. apply Ok_inj in Heq. subst l'. unfold contract_names. rewrite G.
    pose proof (set_nth_nth (h :: x :: t) (S n) None) as H.
    unfold nth_name in G. rewrite G in H. exact H.
Qed.

Lemma contract_extend_classes cs ns l l' :
  (forall c, In c cs -> simple_row ns (c_names c) = true) ->
  (forall c, In c l -> simple_row ns (c_names c) = true) ->
  Forall2 (fun c c' => extend_class cs ns c = Ok c') l l' ->
  map (contract_class ns) l' = l.
Proof.
  intros Hall Hl HF. induction HF as [|c c' l l' Hc _ IH]; [reflexivity|].
  cbn [map]. f_equal.
  - unfold extend_class in Hc. destruct (extend_names cs ns (c_names c)) as [row|] eqn:E; [|discriminate].
    apply Ok_inj in Hc. subst c'. unfold contract_class. cbn [c_names c_doc c_fields c_methods].
    rewrite (contract_extend_names _ _ _ _ Hall (Hl c (or_introl eq_refl)) E).
    destruct c; reflexivity.
  - apply IH. intros d Hd. apply Hl. right. exact Hd.
Qed.

Theorem contract_extend_idx M ns M' :
  simple_names M ns = true -> extend_idx M ns = Ok M' -> contract_idx M' ns = M.
Proof.
  unfold simple_names. rewrite forallb_forall. intros Hall.
  unfold extend_idx. destruct (mapM (extend_class (ms_classes M) ns) (ms_classes M)) as [cs'|] eqn:E; [|discriminate].
  intros Heq. apply Ok_inj in Heq. subst M'. apply mapM_ok in E.
  unfold contract_idx. cbn [ms_ns ms_doc ms_classes].
  rewrite (contract_extend_classes _ _ _ _ Hall Hall E). destruct M; reflexivity.
Qed.

Theorem contract_extend M name ns M' :
  ns_index (ms_ns M) name = Some ns -> simple_names M ns = true ->
  extend M name = Ok M' -> contract M' name = Ok M.
Proof.
  intros Hns Hs. unfold extend, contract. rewrite Hns. intros HE.
  pose proof (extend_idx_spec _ _ _ HE) as [(HN & _) _]. rewrite HN, Hns.
  rewrite (contract_extend_idx _ _ _ Hs HE). reflexivity.
Qed.

(* ------------------------------------------------------------------ *)
(* the recursion with the fuel the model uses *)

Theorem map_name_ok_iff cs ns src b r :
  map_name (length src) cs ns src b = Ok r <-> Ext cs ns src b r.
Proof.
  split; [apply map_name_sound|]. intros H. apply map_name_complete; [exact H|lia].
Qed.

Theorem map_name_err_iff cs ns src b :
  map_name (length src) cs ns src b = Err <-> Broken cs ns src.
Proof.
  split; [apply map_name_err_sound; lia|]. intros H. apply map_name_err_complete. exact H.
Qed.
