(* X27 — the translation [tr] of X27/Tr.v discharges the hypothesis [code_views] of C07_written_operands, and the composed
   theorems: write (C02's writer model) after remap (C07's interpreter of the regenerated table), read back by C02's
   decoder and by C01's reader model (through coq/X12). *)
From Coq Require Import String Lia ZArith.
From FB Require Import C07.BridgeDefs C07.Model C07.Spec C07.Theory C07.Tree C07.TreeTheory C07.Laws C07.Laws2 C07.Occ C07.Bridge X27.Tr.
From FB Require C02.Class C02.Decode C02.TheoryC1 C02.TheoryC2 C02.TheoryC8 C02.TheoryC10 C02.TheoryU.
From FB Require C01.Model C01.Pool C01.Resolve C01.Mutf8 C01.Opcodes C01.ClassFile C01.Attr C01.Tables.
From FB Require X12.BridgeDefs X12.BridgeShape X12.BridgePool X12.BridgeClass.
Local Open Scope string_scope.

Lemma obind_some {A B} (a : option A) (f : A -> option B) y : obind a f = Some y -> exists x, a = Some x /\ f x = Some y.
Proof. destruct a as [x|]; [|discriminate]. intros H. exists x. split; [reflexivity|exact H]. Qed.

Lemma omapM_nth {A B} (f : A -> option B) : forall l l' j x,
  omapM f l = Some l' -> nth_error l j = Some x -> exists y, nth_error l' j = Some y /\ f x = Some y.
Proof.
  induction l as [|a l IH]; intros l' j x; [destruct j; discriminate|]. cbn [omapM].
  destruct (f a) as [b|] eqn:E; [|discriminate]. destruct (omapM f l) as [r|]; [|discriminate]. intros [= <-].
  destruct j as [|j]; cbn [nth_error].
  - intros [= <-]. exists b. split; [reflexivity|exact E].
  - intros H. exact (IH r j x eq_refl H).
Qed.

Lemma fld_field_of fs k x : field_of fs k = Ok x -> fld fs k = Some x.
Proof. unfold fld. intros ->. reflexivity. Qed.

Ltac binds H := repeat (let x := fresh "x" in let E := fresh "E" in apply obind_some in H; destruct H as (x & E & H)).

(* the instructions of [tr v] are the instructions of v, one by one *)
Lemma tr_insn_at v t j k i :
  tr v = Some t -> sub (insn_path j k) v = Some i ->
  exists cm c ci, nth_error (C02.Class.k_methods t) j = Some cm /\ C02.Class.md_code cm = Some c /\
                  nth_error (C02.Class.c_insns c) k = Some ci /\ tr_insn i = Some (snd ci).
Proof.
  intros Ht Hs. destruct v as [| |n0 c0 fs| | | |]; try discriminate. cbn [tr] in Ht.
  unfold insn_path in Hs. cbn [sub] in Hs.
  destruct (field_of fs "methods") as [ms|] eqn:Ems; [|discriminate].
  destruct ms as [| | |ml| | |]; try discriminate.
  destruct (nth_error ml j) as [m|] eqn:Ej; [|discriminate].
  destruct m as [| |n1 c1 mfs| | | |]; try discriminate.
  destruct (field_of mfs "code") as [cv|] eqn:Ecode; [|discriminate].
  destruct cv as [| | | | |cn|]; try discriminate.
  destruct cn as [| |n2 c2 cfs| | | |]; try discriminate.
  destruct (field_of cfs "instructions") as [iv|] eqn:Eis; [|discriminate].
  destruct iv as [| | |il| | |]; try discriminate.
  destruct (nth_error il k) as [e|] eqn:Ek; [|discriminate].
  destruct e as [| |n3 c3 efs| | | |]; try discriminate.
  destruct (field_of efs "instruction") as [i0|] eqn:Ei; [|discriminate]. injection Hs as ->.
  (* the class *)
  binds Ht.
  match goal with H : obind (fld fs "methods") (list_of tr_method) = Some ?y |- _ => rename H into Hm; rename y into cms end.
  rewrite (fld_field_of _ _ _ Ems) in Hm. cbn [obind list_of] in Hm.
  destruct (omapM_nth tr_method ml cms j _ Hm Ej) as (cm & Hcm & Htm).
  destruct (_ && _) in Ht; [|discriminate]. injection Ht as <-. cbn [C02.Class.k_methods].
  (* the method *)
  cbn [tr_method] in Htm. binds Htm.
  match goal with H : obind (fld mfs "code") (opt_of tr_code) = Some ?y |- _ => rename H into Hc; rename y into oc end.
  rewrite (fld_field_of _ _ _ Ecode) in Hc. cbn [obind opt_of] in Hc.
  destruct (tr_code (VNode n2 c2 cfs)) as [cc|] eqn:Ecc; [|discriminate]. injection Hc as <-.
  destruct (_ && _) in Htm; [|discriminate]. injection Htm as <-.
  (* the code *)
  cbn [tr_code] in Ecc. binds Ecc.
  match goal with H : obind (fld cfs "instructions") (list_of tr_entry) = Some ?y |- _ => rename H into Hi; rename y into cis end.
  rewrite (fld_field_of _ _ _ Eis) in Hi. cbn [obind list_of] in Hi.
  destruct (omapM_nth tr_entry il cis k _ Hi Ek) as (ci & Hci & Hte).
  destruct (_ && _) in Ecc; [|discriminate]. injection Ecc as <-.
  (* the entry *)
  cbn [tr_entry] in Hte. binds Hte.
  match goal with H : obind (fld efs "instruction") tr_insn = Some ?y |- _ => rename H into Hin; rename y into cin end.
  rewrite (fld_field_of _ _ _ Ei) in Hin. cbn [obind] in Hin.
  destruct (all_fields is_none efs ["frame"]); [|discriminate]. injection Hte as <-.
  eexists. eexists. eexists. split; [exact Hcm|]. split; [reflexivity|]. split; [exact Hci|]. exact Hin.
Qed.

(* [tr] discharges the hypothesis of C07_written_operands *)
Theorem tr_views v t : tr v = Some t -> code_views v t.
Proof.
  intros Ht j k i' o' Hs Ho. destruct (tr_insn_at v t j k i' Ht Hs) as (cm & c & ci & H1 & H2 & H3 & H4).
  exists cm, c, ci. split; [exact H1|]. split; [exact H2|]. split; [exact H3|].
  unfold tr_insn in H4. rewrite Ho in H4. injection H4 as <-. reflexivity.
Qed.

(* ------------------------------------------------------------------ *)
(* WRITE o REMAP, read by C02's decoder: C07_written_operands without its hypothesis code_views *)
Theorem written_operands_tr (R : remapper) (v v' : val) (t : C02.Class.cclass) (cbytes : list N) (aux : C02.Class.class_aux) :
  has_ty type_defs class_ty v = true ->
  remap_val gen_table R None class_ty v = Ok v' ->
  tr v' = Some t ->
  C02.TheoryC8.cclass_ok t = true ->
  C02.Class.write_class_aux t = C02.Class.WOK (cbytes, aux) ->
  forall cp, C02.TheoryC1.agrees (C02.Class.a_pool aux) cp ->
  forall j k i o, sub (insn_path j k) v = Some i -> op_ref i = Some o ->
    exists o' w labs pos q,
      remap_oref R o = Ok o' /\
      nth_error (C02.Class.a_codes aux) j = Some (Some (w, labs, pos)) /\ nth_error pos k = Some q /\
      written_at cp w q o'.
Proof. intros Hty Hr Ht. exact (written_operands R v v' t cbytes aux Hty Hr (tr_views v' t Ht)). Qed.

(* the same with the range of the index (needed to hand the bytes to C01's instruction decoder) *)
Definition written_at_s (cp : C02.Decode.cpool) (w : list N) (q : Z) (o : oref) : Prop :=
  match o with
  | OClass op c post =>
      exists x, (0 <= x <= 65535)%Z /\ C02.TheoryC10.bytes_at w q (op :: C02.Model.be16 x ++ post)%list /\
                C02.Decode.get_class cp x = Some (C02.Class.mutf8 c)
  | OField op c n d =>
      exists x, (0 <= x <= 65535)%Z /\ C02.TheoryC10.bytes_at w q (op :: C02.Model.be16 x ++ [])%list /\
                C02.Decode.get_fieldref cp x = Some (mref c n d)
  | OMethod op b c n d =>
      exists x, (0 <= x <= 65535)%Z /\ C02.TheoryC10.bytes_at w q (op :: C02.Model.be16 x ++ [])%list /\
                (if b then C02.Decode.get_imethodref cp x else C02.Decode.get_methodref cp x) = Some (mref c n d)
  | OIface c n d =>
      exists x cnt, (0 <= x <= 65535)%Z /\
                    C02.TheoryC10.bytes_at w q (185%N :: C02.Model.be16 x ++ [C02.Model.byte_of cnt; 0%N])%list /\
                    C02.Decode.get_imethodref cp x = Some (mref c n d)
  end.

Lemma refers_now_s {A} (g : C02.Decode.cpool -> Z -> option A) (x : A) p i cp :
  C02.TheoryC2.refers g x p i -> C02.TheoryC1.agrees p cp -> (0 <= i <= 65535)%Z /\ g cp i = Some x.
Proof. intros (_ & Hi & H) Hag. split; [exact Hi|exact (H p cp (C02.TheoryC2.pool_ext_refl p) Hag)]. Qed.

Theorem written_operands_tr_s (R : remapper) (v v' : val) (t : C02.Class.cclass) (cbytes : list N) (aux : C02.Class.class_aux) :
  has_ty type_defs class_ty v = true ->
  remap_val gen_table R None class_ty v = Ok v' ->
  tr v' = Some t ->
  C02.TheoryC8.cclass_ok t = true ->
  C02.Class.write_class_aux t = C02.Class.WOK (cbytes, aux) ->
  forall cp, C02.TheoryC1.agrees (C02.Class.a_pool aux) cp ->
  forall j k i o, sub (insn_path j k) v = Some i -> op_ref i = Some o ->
    exists o' w labs pos q,
      remap_oref R o = Ok o' /\
      nth_error (C02.Class.a_codes aux) j = Some (Some (w, labs, pos)) /\ nth_error pos k = Some q /\
      written_at_s cp w q o'.
Proof.
  intros Hty Hr Ht Hok Hw cp Hag j k i o Hi Ho.
  rewrite (remap_class_spec_full R None v Hty) in Hr. unfold spec_remap_val in Hr. rewrite RTo_eq in Hr.
  destruct (sub_ty_typed type_defs RTo (insn_path j k) class_ty None v i insn_t (insn_path_walk j k) Hty Hi) as (ctx' & Hst & _).
  destruct (spec_val_sub type_defs RTo R (insn_path j k) v class_ty None v' insn_t ctx' i Hr Hst) as (i' & Hi' & Hs).
  destruct (insn_commutes R ctx' i i' o Hs Ho) as (o' & Hro & Ho').
  destruct (tr_views v' t Ht j k i' o' Hi' Ho') as (cm & c & ci & Hcm & Hc & Hci & Hview).
  pose proof (C07.BridgeLift.class_operands_ok t cbytes aux Hok Hw) as F.
  destruct (C02.TheoryC10.Forall2_nth_inv _ _ _ j cm F Hcm) as (ca & Hca & Hden).
  unfold C07.BridgeLift.method_ok in Hden. rewrite Hc in Hden. destruct ca as [[[w labs] pos]|]; [|contradiction].
  unfold C07.BridgeLift.code_ok in Hden. cbn [fst snd] in Hden.
  destruct (C02.TheoryC10.Forall2_nth_inv _ _ _ k ci Hden Hci) as (q & Hq & Hop).
  rewrite Hview in Hop. exists o', w, labs, pos, q. split; [exact Hro|]. split; [exact Hca|]. split; [exact Hq|].
  destruct o' as [op c0 post|op c0 n0 d0|op b c0 n0 d0|c0 n0 d0]; cbn [cinsn_of C02.TheoryC10.operand_ok written_at_s] in Hop |- *.
  - destruct Hop as (x & Hb & Hd). cbn [C02.TheoryC10.iconst_refers] in Hd.
    destruct (refers_now_s _ _ _ _ cp Hd Hag) as [Hx Hg]. exists x. split; [exact Hx|]. split; [exact Hb|exact Hg].
  - destruct Hop as (x & Hb & Hd). cbn [C02.TheoryC10.iconst_refers] in Hd.
    destruct (refers_now_s _ _ _ _ cp Hd Hag) as [Hx Hg]. exists x. split; [exact Hx|]. split; [exact Hb|exact Hg].
  - destruct b; destruct Hop as (x & Hb & Hd); cbn [C02.TheoryC10.iconst_refers] in Hd;
      destruct (refers_now_s _ _ _ _ cp Hd Hag) as [Hx Hg]; (exists x; split; [exact Hx|]; split; [exact Hb|exact Hg]).
  - destruct Hop as (x & cnt & Hb & Hd & Ha). destruct (refers_now_s _ _ _ _ cp Hd Hag) as [Hx Hg].
    exists x, cnt. split; [exact Hx|]. split; [exact Hb|exact Hg].
Qed.

(* ------------------------------------------------------------------ *)
(* … read by C01's reader model (through coq/X12) *)

(* the instruction C01's reader delivers for the operand: constructor = opcode, the resolved reference, the dimensions *)
Definition xinsn_of (o : oref) : C01.Resolve.xinsn :=
  match o with
  | OClass op c post => C01.Resolve.XGen op (C01.Resolve.XV (C01.Pool.VClass c) :: map C01.Resolve.XN post)
  | OField op c n d => C01.Resolve.XGen op [C01.Resolve.XV (C01.Pool.VField c n d)]
  | OMethod op b c n d => C01.Resolve.XGen op [C01.Resolve.XV (C01.Pool.VMethod c n d b)]
  | OIface c n d => C01.Resolve.XGen 185 [C01.Resolve.XV (C01.Pool.VMethod c n d true)]
  end.

(* the opcodes op_ref produces *)
Definition oref_ok (o : oref) : bool :=
  match o with
  | OClass op _ post =>
      match post with
      | [] => (op =? 187)%N || (op =? 189)%N || (op =? 192)%N || (op =? 193)%N
      | [d] => (op =? 197)%N && (d <? 256)%N
      | _ => false
      end
  | OField op _ _ _ => (op =? 178)%N || (op =? 179)%N || (op =? 180)%N || (op =? 181)%N
  | OMethod op b _ _ _ => ((op =? 182)%N && negb b) || (op =? 183)%N || (op =? 184)%N
  | OIface _ _ _ => true
  end.

(* a string C01's decoder reads back as it is from C02's encoding (C02_bridge_mutf8): code points below 0x110000, no high
   surrogate immediately followed by a low one *)
Definition str_ok (s : str) : Prop := C02.TheoryU.cps_ok s /\ C02.TheoryU.nsp s = true.
Definition oref_strs_ok (o : oref) : Prop :=
  match o with
  | OClass _ c _ => str_ok c
  | OField _ c n d | OMethod _ _ c n d | OIface c n d => str_ok c /\ str_ok n /\ str_ok d
  end.

(* C01's second-pass decoder ([plain_insn] = C01.Model.dec1 on the bytes: C02_bridge_plain) reads the bytes at offset q as
   one instruction, and C01's resolve_insn resolves it in pool P to [xinsn_of o] *)
Definition c01_reads (P : C01.Pool.pool) (w : list N) (q : Z) (o : oref) : Prop :=
  exists bs ins, C02.TheoryC10.bytes_at w q bs /\ X12.BridgeDefs.plain_insn bs = Some ins /\
                 C01.Resolve.resolve_insn P [] (C01.Model.map_insn Some ins) = Ok (xinsn_of o).

Definition D := X12.BridgePool.sdec C01.Mutf8.mutf8_dec.
Lemma D_ok s : str_ok s -> D (C02.Class.mutf8 s) = s.
Proof. intros [H1 H2]. exact (X12.BridgeClass.sdec_mutf8 s H1 H2). Qed.

Lemma op_cases4 (op a b c d : N) : ((op =? a) || (op =? b) || (op =? c) || (op =? d))%N = true -> op = a \/ op = b \/ op = c \/ op = d.
Proof.
  intros H. apply Bool.orb_true_iff in H. destruct H as [H|H]; [|right; right; right; apply N.eqb_eq; exact H].
  apply Bool.orb_true_iff in H. destruct H as [H|H]; [|right; right; left; apply N.eqb_eq; exact H].
  apply Bool.orb_true_iff in H. destruct H as [H|H]; [left|right; left]; apply N.eqb_eq; exact H.
Qed.

Lemma bound16 x : (0 <= x <= 65535)%Z -> (0 <= x < 65536)%Z. Proof. lia. Qed.

Lemma written_s_c01 cs w q o :
  oref_ok o = true -> oref_strs_ok o ->
  written_at_s (C02.TheoryC1.cslots cs 1) w q o -> c01_reads (X12.BridgePool.rpool C01.Mutf8.mutf8_dec cs) w q o.
Proof.
  intros Hok Hs Hw. unfold c01_reads.
  destruct o as [op c post|op c n d|op b c n d|c n d]; cbn [oref_ok oref_strs_ok written_at_s xinsn_of] in *.
  - destruct Hw as (x & Hx & Hb & Hg). apply X12.BridgePool.ag_class with (dec := C01.Mutf8.mutf8_dec) in Hg.
    fold D in Hg. rewrite (D_ok c Hs) in Hg.
    destruct post as [|d [|d2 post]]; [| |discriminate].
    + destruct (op_cases4 _ _ _ _ _ Hok) as [-> | [-> | [-> | ->]]];
        (eexists; eexists; split; [exact Hb|]; split;
         [eapply X12.BridgeShape.plain_cp16 with (k := 6%N) (rs := []) (ops := []); [reflexivity|exact (bound16 x Hx)|reflexivity]|];
         cbn [C01.Model.map_insn C01.Resolve.resolve_insn C01.Pool.map_res C01.Resolve.resolve_op map C01.Model.map_op]; unfold C01.Pool.resolve_kind;
         cbn [N.eqb Pos.eqb]; rewrite Hg; reflexivity).
    + apply andb_prop in Hok. destruct Hok as [Ho Hd]. apply N.eqb_eq in Ho. subst op. apply N.ltb_lt in Hd.
      eexists. eexists. split; [exact Hb|]. split.
      * apply (X12.BridgeShape.plain_cp16 197%N 197%N 6%N [C01.Opcodes.RU8] x [d] [C01.Model.OpN d]); [reflexivity|exact (bound16 x Hx)|reflexivity].
      * cbn [C01.Model.map_insn C01.Resolve.resolve_insn C01.Pool.map_res C01.Resolve.resolve_op map C01.Model.map_op]. unfold C01.Pool.resolve_kind.
        cbn [N.eqb Pos.eqb]. rewrite Hg. reflexivity.
  - destruct Hw as (x & Hx & Hb & Hg). apply X12.BridgePool.ag_fieldref with (dec := C01.Mutf8.mutf8_dec) in Hg.
    cbn [mref C02.Class.mr_class C02.Class.mr_name C02.Class.mr_desc] in Hg. fold D in Hg.
    destruct Hs as (S1 & S2 & S3). rewrite (D_ok c S1), (D_ok n S2), (D_ok d S3) in Hg.
    destruct (op_cases4 _ _ _ _ _ Hok) as [-> | [-> | [-> | ->]]];
      (eexists; eexists; split; [exact Hb|]; split;
       [eapply X12.BridgeShape.plain_cp16 with (k := 1%N) (rs := []) (ops := []); [reflexivity|exact (bound16 x Hx)|reflexivity]|];
       cbn [C01.Model.map_insn C01.Resolve.resolve_insn C01.Pool.map_res C01.Resolve.resolve_op map C01.Model.map_op]; unfold C01.Pool.resolve_kind;
       cbn [N.eqb Pos.eqb]; rewrite Hg; reflexivity).
  - destruct Hw as (x & Hx & Hb & Hg). destruct Hs as (S1 & S2 & S3).
    apply Bool.orb_true_iff in Hok. destruct Hok as [Hok|Hok]; [apply Bool.orb_true_iff in Hok; destruct Hok as [Hok|Hok]|].
    + apply andb_prop in Hok. destruct Hok as [Ho Hb0]. apply N.eqb_eq in Ho. subst op. destruct b; [discriminate|].
      apply X12.BridgePool.ag_methodref with (dec := C01.Mutf8.mutf8_dec) in Hg.
      cbn [mref C02.Class.mr_class C02.Class.mr_name C02.Class.mr_desc] in Hg. fold D in Hg.
      rewrite (D_ok c S1), (D_ok n S2), (D_ok d S3) in Hg.
      eexists. eexists. split; [exact Hb|]. split.
      * apply (X12.BridgeShape.plain_cp16 182%N 182%N 2%N [] x [] []); [reflexivity|exact (bound16 x Hx)|reflexivity].
      * cbn [C01.Model.map_insn C01.Resolve.resolve_insn C01.Pool.map_res C01.Resolve.resolve_op map C01.Model.map_op]. unfold C01.Pool.resolve_kind.
        cbn [N.eqb Pos.eqb]. rewrite Hg. reflexivity.
    + apply N.eqb_eq in Hok. subst op.
      assert (Hg' : C01.Pool.get_any_method_ref (X12.BridgePool.rpool C01.Mutf8.mutf8_dec cs) (Z.to_N x) = Ok (C01.Pool.VMethod c n d b)).
      { destruct b; [apply X12.BridgePool.ag_any_imethod with (dec := C01.Mutf8.mutf8_dec) in Hg|apply X12.BridgePool.ag_any_method with (dec := C01.Mutf8.mutf8_dec) in Hg];
          cbn [mref C02.Class.mr_class C02.Class.mr_name C02.Class.mr_desc] in Hg; fold D in Hg;
          rewrite (D_ok c S1), (D_ok n S2), (D_ok d S3) in Hg; exact Hg. }
      eexists. eexists. split; [exact Hb|]. split.
      * apply (X12.BridgeShape.plain_cp16 183%N 183%N 3%N [] x [] []); [reflexivity|exact (bound16 x Hx)|reflexivity].
      * cbn [C01.Model.map_insn C01.Resolve.resolve_insn C01.Pool.map_res C01.Resolve.resolve_op map C01.Model.map_op]. unfold C01.Pool.resolve_kind.
        cbn [N.eqb Pos.eqb]. rewrite Hg'. reflexivity.
    + apply N.eqb_eq in Hok. subst op.
      assert (Hg' : C01.Pool.get_any_method_ref (X12.BridgePool.rpool C01.Mutf8.mutf8_dec cs) (Z.to_N x) = Ok (C01.Pool.VMethod c n d b)).
      { destruct b; [apply X12.BridgePool.ag_any_imethod with (dec := C01.Mutf8.mutf8_dec) in Hg|apply X12.BridgePool.ag_any_method with (dec := C01.Mutf8.mutf8_dec) in Hg];
          cbn [mref C02.Class.mr_class C02.Class.mr_name C02.Class.mr_desc] in Hg; fold D in Hg;
          rewrite (D_ok c S1), (D_ok n S2), (D_ok d S3) in Hg; exact Hg. }
      eexists. eexists. split; [exact Hb|]. split.
      * apply (X12.BridgeShape.plain_cp16 184%N 184%N 3%N [] x [] []); [reflexivity|exact (bound16 x Hx)|reflexivity].
      * cbn [C01.Model.map_insn C01.Resolve.resolve_insn C01.Pool.map_res C01.Resolve.resolve_op map C01.Model.map_op]. unfold C01.Pool.resolve_kind.
        cbn [N.eqb Pos.eqb]. rewrite Hg'. reflexivity.
  - destruct Hw as (x & cnt & Hx & Hb & Hg). destruct Hs as (S1 & S2 & S3).
    apply X12.BridgePool.ag_imethodref with (dec := C01.Mutf8.mutf8_dec) in Hg.
    cbn [mref C02.Class.mr_class C02.Class.mr_name C02.Class.mr_desc] in Hg. fold D in Hg.
    rewrite (D_ok c S1), (D_ok n S2), (D_ok d S3) in Hg.
    eexists. eexists. split; [exact Hb|]. split.
    + apply (X12.BridgeShape.plain_cp16 185%N 185%N 4%N [C01.Opcodes.RSkip8; C01.Opcodes.RSkip8] x [C02.Model.byte_of cnt; 0%N] []); [reflexivity|exact (bound16 x Hx)|reflexivity].
    + cbn [C01.Model.map_insn C01.Resolve.resolve_insn C01.Pool.map_res C01.Resolve.resolve_op map C01.Model.map_op]. unfold C01.Pool.resolve_kind.
      cbn [N.eqb Pos.eqb]. rewrite Hg. reflexivity.
Qed.

Lemma u8_of_lt v n : u8_of v = Some n -> (n <? 256)%N = true.
Proof.
  destruct v as [|s| | | | |]; try discriminate. destruct s as [|c r]; [discriminate|]. cbn [u8_of].
  destruct (dec_digits 0 (c :: r)) as [m|]; [|discriminate]. destruct (m <? 256)%N eqn:E; [|discriminate]. intros [= <-]. exact E.
Qed.

Lemma op_ref_ok i o : op_ref i = Some o -> oref_ok o = true.
Proof.
  destruct i as [| |n c fs| | | |]; try discriminate. cbn [op_ref].
  destruct (negb (n =? "Instruction")); [discriminate|].
  repeat match goal with |- (if ?b then _ else _) = Some _ -> _ => destruct b end; try discriminate;
    unfold class_op, field_op, method_op, iface_op;
    repeat match goal with
           | |- match ?x with _ => _ end = Some _ -> _ => let E := fresh "E" in destruct x eqn:E; try discriminate
           end;
    try (intros [= <-]; reflexivity).
  (* multianewarray: the dimensions are a u8; invokevirtual: no interface flag *)
  all: intros [= <-]; cbn [oref_ok]; try reflexivity.
  all: try (match goal with H : u8_of _ = Some ?d |- _ => rewrite (u8_of_lt _ _ H); reflexivity end).
  all: try (destruct b; reflexivity).
Qed.

Lemma remap_oref_ok R o o' : remap_oref R o = Ok o' -> oref_ok o' = oref_ok o.
Proof.
  destruct o as [op c post|op c n d|op b c n d|c n d]; cbn [remap_oref].
  - destruct (map_class_any R c); [|discriminate]. intros [= <-]. reflexivity.
  - destruct (map_field_ref R (c, n, d)) as [[[a1 a2] a3]|]; [|discriminate]. intros [= <-]. reflexivity.
  - destruct (map_method_ref R (c, n, d)) as [[[a1 a2] a3]|]; [|discriminate]. intros [= <-]. reflexivity.
  - destruct (map_method_ref R (c, n, d)) as [[[a1 a2] a3]|]; [|discriminate]. intros [= <-]. reflexivity.
Qed.

(* WRITE o REMAP, read by C01's reader model: the first part of C01's read_class ([read_head]: magic, version gate, constant
   pool, head — C02_bridge_read_head_is_read_class) reads from the written file the pool P; at the offset of every instruction
   with a reference operand C01's second-pass decoder reads one instruction from the written bytes, and C01's resolve_insn
   resolves it in P to the instruction whose operand is what the remapper answers for the ORIGINAL operand — for answers that
   C01's string decoder reads back as they are ([oref_strs_ok]) *)
Theorem remap_write_read_c01 (R : remapper) (v v' : val) (t : C02.Class.cclass) (cbytes : list N) (aux : C02.Class.class_aux) :
  has_ty type_defs class_ty v = true ->
  remap_val gen_table R None class_ty v = Ok v' ->
  tr v' = Some t ->
  C02.TheoryC8.cclass_ok t = true ->
  C02.Class.write_class_aux t = C02.Class.WOK (cbytes, aux) ->
  C01.Attr.header_ok C01.Tables.magic (Z.to_N (C02.Class.k_minor t)) (Z.to_N (C02.Class.k_major t)) = true ->
  X12.BridgeClass.pool_utf8_ok C01.Mutf8.mutf8_dec (C02.Class.a_pool aux) = true ->
  exists cs head rest,
    X12.BridgeClass.read_head true C01.Mutf8.mutf8_dec cbytes
    = Ok (Z.to_N (C02.Class.k_minor t), Z.to_N (C02.Class.k_major t), X12.BridgePool.rpool C01.Mutf8.mutf8_dec cs, head, rest) /\
    forall j k i o, sub (insn_path j k) v = Some i -> op_ref i = Some o ->
      exists o' w labs pos q,
        remap_oref R o = Ok o' /\
        nth_error (C02.Class.a_codes aux) j = Some (Some (w, labs, pos)) /\ nth_error pos k = Some q /\
        (oref_strs_ok o' -> c01_reads (X12.BridgePool.rpool C01.Mutf8.mutf8_dec cs) w q o').
Proof.
  intros Hty Hr Ht Hok Hw Hgate Hdec.
  destruct (X12.BridgeClass.class_read_base true C01.Mutf8.mutf8_dec t cbytes aux Hok Hw Hgate Hdec)
    as (cs & fields & mbytes & abytes & fs & ms & ds & _ & Hag & Hrh & _).
  exists cs. eexists. eexists. split; [exact Hrh|].
  intros j k i o Hi Ho.
  destruct (written_operands_tr_s R v v' t cbytes aux Hty Hr Ht Hok Hw _ Hag j k i o Hi Ho) as (o' & w & labs & pos & q & Hro & Hn & Hq & Hws).
  exists o', w, labs, pos, q. split; [exact Hro|]. split; [exact Hn|]. split; [exact Hq|].
  intros Hs. apply written_s_c01; [|exact Hs|exact Hws].
  rewrite (remap_oref_ok R o o' Hro). exact (op_ref_ok i o Ho).
Qed.

(* [str_ok] is decidable *)
Lemma str_ok_b s : forallb (fun c => (c <? 1114112)%N) s && C02.TheoryU.nsp s = true -> str_ok s.
Proof.
  intros H. apply andb_prop in H. destruct H as [H1 H2]. split; [|exact H2].
  unfold C02.TheoryU.cps_ok. apply Forall_forall. intros c Hc. rewrite forallb_forall in H1. apply N.ltb_lt. exact (H1 c Hc).
Qed.
