(* X27 — non-vacuity: class a/A { int f; void m() { L0: getstatic a/A.f:I; invokeinterface b/I.run()V; new a/A; pop; L1: return }
   catch java/lang/Exception from L0 to L1 at L1, line 7 at L0 }, remapped with ex_R (a/A -> x/Y, a/A.f:I -> g), translated
   by [tr], written by C02's writer model, read by C01's reader model. *)
From Coq Require Import String ZArith.
From FB Require Import C07.BridgeDefs C07.Model C07.Spec C07.Theory C07.Tree C07.TreeTheory C07.Occ C07.Bridge X27.Tr X27.TrTheory.
From FB Require C02.Class C02.TheoryC8 C01.ClassFile C01.Mutf8 C01.Resolve C01.Pool X12.BridgeClass.
Local Open Scope string_scope.

Definition lbl (n : string) : val := VNode "Label" "" [("id", VOpaque (bs n))].
Definition ent (l : val) (c : string) (fs : list (string * val)) : val :=
  VNode "InstructionListEntry" "" [("label", l); ("frame", VNone); ("instruction", VNode "Instruction" c fs)].
Definition mflags (n : string) (fs : list string) : val := vflags n fs.
Definition ex27 : val :=
  VNode "ClassFile" "" [
    ("version", VNode "Version" "" [("major", VOpaque (bs "52")); ("minor", VOpaque (bs "0"))]);
    ("access", VNode "ClassAccess" "" [("is_public", VOpaque (bs "true")); ("is_final", vfalse); ("is_super", VOpaque (bs "true")); ("is_interface", vfalse);
                                       ("is_abstract", vfalse); ("is_synthetic", vfalse); ("is_annotation", vfalse); ("is_enum", vfalse); ("is_module", vfalse)]);
    ("name", VStr (bs "a/A"));
    ("super_class", VSome (VStr (bs "java/lang/Object")));
    ("interfaces", VList []);
    ("fields", VList [
       VNode "Field" "" [
         ("access", vflags "FieldAccess" ["is_public"; "is_private"; "is_protected"; "is_static"; "is_final"; "is_volatile"; "is_transient"; "is_synthetic"; "is_enum"]);
         ("name", VStr (bs "f")); ("descriptor", VStr (bs "I"));
         ("has_deprecated_attribute", vfalse); ("has_synthetic_attribute", vfalse);
         ("constant_value", VNone); ("signature", VNone);
         ("runtime_visible_annotations", VList []); ("runtime_invisible_annotations", VList []);
         ("runtime_visible_type_annotations", VList []); ("runtime_invisible_type_annotations", VList []);
         ("attributes", VList [])]]);
    ("methods", VList [
       VNode "Method" "" [
         ("access", vflags "MethodAccess" ["is_public"; "is_private"; "is_protected"; "is_static"; "is_final"; "is_synchronized"; "is_bridge"; "is_varargs"; "is_native"; "is_abstract"; "is_strict"; "is_synthetic"]);
         ("name", VStr (bs "m")); ("descriptor", VStr (bs "()V"));
         ("has_deprecated_attribute", vfalse); ("has_synthetic_attribute", vfalse);
         ("code", VSome (VNode "Code" "" [
            ("max_stack", VSome (VOpaque (bs "2"))); ("max_locals", VSome (VOpaque (bs "1")));
            ("instructions", VList [
               ent (VSome (lbl "0")) "GetStatic" [("0", ref_node "FieldRef" (bs "a/A") (bs "f") (bs "I"))];
               ent VNone "InvokeInterface" [("0", ref_node "MethodRef" (bs "b/I") (bs "run") (bs "()V"))];
               ent VNone "New" [("0", VStr (bs "a/A"))];
               ent VNone "Pop" [];
               ent (VSome (lbl "1")) "Return" []]);
            ("exception_table", VList [VNode "Exception" "" [("start", lbl "0"); ("end", lbl "1"); ("handler", lbl "1"); ("catch", VSome (VStr (bs "java/lang/Exception")))]]);
            ("last_label", VNone);
            ("line_numbers", VSome (VList [VPair (lbl "0") (VOpaque (bs "7"))]));
            ("local_variables", VNone);
            ("runtime_visible_type_annotations", VList []); ("runtime_invisible_type_annotations", VList []);
            ("attributes", VList [])]));
         ("exceptions", VNone); ("signature", VNone);
         ("runtime_visible_annotations", VList []); ("runtime_invisible_annotations", VList []);
         ("runtime_visible_type_annotations", VList []); ("runtime_invisible_type_annotations", VList []);
         ("annotation_default", VNone); ("method_parameters", VNone); ("attributes", VList [])]]);
    ("has_deprecated_attribute", vfalse); ("has_synthetic_attribute", vfalse);
    ("inner_classes", VNone); ("enclosing_method", VNone); ("signature", VNone);
    ("source_file", VSome (VStr (bs "A.java"))); ("source_debug_extension", VNone);
    ("runtime_visible_annotations", VList []); ("runtime_invisible_annotations", VList []);
    ("runtime_visible_type_annotations", VList []); ("runtime_invisible_type_annotations", VList []);
    ("module", VNone); ("module_packages", VNone); ("module_main_class", VNone);
    ("nest_host_class", VNone); ("nest_members", VNone); ("permitted_subclasses", VNone);
    ("record_components", VList []); ("attributes", VList [])].

(* what the whole of C01's reader model delivers for the written bytes, computed: the instructions of the one method *)
Definition read_insns (cbytes : list N) : option (list C01.Resolve.xinsn) :=
  match C01.ClassFile.read_class true C01.Mutf8.mutf8_dec cbytes with
  | Ok d => match C01.ClassFile.cd_methods d with
            | [m] => match C01.ClassFile.md_code m with Some c => Some (map snd (C01.ClassFile.k_insns c)) | None => None end
            | _ => None
            end
  | Err => None
  end.

Definition tr_example : Prop :=
  has_ty type_defs class_ty ex27 = true /\
  exists v' t cbytes aux,
    remap_val gen_table ex_R None class_ty ex27 = Ok v' /\ tr v' = Some t /\
    C02.TheoryC8.cclass_ok t = true /\ C02.Class.write_class_aux t = C02.Class.WOK (cbytes, aux) /\
    C01.Attr.header_ok C01.Tables.magic (Z.to_N (C02.Class.k_minor t)) (Z.to_N (C02.Class.k_major t)) = true /\
    X12.BridgeClass.pool_utf8_ok C01.Mutf8.mutf8_dec (C02.Class.a_pool aux) = true /\
    (* the operands of the three reference-carrying instructions, as the theorem's conclusion names them *)
    op_ref (VNode "Instruction" "GetStatic" [("0", ref_node "FieldRef" (bs "a/A") (bs "f") (bs "I"))]) = Some (OField 178 (bs "a/A") (bs "f") (bs "I")) /\
    remap_oref ex_R (OField 178 (bs "a/A") (bs "f") (bs "I")) = Ok (OField 178 (bs "x/Y") (bs "g") (bs "I")) /\
    oref_strs_ok (OField 178 (bs "x/Y") (bs "g") (bs "I")) /\
    (* and C01's WHOLE reader model on the written bytes, computed: getstatic x/Y.g:I; invokeinterface b/I.run()V; new x/Y; pop; return *)
    read_insns cbytes =
      Some [C01.Resolve.XGen 178 [C01.Resolve.XV (C01.Pool.VField (bs "x/Y") (bs "g") (bs "I"))];
            C01.Resolve.XGen 185 [C01.Resolve.XV (C01.Pool.VMethod (bs "b/I") (bs "run") (bs "()V") true)];
            C01.Resolve.XGen 187 [C01.Resolve.XV (C01.Pool.VClass (bs "x/Y"))];
            C01.Resolve.XGen 87 []; C01.Resolve.XGen 177 []].
Lemma tr_example_holds : tr_example.
Proof.
  split; [vm_compute; reflexivity|].
  destruct (remap_val gen_table ex_R None class_ty ex27) as [v'|] eqn:Ev; [|vm_compute in Ev; discriminate].
  destruct (tr v') as [t|] eqn:Et; [|vm_compute in Ev; injection Ev as <-; vm_compute in Et; discriminate].
  destruct (C02.Class.write_class_aux t) as [[cb aux]|?c|] eqn:Ew;
    [|vm_compute in Ev; injection Ev as <-; vm_compute in Et; injection Et as <-; vm_compute in Ew; discriminate
     |vm_compute in Ev; injection Ev as <-; vm_compute in Et; injection Et as <-; vm_compute in Ew; discriminate].
  exists v', t, cb, aux. split; [first [exact Ev|reflexivity]|]. split; [first [exact Et|reflexivity]|].
  vm_compute in Ev. injection Ev as <-. vm_compute in Et. injection Et as <-.
  split; [vm_compute; reflexivity|]. split; [first [exact Ew|reflexivity]|]. vm_compute in Ew. injection Ew as <- <-.
  split; [vm_compute; reflexivity|]. split; [vm_compute; reflexivity|].
  split; [vm_compute; reflexivity|]. split; [vm_compute; reflexivity|].
  split; [cbn [oref_strs_ok]; repeat split; apply str_ok_b; vm_compute; reflexivity|].
  vm_compute. reflexivity.
Qed.
