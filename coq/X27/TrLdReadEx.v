(* X27 — non-vacuity of written_ldc_read_c01 (X27/TrLdRead.v) on the class of X27/TrLdEx.v: the decidable hypotheses hold, and
   the remapped dynamic constant of its second instruction has nesting depth 2, below C01's nesting limit. *)
From Coq Require Import String ZArith.
From FB Require Import C07.BridgeDefs C07.Model C07.Spec C07.Theory C07.Tree C07.TreeTheory C07.Occ C07.Bridge X27.Tr X27.TrTheory X27.TrLd X27.TrLdEx X27.TrLdRead.
From FB Require C02.Class C02.TheoryC8 C01.Pool C01.Mutf8 C01.Attr C01.Tables X12.BridgeClass X12.BridgeDyn.
Local Open Scope string_scope.

Definition ld_read_example : Prop :=
  has_ty type_defs class_ty exld = true /\
  exists v' t cbytes aux,
    remap_val gen_table ex_R None class_ty exld = Ok v' /\ tr v' = Some t /\
    C02.TheoryC8.cclass_ok t = true /\ C02.Class.write_class_aux t = C02.Class.WOK (cbytes, aux) /\
    C01.Attr.header_ok C01.Tables.magic (Z.to_N (C02.Class.k_minor t)) (Z.to_N (C02.Class.k_major t)) = true /\
    X12.BridgeClass.pool_utf8_ok C01.Mutf8.mutf8_dec (C02.Class.a_pool aux) = true /\
    match exld_o1' with
    | XLdc x => X12.BridgeDyn.ldepth (cload_of x) = 2%nat /\ (2 < pred C01.Pool.nesting_fuel)%nat
    | _ => False
    end.
Lemma ld_read_example_holds : ld_read_example.
Proof.
  split; [vm_compute; reflexivity|].
  destruct (remap_val gen_table ex_R None class_ty exld) as [v'|] eqn:Ev; [|vm_compute in Ev; discriminate].
  destruct (tr v') as [t|] eqn:Et; [|vm_compute in Ev; injection Ev as <-; vm_compute in Et; discriminate].
  destruct (C02.Class.write_class_aux t) as [[cb aux]|?c|] eqn:Ew;
    [|exfalso; vm_compute in Ev; injection Ev as <-; vm_compute in Et; injection Et as <-; vm_compute in Ew; discriminate
     |exfalso; vm_compute in Ev; injection Ev as <-; vm_compute in Et; injection Et as <-; vm_compute in Ew; discriminate].
  exists v', t, cb, aux. split; [reflexivity|]. split; [exact Et|].
  vm_compute in Ev. injection Ev as <-. vm_compute in Et. injection Et as <-.
  split; [vm_compute; reflexivity|]. split; [exact Ew|]. vm_compute in Ew. injection Ew as <- <-.
  split; [vm_compute; reflexivity|]. split; [vm_compute; reflexivity|].
  split; [vm_compute; reflexivity|]. vm_compute. repeat constructor.
Qed.
