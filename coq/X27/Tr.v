(* X27 — FROM C07's TREE VALUES TO C02's WRITER INPUT (definitions only; proofs in X27/TrTheory.v).

   [tr : val -> option cclass] turns a C07 tree value of type ClassFile (C07/Tree.v: the generic universe typed by the
   type definitions regenerated from duke/src/tree) into the input of C02's model of duke::write_class (C02/Class.v
   [cclass]) — for the part of the tree both models cover here.  INSIDE (translated):
     class: version, access flags (JVMS bit values of duke's From<ClassAccess> for u16), name, super class, interfaces,
            Deprecated / Synthetic flags, Signature, SourceFile;
     field: access flags, name, descriptor, Deprecated / Synthetic, Signature;
     method: access flags, name, descriptor, Deprecated / Synthetic, Exceptions, Signature, Code;
     Code:  max_stack / max_locals, the instruction list with its labels, exception table (with catch types), last label,
            LineNumberTable;
     instructions: every instruction with a class / field / method reference operand (C07/BridgeDefs.v op_ref: new,
            anewarray, checkcast, instanceof, multianewarray, get/putstatic, get/putfield, invokevirtual / special /
            static / interface), every instruction without operand ([simple_ops]: 0–15, 46–53, 79–131, 133–152, 172–177,
            190, 191, 194, 195), the conditional jumps, goto, jsr ([branch_ops]), ldc of an Integer / Long / Class /
            String / MethodHandle / MethodType / Dynamic constant and invokedynamic ([ld_ref]: handles and bootstrap
            arguments recursively), the local-variable family (xload / xstore / iinc / ret with their short, plain and wide
            forms), bipush, sipush, newarray, tableswitch, lookupswitch.
   Strings go through C02's JVMS 4.4.7 encoder [mutf8]; numbers are read from their token text.
   OUTSIDE ([tr] answers None): ldc of a Float / Double constant, stack map frames, ConstantValue, annotations and type annotations,
   AnnotationDefault, MethodParameters, local-variable tables, InnerClasses, EnclosingMethod, SourceDebugExtension,
   module data, nest and permitted-subclass records, record components, unknown attributes. *)
From Coq Require Import String Ascii ZArith.
From FB Require Export C07.BridgeDefs.
From FB Require C02.Class.
Local Open Scope string_scope.

Definition obind {A B} (a : option A) (f : A -> option B) : option B := match a with Some x => f x | None => None end.
Fixpoint omapM {A B} (f : A -> option B) (l : list A) : option (list B) :=
  match l with
  | [] => Some []
  | x :: r => match f x, omapM f r with Some y, Some ys => Some (y :: ys) | _, _ => None end
  end.

Definition fld (fs : list (string * val)) (k : string) : option val := match field_of fs k with Ok x => Some x | Err => None end.
Definition n_of (v : val) : option N := match v with VOpaque (c :: r) => dec_digits 0 (c :: r) | _ => None end.
Definition z_of (v : val) : option Z := option_map Z.of_N (n_of v).
Definition str_of (v : val) : option (list N) := match v with VStr s => Some (C02.Class.mutf8 s) | _ => None end.
Definition list_of {A} (f : val -> option A) (v : val) : option (list A) := match v with VList l => omapM f l | _ => None end.
Definition opt_of {A} (f : val -> option A) (v : val) : option (option A) :=
  match v with VNone => Some None | VSome x => option_map Some (f x) | _ => None end.
Definition is_none (v : val) : bool := match v with VNone => true | _ => false end.
Definition is_nil (v : val) : bool := match v with VList [] => true | _ => false end.
Definition all_fields (p : val -> bool) (fs : list (string * val)) (ks : list string) : bool :=
  forallb (fun k => match fld fs k with Some x => p x | None => false end) ks.

(* duke's flag structs: the set flags as their JVMS bit values *)
Fixpoint flags_sum (tbl : list (string * Z)) (fs : list (string * val)) : option Z :=
  match tbl with
  | [] => Some 0%Z
  | (k, bit) :: r =>
      match obind (fld fs k) bool_of, flags_sum r fs with
      | Some b, Some z => Some ((if b then bit else 0) + z)%Z
      | _, _ => None
      end
  end.
Definition flags_of (tbl : list (string * Z)) (v : val) : option Z :=
  match v with VNode _ _ fs => flags_sum tbl fs | _ => None end.
Definition class_bits : list (string * Z) :=
  [("is_public", 1); ("is_final", 16); ("is_super", 32); ("is_interface", 512); ("is_abstract", 1024);
   ("is_synthetic", 4096); ("is_annotation", 8192); ("is_enum", 16384); ("is_module", 32768)]%Z.
Definition field_bits : list (string * Z) :=
  [("is_public", 1); ("is_private", 2); ("is_protected", 4); ("is_static", 8); ("is_final", 16); ("is_volatile", 64);
   ("is_transient", 128); ("is_synthetic", 4096); ("is_enum", 16384)]%Z.
Definition method_bits : list (string * Z) :=
  [("is_public", 1); ("is_private", 2); ("is_protected", 4); ("is_static", 8); ("is_final", 16); ("is_synchronized", 32);
   ("is_bridge", 64); ("is_varargs", 128); ("is_native", 256); ("is_abstract", 1024); ("is_strict", 2048); ("is_synthetic", 4096)]%Z.

(* instructions *)
Fixpoint assoc {A} (k : string) (l : list (string * A)) : option A :=
  match l with [] => None | (a, x) :: r => if a =? k then Some x else assoc k r end.
Fixpoint numbered (start : N) (names : list string) : list (string * N) :=
  match names with [] => [] | n :: r => (n, start) :: numbered (start + 1) r end.
Definition simple_ops : list (string * N) :=
  (numbered 0 ["Nop"; "AConstNull"; "IConstM1"; "IConst0"; "IConst1"; "IConst2"; "IConst3"; "IConst4"; "IConst5"; "LConst0"; "LConst1";
               "FConst0"; "FConst1"; "FConst2"; "DConst0"; "DConst1"] ++
   numbered 46 ["IALoad"; "LALoad"; "FALoad"; "DALoad"; "AALoad"; "BALoad"; "CALoad"; "SALoad"] ++
   numbered 79 ["IAStore"; "LAStore"; "FAStore"; "DAStore"; "AAStore"; "BAStore"; "CAStore"; "SAStore";
                "Pop"; "Pop2"; "Dup"; "DupX1"; "DupX2"; "Dup2"; "Dup2X1"; "Dup2X2"; "Swap";
                "IAdd"; "LAdd"; "FAdd"; "DAdd"; "ISub"; "LSub"; "FSub"; "DSub"; "IMul"; "LMul"; "FMul"; "DMul";
                "IDiv"; "LDiv"; "FDiv"; "DDiv"; "IRem"; "LRem"; "FRem"; "DRem"; "INeg"; "LNeg"; "FNeg"; "DNeg";
                "IShl"; "LShl"; "IShr"; "LShr"; "IUShr"; "LUShr"; "IAnd"; "LAnd"; "IOr"; "LOr"; "IXor"; "LXor"] ++
   numbered 133 ["I2L"; "I2F"; "I2D"; "L2I"; "L2F"; "L2D"; "F2I"; "F2L"; "F2D"; "D2I"; "D2L"; "D2F"; "I2B"; "I2C"; "I2S";
                 "LCmp"; "FCmpL"; "FCmpG"; "DCmpL"; "DCmpG"] ++
   numbered 172 ["IReturn"; "LReturn"; "FReturn"; "DReturn"; "AReturn"; "Return"] ++
   [("ArrayLength", 190); ("AThrow", 191); ("MonitorEnter", 194); ("MonitorExit", 195)])%list%N.
Definition branch_ops : list (string * C02.Model.kind) :=
  [("IfEq", C02.Model.KCond 153 154); ("IfNe", C02.Model.KCond 154 153); ("IfLt", C02.Model.KCond 155 156); ("IfGe", C02.Model.KCond 156 155);
   ("IfGt", C02.Model.KCond 157 158); ("IfLe", C02.Model.KCond 158 157);
   ("IfICmpEq", C02.Model.KCond 159 160); ("IfICmpNe", C02.Model.KCond 160 159); ("IfICmpLt", C02.Model.KCond 161 162);
   ("IfICmpGe", C02.Model.KCond 162 161); ("IfICmpGt", C02.Model.KCond 163 164); ("IfICmpLe", C02.Model.KCond 164 163);
   ("IfACmpEq", C02.Model.KCond 165 166); ("IfACmpNe", C02.Model.KCond 166 165);
   ("IfNull", C02.Model.KCond 198 199); ("IfNonNull", C02.Model.KCond 199 198);
   ("Goto", C02.Model.KJump 167 200); ("Jsr", C02.Model.KJump 168 201)]%N.

Definition label_of (v : val) : option N :=
  match v with VNode _ _ fs => obind (fld fs "id") n_of | _ => None end.

(* ---------------- loadable constants (ldc / ldc_w / ldc2_w), method handles, invokedynamic ----------------
   The projections of duke's Loadable / Handle / ConstantDynamic / InvokeDynamic tree values.  Intermediate form with the
   strings as code points ([xhandle] / [xload] / [xop]: the remapper can be asked about them — remap_xhandle / remap_xload /
   remap_xop), then C02's handle / loadable / cinsn ([chandle_of] / [cload_of] / [cinsn_of_x]: strings through mutf8).
   Reference kinds of JVMS 4.4.8 (1 getField … 9 invokeInterface, as harness/src/bin/c02/tree.rs numbers them); the bool of
   Handle::InvokeStatic / InvokeSpecial chooses CONSTANT_InterfaceMethodref.  The recursion over bootstrap arguments is
   structural on the tree value (remap.rs has no depth limit there: it recurses as deep as the tree is).
   Integer / Long constants are read from their token text (optional '-', decimal digits); Float / Double constants are
   OUTSIDE (their Debug text is not their bit pattern): [ld_of] answers None and so does [tr]. *)
Inductive xhandle :=
| XHField (kind : Z) (c n d : str)
| XHMethod (kind : Z) (iface : bool) (c n d : str).
Inductive xload :=
| XInt (z : Z) | XLong (z : Z) | XClass (c : str) | XString (s : str) | XHandle (h : xhandle) | XMType (d : str)
| XDyn (n d : str) (h : xhandle) (args : list xload).
Inductive xop :=
| XLdc (x : xload)
| XIndyOp (n d : str) (h : xhandle) (args : list xload).

Definition sz_of (v : val) : option Z :=
  match v with
  | VOpaque (c :: r) =>
      if (c =? 45)%N then match r with [] => None | _ :: _ => option_map (fun n => (- Z.of_N n)%Z) (dec_digits 0 r) end
      else option_map Z.of_N (dec_digits 0 (c :: r))
  | _ => None
  end.

Definition hfield (k : Z) (fs : list (string * val)) : option xhandle :=
  match obind (fld fs "0") ref3_of with Some (c, n, d) => Some (XHField k c n d) | None => None end.
Definition hmethod (k : Z) (b : bool) (fs : list (string * val)) : option xhandle :=
  match obind (fld fs "0") ref3_of with Some (c, n, d) => Some (XHMethod k b c n d) | None => None end.
Definition handle_of (v : val) : option xhandle :=
  match v with
  | VNode n c fs =>
      if negb (n =? "Handle") then None
      else if c =? "GetField" then hfield 1 fs
      else if c =? "GetStatic" then hfield 2 fs
      else if c =? "PutField" then hfield 3 fs
      else if c =? "PutStatic" then hfield 4 fs
      else if c =? "InvokeVirtual" then hmethod 5 false fs
      else if c =? "InvokeStatic" then match iface_of fs with Some b => hmethod 6 b fs | None => None end
      else if c =? "InvokeSpecial" then match iface_of fs with Some b => hmethod 7 b fs | None => None end
      else if c =? "NewInvokeSpecial" then hmethod 8 false fs
      else if c =? "InvokeInterface" then hmethod 9 false fs
      else None
  | _ => None
  end.

Fixpoint oall {A} (l : list (option A)) : option (list A) :=
  match l with
  | [] => Some []
  | Some x :: r => match oall r with Some ys => Some (x :: ys) | None => None end
  | None :: _ => None
  end.

(* struct ConstantDynamic / InvokeDynamic { name, descriptor, handle, arguments } *)
Definition dyn_with (sn : string) (rec : list val -> option (list xload)) (x : val) : option (str * str * xhandle * list xload) :=
  match x with
  | VNode n1 c1 [(k1, VStr nm); (k2, VStr d); (k3, h); (k4, VList args)] =>
      if (n1 =? sn) && (c1 =? "") && (k1 =? "name") && (k2 =? "descriptor") && (k3 =? "handle") && (k4 =? "arguments") then
        match handle_of h, rec args with
        | Some h', Some a => Some (nm, d, h', a)
        | _, _ => None
        end
      else None
  | _ => None
  end.

Fixpoint ld_of (v : val) {struct v} : option xload :=
  match v with
  | VNode n c [(k0, x)] =>
      if negb ((n =? "Loadable") && (k0 =? "0")) then None
      else if c =? "Integer" then option_map XInt (sz_of x)
      else if c =? "Long" then option_map XLong (sz_of x)
      else if c =? "Class" then match x with VStr s => Some (XClass s) | _ => None end
      else if c =? "String" then match x with VStr s => Some (XString s) | _ => None end
      else if c =? "MethodHandle" then option_map XHandle (handle_of x)
      else if c =? "MethodType" then match x with VStr s => Some (XMType s) | _ => None end
      else if c =? "Dynamic" then
        match dyn_with "ConstantDynamic" (fun args => oall (map ld_of args)) x with
        | Some (nm, d, h, a) => Some (XDyn nm d h a)
        | None => None
        end
      else None
  | _ => None
  end.
Definition lds_of (args : list val) : option (list xload) := oall (map ld_of args).
Definition dyn_of (sn : string) (x : val) : option (str * str * xhandle * list xload) := dyn_with sn lds_of x.

(* the operand of Instruction::Ldc / Instruction::InvokeDynamic *)
Definition ld_ref (i : val) : option xop :=
  match i with
  | VNode n c [(k0, x)] =>
      if negb ((n =? "Instruction") && (k0 =? "0")) then None
      else if c =? "Ldc" then option_map XLdc (ld_of x)
      else if c =? "InvokeDynamic" then
        match dyn_of "InvokeDynamic" x with Some (nm, d, h, a) => Some (XIndyOp nm d h a) | None => None end
      else None
  | _ => None
  end.

(* what the remapper answers: class names (map_class_any), field / method descriptors and method types (map_desc), the
   owner, name and descriptor of a handle (map_field_ref / map_method_ref); the names of dynamic constants and call sites,
   numbers and strings are kept *)
Definition remap_xhandle (R : remapper) (h : xhandle) : res xhandle :=
  match h with
  | XHField k c n d => match map_field_ref R (c, n, d) with Ok (c', n', d') => Ok (XHField k c' n' d') | Err => Err end
  | XHMethod k b c n d => match map_method_ref R (c, n, d) with Ok (c', n', d') => Ok (XHMethod k b c' n' d') | Err => Err end
  end.
Fixpoint remap_xload (R : remapper) (x : xload) {struct x} : res xload :=
  match x with
  | XInt _ | XLong _ | XString _ => Ok x
  | XClass c => match map_class_any R c with Ok c' => Ok (XClass c') | Err => Err end
  | XHandle h => match remap_xhandle R h with Ok h' => Ok (XHandle h') | Err => Err end
  | XMType d => match map_desc R d with Ok d' => Ok (XMType d') | Err => Err end
  | XDyn n d h args =>
      match map_desc R d, remap_xhandle R h, mapM (remap_xload R) args with
      | Ok d', Ok h', Ok args' => Ok (XDyn n d' h' args')
      | _, _, _ => Err
      end
  end.
Definition remap_xop (R : remapper) (o : xop) : res xop :=
  match o with
  | XLdc x => match remap_xload R x with Ok x' => Ok (XLdc x') | Err => Err end
  | XIndyOp n d h args =>
      match map_desc R d, remap_xhandle R h, mapM (remap_xload R) args with
      | Ok d', Ok h', Ok args' => Ok (XIndyOp n d' h' args')
      | _, _, _ => Err
      end
  end.

(* … as C02's writer model takes them *)
Definition chandle_of (h : xhandle) : C02.Class.handle :=
  match h with
  | XHField k c n d => {| C02.Class.h_kind := k; C02.Class.h_ref := mref c n d; C02.Class.h_iface := false |}
  | XHMethod k b c n d => {| C02.Class.h_kind := k; C02.Class.h_ref := mref c n d; C02.Class.h_iface := b |}
  end.
Fixpoint cload_of (x : xload) : C02.Class.loadable :=
  match x with
  | XInt z => C02.Class.LInt z
  | XLong z => C02.Class.LLong z
  | XClass c => C02.Class.LClass (C02.Class.mutf8 c)
  | XString s => C02.Class.LString (C02.Class.mutf8 s)
  | XHandle h => C02.Class.LHandle (chandle_of h)
  | XMType d => C02.Class.LMethodType (C02.Class.mutf8 d)
  | XDyn n d h args => C02.Class.LDynamic (C02.Class.mutf8 n) (C02.Class.mutf8 d) (chandle_of h) (map cload_of args)
  end.
(* ldc: the writer chooses ldc / ldc_w / ldc2_w; invokedynamic: 186, index, 0, 0 *)
Definition cinsn_of_x (o : xop) : C02.Class.cinsn :=
  match o with
  | XLdc x => C02.Class.ILdc (cload_of x)
  | XIndyOp n d h args =>
      C02.Class.ICp [186%N] (C02.Class.KIndy (C02.Class.mutf8 n) (C02.Class.mutf8 d) (chandle_of h) (map cload_of args)) [0%N; 0%N]
  end.

(* ---------------- the local-variable family, bipush / sipush, the switches ----------------
   duke/src/simple_class_writer.rs: xload / xstore with an index below 4 -> the one-byte form ((opcode - iload) * 4 + index +
   iload_0, resp. istore / istore_0), below 256 -> opcode, u8, else wide (196), opcode, u16; iinc -> 132, u8, i8 when index
   and value fit, else wide 132 u16 i16; ret -> 169, u8 or wide; bipush 16, i8; sipush 17, i16; newarray 188, atype (JVMS table 6.5.newarray-A: T_BOOLEAN 4 … T_LONG 11).  The switches go to C02's
   ITSwitch / ILSwitch (padding, offsets and the checks low <= high, table size, sorted keys are C02's model). *)
Definition lvidx_of (v : val) : option N :=
  match v with
  | VNode _ _ fs => obind (obind (fld fs "index") n_of) (fun n => if (n <? 65536)%N then Some n else None)
  | _ => None
  end.
Definition be16n (n : N) : list N := [n / 256; n mod 256]%N.
Definition wrap (z m : Z) : N := Z.to_N (z mod m).
Definition load_ops : list (string * N) := [("ILoad", 21); ("LLoad", 22); ("FLoad", 23); ("DLoad", 24); ("ALoad", 25)]%N.
Definition store_ops : list (string * N) := [("IStore", 54); ("LStore", 55); ("FStore", 56); ("DStore", 57); ("AStore", 58)]%N.
Definition lv_bytes (op first base0 idx : N) : list N :=
  (if idx <? 4 then [(op - first) * 4 + idx + base0] else if idx <? 256 then [op; idx] else 196 :: op :: be16n idx)%N.
Definition in_range (lo hi z : Z) : bool := ((lo <=? z) && (z <=? hi))%Z.
Definition raw_insn (c : string) (fs : list (string * val)) : option (list N) :=
  match fs with
  | [(_, a)] =>
      match assoc c load_ops, assoc c store_ops with
      | Some op, _ => option_map (lv_bytes op 21 26) (lvidx_of a)
      | None, Some op => option_map (lv_bytes op 54 59) (lvidx_of a)
      | None, None =>
          if c =? "Ret" then option_map (fun i => if (i <? 256)%N then [169%N; i] else 196%N :: 169%N :: be16n i) (lvidx_of a)
          else if c =? "BiPush" then obind (sz_of a) (fun z => if in_range (-128) 127 z then Some [16%N; wrap z 256] else None)
          else if c =? "SiPush" then obind (sz_of a) (fun z => if in_range (-32768) 32767 z then Some (17%N :: be16n (wrap z 65536)) else None)
          else if c =? "NewArray" then
            match a with
            | VNode _ k [] => option_map (fun t => [188%N; t]) (assoc k (numbered 4 ["Boolean"; "Char"; "Float"; "Double"; "Byte"; "Short"; "Int"; "Long"]))
            | _ => None
            end
          else None
      end
  | [(_, a); (_, b)] =>
      if c =? "IInc" then
        obind (lvidx_of a) (fun i => obind (sz_of b) (fun z =>
          if in_range (-32768) 32767 z then
            Some (if (i <? 256)%N && in_range (-128) 127 z then [132%N; i; wrap z 256]
                  else (196%N :: 132%N :: be16n i ++ be16n (wrap z 65536))%list)
          else None))
      else None
  | _ => None
  end.
Definition tr_pair (p : val) : option (Z * N) :=
  match p with VPair k l => obind (sz_of k) (fun a => option_map (fun b => (a, b)) (label_of l)) | _ => None end.
Definition switch_insn (c : string) (fs : list (string * val)) : option C02.Class.cinsn :=
  if c =? "TableSwitch" then
    obind (obind (fld fs "default") label_of) (fun d =>
    obind (obind (fld fs "low") sz_of) (fun lo =>
    obind (obind (fld fs "high") sz_of) (fun hi =>
    option_map (C02.Class.ITSwitch d lo hi) (obind (fld fs "table") (list_of label_of)))))
  else if c =? "LookupSwitch" then
    obind (obind (fld fs "default") label_of) (fun d =>
    option_map (C02.Class.ILSwitch d) (obind (fld fs "pairs") (list_of tr_pair)))
  else None.

Definition tr_insn (i : val) : option C02.Class.cinsn :=
  match op_ref i with
  | Some o => Some (cinsn_of o)
  | None =>
      match ld_ref i with Some o => Some (cinsn_of_x o) | None =>
      match i with
      | VNode n c fs =>
          if n =? "Instruction" then
            match raw_insn c fs with Some bs => Some (C02.Class.IRaw bs) | None =>
            match switch_insn c fs with Some ci => Some ci | None =>
            match fs with
            | [] => option_map (fun op => C02.Class.IRaw [op]) (assoc c simple_ops)
            | [(_, l)] => obind (assoc c branch_ops) (fun k => option_map (C02.Class.IBr k) (label_of l))
            | _ => None
            end
            end
            end
          else None
      | _ => None
      end
      end
  end.

Definition tr_entry (e : val) : option (option N * option C02.Class.cframe * C02.Class.cinsn) :=
  match e with
  | VNode _ _ fs =>
      obind (obind (fld fs "label") (opt_of label_of)) (fun lb =>
      obind (obind (fld fs "instruction") tr_insn) (fun ci =>
      if all_fields is_none fs ["frame"] then Some (lb, None, ci) else None))
  | _ => None
  end.

Definition tr_exception (x : val) : option C02.Class.cexception :=
  match x with
  | VNode _ _ fs =>
      obind (obind (fld fs "start") label_of) (fun s =>
      obind (obind (fld fs "end") label_of) (fun e =>
      obind (obind (fld fs "handler") label_of) (fun h =>
      obind (obind (fld fs "catch") (opt_of str_of)) (fun c =>
      Some {| C02.Class.x_start := s; C02.Class.x_end := e; C02.Class.x_handler := h; C02.Class.x_catch := c |}))))
  | _ => None
  end.

Definition tr_line (p : val) : option (N * Z) :=
  match p with VPair l n => obind (label_of l) (fun a => option_map (fun b => (a, b)) (z_of n)) | _ => None end.

Definition tr_max (a b : val) : option (option (Z * Z)) :=
  match a, b with
  | VSome x, VSome y => obind (z_of x) (fun p => option_map (fun q => Some (p, q)) (z_of y))
  | VNone, VNone => Some None
  | _, _ => None
  end.

Definition tr_code (c : val) : option C02.Class.ccode :=
  match c with
  | VNode _ _ fs =>
      obind (obind (fld fs "max_stack") (fun a => obind (fld fs "max_locals") (tr_max a))) (fun mx =>
      obind (obind (fld fs "instructions") (list_of tr_entry)) (fun is =>
      obind (obind (fld fs "exception_table") (list_of tr_exception)) (fun ex =>
      obind (obind (fld fs "last_label") (opt_of label_of)) (fun last =>
      obind (obind (fld fs "line_numbers") (opt_of (list_of tr_line))) (fun lines =>
      if all_fields is_none fs ["local_variables"] &&
         all_fields is_nil fs ["runtime_visible_type_annotations"; "runtime_invisible_type_annotations"; "attributes"]
      then Some {| C02.Class.c_max := mx; C02.Class.c_insns := is; C02.Class.c_last := last; C02.Class.c_exceptions := ex;
                   C02.Class.c_lines := lines; C02.Class.c_locals := None; C02.Class.c_tvis := []; C02.Class.c_tinvis := [];
                   C02.Class.c_unknown := [] |}
      else None)))))
  | _ => None
  end.

Definition no_annots : C02.Class.annots :=
  {| C02.Class.an_vis := []; C02.Class.an_invis := []; C02.Class.an_tvis := []; C02.Class.an_tinvis := [] |}.
Definition annot_fields : list string :=
  ["runtime_visible_annotations"; "runtime_invisible_annotations"; "runtime_visible_type_annotations"; "runtime_invisible_type_annotations"].

Definition tr_method (m : val) : option C02.Class.cmethod :=
  match m with
  | VNode _ _ fs =>
      obind (obind (fld fs "access") (flags_of method_bits)) (fun acc =>
      obind (obind (fld fs "name") str_of) (fun name =>
      obind (obind (fld fs "descriptor") str_of) (fun desc =>
      obind (obind (fld fs "has_deprecated_attribute") bool_of) (fun dep =>
      obind (obind (fld fs "has_synthetic_attribute") bool_of) (fun syn =>
      obind (obind (fld fs "code") (opt_of tr_code)) (fun code =>
      obind (obind (fld fs "exceptions") (opt_of (list_of str_of))) (fun exc =>
      obind (obind (fld fs "signature") (opt_of str_of)) (fun sg =>
      if all_fields is_nil fs (annot_fields ++ ["attributes"]) && all_fields is_none fs ["annotation_default"; "method_parameters"]
      then Some {| C02.Class.md_access := acc; C02.Class.md_name := name; C02.Class.md_desc := desc;
                   C02.Class.md_deprecated := dep; C02.Class.md_synthetic := syn; C02.Class.md_code := code;
                   C02.Class.md_exceptions := exc; C02.Class.md_signature := sg; C02.Class.md_annots := no_annots;
                   C02.Class.md_default := None; C02.Class.md_parameters := None; C02.Class.md_unknown := [] |}
      else None))))))))
  | _ => None
  end.

Definition tr_field (f : val) : option C02.Class.cfield :=
  match f with
  | VNode _ _ fs =>
      obind (obind (fld fs "access") (flags_of field_bits)) (fun acc =>
      obind (obind (fld fs "name") str_of) (fun name =>
      obind (obind (fld fs "descriptor") str_of) (fun desc =>
      obind (obind (fld fs "has_deprecated_attribute") bool_of) (fun dep =>
      obind (obind (fld fs "has_synthetic_attribute") bool_of) (fun syn =>
      obind (obind (fld fs "signature") (opt_of str_of)) (fun sg =>
      if all_fields is_nil fs (annot_fields ++ ["attributes"]) && all_fields is_none fs ["constant_value"]
      then Some {| C02.Class.f_access := acc; C02.Class.f_name := name; C02.Class.f_desc := desc;
                   C02.Class.f_deprecated := dep; C02.Class.f_synthetic := syn; C02.Class.f_constant := None;
                   C02.Class.f_signature := sg; C02.Class.f_annots := no_annots; C02.Class.f_unknown := [] |}
      else None))))))
  | _ => None
  end.

Definition tr_version (v : val) : option (Z * Z) :=
  match v with
  | VNode _ _ fs => obind (obind (fld fs "major") z_of) (fun ma => option_map (fun mi => (mi, ma)) (obind (fld fs "minor") z_of))
  | _ => None
  end.

Definition tr (v : val) : option C02.Class.cclass :=
  match v with
  | VNode _ _ fs =>
      obind (obind (fld fs "version") tr_version) (fun ver =>
      obind (obind (fld fs "access") (flags_of class_bits)) (fun acc =>
      obind (obind (fld fs "name") str_of) (fun name =>
      obind (obind (fld fs "super_class") (opt_of str_of)) (fun sup =>
      obind (obind (fld fs "interfaces") (list_of str_of)) (fun ifs =>
      obind (obind (fld fs "fields") (list_of tr_field)) (fun fields =>
      obind (obind (fld fs "methods") (list_of tr_method)) (fun methods =>
      obind (obind (fld fs "has_deprecated_attribute") bool_of) (fun dep =>
      obind (obind (fld fs "has_synthetic_attribute") bool_of) (fun syn =>
      obind (obind (fld fs "signature") (opt_of str_of)) (fun sg =>
      obind (obind (fld fs "source_file") (opt_of str_of)) (fun sf =>
      if all_fields is_nil fs (annot_fields ++ ["record_components"; "attributes"]) &&
         all_fields is_none fs ["inner_classes"; "enclosing_method"; "source_debug_extension"; "module"; "module_packages";
                                "module_main_class"; "nest_host_class"; "nest_members"; "permitted_subclasses"]
      then Some {| C02.Class.k_minor := fst ver; C02.Class.k_major := snd ver; C02.Class.k_access := acc;
                   C02.Class.k_name := name; C02.Class.k_super := sup; C02.Class.k_interfaces := ifs;
                   C02.Class.k_fields := fields; C02.Class.k_methods := methods;
                   C02.Class.k_deprecated := dep; C02.Class.k_synthetic := syn;
                   C02.Class.k_inner := None; C02.Class.k_enclosing := None; C02.Class.k_signature := sg;
                   C02.Class.k_source_file := sf; C02.Class.k_source_debug := None; C02.Class.k_annots := no_annots;
                   C02.Class.k_module := None; C02.Class.k_module_packages := None; C02.Class.k_module_main := None;
                   C02.Class.k_nest_host := None; C02.Class.k_nest_members := None; C02.Class.k_permitted := None;
                   C02.Class.k_record := []; C02.Class.k_unknown := [] |}
      else None)))))))))))
  | _ => None
  end.
