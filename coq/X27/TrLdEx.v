(* X27 — non-vacuity of the ldc / invokedynamic theorems (X27/TrLd.v): class a/A { void m() {
     ldc a/A.class;
     ldc Dynamic c:La/A; [invokestatic a/A.bsm()La/A;] ( MethodType (La/A;)V, Dynamic d:I [getstatic a/A.f:I] ( a/A.class, -5 ) );
     invokedynamic run(La/A;)V [invokestatic (interface) b/B.meta()V] ( "a/A", MethodHandle getfield a/A.f:I );
     return } }
   remapped with ex_R (a/A -> x/Y, a/A.f:I -> g), translated by [tr], written by C02's writer model: all hypotheses of
   written_ldc_tr hold; the bootstrap-method table of the written class has three entries; the conclusion names the
   remapped constants (x/Y everywhere a/A was a class, the string "a/A" kept, the field g). *)
From Coq Require Import String ZArith.
From FB Require Import C07.BridgeDefs C07.Model C07.Spec C07.Theory C07.Tree C07.TreeTheory C07.Occ C07.Bridge X27.Tr X27.TrTheory X27.TrLd X27.TrEx.
From FB Require C02.Class C02.TheoryC8 C02.TheoryB2.
Local Open Scope string_scope.

Definition ld1 (c : string) (x : val) : val := VNode "Loadable" c [("0", x)].
Definition dyn_node (sn nm d : string) (h : val) (args : list val) : val :=
  VNode sn "" [("name", VStr (bs nm)); ("descriptor", VStr (bs d)); ("handle", h); ("arguments", VList args)].
Definition h_bsm : val := VNode "Handle" "InvokeStatic" [("0", ref_node "MethodRef" (bs "a/A") (bs "bsm") (bs "()La/A;")); ("1", vfalse)].
Definition h_getstatic : val := VNode "Handle" "GetStatic" [("0", ref_node "FieldRef" (bs "a/A") (bs "f") (bs "I"))].
Definition h_getfield : val := VNode "Handle" "GetField" [("0", ref_node "FieldRef" (bs "a/A") (bs "f") (bs "I"))].
Definition h_meta : val := VNode "Handle" "InvokeStatic" [("0", ref_node "MethodRef" (bs "b/B") (bs "meta") (bs "()V")); ("1", VOpaque (bs "true"))].

Definition exld_l1 : val :=
  ld1 "Dynamic" (dyn_node "ConstantDynamic" "c" "La/A;" h_bsm
    [ld1 "MethodType" (VStr (bs "(La/A;)V"));
     ld1 "Dynamic" (dyn_node "ConstantDynamic" "d" "I" h_getstatic [ld1 "Class" (VStr (bs "a/A")); ld1 "Integer" (VOpaque (bs "-5"))])]).
Definition exld_i0 : val := VNode "Instruction" "Ldc" [("0", ld1 "Class" (VStr (bs "a/A")))].
Definition exld_i1 : val := VNode "Instruction" "Ldc" [("0", exld_l1)].
Definition exld_i2 : val :=
  VNode "Instruction" "InvokeDynamic" [("0", dyn_node "InvokeDynamic" "run" "(La/A;)V" h_meta
    [ld1 "String" (VStr (bs "a/A")); ld1 "MethodHandle" h_getfield])].
Definition ient (i : val) : val := VNode "InstructionListEntry" "" [("label", VNone); ("frame", VNone); ("instruction", i)].

Definition exld : val :=
  VNode "ClassFile" "" [
    ("version", VNode "Version" "" [("major", VOpaque (bs "55")); ("minor", VOpaque (bs "0"))]);
    ("access", VNode "ClassAccess" "" [("is_public", VOpaque (bs "true")); ("is_final", vfalse); ("is_super", VOpaque (bs "true")); ("is_interface", vfalse);
                                       ("is_abstract", vfalse); ("is_synthetic", vfalse); ("is_annotation", vfalse); ("is_enum", vfalse); ("is_module", vfalse)]);
    ("name", VStr (bs "a/A"));
    ("super_class", VSome (VStr (bs "java/lang/Object")));
    ("interfaces", VList []);
    ("fields", VList []);
    ("methods", VList [
       VNode "Method" "" [
         ("access", vflags "MethodAccess" ["is_public"; "is_private"; "is_protected"; "is_static"; "is_final"; "is_synchronized"; "is_bridge"; "is_varargs"; "is_native"; "is_abstract"; "is_strict"; "is_synthetic"]);
         ("name", VStr (bs "m")); ("descriptor", VStr (bs "()V"));
         ("has_deprecated_attribute", vfalse); ("has_synthetic_attribute", vfalse);
         ("code", VSome (VNode "Code" "" [
            ("max_stack", VSome (VOpaque (bs "2"))); ("max_locals", VSome (VOpaque (bs "1")));
            ("instructions", VList [ient exld_i0; ient exld_i1; ient exld_i2; ient (VNode "Instruction" "Return" [])]);
            ("exception_table", VList []);
            ("last_label", VNone);
            ("line_numbers", VNone);
            ("local_variables", VNone);
            ("runtime_visible_type_annotations", VList []); ("runtime_invisible_type_annotations", VList []);
            ("attributes", VList [])]));
         ("exceptions", VNone); ("signature", VNone);
         ("runtime_visible_annotations", VList []); ("runtime_invisible_annotations", VList []);
         ("runtime_visible_type_annotations", VList []); ("runtime_invisible_type_annotations", VList []);
         ("annotation_default", VNone); ("method_parameters", VNone); ("attributes", VList [])]]);
    ("has_deprecated_attribute", vfalse); ("has_synthetic_attribute", vfalse);
    ("inner_classes", VNone); ("enclosing_method", VNone); ("signature", VNone);
    ("source_file", VNone); ("source_debug_extension", VNone);
    ("runtime_visible_annotations", VList []); ("runtime_invisible_annotations", VList []);
    ("runtime_visible_type_annotations", VList []); ("runtime_invisible_type_annotations", VList []);
    ("module", VNone); ("module_packages", VNone); ("module_main_class", VNone);
    ("nest_host_class", VNone); ("nest_members", VNone); ("permitted_subclasses", VNone);
    ("record_components", VList []); ("attributes", VList [])].

(* the projections of the two instructions, and what the remapper answers for them *)
Definition exld_o1 : xop :=
  XLdc (XDyn (bs "c") (bs "La/A;") (XHMethod 6 false (bs "a/A") (bs "bsm") (bs "()La/A;"))
          [XMType (bs "(La/A;)V"); XDyn (bs "d") (bs "I") (XHField 2 (bs "a/A") (bs "f") (bs "I")) [XClass (bs "a/A"); XInt (-5)]]).
Definition exld_o1' : xop :=
  XLdc (XDyn (bs "c") (bs "Lx/Y;") (XHMethod 6 false (bs "x/Y") (bs "bsm") (bs "()Lx/Y;"))
          [XMType (bs "(Lx/Y;)V"); XDyn (bs "d") (bs "I") (XHField 2 (bs "x/Y") (bs "g") (bs "I")) [XClass (bs "x/Y"); XInt (-5)]]).
Definition exld_o2 : xop :=
  XIndyOp (bs "run") (bs "(La/A;)V") (XHMethod 6 true (bs "b/B") (bs "meta") (bs "()V"))
          [XString (bs "a/A"); XHandle (XHField 1 (bs "a/A") (bs "f") (bs "I"))].
Definition exld_o2' : xop :=
  XIndyOp (bs "run") (bs "(Lx/Y;)V") (XHMethod 6 true (bs "b/B") (bs "meta") (bs "()V"))
          [XString (bs "a/A"); XHandle (XHField 1 (bs "x/Y") (bs "g") (bs "I"))].

Definition ld_example : Prop :=
  has_ty type_defs class_ty exld = true /\
  exists v' t cbytes aux,
    remap_val gen_table ex_R None class_ty exld = Ok v' /\ tr v' = Some t /\
    C02.TheoryC8.cclass_ok t = true /\ C02.Class.write_class_aux t = C02.Class.WOK (cbytes, aux) /\
    sub (insn_path 0 1) exld = Some exld_i1 /\ ld_ref exld_i1 = Some exld_o1 /\ remap_xop ex_R exld_o1 = Ok exld_o1' /\
    sub (insn_path 0 2) exld = Some exld_i2 /\ ld_ref exld_i2 = Some exld_o2 /\ remap_xop ex_R exld_o2 = Ok exld_o2' /\
    List.length (C02.Class.a_bsm aux) = 3%nat /\
    (exists w labs pos q, nth_error (C02.Class.a_codes aux) 0 = Some (Some (w, labs, pos)) /\ nth_error pos 1 = Some q /\
                          written_x (C02.Class.a_pool aux) (C02.Class.a_bsm aux) w q exld_o1') /\
    (exists w labs pos q, nth_error (C02.Class.a_codes aux) 0 = Some (Some (w, labs, pos)) /\ nth_error pos 2 = Some q /\
                          written_x (C02.Class.a_pool aux) (C02.Class.a_bsm aux) w q exld_o2').

Lemma ld_example_holds : ld_example.
Proof.
  assert (Hty : has_ty type_defs class_ty exld = true) by (vm_compute; reflexivity).
  split; [exact Hty|].
  destruct (remap_val gen_table ex_R None class_ty exld) as [v'|] eqn:Ev; [|vm_compute in Ev; discriminate].
  destruct (tr v') as [t|] eqn:Et; [|vm_compute in Ev; injection Ev as <-; vm_compute in Et; discriminate].
  assert (Hok : C02.TheoryC8.cclass_ok t = true).
  { pose proof Ev as Ev'. vm_compute in Ev'. injection Ev' as <-. pose proof Et as Et'. vm_compute in Et'. injection Et' as <-.
    vm_compute. reflexivity. }
  destruct (C02.Class.write_class_aux t) as [[cb aux]|?c|] eqn:Ew;
    [|exfalso; vm_compute in Ev; injection Ev as <-; vm_compute in Et; injection Et as <-; vm_compute in Ew; discriminate
     |exfalso; vm_compute in Ev; injection Ev as <-; vm_compute in Et; injection Et as <-; vm_compute in Ew; discriminate].
  assert (H1 : sub (insn_path 0 1) exld = Some exld_i1) by (vm_compute; reflexivity).
  assert (H2 : ld_ref exld_i1 = Some exld_o1) by (vm_compute; reflexivity).
  assert (H3 : remap_xop ex_R exld_o1 = Ok exld_o1') by (vm_compute; reflexivity).
  assert (H4 : sub (insn_path 0 2) exld = Some exld_i2) by (vm_compute; reflexivity).
  assert (H5 : ld_ref exld_i2 = Some exld_o2) by (vm_compute; reflexivity).
  assert (H6 : remap_xop ex_R exld_o2 = Ok exld_o2') by (vm_compute; reflexivity).
  exists v', t, cb, aux. split; [reflexivity|]. split; [exact Et|]. split; [exact Hok|]. split; [exact Ew|].
  split; [exact H1|]. split; [exact H2|]. split; [exact H3|]. split; [exact H4|]. split; [exact H5|]. split; [exact H6|].
  split.
  { pose proof Ev as Ev'. vm_compute in Ev'. injection Ev' as <-. pose proof Et as Et'. vm_compute in Et'. injection Et' as <-.
    pose proof Ew as Ew'. vm_compute in Ew'. injection Ew' as _ <-. reflexivity. }
  split.
  - destruct (written_ldc_tr ex_R exld v' t cb aux Hty Ev Et Hok Ew 0%nat 1%nat exld_i1 exld_o1 H1 H2) as (o' & w & labs & pos & q & Hro & Hn & Hq & Hwr).
    rewrite H3 in Hro. injection Hro as <-. exists w, labs, pos, q. split; [exact Hn|]. split; [exact Hq|exact Hwr].
  - destruct (written_ldc_tr ex_R exld v' t cb aux Hty Ev Et Hok Ew 0%nat 2%nat exld_i2 exld_o2 H4 H5) as (o' & w & labs & pos & q & Hro & Hn & Hq & Hwr).
    rewrite H6 in Hro. injection Hro as <-. exists w, labs, pos, q. split; [exact Hn|]. split; [exact Hq|exact Hwr].
Qed.
