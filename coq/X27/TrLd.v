(* X27 — LOADABLE CONSTANTS AND INVOKEDYNAMIC (bridge item B3).
   The projections of X27/Tr.v (handle_of / ld_of / dyn_of / ld_ref: duke's Handle / Loadable / ConstantDynamic /
   InvokeDynamic tree values -> xhandle / xload / xop, recursively over bootstrap arguments) COMMUTE WITH REMAPPING:
   the projection of the remapped tree value is what the remapper answers for the projection of the original one
   (handle_commutes, loadable_commutes, dyn_commutes, ldc_commutes — from the specification spec_val, hence for
   remap_val gen_table), and the COMPOSITION with C02's writer model (bootstrap_resolves of C02/TheoryB2.v):
   written_ldc_tr — in the class file write_class_aux (tr (remap v)) writes, at the offset of every ldc / invokedynamic
   instruction of the ORIGINAL tree, stand the ldc form C02's model chose with an index that [ldenotes] what the remapper
   answers for the ORIGINAL constant (class names, method types, handles, dynamic constants with their bootstrap-table entry
   and, recursively, their arguments), resp. 186, an index of a CONSTANT_InvokeDynamic whose name-and-type, bootstrap-table
   entry, handle and arguments are the remapper's answers for the original call site. *)
From Coq Require Import String Lia ZArith.
From FB Require Import C07.BridgeDefs C07.Model C07.Spec C07.Theory C07.Tree C07.TreeTheory C07.Laws C07.Laws2 C07.Occ C07.Bridge X27.Tr X27.TrTheory.
From FB Require C02.Class C02.Decode C02.TheoryC1 C02.TheoryC2 C02.TheoryC6 C02.TheoryC7 C02.TheoryC8 C02.TheoryC10 C02.TheoryB2.
Local Open Scope string_scope.

(* ------------------------------------------------------------------ *)
(* 1. the specification on a struct / enum node that is not a leaf reference *)

Lemma spec_named R ctx n c fs :
  mentions RTo (TName n) = true -> leaf_method n = None -> needs_owner n = false -> (n =? "ClassFile") = false ->
  spec_val type_defs RTo R ctx (TName n) (VNode n c fs) =
  match node_fields type_defs n c with
  | None => Err
  | Some fts =>
      match mapM (fun p => match C07.Laws2.step type_defs RTo R ctx n c fts fs (fst p) (snd p) with
                           | Ok y => Ok (fst p, y) | Err => Err end) fs with
      | Ok fs' => Ok (VNode n c fs')
      | Err => Err
      end
  end.
Proof.
  intros H1 H2 H3 H4. rewrite spec_val_name, H1, H2, H3. cbn [negb]. unfold spec_node. rewrite String.eqb_refl.
  destruct (node_fields type_defs n c) as [fts|]; [|reflexivity]. rewrite spec_fields_step. unfold self_ctx. rewrite H4. reflexivity.
Qed.

Lemma spec_named_other R ctx n n' c fs v' :
  mentions RTo (TName n) = true -> leaf_method n = None -> needs_owner n = false ->
  spec_val type_defs RTo R ctx (TName n) (VNode n' c fs) = Ok v' -> n' = n.
Proof.
  intros H1 H2 H3. rewrite spec_val_name, H1, H2, H3. cbn [negb]. unfold spec_node.
  destruct (String.eqb n' n) eqn:E; [|discriminate]. intros _. apply String.eqb_eq. exact E.
Qed.

Lemma step_spec R ctx n c fts fs k t x :
  lookup_ty fts k = Some t -> position_method (pseudo_row n c k t) = None ->
  C07.Laws2.step type_defs RTo R ctx n c fts fs k x = spec_val type_defs RTo R ctx t x.
Proof. intros H1 H2. unfold C07.Laws2.step. rewrite H1, H2. reflexivity. Qed.

Definition fields_step (R : remapper) (ctx : option str) (n c : string) (fts : list (string * rty)) (fs fs1 : list (string * val)) : Prop :=
  forall k, match field_of fs k with
            | Ok x => exists y, field_of fs1 k = Ok y /\ C07.Laws2.step type_defs RTo R ctx n c fts fs k x = Ok y
            | Err => field_of fs1 k = Err
            end.

Lemma spec_named_inv R ctx n c fs v' :
  mentions RTo (TName n) = true -> leaf_method n = None -> needs_owner n = false -> (n =? "ClassFile") = false ->
  spec_val type_defs RTo R ctx (TName n) (VNode n c fs) = Ok v' ->
  exists fts fs1, node_fields type_defs n c = Some fts /\ v' = VNode n c fs1 /\ fields_step R ctx n c fts fs fs1.
Proof.
  intros H1 H2 H3 H4. rewrite (spec_named R ctx n c fs H1 H2 H3 H4).
  destruct (node_fields type_defs n c) as [fts|]; [|discriminate].
  destruct (mapM _ fs) as [fs1|] eqn:Ef; [|discriminate]. intros [= <-].
  destruct (mapM_fields_of (C07.Laws2.step type_defs RTo R ctx n c fts fs) fs fs1 Ef) as [_ SF].
  exists fts, fs1. split; [reflexivity|]. split; [reflexivity|exact SF].
Qed.

(* the leaves that occur below a Loadable *)
Lemma spec_prim R ctx q x : spec_val type_defs RTo R ctx (TPrim q) x = Ok x.
Proof. apply spec_val_nomention. reflexivity. Qed.
Lemma spec_class_any R ctx s :
  spec_val type_defs RTo R ctx (TName "ClassName") (VStr s) = match map_class_any R s with Ok s' => Ok (VStr s') | Err => Err end.
Proof. reflexivity. Qed.
Lemma spec_fdesc R ctx s :
  spec_val type_defs RTo R ctx (TName "FieldDescriptor") (VStr s) = match map_desc R s with Ok s' => Ok (VStr s') | Err => Err end.
Proof. reflexivity. Qed.
Lemma spec_mdesc R ctx s :
  spec_val type_defs RTo R ctx (TName "MethodDescriptor") (VStr s) = match map_desc R s with Ok s' => Ok (VStr s') | Err => Err end.
Proof. reflexivity. Qed.
Lemma spec_fname R ctx x : spec_val type_defs RTo R ctx (TName "FieldName") x = Ok x.
Proof. apply spec_val_nomention. reflexivity. Qed.
Lemma spec_mname R ctx x : spec_val type_defs RTo R ctx (TName "MethodName") x = Ok x.
Proof. apply spec_val_nomention. reflexivity. Qed.
Lemma spec_fieldref R ctx x : spec_val type_defs RTo R ctx (TName "FieldRef") x = apply_ref (map_field_ref R) x.
Proof. rewrite spec_val_name. reflexivity. Qed.
Lemma spec_methodref R ctx x : spec_val type_defs RTo R ctx (TName "MethodRef") x = apply_ref (map_method_ref R) x.
Proof. rewrite spec_val_name. reflexivity. Qed.

(* ------------------------------------------------------------------ *)
(* 2. method handles *)

Lemma ref_field_commutes R ctx n c fts fs fs1 t (g : ref3 -> res ref3) :
  fields_step R ctx n c fts fs fs1 ->
  lookup_ty fts "0" = Some t -> position_method (pseudo_row n c "0" t) = None ->
  (forall x, spec_val type_defs RTo R ctx t x = apply_ref g x) ->
  forall c0 n0 d0, obind (fld fs "0") ref3_of = Some (c0, n0, d0) ->
  exists c1 n1 d1, g (c0, n0, d0) = Ok (c1, n1, d1) /\ obind (fld fs1 "0") ref3_of = Some (c1, n1, d1).
Proof.
  intros SF Ht Hp Hg c0 n0 d0 Ho. unfold fld in Ho |- *. pose proof (SF "0") as S0.
  destruct (field_of fs "0") as [r|] eqn:E0; [|discriminate]. cbn [obind] in Ho.
  destruct S0 as (y & Hy & Hs). rewrite (step_spec R ctx n c fts fs "0" t r Ht Hp), Hg in Hs.
  destruct (ref3_of_fields r c0 n0 d0 Ho) as (rn & rk & rfs & -> & Ec & En & Ed).
  cbn [apply_ref] in Hs. rewrite Ec, En, Ed in Hs.
  destruct (g (c0, n0, d0)) as [[[c1 n1] d1]|]; [|discriminate]. injection Hs as <-.
  exists c1, n1, d1. split; [reflexivity|]. rewrite Hy. cbn [obind]. exact (ref3_of_set rn rk rfs c0 n0 d0 c1 n1 d1 Ho).
Qed.

Lemma prim_kept R ctx n c fts fs fs1 k q :
  fields_step R ctx n c fts fs fs1 ->
  lookup_ty fts k = Some (TPrim q) -> position_method (pseudo_row n c k (TPrim q)) = None ->
  field_of fs1 k = field_of fs k.
Proof.
  intros SF Ht Hp. pose proof (SF k) as S0. destruct (field_of fs k) as [x|] eqn:E; [|exact S0].
  destruct S0 as (y & Hy & Hs). rewrite (step_spec R ctx n c fts fs k (TPrim q) x Ht Hp), spec_prim in Hs. injection Hs as <-. exact Hy.
Qed.

Lemma hfield_commutes R ctx c fts fs fs1 k h :
  fields_step R ctx "Handle" c fts fs fs1 ->
  lookup_ty fts "0" = Some (TName "FieldRef") -> position_method (pseudo_row "Handle" c "0" (TName "FieldRef")) = None ->
  hfield k fs = Some h -> exists h', remap_xhandle R h = Ok h' /\ hfield k fs1 = Some h'.
Proof.
  intros SF Ht Hp. unfold hfield. destruct (obind (fld fs "0") ref3_of) as [[[c0 n0] d0]|] eqn:E; [|discriminate]. intros [= <-].
  destruct (ref_field_commutes R ctx "Handle" c fts fs fs1 _ (map_field_ref R) SF Ht Hp (spec_fieldref R ctx) c0 n0 d0 E) as (c1 & n1 & d1 & Hg & Ho).
  exists (XHField k c1 n1 d1). cbn [remap_xhandle]. rewrite Hg, Ho. split; reflexivity.
Qed.

Lemma hmethod_commutes R ctx c fts fs fs1 k b h :
  fields_step R ctx "Handle" c fts fs fs1 ->
  lookup_ty fts "0" = Some (TName "MethodRef") -> position_method (pseudo_row "Handle" c "0" (TName "MethodRef")) = None ->
  hmethod k b fs = Some h -> exists h', remap_xhandle R h = Ok h' /\ hmethod k b fs1 = Some h'.
Proof.
  intros SF Ht Hp. unfold hmethod. destruct (obind (fld fs "0") ref3_of) as [[[c0 n0] d0]|] eqn:E; [|discriminate]. intros [= <-].
  destruct (ref_field_commutes R ctx "Handle" c fts fs fs1 _ (map_method_ref R) SF Ht Hp (spec_methodref R ctx) c0 n0 d0 E) as (c1 & n1 & d1 & Hg & Ho).
  exists (XHMethod k b c1 n1 d1). cbn [remap_xhandle]. rewrite Hg, Ho. split; reflexivity.
Qed.

Definition handle_t : rty := TName "Handle".

Theorem handle_commutes R ctx v v' h :
  spec_val type_defs RTo R ctx handle_t v = Ok v' -> handle_of v = Some h ->
  exists h', remap_xhandle R h = Ok h' /\ handle_of v' = Some h'.
Proof.
  unfold handle_t. intros Hs Ho. destruct v as [| |n c fs| | | |]; try discriminate. cbn [handle_of] in Ho.
  destruct (n =? "Handle") eqn:En; [|discriminate]. apply String.eqb_eq in En. subst n. cbn [negb] in Ho.
  destruct (spec_named_inv R ctx "Handle" c fs v' eq_refl eq_refl eq_refl eq_refl Hs) as (fts & fs1 & Hnf & -> & SF).
  cbn [handle_of String.eqb Ascii.eqb Bool.eqb negb].
  repeat match type of Ho with
  | (if ?c =? ?lit then _ else _) = _ =>
      let E := fresh "E" in destruct (c =? lit) eqn:E;
      [apply String.eqb_eq in E; subst c; vm_compute in Hnf; injection Hnf as <-|]
  end; try discriminate.
  - apply (hfield_commutes R ctx "GetField" _ fs fs1 1%Z h SF eq_refl eq_refl Ho).
  - apply (hfield_commutes R ctx "GetStatic" _ fs fs1 2%Z h SF eq_refl eq_refl Ho).
  - apply (hfield_commutes R ctx "PutField" _ fs fs1 3%Z h SF eq_refl eq_refl Ho).
  - apply (hfield_commutes R ctx "PutStatic" _ fs fs1 4%Z h SF eq_refl eq_refl Ho).
  - apply (hmethod_commutes R ctx "InvokeVirtual" _ fs fs1 5%Z false h SF eq_refl eq_refl Ho).
  - unfold iface_of in *. rewrite (prim_kept R ctx "Handle" "InvokeStatic" _ fs fs1 "1" "bool" SF eq_refl eq_refl).
    destruct (match field_of fs "1" with Ok b => bool_of b | Err => None end) as [b|]; [|discriminate].
    apply (hmethod_commutes R ctx "InvokeStatic" _ fs fs1 6%Z b h SF eq_refl eq_refl Ho).
  - unfold iface_of in *. rewrite (prim_kept R ctx "Handle" "InvokeSpecial" _ fs fs1 "1" "bool" SF eq_refl eq_refl).
    destruct (match field_of fs "1" with Ok b => bool_of b | Err => None end) as [b|]; [|discriminate].
    apply (hmethod_commutes R ctx "InvokeSpecial" _ fs fs1 7%Z b h SF eq_refl eq_refl Ho).
  - apply (hmethod_commutes R ctx "NewInvokeSpecial" _ fs fs1 8%Z false h SF eq_refl eq_refl Ho).
  - apply (hmethod_commutes R ctx "InvokeInterface" _ fs fs1 9%Z false h SF eq_refl eq_refl Ho).
Qed.

(* ------------------------------------------------------------------ *)
(* 3. loadable constants, recursively *)

Definition loadable_t : rty := TName "Loadable".

Lemma ld_of_node c x :
  ld_of (VNode "Loadable" c [("0", x)]) =
    if c =? "Integer" then option_map XInt (sz_of x)
    else if c =? "Long" then option_map XLong (sz_of x)
    else if c =? "Class" then match x with VStr s => Some (XClass s) | _ => None end
    else if c =? "String" then match x with VStr s => Some (XString s) | _ => None end
    else if c =? "MethodHandle" then option_map XHandle (handle_of x)
    else if c =? "MethodType" then match x with VStr s => Some (XMType s) | _ => None end
    else if c =? "Dynamic" then
      match dyn_of "ConstantDynamic" x with
      | Some (nm, d, h, a) => Some (XDyn nm d h a)
      | None => None
      end
    else None.
Proof. reflexivity. Qed.

Lemma ld_of_shape v x : ld_of v = Some x -> exists c y, v = VNode "Loadable" c [("0", y)].
Proof.
  destruct v as [| |n c fs| | | |]; try discriminate. destruct fs as [|[k0 y] [|? ?]]; try (let HH := fresh in intros HH; exfalso; cbn in HH; discriminate HH).
  cbn [ld_of]. destruct ((n =? "Loadable") && (k0 =? "0"))%bool eqn:E; [|discriminate]. intros _.
  apply andb_prop in E. destruct E as [E1 E2]. apply String.eqb_eq in E1, E2. subst. exists c, y. reflexivity.
Qed.

Lemma dyn_of_shape sn v r : dyn_of sn v = Some r ->
  exists nm d h args, v = VNode sn "" [("name", VStr nm); ("descriptor", VStr d); ("handle", h); ("arguments", VList args)].
Proof.
  unfold dyn_of, dyn_with. destruct v as [| |n c fs| | | |]; try discriminate.
  destruct fs as [|[k1 a1] fs]; try (let HH := fresh in intros HH; exfalso; cbn in HH; discriminate HH). destruct a1 as [nm| | | | | |]; try (let HH := fresh in intros HH; exfalso; cbn in HH; discriminate HH).
  destruct fs as [|[k2 a2] fs]; try (let HH := fresh in intros HH; exfalso; cbn in HH; discriminate HH). destruct a2 as [d| | | | | |]; try (let HH := fresh in intros HH; exfalso; cbn in HH; discriminate HH).
  destruct fs as [|[k3 a3] fs]; try (let HH := fresh in intros HH; exfalso; cbn in HH; discriminate HH). destruct fs as [|[k4 a4] fs]; try (let HH := fresh in intros HH; exfalso; cbn in HH; discriminate HH).
  destruct a4 as [| | |args| | |]; try (let HH := fresh in intros HH; exfalso; cbn in HH; discriminate HH). destruct fs as [|? ?]; try (let HH := fresh in intros HH; exfalso; cbn in HH; discriminate HH).
  destruct ((n =? sn) && (c =? "") && (k1 =? "name") && (k2 =? "descriptor") && (k3 =? "handle") && (k4 =? "arguments"))%bool eqn:E; [|discriminate].
  intros _. repeat (apply andb_prop in E; let E' := fresh "E" in destruct E as [E E']).
  repeat match goal with H : (_ =? _) = true |- _ => apply String.eqb_eq in H end. subst.
  exists nm, d, a3, args. reflexivity.
Qed.

Lemma dyn_of_node sn nm d h args :
  dyn_of sn (VNode sn "" [("name", VStr nm); ("descriptor", VStr d); ("handle", h); ("arguments", VList args)]) =
  match handle_of h, lds_of args with Some h', Some a => Some (nm, d, h', a) | _, _ => None end.
Proof. unfold dyn_of, dyn_with. rewrite String.eqb_refl. reflexivity. Qed.

Definition Pld (R : remapper) (v : val) : Prop := forall ctx v' x,
  spec_val type_defs RTo R ctx loadable_t v = Ok v' -> ld_of v = Some x ->
  exists x', remap_xload R x = Ok x' /\ ld_of v' = Some x'.
Definition Plist (R : remapper) (v : val) : Prop := forall ctx l l' xs, v = VList l ->
  mapM (spec_val type_defs RTo R ctx loadable_t) l = Ok l' -> lds_of l = Some xs ->
  exists xs', mapM (remap_xload R) xs = Ok xs' /\ lds_of l' = Some xs'.
Definition dyn_sn (sn : string) : Prop := sn = "ConstantDynamic" \/ sn = "InvokeDynamic".
Definition Pdyn (R : remapper) (v : val) : Prop := forall sn ctx v' nm d h a, dyn_sn sn ->
  spec_val type_defs RTo R ctx (TName sn) v = Ok v' -> dyn_of sn v = Some (nm, d, h, a) ->
  exists d' h' a', map_desc R d = Ok d' /\ remap_xhandle R h = Ok h' /\ mapM (remap_xload R) a = Ok a' /\
                   dyn_of sn v' = Some (nm, d', h', a').

Lemma lds_of_cons a l : lds_of (a :: l) = match ld_of a with Some x => match lds_of l with Some ys => Some (x :: ys) | None => None end | None => None end.
Proof. reflexivity. Qed.

Lemma list_step R l : Forall (Pld R) l -> Plist R (VList l).
Proof.
  intros F ctx l0 l' xs [= <-]. revert l' xs. induction F as [|a l Ha F IH]; intros l' xs Hm Hl.
  - cbn in Hm. injection Hm as <-. cbn in Hl. injection Hl as <-. exists []. split; reflexivity.
  - rewrite mapM_cons in Hm. destruct (spec_val type_defs RTo R ctx loadable_t a) as [a'|] eqn:Ea; [|discriminate].
    destruct (mapM _ l) as [r|] eqn:Er; [|discriminate]. injection Hm as <-.
    rewrite lds_of_cons in Hl. destruct (ld_of a) as [x|] eqn:Ex; [|discriminate].
    destruct (lds_of l) as [ys|] eqn:Ey; [|discriminate]. injection Hl as <-.
    destruct (Ha ctx a' x Ea Ex) as (x' & Hx' & Hl').
    destruct (IH r ys eq_refl eq_refl) as (ys' & Hys' & Hr').
    exists (x' :: ys'). rewrite mapM_cons, Hx', Hys', lds_of_cons, Hl', Hr'. split; reflexivity.
Qed.

Lemma dyn_step R n c fs : Forall (fun p => Plist R (snd p)) fs -> Pdyn R (VNode n c fs).
Proof.
  intros F sn ctx v' nm d h a Hsn Hs Hd.
  destruct (dyn_of_shape sn _ _ Hd) as (nm0 & d0 & h0 & args & E). injection E as -> -> ->.
  rewrite dyn_of_node in Hd. destruct (handle_of h0) as [hx|] eqn:Eh; [|discriminate].
  destruct (lds_of args) as [xs|] eqn:Ea; [|discriminate]. injection Hd as <- <- <- <-.
  inversion F as [|? ? _ F1]; subst. inversion F1 as [|? ? _ F2]; subst. inversion F2 as [|? ? _ F3]; subst.
  inversion F3 as [|? ? Hargs _]; subst. cbn [snd] in Hargs.
  destruct Hsn as [-> | ->].
  - rewrite (spec_named R ctx "ConstantDynamic" "" _ eq_refl eq_refl eq_refl eq_refl) in Hs.
    destruct (node_fields type_defs "ConstantDynamic" "") as [fts|] eqn:Hnf; [|discriminate]. vm_compute in Hnf. injection Hnf as <-.
    rewrite !mapM_cons in Hs. cbn [fst snd] in Hs.
    erewrite !step_spec in Hs by reflexivity. cbn [snd] in Hs. rewrite spec_fname, spec_fdesc in Hs.
    destruct (map_desc R d0) as [d1|]; [|exfalso; cbn in Hs; discriminate Hs].
    destruct (spec_val type_defs RTo R ctx (TName "Handle") h0) as [h1|] eqn:Eh1; [|exfalso; cbn in Hs; discriminate Hs].
    rewrite spec_val_vec in Hs. change (mentions RTo (TName "Loadable")) with true in Hs. cbn [negb] in Hs.
    destruct (mapM (spec_val type_defs RTo R ctx (TName "Loadable")) args) as [args1|] eqn:Em; [|exfalso; cbn in Hs; discriminate Hs].
    cbn in Hs. injection Hs as <-.
    destruct (handle_commutes R ctx h0 h1 hx Eh1 Eh) as (hx' & Hhx & Hh1).
    destruct (Hargs ctx args args1 xs eq_refl Em Ea) as (xs' & Hxs & Hl1).
    exists d1, hx', xs'. split; [reflexivity|]. split; [exact Hhx|]. split; [exact Hxs|].
    rewrite dyn_of_node, Hh1, Hl1. reflexivity.
  - rewrite (spec_named R ctx "InvokeDynamic" "" _ eq_refl eq_refl eq_refl eq_refl) in Hs.
    destruct (node_fields type_defs "InvokeDynamic" "") as [fts|] eqn:Hnf; [|discriminate]. vm_compute in Hnf. injection Hnf as <-.
    rewrite !mapM_cons in Hs. cbn [fst snd] in Hs.
    erewrite !step_spec in Hs by reflexivity. cbn [snd] in Hs. rewrite spec_mname, spec_mdesc in Hs.
    destruct (map_desc R d0) as [d1|]; [|exfalso; cbn in Hs; discriminate Hs].
    destruct (spec_val type_defs RTo R ctx (TName "Handle") h0) as [h1|] eqn:Eh1; [|exfalso; cbn in Hs; discriminate Hs].
    rewrite spec_val_vec in Hs. change (mentions RTo (TName "Loadable")) with true in Hs. cbn [negb] in Hs.
    destruct (mapM (spec_val type_defs RTo R ctx (TName "Loadable")) args) as [args1|] eqn:Em; [|exfalso; cbn in Hs; discriminate Hs].
    cbn in Hs. injection Hs as <-.
    destruct (handle_commutes R ctx h0 h1 hx Eh1 Eh) as (hx' & Hhx & Hh1).
    destruct (Hargs ctx args args1 xs eq_refl Em Ea) as (xs' & Hxs & Hl1).
    exists d1, hx', xs'. split; [reflexivity|]. split; [exact Hhx|]. split; [exact Hxs|].
    rewrite dyn_of_node, Hh1, Hl1. reflexivity.
Qed.

Lemma ld_step R n c fs : Forall (fun p => Pdyn R (snd p)) fs -> Pld R (VNode n c fs).
Proof.
  intros F ctx v' x Hs Ho. unfold loadable_t in Hs.
  destruct (ld_of_shape _ _ Ho) as (c0 & y & E). injection E as -> -> ->.
  inversion F as [|? ? Hy _]; subst. cbn [snd] in Hy.
  rewrite (spec_named R ctx "Loadable" c0 _ eq_refl eq_refl eq_refl eq_refl) in Hs.
  destruct (node_fields type_defs "Loadable" c0) as [fts|] eqn:Hnf; [|discriminate].
  rewrite mapM_cons in Hs. cbn [fst snd] in Hs.
  destruct (C07.Laws2.step type_defs RTo R ctx "Loadable" c0 fts [("0", y)] "0" y) as [y'|] eqn:Est; [|discriminate].
  cbn in Hs. injection Hs as <-. rewrite ld_of_node in Ho |- *.
  repeat match type of Ho with
  | (if ?c =? ?lit then _ else _) = _ =>
      let E := fresh "E" in destruct (c =? lit) eqn:E;
      [apply String.eqb_eq in E; subst c; vm_compute in Hnf; injection Hnf as <-|]
  end; try discriminate.
  - erewrite step_spec in Est by reflexivity. cbn [snd] in Est. rewrite spec_prim in Est. injection Est as <-.
    destruct (sz_of y) as [z|]; [|discriminate]. injection Ho as <-. exists (XInt z). split; reflexivity.
  - erewrite step_spec in Est by reflexivity. cbn [snd] in Est. rewrite spec_prim in Est. injection Est as <-.
    destruct (sz_of y) as [z|]; [|discriminate]. injection Ho as <-. exists (XLong z). split; reflexivity.
  - erewrite step_spec in Est by reflexivity. cbn [snd] in Est.
    destruct y as [s| | | | | |]; try discriminate. injection Ho as <-. rewrite spec_class_any in Est. cbn [remap_xload].
    destruct (map_class_any R s) as [s'|]; [|discriminate]. injection Est as <-. exists (XClass s'). split; reflexivity.
  - erewrite step_spec in Est by reflexivity. cbn [snd] in Est. rewrite spec_prim in Est. injection Est as <-.
    destruct y as [s| | | | | |]; try discriminate. injection Ho as <-. exists (XString s). split; reflexivity.
  - erewrite step_spec in Est by reflexivity. cbn [snd] in Est.
    destruct (handle_of y) as [h|] eqn:Eh; [|discriminate]. injection Ho as <-.
    destruct (handle_commutes R ctx y y' h Est Eh) as (h' & Hh & Hy'). exists (XHandle h'). cbn [remap_xload]. rewrite Hh, Hy'. split; reflexivity.
  - erewrite step_spec in Est by reflexivity. cbn [snd] in Est.
    destruct y as [s| | | | | |]; try discriminate. injection Ho as <-. rewrite spec_mdesc in Est. cbn [remap_xload].
    destruct (map_desc R s) as [s'|]; [|discriminate]. injection Est as <-. exists (XMType s'). split; reflexivity.
  - erewrite step_spec in Est by reflexivity. cbn [snd] in Est.
    destruct (dyn_of "ConstantDynamic" y) as [[[[nm d] h] a]|] eqn:Ed; [|discriminate]. injection Ho as <-.
    destruct (Hy "ConstantDynamic" ctx y' nm d h a (or_introl eq_refl) Est Ed) as (d' & h' & a' & Hd' & Hh' & Ha' & Hy').
    exists (XDyn nm d' h' a'). cbn [remap_xload]. rewrite Hd', Hh', Ha', Hy'. split; reflexivity.
Qed.

Lemma ld_all R v : Pld R v /\ Plist R v /\ Pdyn R v.
Proof.
  induction v as [s|s|n c fs IH|l IH| |y IH|a0 b0 IHa IHb] using val_ind2.
  - split; [intros ctx v' x _ H; discriminate H|]. split; [intros ctx l l' xs H; discriminate H|].
    intros sn ctx v' nm d h a _ _ H. discriminate H.
  - split; [intros ctx v' x _ H; discriminate H|]. split; [intros ctx l l' xs H; discriminate H|].
    intros sn ctx v' nm d h a _ _ H. discriminate H.
  - split; [|split].
    + apply ld_step. eapply Forall_impl; [|exact IH]. intros p H. exact (proj2 (proj2 H)).
    + intros ctx l l' xs H. discriminate H.
    + apply dyn_step. eapply Forall_impl; [|exact IH]. intros p H. exact (proj1 (proj2 H)).
  - split; [intros ctx v' x _ H; discriminate H|]. split.
    + apply list_step. eapply Forall_impl; [|exact IH]. intros p H. exact (proj1 H).
    + intros sn ctx v' nm d h a _ _ H. discriminate H.
  - split; [intros ctx v' x _ H; discriminate H|]. split; [intros ctx l l' xs H; discriminate H|].
    intros sn ctx v' nm d h a _ _ H. discriminate H.
  - split; [intros ctx v' x _ H; discriminate H|]. split; [intros ctx l l' xs H; discriminate H|].
    intros sn ctx v' nm d h a _ _ H. discriminate H.
  - split; [intros ctx v' x _ H; discriminate H|]. split; [intros ctx l l' xs H; discriminate H|].
    intros sn ctx v' nm d h a _ _ H. discriminate H.
Qed.

(* the projection of a Loadable commutes with remapping, for every nesting depth of bootstrap arguments *)
Theorem loadable_commutes R ctx v v' x :
  spec_val type_defs RTo R ctx loadable_t v = Ok v' -> ld_of v = Some x ->
  exists x', remap_xload R x = Ok x' /\ ld_of v' = Some x'.
Proof. exact (proj1 (ld_all R v) ctx v' x). Qed.

(* … of a ConstantDynamic / InvokeDynamic struct *)
Theorem dyn_commutes R sn ctx v v' nm d h a :
  sn = "ConstantDynamic" \/ sn = "InvokeDynamic" ->
  spec_val type_defs RTo R ctx (TName sn) v = Ok v' -> dyn_of sn v = Some (nm, d, h, a) ->
  exists d' h' a', map_desc R d = Ok d' /\ remap_xhandle R h = Ok h' /\ mapM (remap_xload R) a = Ok a' /\
                   dyn_of sn v' = Some (nm, d', h', a').
Proof. exact (proj2 (proj2 (ld_all R v)) sn ctx v' nm d h a). Qed.

(* ------------------------------------------------------------------ *)
(* 4. the instructions ldc and invokedynamic *)

Lemma ld_ref_shape i o : ld_ref i = Some o -> exists c y, i = VNode "Instruction" c [("0", y)].
Proof.
  destruct i as [| |n c fs| | | |]; try discriminate. destruct fs as [|[k0 y] [|? ?]]; try (let HH := fresh in intros HH; exfalso; cbn in HH; discriminate HH).
  cbn [ld_ref]. destruct ((n =? "Instruction") && (k0 =? "0"))%bool eqn:E; [|discriminate]. intros _.
  apply andb_prop in E. destruct E as [E1 E2]. apply String.eqb_eq in E1, E2. subst. exists c, y. reflexivity.
Qed.
Lemma ld_ref_node c x :
  ld_ref (VNode "Instruction" c [("0", x)]) =
    if c =? "Ldc" then option_map XLdc (ld_of x)
    else if c =? "InvokeDynamic" then
      match dyn_of "InvokeDynamic" x with Some (nm, d, h, a) => Some (XIndyOp nm d h a) | None => None end
    else None.
Proof. reflexivity. Qed.

Theorem ldc_commutes R ctx i i' o :
  spec_val type_defs RTo R ctx insn_t i = Ok i' -> ld_ref i = Some o ->
  exists o', remap_xop R o = Ok o' /\ ld_ref i' = Some o'.
Proof.
  unfold insn_t. intros Hs Ho. destruct (ld_ref_shape _ _ Ho) as (c0 & y & ->).
  rewrite (spec_named R ctx "Instruction" c0 _ eq_refl eq_refl eq_refl eq_refl) in Hs.
  destruct (node_fields type_defs "Instruction" c0) as [fts|] eqn:Hnf; [|discriminate].
  rewrite mapM_cons in Hs. cbn [fst snd] in Hs.
  destruct (C07.Laws2.step type_defs RTo R ctx "Instruction" c0 fts [("0", y)] "0" y) as [y'|] eqn:Est; [|discriminate].
  cbn in Hs. injection Hs as <-. rewrite ld_ref_node in Ho |- *.
  repeat match type of Ho with
  | (if ?c =? ?lit then _ else _) = _ =>
      let E := fresh "E" in destruct (c =? lit) eqn:E;
      [apply String.eqb_eq in E; subst c; vm_compute in Hnf; injection Hnf as <-|]
  end; try discriminate.
  - erewrite step_spec in Est by reflexivity. cbn [snd] in Est.
    destruct (ld_of y) as [x|] eqn:Ex; [|discriminate]. injection Ho as <-.
    destruct (loadable_commutes R ctx y y' x Est Ex) as (x' & Hx & Hy'). exists (XLdc x'). cbn [remap_xop]. rewrite Hx, Hy'. split; reflexivity.
  - erewrite step_spec in Est by reflexivity. cbn [snd] in Est.
    destruct (dyn_of "InvokeDynamic" y) as [[[[nm d] h] a]|] eqn:Ed; [|discriminate]. injection Ho as <-.
    destruct (dyn_commutes R "InvokeDynamic" ctx y y' nm d h a (or_intror eq_refl) Est Ed) as (d' & h' & a' & Hd' & Hh' & Ha' & Hy').
    exists (XIndyOp nm d' h' a'). cbn [remap_xop]. rewrite Hd', Hh', Ha', Hy'. split; reflexivity.
Qed.

(* … for the interpreter of the regenerated table *)
Theorem ldc_commutes_remap R ctx i i' o :
  has_ty type_defs insn_t i = true -> remap_val gen_table R ctx insn_t i = Ok i' -> ld_ref i = Some o ->
  exists o', remap_xop R o = Ok o' /\ ld_ref i' = Some o'.
Proof.
  intros Hty Hr Ho. rewrite (remap_val_spec_full R ctx insn_t i insn_deleg_ok Hty) in Hr.
  unfold spec_remap_val in Hr. rewrite RTo_eq in Hr. exact (ldc_commutes R ctx i i' o Hr Ho).
Qed.

(* an ldc / invokedynamic instruction has no direct class / field / method operand *)
Lemma ld_ref_no_op_ref i o : ld_ref i = Some o -> op_ref i = None.
Proof.
  intros Ho. destruct (ld_ref_shape _ _ Ho) as (c0 & y & ->). rewrite ld_ref_node in Ho.
  destruct (c0 =? "Ldc") eqn:E1; [apply String.eqb_eq in E1; subst c0; reflexivity|].
  destruct (c0 =? "InvokeDynamic") eqn:E2; [apply String.eqb_eq in E2; subst c0; reflexivity|discriminate].
Qed.
Lemma tr_insn_ld i o : ld_ref i = Some o -> tr_insn i = Some (cinsn_of_x o).
Proof. intros Ho. unfold tr_insn. rewrite (ld_ref_no_op_ref i o Ho), Ho. reflexivity. Qed.

(* ------------------------------------------------------------------ *)
(* 5. composition with C02's writer model *)

(* at byte [q] of the code array [w] stands the written form of the operand [o]; [p] / [tbl]: the constant pool and the
   bootstrap-method table of the written file (C02's [ldenotes]: Class / MethodType / MethodHandle constants through the
   kind-checked decoder getters in every decoder view of the pool; a Dynamic constant: a CONSTANT_Dynamic entry whose
   name-and-type is (name, descriptor), whose bootstrap_method_attr_index selects in [tbl] the entry (handle, indices) and
   every index denotes the argument, recursively) *)
Definition written_x (p : C02.Model.pool) (tbl : list C02.Class.bsment) (w : list N) (q : Z) (o : xop) : Prop :=
  match o with
  | XLdc x =>
      exists idx, C02.TheoryC10.bytes_at w q (C02.TheoryC10.ldc_bytes (cload_of x) idx) /\
                  C02.TheoryB2.ldenotes p tbl (cload_of x) idx
  | XIndyOp n d h args =>
      exists idx b nt idxs,
        C02.TheoryC10.bytes_at w q ([186%N] ++ C02.Model.be16 idx ++ [0%N; 0%N])%list /\
        C02.TheoryC2.resolves p idx (C02.Class.CInvokeDynamic b nt) /\
        C02.TheoryC2.refers C02.Decode.get_nat (C02.Class.mutf8 n, C02.Class.mutf8 d) p nt /\
        (0 <= b)%Z /\ nth_error tbl (Z.to_nat b) = Some (chandle_of h, idxs) /\
        Forall2 (C02.TheoryB2.ldenotes p tbl) (map cload_of args) idxs
  end.

Theorem written_ldc_tr (R : remapper) (v v' : val) (t : C02.Class.cclass) (cbytes : list N) (aux : C02.Class.class_aux) :
  has_ty type_defs class_ty v = true ->
  remap_val gen_table R None class_ty v = Ok v' ->
  tr v' = Some t ->
  C02.TheoryC8.cclass_ok t = true ->
  C02.Class.write_class_aux t = C02.Class.WOK (cbytes, aux) ->
  forall j k i o, sub (insn_path j k) v = Some i -> ld_ref i = Some o ->
    exists o' w labs pos q,
      remap_xop R o = Ok o' /\
      nth_error (C02.Class.a_codes aux) j = Some (Some (w, labs, pos)) /\ nth_error pos k = Some q /\
      written_x (C02.Class.a_pool aux) (C02.Class.a_bsm aux) w q o'.
Proof.
  intros Hty Hr Ht Hok Hw j k i o Hi Ho.
  rewrite (remap_class_spec_full R None v Hty) in Hr. unfold spec_remap_val in Hr. rewrite RTo_eq in Hr.
  destruct (sub_ty_typed type_defs RTo (insn_path j k) class_ty None v i insn_t (insn_path_walk j k) Hty Hi) as (ctx' & Hst & _).
  destruct (spec_val_sub type_defs RTo R (insn_path j k) v class_ty None v' insn_t ctx' i Hr Hst) as (i' & Hi' & Hs).
  destruct (ldc_commutes R ctx' i i' o Hs Ho) as (o' & Hro & Ho').
  destruct (tr_insn_at v' t j k i' Ht Hi') as (cm & c & ci & Hcm & Hc & Hci & Hview).
  rewrite (tr_insn_ld i' o' Ho') in Hview. injection Hview as Hview.
  pose proof (C02.TheoryB2.bootstrap_resolves_explicit t cbytes aux Hok Hw) as F.
  destruct (C02.TheoryC10.Forall2_nth_inv _ _ _ j cm F Hcm) as (ca & Hca & Hden).
  cbv beta in Hden. rewrite Hc in Hden. destruct ca as [[[w labs] pos]|]; [|contradiction].
  destruct (C02.TheoryC10.Forall2_nth_inv _ _ _ k ci Hden Hci) as (q & Hq & Hop).
  cbv beta in Hop. rewrite <- Hview in Hop. exists o', w, labs, pos, q. split; [exact Hro|]. split; [exact Hca|]. split; [exact Hq|].
  destruct o' as [x|n d h args]; cbn [cinsn_of_x written_x] in Hop |- *.
  - exact Hop.
  - destruct Hop as (x & b & nt & idxs & H1 & H2 & H3 & H4 & H5 & H6). exists x, b, nt, idxs. auto 10.
Qed.
