(* X27 — ldc / invokedynamic of a remapped class, written by C02's writer model, READ BY C01's POOL READER (through coq/X12):
   C01's read_head reads from the written file the pool P = rpool dec cs; for a bootstrap table B that agrees with the
   written one (X12.BridgeDyn.table_agrees: what C02_bridge_bootstrap_table derives from the file's BootstrapMethods
   attribute), C01's get_loadable resolves the index standing in the ldc instruction — and get_invoke_dynamic the index in the
   invokedynamic instruction — to the value of what the remapper answers for the ORIGINAL operand, for every fuel above the
   nesting depth of the constant (C01's reader has the depth limit nesting_fuel; remap.rs and the writer have none). *)
From Coq Require Import String Lia ZArith.
From FB Require Import C07.BridgeDefs C07.Model C07.Spec C07.Theory C07.Tree C07.TreeTheory C07.Laws C07.Laws2 C07.Occ C07.Bridge X27.Tr X27.TrTheory X27.TrLd.
From FB Require C02.Class C02.Decode C02.TheoryC1 C02.TheoryC2 C02.TheoryC8 C02.TheoryC10 C02.TheoryB2.
From FB Require C01.Model C01.Pool C01.Mutf8 C01.Attr C01.Tables X12.BridgeDefs X12.BridgePool X12.BridgeClass X12.BridgeDyn.
Local Open Scope string_scope.

Definition c01_reads_x (dec : list N -> res str) (cs : list C02.Class.centry) (B : C01.Pool.bsms) (w : list N) (q : Z) (o : xop) : Prop :=
  match o with
  | XLdc x =>
      exists idx, C02.TheoryC10.bytes_at w q (C02.TheoryC10.ldc_bytes (cload_of x) idx) /\
        forall fuel, (X12.BridgeDyn.ldepth (cload_of x) < fuel)%nat ->
          C01.Pool.get_loadable fuel (X12.BridgePool.rpool dec cs) B (Z.to_N idx) = Ok (X12.BridgeDyn.lval dec (cload_of x))
  | XIndyOp n d h args =>
      exists idx, C02.TheoryC10.bytes_at w q ([186%N] ++ C02.Model.be16 idx ++ [0%N; 0%N])%list /\
        (Forall (fun a => (X12.BridgeDyn.ldepth a < pred C01.Pool.nesting_fuel)%nat) (map cload_of args) ->
         C01.Pool.get_invoke_dynamic (X12.BridgePool.rpool dec cs) B (Z.to_N idx)
         = Ok (C01.Pool.VIndy (X12.BridgePool.sdec dec (C02.Class.mutf8 n)) (X12.BridgePool.sdec dec (C02.Class.mutf8 d))
                              (X12.BridgePool.handle_val dec (chandle_of h)) (map (X12.BridgeDyn.lval dec) (map cload_of args))))
  end.

Theorem written_ldc_read_c01 (R : remapper) (v v' : val) (t : C02.Class.cclass) (cbytes : list N) (aux : C02.Class.class_aux) :
  has_ty type_defs class_ty v = true ->
  remap_val gen_table R None class_ty v = Ok v' ->
  tr v' = Some t ->
  C02.TheoryC8.cclass_ok t = true ->
  C02.Class.write_class_aux t = C02.Class.WOK (cbytes, aux) ->
  C01.Attr.header_ok C01.Tables.magic (Z.to_N (C02.Class.k_minor t)) (Z.to_N (C02.Class.k_major t)) = true ->
  X12.BridgeClass.pool_utf8_ok C01.Mutf8.mutf8_dec (C02.Class.a_pool aux) = true ->
  exists cs head rest,
    X12.BridgeClass.read_head true C01.Mutf8.mutf8_dec cbytes
    = Ok (Z.to_N (C02.Class.k_minor t), Z.to_N (C02.Class.k_major t), X12.BridgePool.rpool C01.Mutf8.mutf8_dec cs, head, rest) /\
    forall B, X12.BridgeDyn.table_agrees cs (C02.Class.a_bsm aux) B ->
    forall j k i o, sub (insn_path j k) v = Some i -> ld_ref i = Some o ->
      exists o' w labs pos q,
        remap_xop R o = Ok o' /\
        nth_error (C02.Class.a_codes aux) j = Some (Some (w, labs, pos)) /\ nth_error pos k = Some q /\
        c01_reads_x C01.Mutf8.mutf8_dec cs B w q o'.
Proof.
  intros Hty Hr Ht Hok Hw Hgate Hdec.
  destruct (X12.BridgeClass.class_read_base true C01.Mutf8.mutf8_dec t cbytes aux Hok Hw Hgate Hdec)
    as (cs & fields & mbytes & abytes & fs & ms & ds & _ & Hag & Hrh & _).
  exists cs. eexists. eexists. split; [exact Hrh|].
  intros B HT j k i o Hi Ho.
  destruct (written_ldc_tr R v v' t cbytes aux Hty Hr Ht Hok Hw j k i o Hi Ho) as (o' & w & labs & pos & q & Hro & Hn & Hq & Hwr).
  exists o', w, labs, pos, q. split; [exact Hro|]. split; [exact Hn|]. split; [exact Hq|].
  destruct o' as [x|n d h args]; cbn [written_x c01_reads_x] in Hwr |- *.
  - destruct Hwr as (idx & Hb & Hd). exists idx. split; [exact Hb|]. intros fuel Hf.
    exact (X12.BridgeDyn.loadable_read C01.Mutf8.mutf8_dec cs _ _ B Hag HT _ idx fuel Hd Hf).
  - destruct Hwr as (idx & b & nt & idxs & Hb & H2 & H3 & H4 & H5 & H6). exists idx. split; [exact Hb|]. intros Hdep.
    exact (X12.BridgeDyn.indy_read C01.Mutf8.mutf8_dec cs _ _ B idx b nt _ _ _ idxs _ Hag HT H2 H3 H4 H5 H6 Hdep).
Qed.
