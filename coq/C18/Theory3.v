(* C18 theory, third file (round 5): the inner-class helpers agree with each other (and where exactly they answer),
   the dimension cap as an equation for every number of `[` and every place a field type can stand in, and the
   rejection halves of the return / method descriptor theorems. *)
From FB Require Import C18.Model C18.Theory C18.Theory2.
From Coq Require Import Arith Lia.
Arguments N.add : simpl never.
Arguments N.eqb : simpl never.

(* ------------------------------------------------------------------ *)
(* split / parent / name of an inner class name *)

(* split answers exactly on parent$inner with a non-empty parent that does not end in `/` and a non-empty inner name
   free of `/` and `$` (so the `$` is the LAST one and lies in the last `/`-separated section) *)
Theorem split_inner_iff s p i : split_inner s = Some (p, i) <-> s = join_inner p i /\ inner_ok p i.
Proof.
  split.
  - intros H. apply join_split in H as [E H]. split; [symmetry; exact E|exact H].
  - intros [-> H]. apply split_join. exact H.
Qed.

(* get_inner_class_name / get_inner_class_parent are the two halves of the split: neither answers where the other,
   or the split, does not *)
Theorem inner_helpers_agree s :
  (forall i, inner_name s = Some i <-> exists p, split_inner s = Some (p, i)) /\
  (forall p, inner_parent s = Some p <-> exists i, split_inner s = Some (p, i)) /\
  (inner_name s = None <-> split_inner s = None) /\
  (inner_parent s = None <-> split_inner s = None) /\
  (forall p i, inner_parent s = Some p -> inner_name s = Some i -> join_inner p i = s).
Proof.
  unfold inner_name, inner_parent. destruct (split_inner s) as [[p0 i0]|] eqn:E.
  - split; [|split; [|split; [|split]]].
    + intros i. split; [intros [= <-]; exists p0; reflexivity|]. intros (p & H). injection H as _ ->. reflexivity.
    + intros p. split; [intros [= <-]; exists i0; reflexivity|]. intros (i & H). injection H as -> _. reflexivity.
    + split; discriminate.
    + split; discriminate.
    + intros p i [= <-] [= <-]. apply join_split in E as [E _]. exact E.
  - split; [|split; [|split; [|split]]].
    + intros i. split; [discriminate|]. intros (p & H). discriminate.
    + intros p. split; [discriminate|]. intros (i & H). discriminate.
    + split; reflexivity.
    + split; reflexivity.
    + intros p i H. discriminate.
Qed.

Theorem inner_name_spec s i : inner_name s = Some i <-> exists p, s = join_inner p i /\ inner_ok p i.
Proof.
  destruct (inner_helpers_agree s) as (H & _). rewrite H. split.
  - intros (p & Hs). exists p. apply split_inner_iff. exact Hs.
  - intros (p & Hs). exists p. apply split_inner_iff. exact Hs.
Qed.

Theorem inner_parent_spec s p : inner_parent s = Some p <-> exists i, s = join_inner p i /\ inner_ok p i.
Proof.
  destruct (inner_helpers_agree s) as (_ & H & _). rewrite H. split.
  - intros (i & Hs). exists i. apply split_inner_iff. exact Hs.
  - intros (i & Hs). exists i. apply split_inner_iff. exact Hs.
Qed.

(* names whose last `$` opens the simple name (JDK dynamic proxies, obfuscators): valid object class names that are
   NOT inner class names for any of the three helpers; and a name that is one *)
Definition ex_proxy : str := [99;111;109;47;115;117;110;47;112;114;111;120;121;47;36;80;114;111;120;121;48].  (* com/sun/proxy/$Proxy0 *)
Definition ex_proxy_bare : str := [36;80;114;111;120;121;48].                                                   (* $Proxy0 *)
Definition ex_a_dollar_b : str := [97;47;36;98].                                                                (* a/$b *)
Definition ex_trailing_dollar : str := [97;47;66;36].                                                           (* a/B$ *)
Definition ex_two_dollars : str := [97;47;66;36;67;36;68].                                                      (* a/B$C$D *)

Definition inner_examples : Prop :=
  Forall (fun s => is_valid_obj_class_name s = true /\ split_inner s = None /\ inner_parent s = None /\ inner_name s = None)
         [ex_proxy; ex_proxy_bare; ex_a_dollar_b; ex_trailing_dollar] /\
  is_valid_obj_class_name ex_two_dollars = true /\
  split_inner ex_two_dollars = Some ([97;47;66;36;67], [68]) /\
  inner_parent ex_two_dollars = Some [97;47;66;36;67] /\ inner_name ex_two_dollars = Some [68] /\
  get_simple_name ex_proxy = ex_proxy_bare.

Lemma inner_examples_hold : inner_examples.
Proof.
  unfold inner_examples. split; [|vm_compute; repeat split; reflexivity].
  repeat constructor; vm_compute; reflexivity.
Qed.

(* ------------------------------------------------------------------ *)
(* the dimension cap: 255 `[` are read, 256 are not - wherever a field type can stand *)

Lemma count_brackets_over j r n :
  n <= 255 -> 255 < n + N.of_nat j -> count_brackets (repeat cLBRACK j ++ r) n = Err.
Proof.
  revert n; induction j as [|j IH]; intros n Hn Hk; [lia|].
  cbn [repeat app count_brackets]. rewrite N.eqb_refl.
  destruct (N.eqb_spec n 255) as [->|Hne]; [reflexivity|].
  apply IH; lia.
Qed.

(* more than 255 `[`: an error whatever follows *)
Lemma read_field_type_over k r : (255 < k)%nat -> read_field_type (repeat cLBRACK k ++ r) = Err.
Proof.
  intros Hk. unfold read_field_type. rewrite count_brackets_over by lia. reflexivity.
Qed.

(* up to 255 `[` in front of a base type: the array type of that dimension (the plain type for 0), the rest untouched *)
Lemma read_field_type_upto k b a r : BaseG b a -> (k <= 255)%nat ->
  read_field_type (repeat cLBRACK k ++ b ++ r) = Ok (ty_of (N.of_nat k) a, r).
Proof.
  intros Hb Hk. rewrite app_assoc. apply read_field_type_complete.
  exists (N.of_nat k), a. split; [apply FT_repeat; exact Hb|]. split; [lia|reflexivity].
Qed.

Lemma repeat_bracket_first k r : (1 <= k)%nat -> exists t, repeat cLBRACK k ++ r = cLBRACK :: t.
Proof. destruct k as [|k]; [lia|]. intros _. exists (repeat cLBRACK k ++ r). reflexivity. Qed.

Theorem dimension_cap_field k b a : BaseG b a ->
  parse_field (repeat cLBRACK k ++ b) = if (k <=? 255)%nat then Ok (ty_of (N.of_nat k) a) else Err.
Proof.
  intros Hb. unfold parse_field. destruct (Nat.leb_spec k 255) as [Hk|Hk].
  - pose proof (read_field_type_upto k b a [] Hb Hk) as E. rewrite app_nil_r in E. rewrite E. reflexivity.
  - rewrite read_field_type_over by lia. reflexivity.
Qed.

Theorem dimension_cap_return k b a : BaseG b a ->
  parse_return (repeat cLBRACK k ++ b) = if (k <=? 255)%nat then Ok (Some (ty_of (N.of_nat k) a)) else Err.
Proof.
  intros Hb. pose proof (dimension_cap_field k b a Hb) as E. destruct (Nat.leb_spec k 255) as [Hk|Hk].
  - apply field_is_return. exact E.
  - destruct (repeat_bracket_first k b ltac:(lia)) as (t & Et). rewrite Et in *. unfold parse_return.
    replace (N.eqb cLBRACK cV) with false by reflexivity. rewrite E. reflexivity.
Qed.

(* array class names / class names: 1..255 dimensions *)
Theorem dimension_cap_arr_class_name k b a : BaseG b a ->
  is_valid_arr_class_name (repeat cLBRACK k ++ b) = ((1 <=? k)%nat && (k <=? 255)%nat)%bool.
Proof.
  intros Hb. unfold is_valid_arr_class_name. rewrite (dimension_cap_field k b a Hb).
  destruct k as [|k].
  - cbn [repeat app Nat.leb andb]. pose proof (BaseG_not_bracket _ _ Hb) as Hn.
    destruct b as [|c b]; [reflexivity|]. cbn in Hn. cbn [starts_with].
    destruct (N.eqb_spec cLBRACK c) as [<-|Hne]; [congruence|reflexivity].
  - cbn [repeat app starts_with]. rewrite N.eqb_refl. change (1 <=? S k)%nat with true.
    destruct (S k <=? 255)%nat; reflexivity.
Qed.

Theorem dimension_cap_class_name k b a : BaseG b a -> (1 <= k)%nat ->
  is_valid_class_name (repeat cLBRACK k ++ b) = (k <=? 255)%nat.
Proof.
  intros Hb Hk. rewrite class_name_partition. unfold is_array_name.
  destruct (repeat_bracket_first k b Hk) as (t & Et). rewrite Et. cbn [starts_with]. rewrite N.eqb_refl. rewrite <- Et.
  rewrite (dimension_cap_arr_class_name k b a Hb). destruct k; [lia|]. reflexivity.
Qed.

(* ArrClassNameSlice::dimension on the names of the cap: the number of `[` itself, never truncated *)
Theorem dimension_cap_dimension k b a : BaseG b a -> (1 <= k <= 255)%nat ->
  arr_dimension (repeat cLBRACK k ++ b) = Ok (N.of_nat k).
Proof.
  intros Hb Hk. unfold arr_dimension.
  rewrite count_leading_repeat by (apply (BaseG_not_bracket _ _ Hb)).
  rewrite N.mod_small by lia. destruct (N.eqb_spec (N.of_nat k) 0); [lia|reflexivity].
Qed.

(* inside a method descriptor, behind any well-formed parameters: in parameter position and in return position *)
Lemma read_params_over fuel ss ps k r : Forall2 FieldTypeG ss ps -> (255 < k)%nat ->
  read_params fuel (concat ss ++ repeat cLBRACK k ++ r) = Err.
Proof.
  intros H Hk; revert fuel; induction H as [|p t ss ps Hp Hss IH]; intros fuel.
  - cbn [concat app]. destruct fuel as [|f]; [reflexivity|].
    destruct (repeat_bracket_first k r ltac:(lia)) as (t & Et). cbn [read_params]. rewrite Et.
    replace (N.eqb cLBRACK cRPAR) with false by reflexivity. rewrite <- Et.
    rewrite read_field_type_over by exact Hk. reflexivity.
  - cbn [concat]. rewrite <- app_assoc.
    destruct (FieldTypeG_first _ _ Hp) as (c & p' & -> & Hc & _).
    destruct fuel as [|f]; [reflexivity|]. cbn [read_params app].
    destruct (N.eqb_spec c cRPAR); [congruence|].
    change (c :: p' ++ concat ss ++ repeat cLBRACK k ++ r) with ((c :: p') ++ concat ss ++ repeat cLBRACK k ++ r).
    rewrite (read_field_type_complete _ _ _ Hp). rewrite IH. reflexivity.
Qed.

Theorem dimension_cap_method ss ps k b a rs rt : Forall2 FieldTypeG ss ps -> BaseG b a -> ReturnG rs rt ->
  (* a parameter with k dimensions behind the parameters ss *)
  parse_method (cLPAR :: concat ss ++ repeat cLBRACK k ++ b ++ cRPAR :: rs)
    = (if (k <=? 255)%nat then Ok (ps ++ [ty_of (N.of_nat k) a], rt) else Err) /\
  (* the return type with k dimensions *)
  parse_method (cLPAR :: concat ss ++ cRPAR :: repeat cLBRACK k ++ b)
    = (if (k <=? 255)%nat then Ok (ps, Some (ty_of (N.of_nat k) a)) else Err).
Proof.
  intros Hss Hb Hr. split.
  - destruct (Nat.leb_spec k 255) as [Hk|Hk].
    + apply parse_method_spec. exists (ss ++ [repeat cLBRACK k ++ b]), rs. cbn [fst snd]. split; [|split; [exact Hr|]].
      * apply Forall2_app; [exact Hss|]. constructor; [|constructor].
        exists (N.of_nat k), a. split; [apply FT_repeat; exact Hb|]. split; [lia|reflexivity].
      * rewrite concat_app. cbn [concat]. rewrite app_nil_r, <- !app_assoc. reflexivity.
    + unfold parse_method. replace (N.eqb cLPAR cLPAR) with true by reflexivity.
      rewrite (read_params_over _ ss ps k _ Hss) by lia. reflexivity.
  - unfold parse_method. replace (N.eqb cLPAR cLPAR) with true by reflexivity.
    rewrite (read_params_complete ss ps _ _ Hss) by lia.
    rewrite (dimension_cap_return k b a Hb). destruct (k <=? 255)%nat; reflexivity.
Qed.

(* the three numbers around the cap, with a primitive and with an object element, through every predicate that counts
   dimensions (evaluated) *)
Definition ex_obj_desc : str := cL :: ex_obj ++ [cSEMI].
Definition cap_row (k : nat) (b : str) : list bool :=
  let s := repeat cLBRACK k ++ b in
  [is_ok (parse_field s); is_ok (parse_return s); is_valid_arr_class_name s; is_valid_class_name s;
   is_ok (parse_method (cLPAR :: s ++ [cRPAR; cV])); is_ok (parse_method (cLPAR :: cRPAR :: s)); is_ok (arr_dimension s)].
Definition dimension_cap_examples : Prop :=
  Forall (fun b => cap_row 254 b = [true; true; true; true; true; true; true] /\
                   cap_row 255 b = [true; true; true; true; true; true; true] /\
                   cap_row 256 b = [false; false; false; false; false; false; false] /\
                   cap_row 257 b = [false; false; false; false; false; false; true])
         [[cI]; [cD]; ex_obj_desc] /\
  arr_dimension (repeat cLBRACK 255 ++ [cI]) = Ok 255 /\ parse_field (repeat cLBRACK 255 ++ ex_obj_desc) = Ok (TArr 255 (AObj ex_obj)).

Lemma dimension_cap_examples_hold : dimension_cap_examples.
Proof.
  unfold dimension_cap_examples. split; [|split; vm_compute; reflexivity].
  repeat constructor; vm_compute; reflexivity.
Qed.

(* ------------------------------------------------------------------ *)
(* "fails on every string outside the grammar", for the other two kinds *)
Theorem parse_return_rejects s : (forall r, ~ ReturnG s r) -> parse_return s = Err.
Proof.
  intros H. destruct (parse_return s) as [r|] eqn:E; [|reflexivity].
  exfalso. apply (H r). apply parse_return_spec. exact E.
Qed.

Theorem parse_method_rejects s : (forall m, ~ MethodG s m) -> parse_method s = Err.
Proof.
  intros H. destruct (parse_method s) as [m|] eqn:E; [|reflexivity].
  exfalso. apply (H m). apply parse_method_spec. exact E.
Qed.
