(* C18 theory: the descriptor parsers accept exactly the JVMS 4.3 grammar, printing and
   parsing are mutually inverse, the name predicates accept exactly the documented sets,
   split/join of inner class names are mutually inverse. *)
From FB Require Import C18.Model.
From Coq Require Import Arith.
Arguments N.add : simpl never.
Arguments N.eqb : simpl never.

(* ------------------------------------------------------------------ *)
(* Specification: JVMS 4.2.1 / 4.2.2 names and 4.3.2 / 4.3.3 descriptors *)

Definition Unq (u : str) : Prop :=
  u <> [] /\ Forall (fun c => ~ In c [cDOT; cSEMI; cLBRACK; cSLASH]) u.

(* binary class name in internal form: unqualified names separated by `/` *)
Inductive ClassNameG : str -> Prop :=
| CN_one u : Unq u -> ClassNameG u
| CN_cons u r : Unq u -> ClassNameG r -> ClassNameG (u ++ cSLASH :: r).

Inductive BaseG : str -> aty -> Prop :=
| BG_B : BaseG [cB] AB | BG_C : BaseG [cC] AC | BG_D : BaseG [cD] AD | BG_F : BaseG [cF] AF
| BG_I : BaseG [cI] AI | BG_J : BaseG [cJ] AJ | BG_S : BaseG [cS] AS | BG_Z : BaseG [cZ] AZ
| BG_Obj n : ClassNameG n -> BaseG (cL :: n ++ [cSEMI]) (AObj n).

(* FieldType ::= BaseType | L ClassName ; | [ FieldType, with the number of dimensions *)
Inductive FT : str -> N -> aty -> Prop :=
| FT_base s a : BaseG s a -> FT s 0 a
| FT_arr s d a : FT s d a -> FT (cLBRACK :: s) (d + 1) a.

Definition ty_of (d : N) (a : aty) : ty := if N.eqb d 0 then ty_of_aty a else TArr d a.

(* a field descriptor denoting [t]; at most 255 dimensions (JVMS 4.3.2) *)
Definition FieldTypeG (s : str) (t : ty) : Prop :=
  exists d a, FT s d a /\ d <= 255 /\ t = ty_of d a.

Definition ReturnG (s : str) (r : option ty) : Prop :=
  (s = [cV] /\ r = None) \/ (exists t, r = Some t /\ FieldTypeG s t).

Definition MethodG (s : str) (m : list ty * option ty) : Prop :=
  exists ss rs, Forall2 FieldTypeG ss (fst m) /\ ReturnG rs (snd m) /\
                s = cLPAR :: concat ss ++ cRPAR :: rs.

(* well-formed type values: what the checked constructors of the name types allow *)
Definition wf_aty (a : aty) : Prop := match a with AObj n => ClassNameG n | _ => True end.
Definition wf_ty (t : ty) : Prop :=
  match t with
  | TObj n => ClassNameG n
  | TArr d a => 1 <= d <= 255 /\ wf_aty a
  | _ => True
  end.

Definition MethodNameG (s : str) : Prop :=
  s = s_init \/ s = s_clinit \/
  (s <> [] /\ Forall (fun c => ~ In c [cDOT; cSEMI; cLBRACK; cSLASH; cLT; cGT]) s).

Definition ArrClassNameG (s : str) : Prop := exists d a, FT s d a /\ 1 <= d <= 255.
Definition AnyClassNameG (s : str) : Prop := ClassNameG s \/ ArrClassNameG s.

(* ------------------------------------------------------------------ *)
(* unqualified names *)

Lemma unq_char_spec c : unq_char c = true <-> ~ In c [cDOT; cSEMI; cLBRACK; cSLASH].
Proof.
  unfold unq_char. rewrite negb_true_iff. rewrite <- mem_N_In.
  destruct (mem_N c _); split; congruence.
Qed.

Lemma meth_char_spec c : meth_char c = true <-> ~ In c [cDOT; cSEMI; cLBRACK; cSLASH; cLT; cGT].
Proof.
  unfold meth_char. rewrite negb_true_iff. rewrite <- mem_N_In.
  destruct (mem_N c _); split; congruence.
Qed.

Lemma unqualified_spec u : is_valid_unqualified_name u = true <-> Unq u.
Proof.
  unfold is_valid_unqualified_name, Unq. rewrite andb_true_iff, negb_true_iff, forallb_forall, Forall_forall.
  split.
  - intros [Hn Hc]. split; [destruct u; [discriminate|congruence]|].
    intros c Hin. apply unq_char_spec. auto.
  - intros [Hn Hc]. split; [destruct u; [congruence|reflexivity]|].
    intros c Hin. apply unq_char_spec. auto.
Qed.

Lemma method_name_spec s : is_valid_method_name s = true <-> MethodNameG s.
Proof.
  unfold is_valid_method_name, MethodNameG.
  rewrite !orb_true_iff, !str_eqb_eq, andb_true_iff, negb_true_iff, forallb_forall, Forall_forall.
  split.
  - intros [[H|H]|[Hn Hc]]; auto. right; right. split; [destruct s; [discriminate|congruence]|].
    intros c Hin. apply meth_char_spec. auto.
  - intros [H|[H|[Hn Hc]]]; auto. right. split; [destruct s; [congruence|reflexivity]|].
    intros c Hin. apply meth_char_spec. auto.
Qed.

(* ------------------------------------------------------------------ *)
(* split_on *)

Lemma split_on_nonnil c s : split_on c s <> [].
Proof. destruct s as [|x s]; cbn; [congruence|]. destruct (N.eqb x c); [congruence|]. destruct (split_on c s); congruence. Qed.

Lemma split_on_noc c u : ~ In c u -> split_on c u = [u].
Proof.
  induction u as [|x u IH]; cbn [split_on]; intros Hn; [reflexivity|].
  destruct (N.eqb_spec x c) as [->|Hne]; [exfalso; apply Hn; left; reflexivity|].
  rewrite IH; [reflexivity|]. intros H; apply Hn; right; exact H.
Qed.

Lemma split_on_app c u r : ~ In c u -> split_on c (u ++ c :: r) = u :: split_on c r.
Proof.
  induction u as [|x u IH]; cbn [split_on app]; intros Hn.
  - rewrite N.eqb_refl. reflexivity.
  - destruct (N.eqb_spec x c) as [->|Hne]; [exfalso; apply Hn; left; reflexivity|].
    rewrite IH; [reflexivity|]. intros H; apply Hn; right; exact H.
Qed.

Lemma split_on_inv c s :
  exists p ps, split_on c s = p :: ps /\ ~ In c p /\
    ((ps = [] /\ s = p) \/ (exists r, s = p ++ c :: r /\ split_on c r = ps)).
Proof.
  induction s as [|x s IH]; cbn [split_on].
  - exists [], []. split; [reflexivity|]. split; [intros []|]. left; auto.
  - destruct IH as (p & ps & E & Hn & Hc). destruct (N.eqb_spec x c) as [->|Hne].
    + exists [], (split_on c s). split; [reflexivity|]. split; [intros []|].
      right. exists s. auto.
    + rewrite E. exists (x :: p), ps. split; [reflexivity|]. split.
      * intros [H|H]; [congruence|auto].
      * destruct Hc as [[-> ->]|(r & -> & Hr)]; [left; auto|right; exists r; auto].
Qed.

Lemma Unq_no_slash u : Unq u -> ~ In cSLASH u.
Proof. intros [_ H] Hin. rewrite Forall_forall in H. apply (H _ Hin). cbn. auto. Qed.

Lemma ClassNameG_split s : ClassNameG s -> forallb is_valid_unqualified_name (split_on cSLASH s) = true.
Proof.
  induction 1 as [u Hu|u r Hu Hr IH].
  - rewrite split_on_noc by (apply Unq_no_slash; exact Hu). cbn. rewrite (proj2 (unqualified_spec u) Hu). reflexivity.
  - rewrite split_on_app by (apply Unq_no_slash; exact Hu). cbn [forallb].
    rewrite (proj2 (unqualified_spec u) Hu), IH. reflexivity.
Qed.

Lemma split_ClassNameG s : forallb is_valid_unqualified_name (split_on cSLASH s) = true -> ClassNameG s.
Proof.
  remember (length (split_on cSLASH s)) as n eqn:En. revert s En.
  induction n as [|n IH]; intros s En H.
  - destruct (split_on cSLASH s) eqn:E; [exfalso; eapply split_on_nonnil; eauto|discriminate].
  - destruct (split_on_inv cSLASH s) as (p & ps & E & Hn & Hc). rewrite E in H, En. cbn in H, En.
    apply andb_true_iff in H as [Hp Hps]. apply unqualified_spec in Hp.
    destruct Hc as [[-> ->]|(r & -> & Hr)].
    + apply CN_one. exact Hp.
    + apply CN_cons; [exact Hp|]. apply IH; [rewrite Hr; congruence|rewrite Hr; exact Hps].
Qed.

Lemma ClassNameG_first s : ClassNameG s -> exists c r, s = c :: r /\ ~ In c [cDOT; cSEMI; cLBRACK; cSLASH].
Proof.
  intros H. assert (exists u r, Unq u /\ s = u ++ r) as (u & r & [Hn Hf] & ->).
  { destruct H as [u Hu|u r Hu _]; [exists u, []; rewrite app_nil_r; auto|exists u, (cSLASH :: r); auto]. }
  destruct u as [|c u]; [congruence|]. exists c, (u ++ r). split; [reflexivity|].
  inversion Hf; auto.
Qed.

Lemma obj_class_name_spec s : is_valid_obj_class_name s = true <-> ClassNameG s.
Proof.
  unfold is_valid_obj_class_name. split.
  - intros H. apply andb_true_iff in H as [_ H]. apply split_ClassNameG; exact H.
  - intros H. rewrite (ClassNameG_split _ H), andb_true_r.
    destruct (ClassNameG_first _ H) as (c & r & -> & Hc). cbn.
    destruct (N.eqb_spec cLBRACK c) as [<-|]; [exfalso; apply Hc; cbn; auto|reflexivity].
Qed.

Lemma ClassNameG_no_semi n : ClassNameG n -> ~ In cSEMI n.
Proof.
  induction 1 as [u [_ Hu]|u r [_ Hu] Hr IH]; rewrite Forall_forall in Hu.
  - intros Hin. apply (Hu _ Hin). cbn; auto.
  - intros Hin. apply in_app_or in Hin as [Hin|[Hin|Hin]]; [apply (Hu _ Hin); cbn; auto|discriminate|auto].
Qed.

(* ------------------------------------------------------------------ *)
(* the scanners *)

Lemma take_until_semi_spec s n r :
  take_until_semi s = Ok (n, r) <-> s = n ++ cSEMI :: r /\ ~ In cSEMI n.
Proof.
  revert n r; induction s as [|c s IH]; intros n r; cbn [take_until_semi].
  - split; [discriminate|]. intros [H _]. destruct n; discriminate.
  - destruct (N.eqb_spec c cSEMI) as [->|Hne].
    + split.
      * intros [= <- <-]. split; [reflexivity|intros []].
      * intros [H Hn]. destruct n as [|x n]; [cbn in H; injection H as ->; reflexivity|].
        cbn in H. injection H as <- _. exfalso. apply Hn. left; reflexivity.
    + destruct (take_until_semi s) as [[n' r']|] eqn:E.
      * split.
        -- intros [= <- <-]. destruct (proj1 (IH n' r') eq_refl) as [-> Hn].
           split; [reflexivity|]. intros [H|H]; [congruence|auto].
        -- intros [H Hn]. destruct n as [|x n]; [cbn in H; congruence|].
           cbn in H. injection H as <- H.
           assert (E' : Ok (n', r') = Ok (n, r)).
           { apply IH. split; [exact H|]. intros Hin. apply Hn. right; exact Hin. }
           injection E' as -> ->. reflexivity.
      * split; [discriminate|]. intros [H Hn]. destruct n as [|x n]; [cbn in H; congruence|].
        cbn in H. injection H as <- H.
        assert (E' : @Err (str * str) = Ok (n, r)).
        { apply IH. split; [exact H|]. intros Hin. apply Hn. right; exact Hin. }
        discriminate.
Qed.

Definition not_bracket_first (s : str) : Prop := match s with c :: _ => c <> cLBRACK | [] => True end.

Lemma count_brackets_sound s n k r :
  count_brackets s n = Ok (k, r) ->
  exists j, k = n + N.of_nat j /\ s = repeat cLBRACK j ++ r /\ not_bracket_first r /\ (n <= 255 -> k <= 255).
Proof.
  revert n; induction s as [|c s IH]; intros n; cbn [count_brackets].
  - intros [= <- <-]. exists 0%nat. cbn. repeat split; auto; lia.
  - destruct (N.eqb_spec c cLBRACK) as [->|Hne].
    + destruct (N.eqb_spec n 255) as [->|Hn]; [discriminate|].
      intros H. destruct (IH _ H) as (j & -> & -> & Hr & Hk). exists (S j).
      repeat split; auto; try lia.
    + intros [= <- <-]. exists 0%nat. cbn. repeat split; auto; lia.
Qed.

Lemma count_brackets_complete j r n :
  not_bracket_first r -> n + N.of_nat j <= 255 ->
  count_brackets (repeat cLBRACK j ++ r) n = Ok (n + N.of_nat j, r).
Proof.
  revert n; induction j as [|j IH]; intros n Hr Hk; cbn [repeat app].
  - replace (n + N.of_nat 0) with n by lia.
    destruct r as [|c r]; cbn [count_brackets]; [reflexivity|].
    cbn in Hr. destruct (N.eqb_spec c cLBRACK); [congruence|reflexivity].
  - cbn [count_brackets]. rewrite N.eqb_refl.
    destruct (N.eqb_spec n 255) as [->|Hn]; [lia|].
    rewrite IH by (auto; lia). f_equal. f_equal. lia.
Qed.

Lemma BaseG_not_bracket s a : BaseG s a -> not_bracket_first s.
Proof. destruct 1; cbn; discriminate. Qed.

Lemma read_base_sound s a r : read_base s = Ok (a, r) -> exists p, s = p ++ r /\ BaseG p a.
Proof.
  destruct s as [|c s]; cbn [read_base]; [discriminate|].
  repeat match goal with
  | |- context [N.eqb c ?k] => destruct (N.eqb_spec c k) as [->|?];
       [try (intros [= <- <-]; eexists [_]; split; [reflexivity|constructor])|]
  end; try discriminate.
  destruct (take_until_semi s) as [[nm r']|] eqn:E; [|discriminate].
  destruct (is_valid_obj_class_name nm) eqn:V; [|discriminate].
  intros [= <- <-]. apply take_until_semi_spec in E as [-> _].
  exists (cL :: nm ++ [cSEMI]). split; [cbn; rewrite <- app_assoc; reflexivity|].
  constructor. apply obj_class_name_spec. exact V.
Qed.

Lemma read_base_complete p a r : BaseG p a -> read_base (p ++ r) = Ok (a, r).
Proof.
  destruct 1; try reflexivity.
  cbn [app read_base]. rewrite <- app_assoc. cbn [app].
  replace (N.eqb cL cB) with false by reflexivity. cbn.
  assert (E : take_until_semi (n ++ cSEMI :: r) = Ok (n, r)).
  { apply take_until_semi_spec. split; [reflexivity|]. apply ClassNameG_no_semi. assumption. }
  rewrite E. rewrite (proj2 (obj_class_name_spec n)) by assumption. reflexivity.
Qed.

Lemma FT_repeat j s a : BaseG s a -> FT (repeat cLBRACK j ++ s) (N.of_nat j) a.
Proof.
  intros H; induction j as [|j IH]; cbn [repeat app].
  - constructor. exact H.
  - replace (N.of_nat (S j)) with (N.of_nat j + 1) by lia. constructor. exact IH.
Qed.

Lemma FT_inv s d a : FT s d a -> exists b, s = repeat cLBRACK (N.to_nat d) ++ b /\ BaseG b a.
Proof.
  induction 1 as [s a H|s d a H (b & -> & Hb)].
  - exists s. split; [reflexivity|exact H].
  - exists b. split; [|exact Hb]. replace (N.to_nat (d + 1)) with (S (N.to_nat d)) by lia. reflexivity.
Qed.

Lemma read_field_type_sound s t r :
  read_field_type s = Ok (t, r) -> exists p, s = p ++ r /\ FieldTypeG p t.
Proof.
  unfold read_field_type.
  destruct (count_brackets s 0) as [[k s1]|] eqn:E1; [|discriminate].
  destruct (read_base s1) as [[a s2]|] eqn:E2; [|discriminate].
  intros [= <- <-].
  apply count_brackets_sound in E1 as (j & Hk & -> & _ & Hle).
  apply read_base_sound in E2 as (p & -> & Hp).
  exists (repeat cLBRACK j ++ p). split; [rewrite app_assoc; reflexivity|].
  exists k, a. split; [|split; [apply Hle; lia|reflexivity]].
  replace k with (N.of_nat j) by lia. apply FT_repeat. exact Hp.
Qed.

Lemma read_field_type_complete p t r :
  FieldTypeG p t -> read_field_type (p ++ r) = Ok (t, r).
Proof.
  intros (d & a & H & Hd & ->). apply FT_inv in H as (b & -> & Hb).
  unfold read_field_type. rewrite <- app_assoc.
  rewrite count_brackets_complete.
  - rewrite (read_base_complete _ a) by exact Hb. replace (0 + N.of_nat (N.to_nat d)) with d by lia. reflexivity.
  - pose proof (BaseG_not_bracket _ _ Hb) as Hnb. destruct b; cbn in *; [inversion Hb|exact Hnb].
  - lia.
Qed.

(* ------------------------------------------------------------------ *)
(* field descriptors *)

Lemma parse_field_spec s t : parse_field s = Ok t <-> FieldTypeG s t.
Proof.
  unfold parse_field. split.
  - destruct (read_field_type s) as [[t' r]|] eqn:E; [|discriminate].
    destruct r; [|discriminate]. intros [= <-].
    apply read_field_type_sound in E as (p & -> & Hp). rewrite app_nil_r. exact Hp.
  - intros H. pose proof (read_field_type_complete s t [] H) as E. rewrite app_nil_r in E.
    rewrite E. reflexivity.
Qed.

Lemma FieldTypeG_functional s t t' : FieldTypeG s t -> FieldTypeG s t' -> t = t'.
Proof. intros H H'. apply parse_field_spec in H, H'. congruence. Qed.

Lemma FieldTypeG_nonempty s t : FieldTypeG s t -> s <> [].
Proof.
  intros (d & a & H & _ & _). apply FT_inv in H as (b & -> & Hb).
  destruct Hb; destruct (N.to_nat d); cbn; discriminate.
Qed.

Lemma FieldTypeG_first s t : FieldTypeG s t -> exists c r, s = c :: r /\ c <> cRPAR /\ c <> cV.
Proof.
  intros (d & a & H & _ & _). apply FT_inv in H as (b & -> & Hb).
  destruct (N.to_nat d); cbn [repeat app].
  - destruct Hb; eexists _, _; (split; [reflexivity|split; discriminate]).
  - eexists _, _; (split; [reflexivity|split; discriminate]).
Qed.

(* printing *)

Lemma print_BaseG a : wf_aty a -> BaseG (print_aty a) a.
Proof. destruct a; cbn; intros H; constructor; exact H. Qed.

Lemma print_FieldTypeG t : wf_ty t -> FieldTypeG (print_ty t) t.
Proof.
  assert (P : forall a s, BaseG s a -> FieldTypeG s (ty_of_aty a)).
  { intros a s Hb. exists 0, a. split; [constructor; exact Hb|split; [lia|reflexivity]]. }
  destruct t as [| | | | | | | |n|d a]; cbn [wf_ty print_ty]; intros H.
  - apply (P AB). constructor.
  - apply (P AC). constructor.
  - apply (P AD). constructor.
  - apply (P AF). constructor.
  - apply (P AI). constructor.
  - apply (P AJ). constructor.
  - apply (P AS). constructor.
  - apply (P AZ). constructor.
  - apply (P (AObj n)). constructor. exact H.
  - destruct H as [Hd Ha]. exists d, a. split; [|split; [lia|]].
    + rewrite <- (N2Nat.id d) at 2. apply FT_repeat. apply print_BaseG. exact Ha.
    + unfold ty_of. destruct (N.eqb_spec d 0); [lia|reflexivity].
Qed.

Lemma BaseG_print s a : BaseG s a -> print_aty a = s /\ print_ty (ty_of_aty a) = s /\ wf_aty a.
Proof. destruct 1; cbn; auto. Qed.

Lemma FieldTypeG_print s t : FieldTypeG s t -> print_ty t = s /\ wf_ty t.
Proof.
  intros (d & a & H & Hd & ->). apply FT_inv in H as (b & -> & Hb).
  apply BaseG_print in Hb as (E1 & E2 & Hw). unfold ty_of.
  destruct (N.eqb_spec d 0) as [->|Hn].
  - cbn [N.to_nat repeat app]. split; [exact E2|]. destruct a; cbn; auto.
  - cbn [print_ty wf_ty]. rewrite E1. split; [reflexivity|]. split; [lia|exact Hw].
Qed.

Theorem parse_print_field t : wf_ty t -> parse_field (print_ty t) = Ok t.
Proof. intros H. apply parse_field_spec. apply print_FieldTypeG. exact H. Qed.

Theorem print_parse_field s t : parse_field s = Ok t -> print_ty t = s /\ wf_ty t.
Proof. intros H. apply FieldTypeG_print. apply parse_field_spec. exact H. Qed.

(* ------------------------------------------------------------------ *)
(* return descriptors *)

Lemma parse_return_spec s r : parse_return s = Ok r <-> ReturnG s r.
Proof.
  unfold parse_return, ReturnG. destruct s as [|c s].
  - split; [discriminate|]. intros [[H _]|(t & _ & H)]; [discriminate|].
    apply FieldTypeG_nonempty in H. congruence.
  - destruct (N.eqb_spec c cV) as [->|Hne].
    + split.
      * destruct s; [|discriminate]. intros [= <-]. left; auto.
      * intros [[[= ->] ->]|(t & -> & H)]; [reflexivity|].
        apply FieldTypeG_first in H as (c & r & [= <- <-] & _ & Hv). congruence.
    + split.
      * destruct (parse_field (c :: s)) as [t|] eqn:E; [|discriminate]. intros [= <-].
        right. exists t. split; [reflexivity|]. apply parse_field_spec. exact E.
      * intros [[[= -> ->] _]|(t & -> & H)]; [congruence|].
        apply parse_field_spec in H. rewrite H. reflexivity.
Qed.

Definition wf_ret (r : option ty) : Prop := match r with Some t => wf_ty t | None => True end.

Theorem parse_print_return r : wf_ret r -> parse_return (print_return r) = Ok r.
Proof.
  intros H. apply parse_return_spec. destruct r as [t|]; cbn.
  - right. exists t. split; [reflexivity|]. apply print_FieldTypeG. exact H.
  - left. auto.
Qed.

Theorem print_parse_return s r : parse_return s = Ok r -> print_return r = s /\ wf_ret r.
Proof.
  intros H. apply parse_return_spec in H as [[-> ->]|(t & -> & H)]; cbn; [auto|].
  apply FieldTypeG_print. exact H.
Qed.

(* ------------------------------------------------------------------ *)
(* method descriptors *)

Lemma read_params_sound fuel s ps r :
  read_params fuel s = Ok (ps, r) ->
  exists ss, Forall2 FieldTypeG ss ps /\ s = concat ss ++ cRPAR :: r.
Proof.
  revert s ps r; induction fuel as [|f IH]; intros s ps r; cbn [read_params]; [discriminate|].
  destruct s as [|c s]; [discriminate|].
  destruct (N.eqb_spec c cRPAR) as [->|Hne].
  - intros [= <- <-]. exists []. split; [constructor|reflexivity].
  - destruct (read_field_type (c :: s)) as [[t r1]|] eqn:E1; [|discriminate].
    destruct (read_params f r1) as [[ts r2]|] eqn:E2; [|discriminate].
    intros [= <- <-]. apply read_field_type_sound in E1 as (p & Es & Hp).
    apply IH in E2 as (ss & Hss & ->). exists (p :: ss). split; [constructor; assumption|].
    rewrite Es. cbn [concat]. rewrite <- app_assoc. reflexivity.
Qed.

Lemma read_params_complete ss ps r fuel :
  Forall2 FieldTypeG ss ps -> (length (concat ss ++ cRPAR :: r) <= fuel)%nat ->
  read_params fuel (concat ss ++ cRPAR :: r) = Ok (ps, r).
Proof.
  intros H; revert fuel; induction H as [|p t ss ps Hp Hss IH]; intros fuel Hf.
  - cbn [concat app] in *. destruct fuel as [|f]; [cbn in Hf; lia|].
    cbn [read_params]. rewrite N.eqb_refl. reflexivity.
  - cbn [concat] in *. rewrite <- app_assoc in *.
    destruct (FieldTypeG_first _ _ Hp) as (c & p' & -> & Hc & _).
    destruct fuel as [|f]; [cbn in Hf; lia|]. cbn [read_params app].
    destruct (N.eqb_spec c cRPAR); [congruence|].
    change (c :: p' ++ concat ss ++ cRPAR :: r) with ((c :: p') ++ concat ss ++ cRPAR :: r).
    rewrite (read_field_type_complete _ _ _ Hp). rewrite IH; [reflexivity|].
    cbn [app length] in Hf. rewrite app_length in Hf. lia.
Qed.

Lemma parse_method_spec s m : parse_method s = Ok m <-> MethodG s m.
Proof.
  unfold parse_method, MethodG. destruct s as [|c s].
  - split; [discriminate|]. intros (ss & rs & _ & _ & H). discriminate.
  - destruct (N.eqb_spec c cLPAR) as [->|Hne].
    + split.
      * destruct (read_params _ s) as [[ps r]|] eqn:E1; [|discriminate].
        destruct (parse_return r) as [rt|] eqn:E2; [|discriminate].
        intros [= <-]. apply read_params_sound in E1 as (ss & Hss & ->).
        exists ss, r. cbn [fst snd]. split; [exact Hss|]. split; [apply parse_return_spec; exact E2|reflexivity].
      * intros (ss & rs & Hss & Hr & [= ->]). destruct m as [ps rt]. cbn [fst snd] in *.
        rewrite read_params_complete with (ps := ps) by (auto; lia).
        apply parse_return_spec in Hr. rewrite Hr. reflexivity.
    + split; [discriminate|]. intros (ss & rs & _ & _ & [= -> _]). congruence.
Qed.

Definition wf_method (m : list ty * option ty) : Prop := Forall wf_ty (fst m) /\ wf_ret (snd m).

Theorem parse_print_method m : wf_method m -> parse_method (print_method m) = Ok m.
Proof.
  intros [Hp Hr]. apply parse_method_spec. exists (map print_ty (fst m)), (print_return (snd m)).
  split; [|split; [|reflexivity]].
  - induction Hp as [|t ts Ht Hts IH]; cbn [map]; constructor; [apply print_FieldTypeG; exact Ht|exact IH].
  - apply parse_return_spec. apply parse_print_return. exact Hr.
Qed.

Theorem print_parse_method s m : parse_method s = Ok m -> print_method m = s /\ wf_method m.
Proof.
  intros H. apply parse_method_spec in H as (ss & rs & Hss & Hr & ->).
  apply parse_return_spec in Hr. apply print_parse_return in Hr as [Er Hwr].
  assert (H : concat (map print_ty (fst m)) = concat ss /\ Forall wf_ty (fst m)).
  { induction Hss as [|p t ss ps Hp Hss [IH1 IH2]]; cbn [map concat]; [split; [reflexivity|constructor]|].
    apply FieldTypeG_print in Hp as [-> Hw]. rewrite IH1. split; [reflexivity|constructor; assumption]. }
  destruct H as [Ec Hw]. unfold print_method. rewrite Ec, Er. split; [reflexivity|split; assumption].
Qed.

(* ------------------------------------------------------------------ *)
(* array class names and class names *)

Lemma starts_bracket_FT s d a : FT s d a -> (starts_with [cLBRACK] s = true <-> 1 <= d).
Proof.
  intros H. destruct H as [s a Hb|s d a H].
  - split; [|lia]. destruct Hb; cbn; discriminate.
  - cbn. split; [lia|reflexivity].
Qed.

Lemma FT_functional s d a d' a' : FT s d a -> FT s d' a' -> d = d'.
Proof.
  intros H; revert d' a'; induction H as [s a Hb|s d a H IH]; intros d' a' H'.
  - inversion H' as [s0 a0 Hb' E1 E2 E3|s0 d0 a0 H0 E1 E2 E3]; subst; [reflexivity|]. inversion Hb.
  - inversion H' as [s0 a0 Hb E1 E2 E3|s0 d0 a0 H0 E1 E2 E3]; subst.
    + inversion Hb.
    + f_equal. eapply IH; eauto.
Qed.

Lemma arr_class_name_spec s : is_valid_arr_class_name s = true <-> ArrClassNameG s.
Proof.
  unfold is_valid_arr_class_name, ArrClassNameG. rewrite andb_true_iff. split.
  - intros [Hs Hp]. destruct (parse_field s) as [t|] eqn:E; [|discriminate].
    apply parse_field_spec in E as (d & a & H & Hd & _).
    exists d, a. split; [exact H|]. split; [|exact Hd]. apply (starts_bracket_FT _ _ _ H). exact Hs.
  - intros (d & a & H & Hd). split; [apply (starts_bracket_FT _ _ _ H); lia|].
    assert (E : parse_field s = Ok (ty_of d a)).
    { apply parse_field_spec. exists d, a. split; [exact H|]. split; [lia|reflexivity]. }
    rewrite E. reflexivity.
Qed.

Lemma class_name_spec s : is_valid_class_name s = true <-> AnyClassNameG s.
Proof.
  unfold is_valid_class_name, AnyClassNameG. destruct (starts_with [cLBRACK] s) eqn:Es.
  - split.
    + intros H. right. apply arr_class_name_spec. unfold is_valid_arr_class_name. rewrite Es, H. reflexivity.
    + intros [H|H].
      * destruct (ClassNameG_first _ H) as (c & r & -> & Hc). cbn in Es.
        destruct (N.eqb_spec cLBRACK c) as [<-|]; [exfalso; apply Hc; cbn; auto|discriminate].
      * apply arr_class_name_spec in H. unfold is_valid_arr_class_name in H. rewrite Es in H. exact H.
  - split.
    + intros H. left. apply split_ClassNameG. exact H.
    + intros [H|H]; [apply ClassNameG_split; exact H|].
      apply arr_class_name_spec in H. unfold is_valid_arr_class_name in H. rewrite Es in H. discriminate.
Qed.

(* ------------------------------------------------------------------ *)
(* inner class split / join *)

Lemma rsplit_once_app c p i : ~ In c i -> rsplit_once c (p ++ c :: i) = Some (p, i).
Proof.
  intros Hi. assert (Hn : rsplit_once c i = None).
  { induction i as [|x i IH]; cbn [rsplit_once]; [reflexivity|].
    rewrite IH by (intros H; apply Hi; right; exact H).
    destruct (N.eqb_spec x c) as [->|]; [exfalso; apply Hi; left; reflexivity|reflexivity]. }
  induction p as [|x p IH]; cbn [app rsplit_once].
  - rewrite Hn, N.eqb_refl. reflexivity.
  - rewrite IH. reflexivity.
Qed.

Lemma rsplit_once_sound c s p i : rsplit_once c s = Some (p, i) -> s = p ++ c :: i /\ ~ In c i.
Proof.
  revert p i; induction s as [|x s IH]; intros p i; cbn [rsplit_once]; [discriminate|].
  destruct (rsplit_once c s) as [[p' i']|] eqn:E.
  - intros [= <- <-]. destruct (IH _ _ eq_refl) as [-> Hn]. split; [reflexivity|exact Hn].
  - destruct (N.eqb_spec x c) as [->|]; [|discriminate]. intros [= <- <-].
    split; [reflexivity|]. clear IH. revert E. induction s as [|y s IH]; cbn [rsplit_once]; [intros _ []|].
    destruct (rsplit_once c s) as [[? ?]|]; [discriminate|].
    destruct (N.eqb_spec y c); [discriminate|]. intros _ [H|H]; [congruence|]. apply IH; auto.
Qed.

Definition inner_ok (p i : str) : Prop :=
  p <> [] /\ i <> [] /\ ends_with_char cSLASH p = false /\ ~ In cSLASH i /\ ~ In cDOLLAR i.

Theorem split_join p i : inner_ok p i -> split_inner (join_inner p i) = Some (p, i).
Proof.
  intros (Hp & Hi & He & Hs & Hd). unfold split_inner, join_inner.
  rewrite rsplit_once_app by exact Hd. rewrite He.
  destruct p; [congruence|]. destruct i as [|y i]; [congruence|].
  assert (Hm : mem_N cSLASH (y :: i) = false).
  { destruct (mem_N cSLASH (y :: i)) eqn:E; [|reflexivity]. apply mem_N_In in E. contradiction. }
  rewrite Hm. reflexivity.
Qed.

Theorem join_split s p i : split_inner s = Some (p, i) -> join_inner p i = s /\ inner_ok p i.
Proof.
  unfold split_inner, join_inner. destruct (rsplit_once cDOLLAR s) as [[p' i']|] eqn:E; [|discriminate].
  destruct (negb (is_nil p') && negb (is_nil i') && negb (ends_with_char cSLASH p') && negb (mem_N cSLASH i')) eqn:G;
    [|discriminate].
  intros [= <- <-]. apply rsplit_once_sound in E as [-> Hd].
  rewrite !andb_true_iff, !negb_true_iff in G. destruct G as [[[G1 G2] G3] G4].
  split; [reflexivity|]. repeat split; auto.
  - destruct p'; [discriminate|congruence].
  - destruct i'; [discriminate|congruence].
  - intros H. apply mem_N_In in H. congruence.
Qed.

(* ------------------------------------------------------------------ *)
Theorem parse_field_rejects s : (forall t, ~ FieldTypeG s t) -> parse_field s = Err.
Proof.
  intros H. destruct (parse_field s) as [t|] eqn:E; [|reflexivity].
  exfalso. apply (H t). apply parse_field_spec. exact E.
Qed.

(* Non-vacuity: concrete, non-trivial members of every specification set, and strings outside. *)
Definition ex_obj : str := [106; 97; 118; 97; 47; 108; 97; 110; 103; 47; 79; 98; 106].  (* java/lang/Obj *)
Definition ex_desc : str := cLBRACK :: cLBRACK :: cL :: ex_obj ++ [cSEMI].
Definition ex_meth : str := cLPAR :: cI :: ex_desc ++ [cD; cRPAR; cV].

Definition nonvacuous : Prop :=
  FieldTypeG ex_desc (TArr 2 (AObj ex_obj)) /\
  MethodG ex_meth ([TI; TArr 2 (AObj ex_obj); TD], None) /\
  ClassNameG ex_obj /\ ArrClassNameG ex_desc /\
  (forall t, ~ FieldTypeG [cL; cSEMI] t) /\
  ~ ArrClassNameG [cLBRACK; cV] /\
  inner_ok ex_obj [cB] /\
  wf_ty (TArr 255 (AObj ex_obj)) /\ ~ wf_ty (TArr 256 AI).

Lemma nonvacuous_holds : nonvacuous.
Proof.
  unfold nonvacuous.
  split; [apply parse_field_spec; vm_compute; reflexivity|].
  split; [apply parse_method_spec; vm_compute; reflexivity|].
  split; [apply obj_class_name_spec; vm_compute; reflexivity|].
  split; [apply arr_class_name_spec; vm_compute; reflexivity|].
  split; [intros t H; apply parse_field_spec in H; vm_compute in H; discriminate|].
  split; [intros H; apply arr_class_name_spec in H; vm_compute in H; discriminate|].
  split.
  { unfold inner_ok. split; [discriminate|]. split; [discriminate|]. split; [vm_compute; reflexivity|].
    split; intros H; apply mem_N_In in H; vm_compute in H; discriminate. }
  split.
  { cbn [wf_ty wf_aty]. split; [lia|]. apply obj_class_name_spec. vm_compute. reflexivity. }
  cbn [wf_ty]. intros [H _]. lia.
Qed.
