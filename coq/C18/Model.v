(* C18 model: duke/src/tree/descriptor.rs (read_field_type, the three parse functions, the
   three writers), duke/src/tree/mod.rs `names` (the validity predicates) and the inner-class
   split/join helpers of duke/src/tree/class.rs.  Definitions only; proofs are in Theory.v. *)
From FB Require Export Base.Str.

Definition cB : N := 66. Definition cC : N := 67. Definition cD : N := 68. Definition cF : N := 70.
Definition cI : N := 73. Definition cJ : N := 74. Definition cL : N := 76. Definition cS : N := 83.
Definition cV : N := 86. Definition cZ : N := 90.

(* `ArrayType` and `Type` of descriptor.rs *)
Inductive aty := AB | AC | AD | AF | AI | AJ | AS | AZ | AObj (n : str).
Inductive ty := TB | TC | TD | TF | TI | TJ | TS | TZ | TObj (n : str) | TArr (dim : N) (a : aty).

Definition ty_of_aty (a : aty) : ty :=
  match a with
  | AB => TB | AC => TC | AD => TD | AF => TF | AI => TI | AJ => TJ | AS => TS | AZ => TZ
  | AObj n => TObj n
  end.

(* ---- names (tree/mod.rs) ---- *)

Definition unq_char (c : N) : bool := negb (mem_N c [cDOT; cSEMI; cLBRACK; cSLASH]).
Definition meth_char (c : N) : bool := negb (mem_N c [cDOT; cSEMI; cLBRACK; cSLASH; cLT; cGT]).

Definition is_nil {A} (l : list A) : bool := match l with [] => true | _ => false end.

Definition is_valid_unqualified_name (s : str) : bool := negb (is_nil s) && forallb unq_char s.

(* Rust's `str::split(c)`: always at least one part *)
Fixpoint split_on (c : N) (s : str) : list str :=
  match s with
  | [] => [[]]
  | x :: s' =>
      if N.eqb x c then [] :: split_on c s'
      else match split_on c s' with
           | p :: ps => (x :: p) :: ps
           | [] => [[x]]   (* unreachable: split_on never returns [] *)
           end
  end.

Definition is_valid_obj_class_name (s : str) : bool :=
  negb (starts_with [cLBRACK] s) && forallb is_valid_unqualified_name (split_on cSLASH s).

Definition s_init : str := [60; 105; 110; 105; 116; 62].            (* <init> *)
Definition s_clinit : str := [60; 99; 108; 105; 110; 105; 116; 62]. (* <clinit> *)

Definition is_valid_method_name (s : str) : bool :=
  str_eqb s s_init || str_eqb s s_clinit || (negb (is_nil s) && forallb meth_char s).

(* ---- descriptors ---- *)

(* the `while char != ';'` loop: the name and what follows the semicolon *)
Fixpoint take_until_semi (s : str) : res (str * str) :=
  match s with
  | [] => Err
  | c :: s' => if N.eqb c cSEMI then Ok ([], s')
               else match take_until_semi s' with Ok (n, r) => Ok (c :: n, r) | Err => Err end
  end.

(* the `while chars.next_if_eq('[')` loop with the 255 cap *)
Fixpoint count_brackets (s : str) (n : N) : res (N * str) :=
  match s with
  | c :: s' => if N.eqb c cLBRACK then (if N.eqb n 255 then Err else count_brackets s' (n + 1))
               else Ok (n, s)
  | [] => Ok (n, [])
  end.

Definition read_base (s : str) : res (aty * str) :=
  match s with
  | [] => Err
  | c :: s' =>
      if N.eqb c cB then Ok (AB, s') else if N.eqb c cC then Ok (AC, s')
      else if N.eqb c cD then Ok (AD, s') else if N.eqb c cF then Ok (AF, s')
      else if N.eqb c cI then Ok (AI, s') else if N.eqb c cJ then Ok (AJ, s')
      else if N.eqb c cS then Ok (AS, s') else if N.eqb c cZ then Ok (AZ, s')
      else if N.eqb c cL then
        match take_until_semi s' with
        | Ok (n, r) => if is_valid_obj_class_name n then Ok (AObj n, r) else Err
        | Err => Err
        end
      else Err
  end.

Definition read_field_type (s : str) : res (ty * str) :=
  match count_brackets s 0 with
  | Err => Err
  | Ok (n, s1) =>
      match read_base s1 with
      | Err => Err
      | Ok (a, s2) => Ok (if N.eqb n 0 then ty_of_aty a else TArr n a, s2)
      end
  end.

Definition parse_field (s : str) : res ty :=
  match read_field_type s with
  | Ok (t, []) => Ok t
  | _ => Err
  end.

Definition parse_return (s : str) : res (option ty) :=
  match s with
  | c :: s' => if N.eqb c cV then (match s' with [] => Ok None | _ => Err end)
               else match parse_field s with Ok t => Ok (Some t) | Err => Err end
  | [] => Err
  end.

(* the parameter loop of MethodDescriptorSlice::parse; fuel bounds the iterations *)
Fixpoint read_params (fuel : nat) (s : str) : res (list ty * str) :=
  match fuel with
  | O => Err
  | S f =>
      match s with
      | c :: s' =>
          if N.eqb c cRPAR then Ok ([], s')
          else match read_field_type s with
               | Err => Err
               | Ok (t, r) => match read_params f r with
                              | Ok (ts, r') => Ok (t :: ts, r')
                              | Err => Err
                              end
               end
      | [] => Err
      end
  end.

Definition parse_method (s : str) : res (list ty * option ty) :=
  match s with
  | c :: s' =>
      if N.eqb c cLPAR then
        match read_params (S (length s')) s' with
        | Ok (ps, r) => match parse_return r with Ok rt => Ok (ps, rt) | Err => Err end
        | Err => Err
        end
      else Err
  | [] => Err
  end.

(* writers *)
Definition print_aty (a : aty) : str :=
  match a with
  | AB => [cB] | AC => [cC] | AD => [cD] | AF => [cF] | AI => [cI] | AJ => [cJ] | AS => [cS] | AZ => [cZ]
  | AObj n => cL :: n ++ [cSEMI]
  end.

Definition print_ty (t : ty) : str :=
  match t with
  | TB => [cB] | TC => [cC] | TD => [cD] | TF => [cF] | TI => [cI] | TJ => [cJ] | TS => [cS] | TZ => [cZ]
  | TObj n => cL :: n ++ [cSEMI]
  | TArr d a => repeat cLBRACK (N.to_nat d) ++ print_aty a
  end.

Definition print_return (r : option ty) : str :=
  match r with None => [cV] | Some t => print_ty t end.

Definition print_method (m : list ty * option ty) : str :=
  cLPAR :: concat (map print_ty (fst m)) ++ cRPAR :: print_return (snd m).

(* ---- array class names (after the fix: a field descriptor starting with `[`) ---- *)

Definition is_ok {A} (r : res A) : bool := match r with Ok _ => true | Err => false end.

Definition is_valid_arr_class_name (s : str) : bool :=
  starts_with [cLBRACK] s && is_ok (parse_field s).

Definition is_valid_class_name (s : str) : bool :=
  if starts_with [cLBRACK] s then is_ok (parse_field s)
  else forallb is_valid_unqualified_name (split_on cSLASH s).

(* ---- inner class helpers (tree/class.rs) ---- *)

(* Rust's rsplit_once(c): split at the LAST occurrence *)
Fixpoint rsplit_once (c : N) (s : str) : option (str * str) :=
  match s with
  | [] => None
  | x :: s' =>
      match rsplit_once c s' with
      | Some (p, i) => Some (x :: p, i)
      | None => if N.eqb x c then Some ([], s') else None
      end
  end.

Definition ends_with_char (c : N) (s : str) : bool :=
  match rev s with x :: _ => N.eqb x c | [] => false end.

Definition split_inner (s : str) : option (str * str) :=
  match rsplit_once cDOLLAR s with
  | Some (p, i) =>
      if negb (is_nil p) && negb (is_nil i) && negb (ends_with_char cSLASH p) && negb (mem_N cSLASH i)
      then Some (p, i) else None
  | None => None
  end.

Definition join_inner (p i : str) : str := p ++ cDOLLAR :: i.

Definition get_simple_name (s : str) : str :=
  match rsplit_once cSLASH s with Some (_, i) => i | None => s end.
