(* C18 model: duke/src/tree/descriptor.rs (read_field_type, the three parse functions, the
   three writers), duke/src/tree/mod.rs `names` (the validity predicates) and the inner-class
   split/join helpers of duke/src/tree/class.rs.  Definitions only; proofs are in Theory.v. *)
From FB Require Export Base.Str.

Definition cB : N := 66. Definition cC : N := 67. Definition cD : N := 68. Definition cF : N := 70.
Definition cI : N := 73. Definition cJ : N := 74. Definition cL : N := 76. Definition cS : N := 83.
Definition cV : N := 86. Definition cZ : N := 90.

(* `ArrayType` and `Type` of descriptor.rs *)
Inductive aty := AB | AC | AD | AF | AI | AJ | AS | AZ | AObj (n : str).
Inductive ty := TB | TC | TD | TF | TI | TJ | TS | TZ | TObj (n : str) | TArr (dim : N) (a : aty).

Definition ty_of_aty (a : aty) : ty :=
  match a with
  | AB => TB | AC => TC | AD => TD | AF => TF | AI => TI | AJ => TJ | AS => TS | AZ => TZ
  | AObj n => TObj n
  end.

(* ---- names (tree/mod.rs) ---- *)

Definition unq_char (c : N) : bool := negb (mem_N c [cDOT; cSEMI; cLBRACK; cSLASH]).
Definition meth_char (c : N) : bool := negb (mem_N c [cDOT; cSEMI; cLBRACK; cSLASH; cLT; cGT]).

Definition is_nil {A} (l : list A) : bool := match l with [] => true | _ => false end.

Definition is_valid_unqualified_name (s : str) : bool := negb (is_nil s) && forallb unq_char s.

(* Rust's `str::split(c)`: always at least one part *)
Fixpoint split_on (c : N) (s : str) : list str :=
  match s with
  | [] => [[]]
  | x :: s' =>
      if N.eqb x c then [] :: split_on c s'
      else match split_on c s' with
           | p :: ps => (x :: p) :: ps
           | [] => [[x]]   (* unreachable: split_on never returns [] *)
           end
  end.

Definition is_valid_obj_class_name (s : str) : bool :=
  negb (starts_with [cLBRACK] s) && forallb is_valid_unqualified_name (split_on cSLASH s).

Definition s_init : str := [60; 105; 110; 105; 116; 62].            (* <init> *)
Definition s_clinit : str := [60; 99; 108; 105; 110; 105; 116; 62]. (* <clinit> *)

Definition is_valid_method_name (s : str) : bool :=
  str_eqb s s_init || str_eqb s s_clinit || (negb (is_nil s) && forallb meth_char s).

(* ---- descriptors ---- *)

(* the `while char != ';'` loop: the name and what follows the semicolon *)
Fixpoint take_until_semi (s : str) : res (str * str) :=
  match s with
  | [] => Err
  | c :: s' => if N.eqb c cSEMI then Ok ([], s')
               else match take_until_semi s' with Ok (n, r) => Ok (c :: n, r) | Err => Err end
  end.

(* the `while chars.next_if_eq('[')` loop with the 255 cap *)
Fixpoint count_brackets (s : str) (n : N) : res (N * str) :=
  match s with
  | c :: s' => if N.eqb c cLBRACK then (if N.eqb n 255 then Err else count_brackets s' (n + 1))
               else Ok (n, s)
  | [] => Ok (n, [])
  end.

Definition read_base (s : str) : res (aty * str) :=
  match s with
  | [] => Err
  | c :: s' =>
      if N.eqb c cB then Ok (AB, s') else if N.eqb c cC then Ok (AC, s')
      else if N.eqb c cD then Ok (AD, s') else if N.eqb c cF then Ok (AF, s')
      else if N.eqb c cI then Ok (AI, s') else if N.eqb c cJ then Ok (AJ, s')
      else if N.eqb c cS then Ok (AS, s') else if N.eqb c cZ then Ok (AZ, s')
      else if N.eqb c cL then
        match take_until_semi s' with
        | Ok (n, r) => if is_valid_obj_class_name n then Ok (AObj n, r) else Err
        | Err => Err
        end
      else Err
  end.

Definition read_field_type (s : str) : res (ty * str) :=
  match count_brackets s 0 with
  | Err => Err
  | Ok (n, s1) =>
      match read_base s1 with
      | Err => Err
      | Ok (a, s2) => Ok (if N.eqb n 0 then ty_of_aty a else TArr n a, s2)
      end
  end.

Definition parse_field (s : str) : res ty :=
  match read_field_type s with
  | Ok (t, []) => Ok t
  | _ => Err
  end.

Definition parse_return (s : str) : res (option ty) :=
  match s with
  | c :: s' => if N.eqb c cV then (match s' with [] => Ok None | _ => Err end)
               else match parse_field s with Ok t => Ok (Some t) | Err => Err end
  | [] => Err
  end.

(* the parameter loop of MethodDescriptorSlice::parse; fuel bounds the iterations *)
Fixpoint read_params (fuel : nat) (s : str) : res (list ty * str) :=
  match fuel with
  | O => Err
  | S f =>
      match s with
      | c :: s' =>
          if N.eqb c cRPAR then Ok ([], s')
          else match read_field_type s with
               | Err => Err
               | Ok (t, r) => match read_params f r with
                              | Ok (ts, r') => Ok (t :: ts, r')
                              | Err => Err
                              end
               end
      | [] => Err
      end
  end.

Definition parse_method (s : str) : res (list ty * option ty) :=
  match s with
  | c :: s' =>
      if N.eqb c cLPAR then
        match read_params (S (length s')) s' with
        | Ok (ps, r) => match parse_return r with Ok rt => Ok (ps, rt) | Err => Err end
        | Err => Err
        end
      else Err
  | [] => Err
  end.

(* writers *)
Definition print_aty (a : aty) : str :=
  match a with
  | AB => [cB] | AC => [cC] | AD => [cD] | AF => [cF] | AI => [cI] | AJ => [cJ] | AS => [cS] | AZ => [cZ]
  | AObj n => cL :: n ++ [cSEMI]
  end.

Definition print_ty (t : ty) : str :=
  match t with
  | TB => [cB] | TC => [cC] | TD => [cD] | TF => [cF] | TI => [cI] | TJ => [cJ] | TS => [cS] | TZ => [cZ]
  | TObj n => cL :: n ++ [cSEMI]
  | TArr d a => repeat cLBRACK (N.to_nat d) ++ print_aty a
  end.

Definition print_return (r : option ty) : str :=
  match r with None => [cV] | Some t => print_ty t end.

Definition print_method (m : list ty * option ty) : str :=
  cLPAR :: concat (map print_ty (fst m)) ++ cRPAR :: print_return (snd m).

(* ---- array class names (after the fix: a field descriptor starting with `[`) ---- *)

Definition is_ok {A} (r : res A) : bool := match r with Ok _ => true | Err => false end.

Definition is_valid_arr_class_name (s : str) : bool :=
  starts_with [cLBRACK] s && is_ok (parse_field s).

Definition is_valid_class_name (s : str) : bool :=
  if starts_with [cLBRACK] s then is_ok (parse_field s)
  else forallb is_valid_unqualified_name (split_on cSLASH s).

(* ---- inner class helpers (tree/class.rs) ---- *)

(* Rust's rsplit_once(c): split at the LAST occurrence *)
Fixpoint rsplit_once (c : N) (s : str) : option (str * str) :=
  match s with
  | [] => None
  | x :: s' =>
      match rsplit_once c s' with
      | Some (p, i) => Some (x :: p, i)
      | None => if N.eqb x c then Some ([], s') else None
      end
  end.

Definition ends_with_char (c : N) (s : str) : bool :=
  match rev s with x :: _ => N.eqb x c | [] => false end.

Definition split_inner (s : str) : option (str * str) :=
  match rsplit_once cDOLLAR s with
  | Some (p, i) =>
      if negb (is_nil p) && negb (is_nil i) && negb (ends_with_char cSLASH p) && negb (mem_N cSLASH i)
      then Some (p, i) else None
  | None => None
  end.

Definition join_inner (p i : str) : str := p ++ cDOLLAR :: i.

Definition get_simple_name (s : str) : str :=
  match rsplit_once cSLASH s with Some (_, i) => i | None => s end.

(* ================================================================== *)
(* Round 4: the remaining public helpers of the anchored files         *)

(* ---- MethodDescriptorSlice::get_arguments_size (descriptor.rs) ----
   1 (the implicit `this`) + the slots of the parameters, `D`/`J` counting 2; the sum is kept in an `u8`
   with `checked_add`, so more than 255 is an error.  The function does NOT validate: it skips `[`s,
   takes the next character whatever it is, and skips to the next `;` after an `L`. *)

(* `while chars.next_if_eq(&'[').is_some() {}` *)
Fixpoint skip_brackets (s : str) : str :=
  match s with
  | c :: s' => if N.eqb c cLBRACK then skip_brackets s' else s
  | [] => []
  end.

(* `size.checked_add(n)` on u8 *)
Definition add_u8 (size n : N) : res N := if N.leb (size + n) 255 then Ok (size + n) else Err.

Fixpoint args_loop (fuel : nat) (s : str) (size : N) : res N :=
  match fuel with
  | O => Err
  | S f =>
      match s with
      | [] => Err                                   (* `chars.next()` is None *)
      | c :: s' =>
          if N.eqb c cRPAR then Ok size
          else if N.eqb c cD || N.eqb c cJ then
            match add_u8 size 2 with Ok z => args_loop f s' z | Err => Err end
          else
            match skip_brackets s with
            | [] => Err
            | ch :: r =>
                if N.eqb ch cL then
                  match take_until_semi r with
                  | Err => Err
                  | Ok (_, r') => match add_u8 size 1 with Ok z => args_loop f r' z | Err => Err end
                  end
                else match add_u8 size 1 with Ok z => args_loop f r z | Err => Err end
            end
      end
  end.

Definition args_size (s : str) : res N :=
  match s with
  | c :: s' => if N.eqb c cLPAR then args_loop (S (length s')) s' 1 else Err
  | [] => Err
  end.

(* slots a parsed parameter takes *)
Definition slots (t : ty) : N := match t with TD | TJ => 2 | _ => 1 end.
Definition sum_N (l : list N) : N := fold_right N.add 0 l.
Definition args_slots (ps : list ty) : N := 1 + sum_N (map slots ps).

(* ---- ClassName <-> ArrClassName / ObjClassName (class.rs) ---- *)

Definition is_array_name (s : str) : bool := starts_with [cLBRACK] s.     (* ClassNameSlice::is_array *)
(* as_arr_and_obj / into_arr_and_obj: Ok(the same string as array class name) or Err(the same as object class name) *)
Definition as_arr (s : str) : option str := if is_array_name s then Some s else None.
Definition as_obj (s : str) : option str := if is_array_name s then None else Some s.

(* ArrClassNameSlice::dimension: `take_while(== '[').count() as u8`, then `assert_ne!(dimension, 0)` (Err = panic) *)
Fixpoint count_leading (s : str) : N :=
  match s with
  | c :: s' => if N.eqb c cLBRACK then 1 + count_leading s' else 0
  | [] => 0
  end.
Definition arr_dimension (s : str) : res N :=
  let d := N.modulo (count_leading s) 256 in if N.eqb d 0 then Err else Ok d.

(* FieldDescriptor::from_obj_class / from_arr_class / from_class *)
Definition desc_of_obj_class (n : str) : str := cL :: n ++ [cSEMI].
Definition desc_of_class (s : str) : str := if is_array_name s then s else desc_of_obj_class s.

(* get_inner_class_parent / get_inner_class_name *)
Definition inner_parent (s : str) : option str := match split_inner s with Some (p, _) => Some p | None => None end.
Definition inner_name (s : str) : option str := match split_inner s with Some (_, i) => Some i | None => None end.

(* make_display!: `inner.as_str()` fails on a string holding a surrogate code point, then fmt returns Err *)
Definition is_surrogate (c : N) : bool := N.leb 55296 c && N.leb c 57343.
Definition display (s : str) : res str := if forallb (fun c => negb (is_surrogate c)) s then Ok s else Err.

(* ---- the checked newtypes of make_string_str_like!: which predicate guards which type ---- *)
Inductive guard := GAlways | GClassName | GArrClassName | GObjClassName | GUnqualified | GMethodName.

Definition guard_pred (g : guard) (s : str) : bool :=
  match g with
  | GAlways => true
  | GClassName => is_valid_class_name s
  | GArrClassName => is_valid_arr_class_name s
  | GObjClassName => is_valid_obj_class_name s
  | GUnqualified => is_valid_unqualified_name s
  | GMethodName => is_valid_method_name s
  end.

Fixpoint lookup_guard (name : str) (tbl : list (str * guard)) : option guard :=
  match tbl with
  | [] => None
  | (n, g) :: t => if str_eqb n name then Some g else lookup_guard name t
  end.
