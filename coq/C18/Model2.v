(* C18 model, second file (round 4).  coq/C18/Model.v is imported by the models of many other properties, so
   what only C18 needs lives here: the names of the checked newtypes (keys of the generated table
   C18/NamesGen.v gen_newtypes).  Definitions only. *)
From FB Require Export C18.Model.

Definition n_ArrClassName : str := [65;114;114;67;108;97;115;115;78;97;109;101].
Definition n_ClassName : str := [67;108;97;115;115;78;97;109;101].
Definition n_ClassSignature : str := [67;108;97;115;115;83;105;103;110;97;116;117;114;101].
Definition n_FieldDescriptor : str := [70;105;101;108;100;68;101;115;99;114;105;112;116;111;114].
Definition n_FieldName : str := [70;105;101;108;100;78;97;109;101].
Definition n_FieldSignature : str := [70;105;101;108;100;83;105;103;110;97;116;117;114;101].
Definition n_LocalVariableName : str := [76;111;99;97;108;86;97;114;105;97;98;108;101;78;97;109;101].
Definition n_MethodDescriptor : str := [77;101;116;104;111;100;68;101;115;99;114;105;112;116;111;114].
Definition n_MethodName : str := [77;101;116;104;111;100;78;97;109;101].
Definition n_MethodSignature : str := [77;101;116;104;111;100;83;105;103;110;97;116;117;114;101].
Definition n_ModuleName : str := [77;111;100;117;108;101;78;97;109;101].
Definition n_ObjClassName : str := [79;98;106;67;108;97;115;115;78;97;109;101].
Definition n_PackageName : str := [80;97;99;107;97;103;101;78;97;109;101].
Definition n_ParameterName : str := [80;97;114;97;109;101;116;101;114;78;97;109;101].
Definition n_RecordName : str := [82;101;99;111;114;100;78;97;109;101].
Definition n_ReturnDescriptor : str := [82;101;116;117;114;110;68;101;115;99;114;105;112;116;111;114].


(* ---- the writers on ARBITRARY type values (descriptor.rs write_field_type) ----
   `Type::Object` / `ArrayType::Object` hold unchecked-constructible names; write_field_type asserts that the name does
   not start with `[` (Err = that assertion panics) and otherwise prints whatever it holds; the dimension is an `u8`. *)
Definition print_aty_res (a : aty) : res str :=
  match a with
  | AObj n => if starts_with [cLBRACK] n then Err else Ok (print_aty a)
  | _ => Ok (print_aty a)
  end.
Definition print_ty_res (t : ty) : res str :=
  match t with
  | TObj n => if starts_with [cLBRACK] n then Err else Ok (print_ty t)
  | TArr d a => match print_aty_res a with Ok _ => Ok (print_ty t) | Err => Err end
  | _ => Ok (print_ty t)
  end.
Definition print_return_res (r : option ty) : res str :=
  match r with None => Ok [cV] | Some t => print_ty_res t end.
Fixpoint print_params_res (ps : list ty) : res str :=
  match ps with
  | [] => Ok []
  | t :: ps' => match print_ty_res t with
                | Err => Err
                | Ok x => match print_params_res ps' with Ok y => Ok (x ++ y) | Err => Err end
                end
  end.
Definition print_method_res (m : list ty * option ty) : res str :=
  match print_params_res (fst m) with
  | Err => Err
  | Ok x => match print_return_res (snd m) with Ok y => Ok (cLPAR :: x ++ cRPAR :: y) | Err => Err end
  end.

(* the letter naming a primitive variant of `Type` / `ArrayType` (the variants are called B C D F I J S Z) *)
Definition aty_letter (a : aty) : option N :=
  match a with
  | AB => Some cB | AC => Some cC | AD => Some cD | AF => Some cF | AI => Some cI | AJ => Some cJ | AS => Some cS | AZ => Some cZ
  | AObj _ => None
  end.
