(* C18 theory, round 4: get_arguments_size, the ClassName/ArrClassName/ObjClassName conversions,
   array class names as field descriptors, validity of what the inner-class helpers return, the
   checked newtypes (which predicate guards which type — table regenerated from the source). *)
From FB Require Import C18.Model C18.Model2 C18.Theory C18.NamesGen.
From Coq Require Import Arith.
Arguments N.add : simpl never.
Arguments N.eqb : simpl never.
Arguments N.leb : simpl never.
Arguments N.modulo : simpl never.

(* ------------------------------------------------------------------ *)
(* get_arguments_size                                                  *)

(* What the function reads between `(` and the first `)` at token level: it does not validate.
   A token is `D`/`J` (2 slots), or any number of `[` followed by `L…;` (the text up to the next `;`,
   whatever it is) or by ANY other single character (1 slot).  *)
Inductive LTok : str -> N -> Prop :=
| LT_wide c : c = cD \/ c = cJ -> LTok [c] 2
| LT_obj k n : ~ In cSEMI n -> LTok (repeat cLBRACK k ++ cL :: n ++ [cSEMI]) 1
| LT_other k c : c <> cL -> c <> cLBRACK -> (k = 0%nat -> c <> cRPAR /\ c <> cD /\ c <> cJ) ->
                 LTok (repeat cLBRACK k ++ [c]) 1.

Definition LenientArgs (s : str) (n : N) : Prop :=
  exists (toks : list (str * N)) (rest : str),
    Forall (fun p => LTok (fst p) (snd p)) toks /\
    s = cLPAR :: concat (map fst toks) ++ cRPAR :: rest /\
    n = 1 + sum_N (map snd toks) /\ n <= 255.

Lemma skip_brackets_spec s :
  exists k, s = repeat cLBRACK k ++ skip_brackets s /\ not_bracket_first (skip_brackets s).
Proof.
  induction s as [|c s (k & E & Hn)]; cbn [skip_brackets].
  - exists 0%nat. split; [reflexivity|exact I].
  - destruct (N.eqb_spec c cLBRACK) as [->|Hne].
    + exists (S k). split; [cbn [repeat app]; f_equal; exact E|exact Hn].
    + exists 0%nat. split; [reflexivity|exact Hne].
Qed.

Lemma skip_brackets_repeat k r : not_bracket_first r -> skip_brackets (repeat cLBRACK k ++ r) = r.
Proof.
  intros Hr. induction k as [|k IH]; cbn [repeat app].
  - destruct r as [|c r]; cbn [skip_brackets]; [reflexivity|].
    cbn in Hr. destruct (N.eqb_spec c cLBRACK); [congruence|reflexivity].
  - cbn [skip_brackets]. rewrite N.eqb_refl. exact IH.
Qed.

Lemma add_u8_ok size n z : add_u8 size n = Ok z <-> z = size + n /\ size + n <= 255.
Proof.
  unfold add_u8. destruct (N.leb_spec (size + n) 255) as [H|H].
  - split; [intros [= <-]; auto|intros [-> _]; reflexivity].
  - split; [discriminate|intros [_ H']; lia].
Qed.

Lemma add_u8_err size n : add_u8 size n = Err <-> 255 < size + n.
Proof.
  unfold add_u8. destruct (N.leb_spec (size + n) 255) as [H|H]; split; try discriminate; try lia; auto.
Qed.

Lemma LTok_nonempty t w : LTok t w -> (1 <= length t)%nat.
Proof.
  destruct 1; cbn [length]; try lia; rewrite app_length; cbn [length]; try lia.
Qed.

(* one iteration of the loop on a token *)
Lemma args_loop_step t w rest f size :
  LTok t w -> args_loop (S f) (t ++ rest) size =
              match add_u8 size w with Ok z => args_loop f rest z | Err => Err end.
Proof.
  intros H. destruct H as [c Hc|k n Hn|k c HL HB Hk].
  - cbn [app args_loop].
    assert (E1 : N.eqb c cRPAR = false) by (destruct Hc as [-> | ->]; reflexivity).
    assert (E2 : (N.eqb c cD || N.eqb c cJ) = true) by (destruct Hc as [-> | ->]; reflexivity).
    rewrite E1, E2. reflexivity.
  - set (s := (repeat cLBRACK k ++ cL :: n ++ [cSEMI]) ++ rest).
    assert (Es : s = repeat cLBRACK k ++ cL :: n ++ cSEMI :: rest).
    { unfold s. rewrite <- app_assoc. cbn [app]. rewrite <- app_assoc. reflexivity. }
    assert (Hsk : skip_brackets s = cL :: n ++ cSEMI :: rest).
    { rewrite Es. apply skip_brackets_repeat. cbn. discriminate. }
    assert (Hts : take_until_semi (n ++ cSEMI :: rest) = Ok (n, rest)).
    { apply take_until_semi_spec. split; [reflexivity|exact Hn]. }
    destruct s as [|c s'] eqn:Ec.
    { destruct k; cbn in Es; discriminate. }
    cbn [args_loop].
    assert (Hc : c = cLBRACK \/ c = cL).
    { destruct k; cbn [repeat app] in Es; injection Es as -> _; auto. }
    assert (E1 : N.eqb c cRPAR = false) by (destruct Hc as [-> | ->]; reflexivity).
    assert (E2 : (N.eqb c cD || N.eqb c cJ) = false) by (destruct Hc as [-> | ->]; reflexivity).
    rewrite E1, E2, Hsk, N.eqb_refl, Hts. reflexivity.
  - set (s := (repeat cLBRACK k ++ [c]) ++ rest).
    assert (Es : s = repeat cLBRACK k ++ c :: rest).
    { unfold s. rewrite <- app_assoc. reflexivity. }
    assert (Hsk : skip_brackets s = c :: rest).
    { rewrite Es. apply skip_brackets_repeat. cbn. exact HB. }
    destruct s as [|c0 s'] eqn:Ec.
    { destruct k; cbn in Es; discriminate. }
    cbn [args_loop].
    assert (E1 : N.eqb c0 cRPAR = false /\ (N.eqb c0 cD || N.eqb c0 cJ) = false).
    { destruct k as [|k]; cbn [repeat app] in Es; injection Es as -> _.
      - destruct (Hk eq_refl) as (H1 & H2 & H3).
        apply N.eqb_neq in H1, H2, H3. rewrite H1, H2, H3. auto.
      - split; reflexivity. }
    destruct E1 as [E1 E2]. rewrite E1, E2, Hsk.
    apply N.eqb_neq in HL. rewrite HL. reflexivity.
Qed.

Lemma args_loop_rpar f rest size : args_loop (S f) (cRPAR :: rest) size = Ok size.
Proof. cbn [args_loop]. rewrite N.eqb_refl. reflexivity. Qed.

(* the loop over a token list followed by `)` *)
Lemma args_loop_toks (toks : list (str * N)) rest :
  Forall (fun p => LTok (fst p) (snd p)) toks ->
  forall f size, size <= 255 -> (length (concat (map fst toks) ++ cRPAR :: rest) < f)%nat ->
  args_loop f (concat (map fst toks) ++ cRPAR :: rest) size =
  if N.leb (size + sum_N (map snd toks)) 255 then Ok (size + sum_N (map snd toks)) else Err.
Proof.
  induction 1 as [|[t w] toks Ht _ IH]; intros f size Hs Hf.
  - cbn [map concat app sum_N fold_right] in *. destruct f as [|f]; [lia|].
    rewrite args_loop_rpar. replace (size + 0) with size by lia.
    destruct (N.leb_spec size 255); [reflexivity|lia].
  - cbn [map concat fst snd sum_N fold_right] in *. fold (sum_N (map snd toks)).
    rewrite <- app_assoc in *. destruct f as [|f]; [lia|].
    rewrite (args_loop_step t w _ f size Ht).
    pose proof (LTok_nonempty _ _ Ht) as Hl. rewrite app_length in Hf.
    destruct (add_u8 size w) as [z|] eqn:Ea.
    + apply add_u8_ok in Ea as [-> Hz]. rewrite IH by (try exact Hz; lia).
      replace (size + w + sum_N (map snd toks)) with (size + (w + sum_N (map snd toks))) by lia.
      reflexivity.
    + apply add_u8_err in Ea.
      destruct (N.leb_spec (size + (w + sum_N (map snd toks))) 255); [lia|reflexivity].
Qed.

Lemma args_loop_sound f : forall s size n, size <= 255 ->
  args_loop f s size = Ok n ->
  exists (toks : list (str * N)) rest,
    Forall (fun p => LTok (fst p) (snd p)) toks /\
    s = concat (map fst toks) ++ cRPAR :: rest /\ n = size + sum_N (map snd toks) /\ n <= 255.
Proof.
  induction f as [|f IH]; intros s size n Hs; cbn [args_loop]; [discriminate|].
  destruct s as [|c s']; [discriminate|].
  destruct (N.eqb_spec c cRPAR) as [->|HnR].
  { intros [= <-]. exists [], s'. cbn. repeat split; auto; lia. }
  destruct (N.eqb c cD || N.eqb c cJ) eqn:EDJ.
  { destruct (add_u8 size 2) as [z|] eqn:Ea; [|discriminate]. apply add_u8_ok in Ea as [-> Hz].
    intros H. destruct (IH _ _ _ Hz H) as (toks & rest & Ht & -> & -> & Hn).
    exists (([c], 2) :: toks), rest. cbn [map fst snd concat app sum_N fold_right]. fold (sum_N (map snd toks)).
    split; [|repeat split; auto; lia].
    constructor; [|exact Ht]. cbn [fst snd]. constructor.
    apply orb_true_iff in EDJ as [E|E]; apply N.eqb_eq in E; auto. }
  destruct (skip_brackets_spec (c :: s')) as (k & Ek & Hnb).
  destruct (skip_brackets (c :: s')) as [|ch r] eqn:Esk; [discriminate|].
  destruct (N.eqb_spec ch cL) as [->|HnL].
  - destruct (take_until_semi r) as [[nm r']|] eqn:Et; [|discriminate].
    destruct (add_u8 size 1) as [z|] eqn:Ea; [|discriminate]. apply add_u8_ok in Ea as [-> Hz].
    apply take_until_semi_spec in Et as [-> Hsemi].
    intros H. destruct (IH _ _ _ Hz H) as (toks & rest & Ht & -> & -> & Hn).
    exists ((repeat cLBRACK k ++ cL :: nm ++ [cSEMI], 1) :: toks), rest.
    cbn [map fst snd concat sum_N fold_right]. fold (sum_N (map snd toks)).
    split; [constructor; [cbn [fst snd]; constructor; exact Hsemi|exact Ht]|].
    split; [|split; [lia|exact Hn]].
    rewrite Ek. rewrite <- !app_assoc. cbn [app]. rewrite <- app_assoc. reflexivity.
  - destruct (add_u8 size 1) as [z|] eqn:Ea; [|discriminate]. apply add_u8_ok in Ea as [-> Hz].
    intros H. destruct (IH _ _ _ Hz H) as (toks & rest & Ht & -> & -> & Hn).
    exists ((repeat cLBRACK k ++ [ch], 1) :: toks), rest.
    cbn [map fst snd concat sum_N fold_right]. fold (sum_N (map snd toks)).
    split; [constructor; [|exact Ht]|].
    + cbn [fst snd]. constructor; [exact HnL|exact Hnb|].
      intros ->. cbn [repeat app] in Ek. injection Ek as <- _.
      apply orb_false_iff in EDJ as [E1 E2]. apply N.eqb_neq in E1, E2. auto.
    + split; [|split; [lia|exact Hn]].
      rewrite Ek. rewrite <- !app_assoc. reflexivity.
Qed.

(* for ALL strings: what get_arguments_size returns *)
Theorem args_size_lenient s n : args_size s = Ok n <-> LenientArgs s n.
Proof.
  unfold args_size, LenientArgs. split.
  - destruct s as [|c s']; [discriminate|]. destruct (N.eqb_spec c cLPAR) as [->|]; [|discriminate].
    intros H. apply args_loop_sound in H as (toks & rest & Ht & -> & -> & Hn); [|lia].
    exists toks, rest. auto.
  - intros (toks & rest & Ht & -> & -> & Hn). rewrite N.eqb_refl.
    rewrite (args_loop_toks toks rest Ht) by lia.
    destruct (N.leb_spec (1 + sum_N (map snd toks)) 255); [reflexivity|lia].
Qed.

Corollary args_size_range s n : args_size s = Ok n -> 1 <= n <= 255.
Proof. intros H. apply args_size_lenient in H as (toks & rest & _ & _ & -> & Hn). lia. Qed.

(* a parsed parameter is one token, with the slots of its type *)
Lemma FieldTypeG_LTok p t : FieldTypeG p t -> LTok p (slots t).
Proof.
  intros (d & a & H & Hd & ->). apply FT_inv in H as (b & -> & Hb).
  unfold ty_of. destruct (N.eqb_spec d 0) as [->|Hd0].
  - cbn [N.to_nat repeat app]. destruct Hb; cbn [ty_of_aty slots];
      try (apply (LT_other 0); [discriminate|discriminate|intros _; repeat split; discriminate]);
      try (apply LT_wide; auto).
    apply (LT_obj 0). apply ClassNameG_no_semi. assumption.
  - cbn [slots]. destruct Hb; try (apply LT_other; [discriminate|discriminate|intros E; lia]).
    apply LT_obj. apply ClassNameG_no_semi. assumption.
Qed.

(* on a well-formed method descriptor: 1 + the slots of the parsed parameters, an error above 255 *)
Theorem args_size_of_method s ps r :
  parse_method s = Ok (ps, r) ->
  args_size s = if N.leb (args_slots ps) 255 then Ok (args_slots ps) else Err.
Proof.
  intros H. apply parse_method_spec in H as (ss & rs & Hss & _ & ->). cbn [fst] in Hss.
  assert (exists toks : list (str * N),
             Forall (fun p => LTok (fst p) (snd p)) toks /\ map fst toks = ss /\ map snd toks = map slots ps)
    as (toks & Ht & <- & E).
  { induction Hss as [|p t ss ps Hp _ (toks & Ht & <- & E)].
    - exists []. repeat split; constructor.
    - exists ((p, slots t) :: toks). cbn [map fst snd]. rewrite E. repeat split.
      constructor; [apply FieldTypeG_LTok; exact Hp|exact Ht]. }
  unfold args_size, args_slots. rewrite N.eqb_refl, <- E.
  apply (args_loop_toks toks rs Ht); lia.
Qed.

(* ------------------------------------------------------------------ *)
(* ClassName = ArrClassName + ObjClassName (as_arr_and_obj, the From impls) *)

Lemma ClassNameG_not_array s : ClassNameG s -> is_array_name s = false.
Proof.
  intros H. destruct (ClassNameG_first _ H) as (c & r & -> & Hc). unfold is_array_name. cbn.
  destruct (N.eqb_spec cLBRACK c) as [<-|]; [exfalso; apply Hc; cbn; auto|reflexivity].
Qed.

Lemma ArrClassNameG_array s : ArrClassNameG s -> is_array_name s = true.
Proof. intros (d & a & H & Hd). apply (starts_bracket_FT _ _ _ H). lia. Qed.

Theorem class_name_partition s :
  is_valid_class_name s = (if is_array_name s then is_valid_arr_class_name s else is_valid_obj_class_name s).
Proof.
  unfold is_valid_class_name, is_valid_arr_class_name, is_valid_obj_class_name, is_array_name.
  destruct (starts_with [cLBRACK] s); reflexivity.
Qed.

(* the SAFETY comments of as_arr_and_obj / into_arr_and_obj and of the two From impls *)
Theorem class_name_conversions s :
  (is_valid_class_name s = true -> forall a, as_arr s = Some a -> a = s /\ is_valid_arr_class_name a = true) /\
  (is_valid_class_name s = true -> forall o, as_obj s = Some o -> o = s /\ is_valid_obj_class_name o = true) /\
  (is_valid_arr_class_name s = true -> is_valid_class_name s = true /\ as_arr s = Some s /\ as_obj s = None) /\
  (is_valid_obj_class_name s = true -> is_valid_class_name s = true /\ as_obj s = Some s /\ as_arr s = None) /\
  (is_valid_arr_class_name s = true -> is_valid_obj_class_name s = false).
Proof.
  rewrite class_name_partition. unfold as_arr, as_obj.
  assert (Ha : is_valid_arr_class_name s = true -> is_array_name s = true).
  { intros H. apply ArrClassNameG_array, arr_class_name_spec, H. }
  assert (Ho : is_valid_obj_class_name s = true -> is_array_name s = false).
  { intros H. apply ClassNameG_not_array, obj_class_name_spec, H. }
  split; [|split; [|split; [|split]]].
  - intros H a. destruct (is_array_name s); [|discriminate]. intros [= <-]. auto.
  - intros H o. destruct (is_array_name s); [discriminate|]. intros [= <-]. auto.
  - intros H. rewrite (Ha H). auto.
  - intros H. rewrite (Ho H). auto.
  - intros H. destruct (is_valid_obj_class_name s) eqn:E; [|reflexivity].
    rewrite (Ho eq_refl) in Ha. discriminate (Ha H).
Qed.

(* an array class name is valid iff it is a valid field descriptor that starts with `[` *)
Theorem arr_class_name_is_field_descriptor s :
  is_valid_arr_class_name s = true <->
  (exists r, s = cLBRACK :: r) /\ exists t, FieldTypeG s t.
Proof.
  unfold is_valid_arr_class_name. rewrite andb_true_iff. split.
  - intros [Hs Hp]. split.
    + apply starts_with_app in Hs as (r & ->). exists r. reflexivity.
    + destruct (parse_field s) as [t|] eqn:E; [|discriminate]. exists t. apply parse_field_spec. exact E.
  - intros [(r & ->) (t & Ht)]. split; [cbn; reflexivity|].
    apply parse_field_spec in Ht. rewrite Ht. reflexivity.
Qed.

(* ArrClassNameSlice::dimension on a valid array class name: no truncation, the assertion holds, and it is the
   dimension of the parsed descriptor *)
Lemma count_leading_repeat k r : not_bracket_first r -> count_leading (repeat cLBRACK k ++ r) = N.of_nat k.
Proof.
  intros Hr. induction k as [|k IH]; cbn [repeat app].
  - destruct r as [|c r]; cbn [count_leading]; [reflexivity|].
    cbn in Hr. destruct (N.eqb_spec c cLBRACK); [congruence|reflexivity].
  - cbn [count_leading]. rewrite N.eqb_refl, IH. lia.
Qed.

Theorem arr_dimension_spec s :
  ArrClassNameG s ->
  exists d a, FT s d a /\ 1 <= d <= 255 /\ arr_dimension s = Ok d /\ parse_field s = Ok (TArr d a).
Proof.
  intros (d & a & H & Hd). exists d, a. split; [exact H|]. split; [exact Hd|]. split.
  - destruct (FT_inv _ _ _ H) as (b & -> & Hb). unfold arr_dimension.
    rewrite count_leading_repeat.
    + rewrite N2Nat.id. rewrite N.mod_small by lia.
      destruct (N.eqb_spec d 0); [lia|reflexivity].
    + pose proof (BaseG_not_bracket _ _ Hb) as Hnb. destruct b; cbn in *; [inversion Hb|exact Hnb].
  - apply parse_field_spec. exists d, a. split; [exact H|]. split; [lia|].
    unfold ty_of. destruct (N.eqb_spec d 0); [lia|reflexivity].
Qed.

(* what dimension() does on any string (through the unchecked constructor): panics exactly when the number of
   leading `[` is a multiple of 256 *)
Theorem arr_dimension_total s :
  arr_dimension s = Err <-> N.modulo (count_leading s) 256 = 0.
Proof.
  unfold arr_dimension. destruct (N.eqb_spec (N.modulo (count_leading s) 256) 0); split; congruence.
Qed.

(* FieldDescriptor::from_class / from_obj_class / from_arr_class produce the descriptor of the class *)
Theorem desc_of_class_spec s :
  (ClassNameG s -> desc_of_class s = desc_of_obj_class s /\ parse_field (desc_of_class s) = Ok (TObj s)) /\
  (ArrClassNameG s -> desc_of_class s = s /\ exists d a, parse_field (desc_of_class s) = Ok (TArr d a)).
Proof.
  unfold desc_of_class. split.
  - intros H. rewrite (ClassNameG_not_array _ H). split; [reflexivity|].
    apply parse_field_spec. exists 0, (AObj s). split; [|split; [lia|reflexivity]].
    constructor. constructor. exact H.
  - intros H. rewrite (ArrClassNameG_array _ H). split; [reflexivity|].
    destruct (arr_dimension_spec _ H) as (d & a & _ & _ & _ & E). exists d, a. exact E.
Qed.

(* From<FieldDescriptor> for ReturnDescriptor: field descriptors are the return descriptors other than `V` *)
Theorem field_is_return s t : parse_field s = Ok t <-> parse_return s = Ok (Some t).
Proof.
  rewrite parse_field_spec, parse_return_spec. unfold ReturnG. split.
  - intros H. right. exists t. auto.
  - intros [[_ H]|(t' & [= <-] & H)]; [discriminate|exact H].
Qed.

(* ------------------------------------------------------------------ *)
(* validity of what the inner-class helpers return (their SAFETY comments) *)

Lemma Unq_app_dollar u v : Unq u -> Unq v -> Unq (u ++ cDOLLAR :: v).
Proof.
  intros [Hu Fu] [Hv Fv]. split; [destruct u; discriminate|].
  apply Forall_app. split; [exact Fu|]. constructor; [|exact Fv].
  cbn. intros [H|[H|[H|[H|[]]]]]; discriminate.
Qed.

Lemma Unq_dollar_class u i : Unq u -> ClassNameG i -> ClassNameG (u ++ cDOLLAR :: i).
Proof.
  intros Hu Hi. destruct Hi as [v Hv|v r Hv Hr].
  - apply CN_one. apply Unq_app_dollar; assumption.
  - replace (u ++ cDOLLAR :: v ++ cSLASH :: r) with ((u ++ cDOLLAR :: v) ++ cSLASH :: r)
      by (rewrite <- app_assoc; reflexivity).
    apply CN_cons; [apply Unq_app_dollar; assumption|exact Hr].
Qed.

(* from_inner_class: "Joining two object class names with `$` together always creates a valid object class name" *)
Theorem join_inner_valid p i : ClassNameG p -> ClassNameG i -> ClassNameG (join_inner p i).
Proof.
  unfold join_inner. intros Hp Hi. induction Hp as [u Hu|u r Hu Hr IH].
  - apply Unq_dollar_class; assumption.
  - rewrite <- app_assoc. cbn [app]. apply CN_cons; [exact Hu|exact IH].
Qed.

Lemma Unq_sub (u : str) a b : Unq u -> u = a ++ b -> (a <> [] -> Unq a) /\ (b <> [] -> Unq b).
Proof.
  intros [_ F] ->. apply Forall_app in F as [Fa Fb]. split; intros H; split; assumption.
Qed.

Lemma app_eq_split {A} (a b c d : list A) x y :
  a ++ x :: b = c ++ y :: d ->
  (a = c /\ x = y /\ b = d) \/
  (exists m, c = a ++ x :: m /\ b = m ++ y :: d) \/
  (exists m, a = c ++ y :: m /\ d = m ++ x :: b).
Proof.
  revert c; induction a as [|z a IH]; intros c E.
  - destruct c as [|w c]; cbn in E.
    + injection E as -> ->. left. auto.
    + injection E as -> ->. right. left. exists c. auto.
  - destruct c as [|w c]; cbn in E.
    + injection E as -> <-. right. right. exists a. auto.
    + injection E as -> E. destruct (IH _ E) as [(-> & -> & ->)|[(m & -> & ->)|(m & -> & ->)]].
      * left. auto.
      * right. left. exists m. auto.
      * right. right. exists m. auto.
Qed.

Lemma ends_with_char_app c p q : q <> [] -> ends_with_char c (p ++ q) = ends_with_char c q.
Proof.
  intros Hq. unfold ends_with_char. rewrite rev_app_distr.
  destruct (rev q) as [|x r] eqn:E; [|reflexivity].
  exfalso. apply Hq. rewrite <- (rev_involutive q), E. reflexivity.
Qed.

Lemma ends_with_char_snoc c p : ends_with_char c (p ++ [c]) = true.
Proof. unfold ends_with_char. rewrite rev_app_distr. cbn. apply N.eqb_refl. Qed.

(* split_inner_class_parent_and_name on a valid object class name yields valid object class names *)
Lemma split_parts_valid s : ClassNameG s -> forall p i,
  s = p ++ cDOLLAR :: i -> p <> [] -> i <> [] -> ends_with_char cSLASH p = false -> ~ In cSLASH i ->
  ClassNameG p /\ Unq i.
Proof.
  induction 1 as [u Hu|u r Hu Hr IH]; intros p i E Hp Hi He Hs.
  - destruct (Unq_sub u p (cDOLLAR :: i) Hu E) as [H1 H2]. split; [apply CN_one; auto|].
    assert (H3 : Unq (cDOLLAR :: i)) by (apply H2; discriminate).
    destruct H3 as [_ F]. inversion F; subst. split; assumption.
  - apply app_eq_split in E as [(_ & E & _)|[(m & -> & ->)|(m & -> & ->)]].
    + discriminate.
    + assert (Hm : m <> []).
      { intros ->. rewrite (ends_with_char_snoc cSLASH u) in He. discriminate. }
      assert (He' : ends_with_char cSLASH m = false).
      { replace (u ++ cSLASH :: m) with ((u ++ [cSLASH]) ++ m) in He by (rewrite <- app_assoc; reflexivity).
        rewrite ends_with_char_app in He by exact Hm. exact He. }
      destruct (IH m i eq_refl Hm Hi He' Hs) as [Gm Ui]. split; [apply CN_cons; assumption|exact Ui].
    + exfalso. apply Hs. apply in_or_app. right. left. reflexivity.
Qed.

Theorem split_inner_valid s p i :
  ClassNameG s -> split_inner s = Some (p, i) ->
  ClassNameG p /\ Unq i /\ ClassNameG i /\ inner_parent s = Some p /\ inner_name s = Some i.
Proof.
  intros Hs E. unfold inner_parent, inner_name. rewrite E.
  destruct (join_split _ _ _ E) as [<- (Hp & Hi & He & Hsl & _)]. unfold join_inner in Hs.
  destruct (split_parts_valid _ Hs p i eq_refl Hp Hi He Hsl) as [Gp Ui].
  split; [exact Gp|]. split; [exact Ui|]. split; [apply CN_one; exact Ui|]. split; reflexivity.
Qed.

(* get_simple_name: "Each component in a object class name is itself a valid object class name" *)
Lemma rsplit_once_none c s : rsplit_once c s = None <-> ~ In c s.
Proof.
  induction s as [|x s IH]; cbn [rsplit_once]; [split; auto|].
  destruct (rsplit_once c s) as [[p i]|].
  - split; [discriminate|]. intros H. exfalso. destruct IH as [_ IH].
    assert (E : Some (p, i) = None) by (apply IH; intros Hin; apply H; right; exact Hin). discriminate.
  - destruct (N.eqb_spec x c) as [->|Hne].
    + split; [discriminate|]. intros H. exfalso. apply H. left. reflexivity.
    + split; [|reflexivity]. intros _ [H|H]; [congruence|]. apply (proj1 IH eq_refl H).
Qed.

Theorem simple_name_valid s :
  ClassNameG s ->
  Unq (get_simple_name s) /\
  ((s = get_simple_name s /\ ~ In cSLASH s) \/
   (exists p, ClassNameG p /\ s = p ++ cSLASH :: get_simple_name s)).
Proof.
  unfold get_simple_name. induction 1 as [u Hu|u r Hu Hr IH].
  - assert (E : rsplit_once cSLASH u = None) by (apply rsplit_once_none, Unq_no_slash; exact Hu).
    rewrite E. split; [exact Hu|]. left. split; [reflexivity|apply Unq_no_slash; exact Hu].
  - destruct IH as [Us Hcase].
    destruct (rsplit_once cSLASH r) as [[p i]|] eqn:E.
    + apply rsplit_once_sound in E as [-> Hi].
      assert (E2 : rsplit_once cSLASH (u ++ cSLASH :: p ++ cSLASH :: i) = Some (u ++ cSLASH :: p, i)).
      { replace (u ++ cSLASH :: p ++ cSLASH :: i) with ((u ++ cSLASH :: p) ++ cSLASH :: i)
          by (rewrite <- app_assoc; reflexivity).
        apply rsplit_once_app. exact Hi. }
      rewrite E2. split; [exact Us|]. right.
      destruct Hcase as [[E3 Hn]|(q & Gq & E3)].
      * exfalso. apply Hn. apply in_or_app. right. left. reflexivity.
      * exists (u ++ cSLASH :: q). split; [apply CN_cons; assumption|].
        rewrite <- app_assoc. cbn [app]. f_equal. f_equal.
        (* r = q ++ / :: i and r = p ++ / :: i *)
        apply app_inv_tail with (l := cSLASH :: i). rewrite <- E3. reflexivity.
    + assert (Hn : ~ In cSLASH r) by (apply rsplit_once_none; exact E).
      assert (E2 : rsplit_once cSLASH (u ++ cSLASH :: r) = Some (u, r)) by (apply rsplit_once_app; exact Hn).
      rewrite E2. split; [exact Us|]. right. exists u. split; [apply CN_one; exact Hu|reflexivity].
Qed.

(* ------------------------------------------------------------------ *)
(* the checked newtypes: the table regenerated from the source, and what every guard accepts *)

(* the expected table: the seven name types of the property are guarded by their JVMS predicate; descriptor,
   signature, record, module and package name types are unchecked in the source (check_valid is `Ok(())`, TODO) *)
Definition expected_newtypes : list (str * guard) :=
  [ (n_ArrClassName, GArrClassName); (n_ClassName, GClassName); (n_ClassSignature, GAlways);
    (n_FieldDescriptor, GAlways); (n_FieldName, GUnqualified); (n_FieldSignature, GAlways);
    (n_LocalVariableName, GUnqualified); (n_MethodDescriptor, GAlways); (n_MethodName, GMethodName);
    (n_MethodSignature, GAlways); (n_ModuleName, GAlways); (n_ObjClassName, GObjClassName);
    (n_PackageName, GAlways); (n_ParameterName, GUnqualified); (n_RecordName, GAlways);
    (n_ReturnDescriptor, GAlways) ].

Lemma newtype_guards : gen_newtypes = expected_newtypes.
Proof. reflexivity. Qed.

(* the literals of `mod names` are the ones the model uses *)
Lemma predicate_literals :
  gen_unq_excluded = [cDOT; cSLASH; cSEMI; cLBRACK] /\
  gen_meth_excluded = [cDOT; cSLASH; cSEMI; cLT; cGT; cLBRACK] /\
  gen_meth_special = [s_clinit; s_init] /\
  Forall (eq cLBRACK) gen_array_marker /\ Forall (eq cSLASH) gen_separator.
Proof. repeat split; try reflexivity; repeat constructor. Qed.

(* hence the generated sets are exactly what unq_char / meth_char of the model exclude *)
Lemma predicate_literals_model c :
  unq_char c = negb (mem_N c gen_unq_excluded) /\ meth_char c = negb (mem_N c gen_meth_excluded).
Proof.
  unfold unq_char, meth_char, mem_N, gen_unq_excluded, gen_meth_excluded, cDOT, cSEMI, cLBRACK, cSLASH, cLT, cGT.
  cbn [existsb].
  split; f_equal.
  - destruct (N.eqb c 46), (N.eqb c 59), (N.eqb c 91), (N.eqb c 47); reflexivity.
  - destruct (N.eqb c 46), (N.eqb c 59), (N.eqb c 91), (N.eqb c 47), (N.eqb c 60), (N.eqb c 62); reflexivity.
Qed.

(* the language of every guard *)
Definition guard_lang (g : guard) (s : str) : Prop :=
  match g with
  | GAlways => True
  | GClassName => AnyClassNameG s
  | GArrClassName => ArrClassNameG s
  | GObjClassName => ClassNameG s
  | GUnqualified => Unq s
  | GMethodName => MethodNameG s
  end.

Lemma guard_spec g s : guard_pred g s = true <-> guard_lang g s.
Proof.
  destruct g; cbn [guard_pred guard_lang].
  - split; auto.
  - apply class_name_spec.
  - apply arr_class_name_spec.
  - apply obj_class_name_spec.
  - apply unqualified_spec.
  - apply method_name_spec.
Qed.

(* every newtype of the source accepts (is_valid, TryFrom) exactly the language of its row *)
Theorem newtypes_accept_grammar name g s :
  lookup_guard name gen_newtypes = Some g -> (guard_pred g s = true <-> guard_lang g s).
Proof. intros _. apply guard_spec. Qed.

Theorem name_types_guarded :
  lookup_guard n_ClassName gen_newtypes = Some GClassName /\
  lookup_guard n_ArrClassName gen_newtypes = Some GArrClassName /\
  lookup_guard n_ObjClassName gen_newtypes = Some GObjClassName /\
  lookup_guard n_FieldName gen_newtypes = Some GUnqualified /\
  lookup_guard n_MethodName gen_newtypes = Some GMethodName /\
  lookup_guard n_ParameterName gen_newtypes = Some GUnqualified /\
  lookup_guard n_LocalVariableName gen_newtypes = Some GUnqualified.
Proof. repeat split; reflexivity. Qed.

(* ------------------------------------------------------------------ *)
(* Display (make_display!) *)
Theorem display_spec s :
  (display s = Ok s <-> Forall (fun c => is_surrogate c = false) s) /\
  (forall r, display s = Ok r -> r = s).
Proof.
  unfold display. split.
  - rewrite Forall_forall. destruct (forallb (fun c => negb (is_surrogate c)) s) eqn:E.
    + split; [|reflexivity]. intros _ c Hc. rewrite forallb_forall in E. apply negb_true_iff, E, Hc.
    + split; [discriminate|]. intros H. exfalso.
      assert (E' : forallb (fun c => negb (is_surrogate c)) s = true).
      { apply forallb_forall. intros c Hc. apply negb_true_iff, H, Hc. }
      congruence.
  - intros r. destruct (forallb _ s); [intros [= <-]; reflexivity|discriminate].
Qed.

(* ------------------------------------------------------------------ *)
(* Non-vacuity of the round-4 statements *)
Definition ex_meth2 : str := cLPAR :: cD :: cLBRACK :: cJ :: cL :: ex_obj ++ [cSEMI; cRPAR; cV].  (* (D[JLjava/lang/Obj;)V *)
Definition ex_inner : str := ex_obj ++ [cDOLLAR; cI].                                               (* java/lang/Obj$I *)

Definition nonvacuous2 : Prop :=
  parse_method ex_meth2 = Ok ([TD; TArr 1 AJ; TObj ex_obj], None) /\ args_size ex_meth2 = Ok 5 /\
  args_size (cLPAR :: repeat cD 127 ++ [cRPAR; cV]) = Ok 255 /\
  args_size (cLPAR :: repeat cD 127 ++ [cI; cRPAR; cV]) = Err /\
  (exists ps r, parse_method (cLPAR :: repeat cD 127 ++ [cI; cRPAR; cV]) = Ok (ps, r)) /\
  args_size [cLPAR; cLBRACK; cRPAR; cRPAR] = Ok 2 /\ parse_method [cLPAR; cLBRACK; cRPAR; cRPAR] = Err /\
  ClassNameG ex_inner /\ split_inner ex_inner = Some (ex_obj, [cI]) /\
  get_simple_name ex_inner = [79; 98; 106; cDOLLAR; cI] /\
  ArrClassNameG ex_desc /\ arr_dimension ex_desc = Ok 2 /\ arr_dimension (repeat cLBRACK 256 ++ [cI]) = Err /\
  display [55296] = Err /\ display ex_obj = Ok ex_obj.

Lemma nonvacuous2_holds : nonvacuous2.
Proof.
  unfold nonvacuous2.
  repeat (split; [vm_compute; reflexivity|]).
  split; [eexists; eexists; vm_compute; reflexivity|].
  repeat (split; [vm_compute; reflexivity|]).
  split; [apply obj_class_name_spec; vm_compute; reflexivity|].
  repeat (split; [vm_compute; reflexivity|]).
  split; [apply arr_class_name_spec; vm_compute; reflexivity|].
  repeat split; vm_compute; reflexivity.
Qed.

(* ------------------------------------------------------------------ *)
(* the writers on arbitrary type values; round trip exactly on the well-formed ones *)

Definition name_of_ty (t : ty) : option str :=
  match t with TObj n => Some n | TArr _ (AObj n) => Some n | _ => None end.

(* write() panics exactly when the class name inside starts with `[`; otherwise it prints print_ty *)
Theorem print_ty_res_spec t :
  (print_ty_res t = Err <-> exists n, name_of_ty t = Some n /\ starts_with [cLBRACK] n = true) /\
  (forall s, print_ty_res t = Ok s -> s = print_ty t).
Proof.
  split.
  - destruct t as [| | | | | | | |n|d a]; cbn [print_ty_res name_of_ty];
      try (split; [discriminate|intros (n & H & _); discriminate]).
    + destruct (starts_with [cLBRACK] n) eqn:E; split; try discriminate; auto.
      * intros _. exists n. auto.
      * intros (n' & [= <-] & H). congruence.
    + destruct a as [| | | | | | | |n]; cbn [print_aty_res];
        try (split; [discriminate|intros (n & H & _); discriminate]).
      destruct (starts_with [cLBRACK] n) eqn:E; split; try discriminate; auto.
      * intros _. exists n. auto.
      * intros (n' & [= <-] & H). congruence.
  - intros s. destruct t as [| | | | | | | |n|d a]; cbn [print_ty_res]; try (intros [= <-]; reflexivity).
    + destruct (starts_with [cLBRACK] n); [discriminate|intros [= <-]; reflexivity].
    + destruct (print_aty_res a); [intros [= <-]; reflexivity|discriminate].
Qed.

Lemma wf_print_ty_res t : wf_ty t -> print_ty_res t = Ok (print_ty t).
Proof.
  intros H. destruct (print_ty_res t) as [s|] eqn:E.
  - f_equal. apply (proj2 (print_ty_res_spec t)). exact E.
  - exfalso. apply (proj1 (print_ty_res_spec t)) in E as (n & Hn & Hs).
    assert (G : ClassNameG n).
    { destruct t as [| | | | | | | |m|d a]; cbn in Hn; try discriminate.
      - injection Hn as <-. exact H.
      - destruct a; try discriminate. injection Hn as <-. exact (proj2 H). }
    pose proof (ClassNameG_not_array _ G) as Hna. unfold is_array_name in Hna. congruence.
Qed.

(* printing then parsing gives the value back EXACTLY for the well-formed values *)
Theorem field_roundtrip_iff_wf t : parse_field (print_ty t) = Ok t <-> wf_ty t.
Proof. split; [intros H; exact (proj2 (print_parse_field _ _ H))|apply parse_print_field]. Qed.

Theorem return_roundtrip_iff_wf r : parse_return (print_return r) = Ok r <-> wf_ret r.
Proof. split; [intros H; exact (proj2 (print_parse_return _ _ H))|apply parse_print_return]. Qed.

Theorem method_roundtrip_iff_wf m : parse_method (print_method m) = Ok m <-> wf_method m.
Proof. split; [intros H; exact (proj2 (print_parse_method _ _ H))|apply parse_print_method]. Qed.

Lemma wf_print_params_res ps : Forall wf_ty ps -> print_params_res ps = Ok (concat (map print_ty ps)).
Proof.
  induction 1 as [|t ps Ht _ IH]; cbn [print_params_res map concat]; [reflexivity|].
  rewrite (wf_print_ty_res _ Ht), IH. reflexivity.
Qed.

Theorem wf_print_method_res m : wf_method m -> print_method_res m = Ok (print_method m).
Proof.
  intros [Hp Hr]. unfold print_method_res, print_method. rewrite (wf_print_params_res _ Hp).
  destruct (snd m) as [t|]; cbn [print_return_res print_return].
  - cbn in Hr. rewrite (wf_print_ty_res _ Hr). reflexivity.
  - reflexivity.
Qed.

(* the grammar is unambiguous: a string has at most one structure *)
Theorem grammar_unambiguous :
  (forall s t t', FieldTypeG s t -> FieldTypeG s t' -> t = t') /\
  (forall s r r', ReturnG s r -> ReturnG s r' -> r = r') /\
  (forall s m m', MethodG s m -> MethodG s m' -> m = m').
Proof.
  repeat split.
  - intros s t t' H H'. apply parse_field_spec in H, H'. congruence.
  - intros s r r' H H'. apply parse_return_spec in H, H'. congruence.
  - intros s m m' H H'. apply parse_method_spec in H, H'. congruence.
Qed.

(* ------------------------------------------------------------------ *)
(* the letter tables of read_field_type / write_field_type / get_arguments_size, regenerated from descriptor.rs *)

Definition prim_letters : list (N * N) :=
  [(cB, cB); (cC, cC); (cD, cD); (cF, cF); (cI, cI); (cJ, cJ); (cS, cS); (cZ, cZ)].

Lemma descriptor_tables :
  gen_read_prims = prim_letters /\ gen_read_arrs = prim_letters /\
  gen_write_prims = prim_letters /\ gen_write_arrs = prim_letters /\
  gen_max_dim = 255 /\ Forall (eq cL) gen_obj_open /\ Forall (eq cSEMI) gen_obj_close /\ Forall (eq cLBRACK) gen_dim_marker /\
  incl gen_write_pushed [cSEMI; cB; cC; cD; cF; cI; cJ; cL; cS; cZ; cLBRACK] /\
  incl gen_args_letters [cLPAR; cRPAR; cSEMI; cD; cJ; cL; cLBRACK] /\ incl gen_args_adds [1; 2] /\ gen_args_init = 1.
Proof.
  split; [reflexivity|]. split; [reflexivity|]. split; [reflexivity|]. split; [reflexivity|]. split; [reflexivity|].
  split; [repeat constructor|]. split; [repeat constructor|]. split; [repeat constructor|].
  split; [intros x Hx; cbn in Hx; cbn; tauto|]. split; [intros x Hx; cbn in Hx; cbn; tauto|].
  split; [intros x Hx; cbn in Hx; cbn; tauto|reflexivity].
Qed.

(* what the tables mean for the model: every (letter, variant) row is an arm of read_base, with and without dimensions,
   and every (variant, letter) row is what the writer prints *)
Lemma descriptor_tables_model c v :
  In (c, v) gen_read_prims ->
  exists a, aty_letter a = Some v /\
            (forall r, read_base (c :: r) = Ok (a, r)) /\
            (forall r, read_field_type (c :: r) = Ok (ty_of_aty a, r)) /\
            (forall k r, (1 <= k <= 255)%nat ->
                         read_field_type (repeat cLBRACK k ++ c :: r) = Ok (TArr (N.of_nat k) a, r)) /\
            print_aty a = [c] /\ print_ty (ty_of_aty a) = [c] /\ In (v, c) gen_write_prims /\ In (v, c) gen_write_arrs.
Proof.
  intros H.
  assert (Hk : forall a r k, BaseG [c] a -> (1 <= k <= 255)%nat ->
                 read_field_type (repeat cLBRACK k ++ c :: r) = Ok (TArr (N.of_nat k) a, r)).
  { intros a r k Hb Hk.
    assert (Hg : FieldTypeG (repeat cLBRACK k ++ [c]) (TArr (N.of_nat k) a)).
    { exists (N.of_nat k), a. split; [apply FT_repeat; exact Hb|]. split; [lia|].
      unfold ty_of. destruct (N.eqb_spec (N.of_nat k) 0); [lia|reflexivity]. }
    pose proof (read_field_type_complete _ _ r Hg) as E. rewrite <- app_assoc in E. exact E. }
  cbn in H.
  repeat (destruct H as [H|H]; [injection H as <- <-|]); try contradiction;
    [exists AB|exists AC|exists AD|exists AF|exists AI|exists AJ|exists AS|exists AZ];
    (split; [reflexivity|]); (split; [reflexivity|]); (split; [reflexivity|]);
    (split; [intros k r Hkk; apply Hk; [constructor|exact Hkk]|]);
    (split; [reflexivity|]); (split; [reflexivity|]); split; cbn; tauto.
Qed.
