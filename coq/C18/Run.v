(* C18 correspondence cases: what the implementation answered, to be compared with the model *)
From FB Require Export C18.Model C18.Model2 C18.NamesGen Base.Run.

Definition aty_eqb (a b : aty) : bool :=
  match a, b with
  | AB, AB | AC, AC | AD, AD | AF, AF | AI, AI | AJ, AJ | AS, AS | AZ, AZ => true
  | AObj n, AObj m => str_eqb n m
  | _, _ => false
  end.
Definition ty_eqb (a b : ty) : bool :=
  match a, b with
  | TB, TB | TC, TC | TD, TD | TF, TF | TI, TI | TJ, TJ | TS, TS | TZ, TZ => true
  | TObj n, TObj m => str_eqb n m
  | TArr d x, TArr e y => N.eqb d e && aty_eqb x y
  | _, _ => false
  end.

Inductive case :=
| CField (s : str) (r : res ty)            (* FieldDescriptorSlice::parse *)
| CReturn (s : str) (r : res (option ty))  (* ReturnDescriptorSlice::parse *)
| CMethod (s : str) (r : res (list ty * option ty))
| CPrintF (t : ty) (s : str)               (* ParsedFieldDescriptor::write *)
| CPrintM (m : list ty * option ty) (s : str)
| CName (kind : N) (s : str) (b : bool)    (* 0 ClassName 1 ArrClassName 2 ObjClassName 3 FieldName
                                              4 MethodName 5 ParameterName 6 LocalVariableName *)
| CSplit (s : str) (r : option (str * str))
| CSimple (s : str) (r : str)
| CSweep (kind : N) (alphabet : str) (len : N) (accepted : list str)
  (* round 4 *)
| CArgs (s : str) (r : res N)                 (* MethodDescriptorSlice::get_arguments_size, observed through the class
                                                 writer (the count operand of invokeinterface); Err = the writer failed *)
| CDim (s : str) (r : res N)                  (* ArrClassNameSlice::dimension; Err = panic (assert_ne!) *)
| CConv (s : str) (is_arr : bool) (arr obj : option str)  (* ClassNameSlice::is_array / as_arr / as_obj *)
| CDescOf (s : str) (d : str)                 (* FieldDescriptor::from_class *)
| CInner (s : str) (p i : option str)         (* get_inner_class_parent / get_inner_class_name *)
| CJoin (p i s : str)                         (* ObjClassName::from_inner_class *)
| CDisplay (s : str) (r : res str)            (* Display of a name type; Err = fmt::Error *)
| CAll (s : str) (field : res ty) (ret : res (option ty)) (meth : res (list ty * option ty))
       (printed : list bool)      (* for each of the three that parsed, in this order: write() of the parsed value gave s back *)
       (names : list (N * bool))  (* (kind, is_valid) *)
       (split : option (option (str * str))) (simple : option str)   (* evaluated on valid object class names only *)
       (dim args : res N)
       (conv : bool * bool * bool) (* is_array, as_arr is Some (then it is s), as_obj is Some (then it is s) *)
       (disp : bool)               (* Display succeeded (then the text is s) *)
  (* everything observed about one string, the string printed once *)
| CWriteF (t : ty) (r : res str)              (* ParsedFieldDescriptor::write on a value built directly (unchecked names); Err = panic *)
| CWriteM (m : list ty * option ty) (r : res str)
| CSweepT (kind : N) (pre suf alphabet : str) (len : N) (accepted : list str)
  (* as CSweep over the strings s = pre ++ w ++ suf, w over the alphabet up to len; the accepted w are listed *)
| CSweepN (kind : N) (pre suf alphabet : str) (len : N) (vals : list (str * N))
  (* all (w, n) with f s = Ok n; kind 0: f = args_size, otherwise arr_dimension *)
| CSweepS (kind : N) (pre suf alphabet : str) (len : N) (vals : list (str * str)).
  (* on valid object class names s: kind 0 (w, get_simple_name s); 1 (w, parent) and 2 (w, inner name) where it splits *)
  (* every string over [alphabet] of length <= len, enumerated by the model itself: the strings
     accepted by predicate/parser [kind] must be exactly the implementation's accepted list *)

Fixpoint strings_of_len (alpha : str) (n : nat) : list str :=
  match n with
  | O => [[]]
  | S n' => flat_map (fun c => map (cons c) (strings_of_len alpha n')) alpha
  end.
Fixpoint strings_upto (alpha : str) (n : nat) : list str :=
  match n with
  | O => [[]]
  | S n' => strings_upto alpha n' ++ strings_of_len alpha n
  end.

(* the newtype behind a name kind; its guard is looked up in the table regenerated from the source *)
Definition kind_name (kind : N) : str :=
  match kind with
  | 0 => n_ClassName | 1 => n_ArrClassName | 2 => n_ObjClassName | 3 => n_FieldName | 4 => n_MethodName
  | 5 => n_ParameterName | 6 => n_LocalVariableName
  | 11 => n_FieldDescriptor | 12 => n_MethodDescriptor | 13 => n_ReturnDescriptor | 14 => n_ClassSignature
  | 15 => n_FieldSignature | 16 => n_MethodSignature | 17 => n_RecordName | 18 => n_ModuleName | 19 => n_PackageName
  | _ => []
  end.
Definition name_pred (kind : N) (s : str) : bool :=
  match lookup_guard (kind_name kind) gen_newtypes with
  | Some g => guard_pred g s
  | None => false
  end.

Definition accepts (kind : N) (s : str) : bool :=
  match kind with
  | 7 => is_ok (parse_field s)
  | 8 => is_ok (parse_return s)
  | 9 => is_ok (parse_method s)
  | 10 => is_valid_obj_class_name s && (match split_inner s with Some _ => true | None => false end)
  | k => name_pred k s
  end.

(* run-length notation the harness uses for long runs of one character (255 `[`, 127 `D`, …) *)
Definition rp (c n : N) : str := repeat c (N.to_nat n).
Definition rps (u : str) (n : N) : str := concat (repeat u (N.to_nat n)).   (* a repeated unit: 254 x `[D`, … *)
Definition rpt {A} (x : A) (n : N) : list A := repeat x (N.to_nat n).       (* a repeated list element *)
Definition fun_N (kind : N) (s : str) : res N := match kind with 0 => args_size s | _ => arr_dimension s end.
Definition fun_S (kind : N) (s : str) : option str :=
  match kind with 0 => Some (get_simple_name s) | 1 => inner_parent s | _ => inner_name s end.

Definition printed_model (s : str) (field : res ty) (ret : res (option ty)) (meth : res (list ty * option ty)) : list bool :=
  (match field with Ok t => [str_eqb (print_ty t) s] | Err => [] end) ++
  (match ret with Ok r => [str_eqb (print_return r) s] | Err => [] end) ++
  (match meth with Ok m => [str_eqb (print_method m) s] | Err => [] end).

Definition check (c : case) : bool :=
  match c with
  | CField s r => res_eqb ty_eqb (parse_field s) r
  | CReturn s r => res_eqb (opt_eqb ty_eqb) (parse_return s) r
  | CMethod s r => res_eqb (pair_eqb (list_eqb ty_eqb) (opt_eqb ty_eqb)) (parse_method s) r
  | CPrintF t s => str_eqb (print_ty t) s
  | CPrintM m s => str_eqb (print_method m) s
  | CName k s b => Bool.eqb (name_pred k s) b
  | CSplit s r => opt_eqb (pair_eqb str_eqb str_eqb) (split_inner s) r
  | CSimple s r => str_eqb (get_simple_name s) r
  | CSweep k alpha len acc => list_eqb str_eqb (filter (accepts k) (strings_upto alpha (N.to_nat len))) acc
  | CArgs s r => res_eqb N.eqb (args_size s) r
  | CDim s r => res_eqb N.eqb (arr_dimension s) r
  | CConv s b a o => Bool.eqb (is_array_name s) b && opt_eqb str_eqb (as_arr s) a && opt_eqb str_eqb (as_obj s) o
  | CDescOf s d => str_eqb (desc_of_class s) d
  | CInner s p i => opt_eqb str_eqb (inner_parent s) p && opt_eqb str_eqb (inner_name s) i
  | CJoin p i s => str_eqb (join_inner p i) s
  | CDisplay s r => res_eqb str_eqb (display s) r
  | CAll s field ret meth printed names split simple dim args conv disp =>
      res_eqb ty_eqb (parse_field s) field && res_eqb (opt_eqb ty_eqb) (parse_return s) ret &&
      res_eqb (pair_eqb (list_eqb ty_eqb) (opt_eqb ty_eqb)) (parse_method s) meth &&
      list_eqb Bool.eqb (printed_model s field ret meth) printed &&
      forallb (fun kb => Bool.eqb (name_pred (fst kb) s) (snd kb)) names &&
      match split with None => true | Some r => opt_eqb (pair_eqb str_eqb str_eqb) (split_inner s) r end &&
      match simple with None => true | Some r => str_eqb (get_simple_name s) r end &&
      res_eqb N.eqb (arr_dimension s) dim && res_eqb N.eqb (args_size s) args &&
      (let '(ia, a, o) := conv in
       Bool.eqb (is_array_name s) ia && opt_eqb str_eqb (as_arr s) (if a then Some s else None) &&
       opt_eqb str_eqb (as_obj s) (if o then Some s else None)) &&
      res_eqb str_eqb (display s) (if disp then Ok s else Err)
  | CWriteF t r => res_eqb str_eqb (print_ty_res t) r
  | CWriteM m r => res_eqb str_eqb (print_method_res m) r
  (* the template sweeps list the variable part w only; the string is pre ++ w ++ suf *)
  | CSweepT k pre suf alpha len acc =>
      list_eqb str_eqb (filter (fun w => accepts k (pre ++ w ++ suf)) (strings_upto alpha (N.to_nat len))) acc
  | CSweepN k pre suf alpha len vals =>
      list_eqb (pair_eqb str_eqb N.eqb)
        (flat_map (fun w => match fun_N k (pre ++ w ++ suf) with Ok n => [(w, n)] | Err => [] end)
                  (strings_upto alpha (N.to_nat len))) vals
  | CSweepS k pre suf alpha len vals =>
      list_eqb (pair_eqb str_eqb str_eqb)
        (flat_map (fun w => let s := pre ++ w ++ suf in
                            if is_valid_obj_class_name s
                            then match fun_S k s with Some v => [(w, v)] | None => [] end else [])
                  (strings_upto alpha (N.to_nat len))) vals
  end.
