(* C18 correspondence cases: what the implementation answered, to be compared with the model *)
From FB Require Export C18.Model Base.Run.

Definition aty_eqb (a b : aty) : bool :=
  match a, b with
  | AB, AB | AC, AC | AD, AD | AF, AF | AI, AI | AJ, AJ | AS, AS | AZ, AZ => true
  | AObj n, AObj m => str_eqb n m
  | _, _ => false
  end.
Definition ty_eqb (a b : ty) : bool :=
  match a, b with
  | TB, TB | TC, TC | TD, TD | TF, TF | TI, TI | TJ, TJ | TS, TS | TZ, TZ => true
  | TObj n, TObj m => str_eqb n m
  | TArr d x, TArr e y => N.eqb d e && aty_eqb x y
  | _, _ => false
  end.

Inductive case :=
| CField (s : str) (r : res ty)            (* FieldDescriptorSlice::parse *)
| CReturn (s : str) (r : res (option ty))  (* ReturnDescriptorSlice::parse *)
| CMethod (s : str) (r : res (list ty * option ty))
| CPrintF (t : ty) (s : str)               (* ParsedFieldDescriptor::write *)
| CPrintM (m : list ty * option ty) (s : str)
| CName (kind : N) (s : str) (b : bool)    (* 0 ClassName 1 ArrClassName 2 ObjClassName 3 FieldName
                                              4 MethodName 5 ParameterName 6 LocalVariableName *)
| CSplit (s : str) (r : option (str * str))
| CSimple (s : str) (r : str)
| CSweep (kind : N) (alphabet : str) (len : N) (accepted : list str).
  (* every string over [alphabet] of length <= len, enumerated by the model itself: the strings
     accepted by predicate/parser [kind] must be exactly the implementation's accepted list *)

Fixpoint strings_of_len (alpha : str) (n : nat) : list str :=
  match n with
  | O => [[]]
  | S n' => flat_map (fun c => map (cons c) (strings_of_len alpha n')) alpha
  end.
Fixpoint strings_upto (alpha : str) (n : nat) : list str :=
  match n with
  | O => [[]]
  | S n' => strings_upto alpha n' ++ strings_of_len alpha n
  end.

Definition name_pred (kind : N) (s : str) : bool :=
  match kind with
  | 0 => is_valid_class_name s
  | 1 => is_valid_arr_class_name s
  | 2 => is_valid_obj_class_name s
  | 4 => is_valid_method_name s
  | _ => is_valid_unqualified_name s
  end.

Definition accepts (kind : N) (s : str) : bool :=
  match kind with
  | 7 => is_ok (parse_field s)
  | 8 => is_ok (parse_return s)
  | 9 => is_ok (parse_method s)
  | 10 => is_valid_obj_class_name s && (match split_inner s with Some _ => true | None => false end)
  | k => name_pred k s
  end.

Definition check (c : case) : bool :=
  match c with
  | CField s r => res_eqb ty_eqb (parse_field s) r
  | CReturn s r => res_eqb (opt_eqb ty_eqb) (parse_return s) r
  | CMethod s r => res_eqb (pair_eqb (list_eqb ty_eqb) (opt_eqb ty_eqb)) (parse_method s) r
  | CPrintF t s => str_eqb (print_ty t) s
  | CPrintM m s => str_eqb (print_method m) s
  | CName k s b => Bool.eqb (name_pred k s) b
  | CSplit s r => opt_eqb (pair_eqb str_eqb str_eqb) (split_inner s) r
  | CSimple s r => str_eqb (get_simple_name s) r
  | CSweep k alpha len acc => list_eqb str_eqb (filter (accepts k) (strings_upto alpha (N.to_nat len))) acc
  end.
