(* C08 theory, part A: generic facts — permuting rows, inverse permutations, the keyed
   collection of `map_with_key_from_result_iter`, pointwise results. *)
From FB Require Import C08.Model.
From Coq Require Import Arith Lia Permutation FinFun.

(* ---------- nth / permute ---------- *)
Lemma nth_map_lt {A B} (f : A -> B) l k a b : (k < length l)%nat -> nth k (map f l) b = f (nth k l a).
Proof.
  intros H. rewrite (nth_indep _ b (f a)) by (rewrite map_length; exact H). apply map_nth.
Qed.

Lemma permute_length {A} (d : A) t l : length (permute d t l) = length t.
Proof. unfold permute. apply map_length. Qed.

Lemma nth_permute {A} (d : A) t l k :
  (k < length t)%nat -> nth k (permute d t l) d = nth (nth k t O) l d.
Proof. intros H. unfold permute. apply (nth_map_lt (fun i => nth i l d)). exact H. Qed.

Lemma permute_id {A} (d : A) l : permute d (seq 0 (length l)) l = l.
Proof.
  apply (nth_ext _ _ d d).
  - rewrite permute_length, seq_length. reflexivity.
  - intros k Hk. rewrite permute_length, seq_length in Hk.
    rewrite nth_permute by (rewrite seq_length; exact Hk).
    rewrite seq_nth by exact Hk. reflexivity.
Qed.

Lemma index_of_spec j p : In j p -> (index_of j p < length p)%nat /\ nth (index_of j p) p O = j.
Proof.
  induction p as [|x r IH]; cbn [index_of In length]; [tauto|]. intros H.
  destruct (Nat.eqb_spec x j) as [->|Hn].
  - split; [lia|reflexivity].
  - destruct H as [H|H]; [congruence|]. destruct (IH H) as [H1 H2]. split; [lia|exact H2].
Qed.

Lemma is_permb_spec n p : is_permb n p = true <-> length p = n /\ forall j, (j < n)%nat -> In j p.
Proof.
  unfold is_permb. rewrite andb_true_iff, Nat.eqb_eq, forallb_forall. split; intros [H1 H2]; split; auto.
  - intros j Hj. assert (Hs : In j (seq 0 n)) by (apply in_seq; lia).
    apply H2 in Hs. apply existsb_exists in Hs. destruct Hs as (x & Hx & E).
    apply Nat.eqb_eq in E. subst. exact Hx.
  - intros j Hj. apply in_seq in Hj. apply existsb_exists. exists j.
    split; [apply H2; lia|apply Nat.eqb_refl].
Qed.

(* the boolean test is the usual notion: p is a rearrangement of 0 .. n-1 *)
Lemma is_permb_Permutation n p : is_permb n p = true <-> Permutation p (seq 0 n).
Proof.
  rewrite is_permb_spec. split.
  - intros [Hl Hin]. symmetry. apply NoDup_Permutation_bis.
    + apply seq_NoDup.
    + rewrite seq_length. lia.
    + intros j Hj. apply in_seq in Hj. apply Hin. lia.
  - intros Hp. split.
    + rewrite (Permutation_length Hp). apply seq_length.
    + intros j Hj. apply (Permutation_in _ (Permutation_sym Hp)). apply in_seq. lia.
Qed.

Lemma inv_perm_length p : length (inv_perm p) = length p.
Proof. unfold inv_perm. rewrite map_length, seq_length. reflexivity. Qed.

Lemma nth_inv_perm p k : (k < length p)%nat -> nth k (inv_perm p) O = index_of k p.
Proof.
  intros H. unfold inv_perm.
  rewrite (nth_map_lt (fun j => index_of j p) _ _ O) by (rewrite seq_length; exact H).
  rewrite seq_nth by exact H. reflexivity.
Qed.

Lemma permute_inv {A} (d : A) n p l :
  is_permb n p = true -> length l = n -> permute d (inv_perm p) (permute d p l) = l.
Proof.
  intros Hp Hl. apply is_permb_spec in Hp. destruct Hp as [Hlen Hin].
  apply (nth_ext _ _ d d).
  - rewrite permute_length, inv_perm_length. lia.
  - intros k Hk. rewrite permute_length, inv_perm_length in Hk.
    rewrite nth_permute by (rewrite inv_perm_length; exact Hk).
    rewrite nth_inv_perm by exact Hk.
    destruct (index_of_spec k p) as [H1 H2]; [apply Hin; lia|].
    rewrite nth_permute by exact H1. rewrite H2. reflexivity.
Qed.

Lemma inv_perm_cons p0 pr :
  inv_perm (p0 :: pr) = index_of 0 (p0 :: pr) :: map (fun j => index_of j (p0 :: pr)) (seq 1 (length pr)).
Proof. reflexivity. Qed.

(* the inverse of a permutation is a permutation, and inverting twice gives it back *)
Lemma index_of_nth p k : NoDup p -> (k < length p)%nat -> index_of (nth k p O) p = k.
Proof.
  revert k. induction p as [|x r IH]; intros k Hnd Hk; cbn [length] in Hk; [lia|].
  inversion Hnd as [|? ? Hx Hr]; subst. destruct k as [|k]; cbn [nth index_of].
  - rewrite Nat.eqb_refl. reflexivity.
  - destruct (Nat.eqb_spec x (nth k r O)) as [E|_].
    + exfalso. apply Hx. rewrite E. apply nth_In. lia.
    + rewrite IH; [reflexivity|exact Hr|lia].
Qed.

Lemma inv_perm_is_perm n p : is_permb n p = true -> is_permb n (inv_perm p) = true.
Proof.
  intros Hp. assert (Hperm := proj1 (is_permb_Permutation n p) Hp).
  apply is_permb_spec in Hp. destruct Hp as [Hl Hin].
  assert (Hnd : NoDup p) by (apply (Permutation_NoDup (Permutation_sym Hperm)), seq_NoDup).
  apply is_permb_spec. split; [rewrite inv_perm_length; exact Hl|].
  intros j Hj. unfold inv_perm. apply in_map_iff. exists (nth j p O). split.
  - apply index_of_nth; [exact Hnd|lia].
  - apply in_seq. assert (Hi : In (nth j p O) p) by (apply nth_In; lia).
    apply (Permutation_in _ Hperm) in Hi. apply in_seq in Hi. lia.
Qed.

Lemma inv_perm_involutive n p : is_permb n p = true -> inv_perm (inv_perm p) = p.
Proof.
  intros Hp. assert (Hperm := proj1 (is_permb_Permutation n p) Hp).
  assert (Hnd : NoDup p) by (apply (Permutation_NoDup (Permutation_sym Hperm)), seq_NoDup).
  apply is_permb_spec in Hp. destruct Hp as [Hl Hin].
  apply (nth_ext _ _ O O).
  - rewrite !inv_perm_length. reflexivity.
  - intros k Hk. rewrite !inv_perm_length in Hk.
    rewrite nth_inv_perm by (rewrite inv_perm_length; exact Hk).
    (* index of k in inv_perm p is the j with index_of j p = k, i.e. j = nth k p *)
    assert (Hj : (nth k p O < length p)%nat).
    { assert (Hi : In (nth k p O) p) by (apply nth_In; exact Hk).
      apply (Permutation_in _ Hperm) in Hi. apply in_seq in Hi. lia. }
    assert (Hndi : NoDup (inv_perm p)).
    { assert (Hpi := inv_perm_is_perm n p).
      rewrite is_permb_spec in Hpi. specialize (Hpi (conj Hl Hin)).
      apply is_permb_Permutation in Hpi.
      apply (Permutation_NoDup (Permutation_sym Hpi)), seq_NoDup. }
    rewrite <- (index_of_nth p k Hnd Hk) at 1.
    rewrite <- (nth_inv_perm p (nth k p O) Hj).
    apply index_of_nth; [exact Hndi|rewrite inv_perm_length; exact Hj].
Qed.

(* ---------- Forall2 helpers ---------- *)
Lemma Forall2_refl_in {A} (R : A -> A -> Prop) l : (forall x, In x l -> R x x) -> Forall2 R l l.
Proof.
  induction l as [|x l IH]; intros H; constructor.
  - apply H. left. reflexivity.
  - apply IH. intros y Hy. apply H. right. exact Hy.
Qed.

Lemma Forall2_flip_in {A B} (R : A -> B -> Prop) (R' : B -> A -> Prop) l l' :
  Forall2 R l l' -> (forall x y, In x l -> In y l' -> R x y -> R' y x) -> Forall2 R' l' l.
Proof.
  intros HF. induction HF as [|x y l l' Hxy HF IH]; intros H; constructor.
  - apply H; [left; reflexivity|left; reflexivity|exact Hxy].
  - apply IH. intros a b Ha Hb. apply H; right; assumption.
Qed.

Lemma Forall2_in_l {A B} (R : A -> B -> Prop) l l' x :
  Forall2 R l l' -> In x l -> exists y, In y l' /\ R x y.
Proof.
  intros HF. induction HF as [|a b l l' Hab HF IH]; intros Hx; [destruct Hx|].
  destruct Hx as [<-|Hx].
  - exists b. split; [left; reflexivity|exact Hab].
  - destruct (IH Hx) as (y & Hy & Hr). exists y. split; [right; exact Hy|exact Hr].
Qed.

Lemma Forall2_in_r {A B} (R : A -> B -> Prop) l l' y :
  Forall2 R l l' -> In y l' -> exists x, In x l /\ R x y.
Proof.
  intros HF. induction HF as [|a b l l' Hab HF IH]; intros Hy; [destruct Hy|].
  destruct Hy as [<-|Hy].
  - exists a. split; [left; reflexivity|exact Hab].
  - destruct (IH Hy) as (x & Hx & Hr). exists x. split; [right; exact Hx|exact Hr].
Qed.

Lemma NoDup_map_inj {A B} (f : A -> B) l a b :
  NoDup (map f l) -> In a l -> In b l -> f a = f b -> a = b.
Proof.
  induction l as [|x l IH]; intros Hnd Ha Hb E; [destruct Ha|].
  cbn [map] in Hnd. inversion Hnd as [|? ? Hx Hl]; subst.
  destruct Ha as [<-|Ha]; destruct Hb as [<-|Hb]; auto.
  - exfalso. apply Hx. rewrite E. apply in_map. exact Hb.
  - exfalso. apply Hx. rewrite <- E. apply in_map. exact Ha.
Qed.

Lemma NoDup_map_Some {A B} (g : A -> B) l :
  NoDup (map (fun x => Some (g x)) l) <-> NoDup (map g l).
Proof.
  rewrite <- (map_map g Some). split.
  - apply NoDup_map_inv.
  - apply Injective_map_NoDup. intros a b [= E]. exact E.
Qed.

(* pointwise results: `map f l` consists of Ok values exactly when f relates l to them *)
Lemma map_res_rel {A B} (f : A -> res B) (R : A -> B -> Prop) l : forall l',
  (forall x y, In x l -> (f x = Ok y <-> R x y)) -> (map f l = map Ok l' <-> Forall2 R l l').
Proof.
  induction l as [|x l IH]; intros l' H.
  - destruct l'; cbn [map]; split; intros E; try constructor; try discriminate; inversion E.
  - destruct l' as [|y l']; cbn [map].
    + split; intros E; [discriminate|inversion E].
    + split.
      * intros E. injection E as E1 E2. constructor.
        -- apply H; [left; reflexivity|exact E1].
        -- apply IH; [intros a b Ha; apply H; right; exact Ha|exact E2].
      * intros E. inversion E as [|? ? ? ? Hxy HF]; subst. f_equal.
        -- apply H; [left; reflexivity|exact Hxy].
        -- apply IH; [intros a b Ha; apply H; right; exact Ha|exact HF].
Qed.

(* ---------- boolean equalities ---------- *)
Lemma opt_eqb_eq {A} (eqb : A -> A -> bool) (Heq : forall a b, eqb a b = true <-> a = b) x y :
  opt_eqb eqb x y = true <-> x = y.
Proof.
  destruct x as [a|], y as [b|]; cbn [opt_eqb]; try (split; congruence).
  rewrite Heq. split; congruence.
Qed.

Lemma key2_eqb_eq a b : key2_eqb a b = true <-> a = b.
Proof.
  destruct a as [a1 a2], b as [b1 b2]. unfold key2_eqb. cbn [fst snd].
  rewrite andb_true_iff, !str_eqb_eq. split; [intros [-> ->]; reflexivity|intros [= -> ->]; auto].
Qed.

Lemma existsb_eqb_In {A} (eqb : A -> A -> bool) (Heq : forall a b, eqb a b = true <-> a = b) x l :
  existsb (eqb x) l = true <-> In x l.
Proof.
  rewrite existsb_exists. split.
  - intros (y & Hy & E). apply Heq in E. subst. exact Hy.
  - intros H. exists x. split; [exact H|apply Heq; reflexivity].
Qed.

Lemma nodupb_NoDup {A} (eqb : A -> A -> bool) (Heq : forall a b, eqb a b = true <-> a = b) l :
  nodupb eqb l = true <-> NoDup l.
Proof.
  induction l as [|x l IH]; cbn [nodupb].
  - split; [constructor|reflexivity].
  - rewrite andb_true_iff, negb_true_iff, IH. split.
    + intros [Hx Hl]. constructor; [|exact Hl]. intros Hin.
      apply (existsb_eqb_In eqb Heq) in Hin. congruence.
    + intros Hnd. inversion Hnd as [|? ? Hx Hl]; subst. split; [|exact Hl].
      destruct (existsb (eqb x) l) eqn:E; [|reflexivity].
      apply (existsb_eqb_In eqb Heq) in E. contradiction.
Qed.

(* ---------- add_child / map_with_key_from_result_iter ---------- *)
(* every key present, keys pairwise distinct *)
Definition keys_good {A K} (key : A -> option K) (l : list A) : Prop :=
  Forall (fun x => key x <> None) l /\ NoDup (map key l).

Lemma existsb_key_in {A K} (key : A -> option K) (eqb : K -> K -> bool)
  (Heq : forall a b, eqb a b = true <-> a = b) acc k :
  existsb (fun y => opt_eqb eqb (key y) (Some k)) acc = true <-> In (Some k) (map key acc).
Proof.
  rewrite existsb_exists, in_map_iff. split.
  - intros (y & Hy & E). exists y. split; [|exact Hy]. apply (opt_eqb_eq eqb Heq) in E. exact E.
  - intros (y & E & Hy). exists y. split; [exact Hy|]. apply (opt_eqb_eq eqb Heq). exact E.
Qed.

Lemma add_children_spec {A K} (key : A -> option K) (eqb : K -> K -> bool)
  (Heq : forall a b, eqb a b = true <-> a = b) l : forall acc r,
  NoDup (map key acc) ->
  (add_children key eqb acc l = Ok r <->
   exists xs, l = map Ok xs /\ r = acc ++ xs /\ Forall (fun x => key x <> None) xs /\ NoDup (map key (acc ++ xs))).
Proof.
  induction l as [|[x|] l IH]; intros acc r Hnd; cbn [add_children].
  - split.
    + intros [= <-]. exists []. rewrite app_nil_r. repeat split; auto.
    + intros (xs & E & -> & _ & _). destruct xs; [|discriminate]. rewrite app_nil_r. reflexivity.
  - destruct (key x) as [k|] eqn:Ek.
    + destruct (existsb (fun y => opt_eqb eqb (key y) (Some k)) acc) eqn:Ex.
      * split; [discriminate|]. intros (xs & E & -> & Hs & Hnd').
        destruct xs as [|x' xs]; [discriminate|]. cbn [map] in E. injection E as <- E.
        exfalso. apply (existsb_key_in key eqb Heq) in Ex.
        rewrite map_app in Hnd'. cbn [map] in Hnd'. rewrite Ek in Hnd'.
        apply NoDup_remove_2 in Hnd'. apply Hnd'. apply in_or_app. left. exact Ex.
      * assert (Hnd2 : NoDup (map key (acc ++ [x]))).
        { rewrite map_app. cbn [map]. rewrite Ek.
          apply (Permutation_NoDup (Permutation_cons_append (map key acc) (Some k))).
          constructor; [|exact Hnd]. intros Hin. apply (existsb_key_in key eqb Heq) in Hin. congruence. }
        rewrite (IH (acc ++ [x]) r Hnd2). split.
        -- intros (xs & -> & -> & Hs & Hnd'). exists (x :: xs). rewrite <- app_assoc in Hnd'.
           rewrite <- app_assoc. cbn [app map] in *. repeat split; auto.
           constructor; [congruence|exact Hs].
        -- intros (xs & E & -> & Hs & Hnd'). destruct xs as [|x' xs]; [discriminate|].
           cbn [map] in E. injection E as <- E. exists xs. rewrite <- app_assoc. cbn [app].
           inversion Hs; subst. repeat split; auto.
    + split; [discriminate|]. intros (xs & E & -> & Hs & _). destruct xs as [|x' xs]; [discriminate|].
      cbn [map] in E. injection E as <- _. inversion Hs; subst. congruence.
  - split; [discriminate|]. intros (xs & E & _). destruct xs; discriminate.
Qed.

Lemma from_result_iter_spec {A K} (key : A -> option K) (eqb : K -> K -> bool)
  (Heq : forall a b, eqb a b = true <-> a = b) l r :
  from_result_iter key eqb l = Ok r <-> l = map Ok r /\ keys_good key r.
Proof.
  unfold from_result_iter, keys_good.
  rewrite (add_children_spec key eqb Heq l [] r) by constructor. cbn [app]. split.
  - intros (xs & -> & -> & H1 & H2). auto.
  - intros (-> & H1 & H2). exists r. auto.
Qed.

(* the boolean form used by [wf] *)
Lemma keys_good_bool {A K} (key : A -> option K) (eqb : K -> K -> bool)
  (Heq : forall a b, eqb a b = true <-> a = b) l :
  forallb (fun x => is_some (key x)) l = true -> nodupb (okey_eqb eqb) (map key l) = true -> keys_good key l.
Proof.
  intros H1 H2. split.
  - apply Forall_forall. intros x Hx. rewrite forallb_forall in H1. specialize (H1 x Hx).
    destruct (key x); [discriminate|discriminate H1].
  - apply (nodupb_NoDup (okey_eqb eqb)); [|exact H2]. intros a b. apply opt_eqb_eq. exact Heq.
Qed.
