(* C08 model: quill/src/action/reorder.rs (`Mappings::reorder`) together with the parts it uses:
   quill/src/tree/mod.rs (`Namespaces::get_namespace`, `Namespaces::reorder`, `Names::reorder`),
   quill/src/remapper.rs (`remapper_a`, `ARemapperImpl::map_class_fail`, `map_class`, `map_desc`)
   and quill/src/tree/mappings.rs (`add_child`, `map_with_key_from_result_iter`).
   Definitions only; proofs are in Theory.v. *)
From FB Require Export Quill.Mappings.

Definition cL : N := 76.

(* ---------- remapper.rs: map_desc ----------
   One pass over the characters.  [SCopy]: the `while let Some(ch) = iter.next()` loop, every
   character is pushed; after an `L` the next character must exist and not be `;` ([SFirst],
   `iter.next().filter(|ch| ch != ';')`), then `find(';')` consumes up to and including the next
   semicolon ([SName acc], acc = desc[start..] so far); the class name is replaced by `f name`
   and a `;` is pushed.  End of input inside a name, or `L;` => bail!. *)
Inductive scan_state := SCopy | SFirst | SName (acc : str).

Fixpoint map_desc_go (f : str -> str) (st : scan_state) (d : str) : res str :=
  match d with
  | [] => match st with SCopy => Ok [] | _ => Err end
  | c :: d' =>
      match st with
      | SCopy => do r <- map_desc_go f (if N.eqb c cL then SFirst else SCopy) d'; Ok (c :: r)
      | SFirst => if N.eqb c cSEMI then Err else map_desc_go f (SName [c]) d'
      | SName acc =>
          if N.eqb c cSEMI then do r <- map_desc_go f SCopy d'; Ok (f acc ++ cSEMI :: r)
          else map_desc_go f (SName (acc ++ [c])) d'
      end
  end.
Definition map_desc (f : str -> str) (d : str) : res str := map_desc_go f SCopy d.

(* the same scanner returning the pieces: plain characters and class names *)
Inductive tok := TCh (c : N) | TCls (name : str).
Fixpoint tokens_go (st : scan_state) (d : str) : res (list tok) :=
  match d with
  | [] => match st with SCopy => Ok [] | _ => Err end
  | c :: d' =>
      match st with
      | SCopy => if N.eqb c cL then tokens_go SFirst d'
                 else do r <- tokens_go SCopy d'; Ok (TCh c :: r)
      | SFirst => if N.eqb c cSEMI then Err else tokens_go (SName [c]) d'
      | SName acc =>
          if N.eqb c cSEMI then do r <- tokens_go SCopy d'; Ok (TCls acc :: r)
          else tokens_go (SName (acc ++ [c])) d'
      end
  end.
Definition tokens (d : str) : res (list tok) := tokens_go SCopy d.
Definition print_tok (t : tok) : str := match t with TCh c => [c] | TCls n => cL :: n ++ [cSEMI] end.
Definition print_toks (l : list tok) : str := flat_map print_tok l.
Definition map_tok (f : str -> str) (t : tok) : tok := match t with TCh c => TCh c | TCls n => TCls (f n) end.
Definition tok_classes (l : list tok) : list str :=
  flat_map (fun t => match t with TCls n => [n] | TCh _ => [] end) l.
(* the class names a descriptor mentions (none if it does not scan) *)
Definition desc_classes (d : str) : list str := match tokens d with Ok l => tok_classes l | Err => [] end.

(* ---------- remapper.rs: ARemapperImpl / remapper_a ----------
   IndexMap<&from, &to>: `insert` on an existing key replaces the value in place. *)
Definition table := list (str * str).
Fixpoint tbl_insert (k v : str) (t : table) : table :=
  match t with
  | [] => [(k, v)]
  | (k', v') :: t' => if str_eqb k k' then (k', v) :: t' else (k', v') :: tbl_insert k v t'
  end.
Fixpoint tbl_get (k : str) (t : table) : option str :=
  match t with
  | [] => None
  | (k', v') :: t' => if str_eqb k k' then Some v' else tbl_get k t'
  end.
Definition remapper_step (from to : nat) (t : table) (c : class) : table :=
  match nth_name (c_names c) from, nth_name (c_names c) to with
  | Some a, Some b => tbl_insert a b t
  | _, _ => t
  end.
Definition remapper_a (M : mappings) (from to : nat) : table :=
  fold_left (remapper_step from to) (ms_classes M) [].
(* map_class = map_class_fail(..).unwrap_or(class) *)
Definition map_class (t : table) (x : str) : str := match tbl_get x t with Some y => y | None => x end.

(* ---------- tree/mod.rs: Namespaces / Names ---------- *)
Fixpoint get_namespace (ns : list str) (name : str) : res nat :=
  match ns with
  | [] => Err
  | x :: r => if str_eqb x name then Ok O else do i <- get_namespace r name; Ok (S i)
  end.
Fixpoint map_res {A B} (f : A -> res B) (l : list A) : res (list B) :=
  match l with
  | [] => Ok []
  | x :: l' => do y <- f x; do r <- map_res f l'; Ok (y :: r)
  end.
(* `table.map(|namespace| self[namespace].clone())` *)
Definition permute {A} (d : A) (t : list nat) (l : list A) : list A := map (fun i => nth i l d) t.

(* ---------- tree/mappings.rs: add_child / map_with_key_from_result_iter ---------- *)
Fixpoint add_children {A K} (key : A -> option K) (eqb : K -> K -> bool) (acc : list A) (l : list (res A))
  : res (list A) :=
  match l with
  | [] => Ok acc
  | Err :: _ => Err                                   (* child? *)
  | Ok x :: l' =>
      match key x with
      | None => Err                                   (* get_key failed: no first name *)
      | Some k =>
          if existsb (fun y => opt_eqb eqb (key y) (Some k)) acc then Err   (* Entry::Occupied *)
          else add_children key eqb (acc ++ [x]) l'
      end
  end.
Definition from_result_iter {A K} (key : A -> option K) (eqb : K -> K -> bool) (l : list (res A)) : res (list A) :=
  add_children key eqb [] l.

(* ---------- action/reorder.rs ---------- *)
Definition reorder_param (t : list nat) (x : param) : res param :=
  Ok (mkParam (p_index x) (permute None t (p_names x)) (p_doc x)).
Definition reorder_field (T : table) (t : list nat) (f : field) : res field :=
  do d <- map_desc (map_class T) (f_desc f);
  Ok (mkField d (permute None t (f_names f)) (f_doc f)).
Definition reorder_meth (T : table) (t : list nat) (m : meth) : res meth :=
  do d <- map_desc (map_class T) (m_desc m);
  do ps <- from_result_iter (fun x => Some (param_key x)) N.eqb (map (reorder_param t) (m_params m));
  Ok (mkMeth d (permute None t (m_names m)) (m_doc m) ps).
Definition reorder_class (T : table) (t : list nat) (c : class) : res class :=
  do fs <- from_result_iter field_key key2_eqb (map (reorder_field T t) (c_fields c));
  do ms <- from_result_iter meth_key key2_eqb (map (reorder_meth T t) (c_methods c));
  Ok (mkClass (permute None t (c_names c)) (c_doc c) fs ms).

(* [t] is the lookup table: at each new position the old index *)
Definition reorder (M : mappings) (t : list nat) : res mappings :=
  match t with
  | [] => Err                                         (* N = 0: Namespace::new(0) fails *)
  | t0 :: _ =>
      let T := remapper_a M 0 t0 in
      do cs <- from_result_iter class_key str_eqb (map (reorder_class T t) (ms_classes M));
      Ok (mkMappings (permute [] t (ms_ns M)) (ms_doc M) cs)
  end.

(* the public entry point: `reorder(namespaces: [&str; N])` *)
Definition reorder_table (M : mappings) (names : list str) : res (list nat) :=
  map_res (get_namespace (ms_ns M)) names.
Definition reorder_by_names (M : mappings) (names : list str) : res mappings :=
  do t <- reorder_table M names; reorder M t.

(* ---------- permutations ---------- *)
Definition is_permb (n : nat) (p : list nat) : bool :=
  Nat.eqb (length p) n && forallb (fun j => existsb (Nat.eqb j) p) (seq 0 n).
Fixpoint index_of (j : nat) (p : list nat) : nat :=
  match p with
  | [] => O
  | x :: r => if Nat.eqb x j then O else S (index_of j r)
  end.
Definition inv_perm (p : list nat) : list nat := map (fun j => index_of j p) (seq 0 (length p)).
(* the table of "first reorder by p, then reorder the result by q": new position j takes the
   intermediate column q[j], which is the original column p[q[j]] *)
Definition compose (p q : list nat) : list nat := map (fun j => nth j p O) q.
Definition in_range (n : nat) (q : list nat) : bool := forallb (fun j => Nat.ltb j n) q.

(* ---------- decidable hypotheses of the theorems ---------- *)
Definition is_ok {A} (r : res A) : bool := match r with Ok _ => true | Err => false end.
Definition all_descs (M : mappings) : list str :=
  flat_map (fun c => map f_desc (c_fields c) ++ map m_desc (c_methods c)) (ms_classes M).
(* every descriptor scans (no `L;`, no missing semicolon): true of every valid descriptor *)
Definition descs_scan (M : mappings) : bool := forallb (fun d => is_ok (tokens d)) (all_descs M).
(* the class names of column i *)
Definition column (M : mappings) (i : nat) : list (option str) :=
  map (fun c => nth_name (c_names c) i) (ms_classes M).
Definition in_column (x : str) (col : list (option str)) : bool := existsb (opt_eqb str_eqb (Some x)) col.
(* no class name that occurs in a descriptor without being a key (first-namespace name) of M
   equals the t0-name of a class of M *)
Definition no_collision (M : mappings) (t0 : nat) : bool :=
  forallb (fun d => forallb (fun x => in_column x (column M 0) || negb (in_column x (column M t0)))
                            (desc_classes d)) (all_descs M).
(* class names contain no semicolon (true of every valid ObjClassName) *)
Definition class_names_clean (M : mappings) : bool :=
  forallb (fun c => forallb (fun o => match o with Some s => negb (mem_N cSEMI s) | None => true end) (c_names c))
          (ms_classes M).
(* some class, field or method entry has no name in column t0 *)
Definition no_name (i : nat) (l : names) : bool := negb (is_some (nth_name l i)).
Definition entry_without_name (M : mappings) (t0 : nat) : bool :=
  existsb (fun c => no_name t0 (c_names c)
                    || existsb (fun f => no_name t0 (f_names f)) (c_fields c)
                    || existsb (fun m => no_name t0 (m_names m)) (c_methods c)) (ms_classes M).
Definition nodup_ns (M : mappings) : bool := nodupb str_eqb (ms_ns M).

(* all permutations of a list, in a fixed order (used by the exhaustive correspondence sweep) *)
Fixpoint insert_all {A} (x : A) (l : list A) : list (list A) :=
  match l with
  | [] => [[x]]
  | y :: l' => (x :: l) :: map (cons y) (insert_all x l')
  end.
Fixpoint perms {A} (l : list A) : list (list A) :=
  match l with
  | [] => [[]]
  | x :: l' => flat_map (insert_all x) (perms l')
  end.
