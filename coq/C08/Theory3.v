(* C08 theory, part 3: the result of a successful reorder is again a well-formed mapping set
   (so reorders can be chained, and the inverse law can be applied to the result). *)
From FB Require Import C08.Model C08.TheoryA C08.TheoryB C08.Theory.
From Coq Require Import Arith Lia Permutation.

Lemma keys_good_bool_rev {A K} (key : A -> option K) (eqb : K -> K -> bool)
  (Heq : forall a b, eqb a b = true <-> a = b) l :
  keys_good key l ->
  forallb (fun x => is_some (key x)) l = true /\ nodupb (okey_eqb eqb) (map key l) = true.
Proof.
  intros [H1 H2]. split.
  - apply forallb_forall. intros x Hx. rewrite Forall_forall in H1. specialize (H1 x Hx).
    destruct (key x); [reflexivity|congruence].
  - apply (nodupb_NoDup (okey_eqb eqb)); [|exact H2]. intros a b. apply opt_eqb_eq. exact Heq.
Qed.

Lemma names_ok_permute n p l :
  length p = n -> names_ok n l = true -> names_ok n (permute None p l) = true.
Proof.
  unfold names_ok. rewrite !andb_true_iff. intros Hl [H1 H2]. split.
  - rewrite permute_length. apply Nat.eqb_eq. exact Hl.
  - apply forallb_forall. intros o Ho. unfold permute in Ho. apply in_map_iff in Ho.
    destruct Ho as (i & <- & _). destruct (lt_dec i (length l)) as [Hlt|Hge].
    + rewrite forallb_forall in H2. apply H2. apply nth_In. exact Hlt.
    + rewrite nth_overflow by lia. reflexivity.
Qed.

Lemma wf_class_reordered n p f c c' :
  length p = n -> wf_class n c = true -> class_rel f p c c' -> class_key c' <> None ->
  wf_class n c' = true.
Proof.
  intros Hl Hwf (Hn & _ & HFf & Hkf & HFm & Hkm) Hkey.
  destruct (wf_class_parts n c Hwf) as (Hcn & Hfn & _ & Hmw & _).
  destruct (keys_good_bool_rev field_key key2_eqb key2_eqb_eq _ Hkf) as [Hf1 Hf2].
  destruct (keys_good_bool_rev meth_key key2_eqb key2_eqb_eq _ Hkm) as [Hm1 Hm2].
  unfold wf_class. rewrite !andb_true_iff. repeat split.
  - rewrite Hn. apply names_ok_permute; assumption.
  - destruct (class_key c'); [reflexivity|congruence].
  - apply forallb_forall. intros x' Hx'. destruct (Forall2_in_r _ _ _ x' HFf Hx') as (x & Hx & (_ & H2 & _)).
    unfold wf_field. rewrite andb_true_iff. split.
    + rewrite H2. apply names_ok_permute; [exact Hl|exact (Hfn x Hx)].
    + rewrite forallb_forall in Hf1. exact (Hf1 x' Hx').
  - exact Hf2.
  - apply forallb_forall. intros x' Hx'.
    destruct (Forall2_in_r _ _ _ x' HFm Hx') as (x & Hx & (_ & H2 & _ & HP & Hnd)).
    destruct (wf_meth_parts n x (Hmw x Hx)) as (Hxn & Hpn & _).
    unfold wf_meth. rewrite !andb_true_iff. repeat split.
    + rewrite H2. apply names_ok_permute; assumption.
    + rewrite forallb_forall in Hm1. exact (Hm1 x' Hx').
    + apply forallb_forall. intros q' Hq'. destruct (Forall2_in_r _ _ _ q' HP Hq') as (q & Hq & (_ & Q2 & _)).
      unfold wf_param. rewrite Q2. apply names_ok_permute; [exact Hl|exact (Hpn q Hq)].
    + apply (nodupb_NoDup N.eqb N.eqb_eq). exact Hnd.
  - exact Hm2.
Qed.

Theorem reorder_wf M p M' :
  wf M = true -> is_permb (length (ms_ns M)) p = true -> reorder M p = Ok M' -> wf M' = true.
Proof.
  intros Hwf Hp H. apply reorder_spec in H. destruct H as (_ & Hns & _ & HF & Hk).
  destruct (wf_parts M Hwf) as (Hn & Hcls & _).
  assert (Hperm := proj1 (is_permb_Permutation _ _) Hp).
  apply is_permb_spec in Hp. destruct Hp as [Hl _].
  assert (Hlen : length (ms_ns M') = length (ms_ns M)) by (rewrite Hns, permute_length; exact Hl).
  destruct (keys_good_bool_rev class_key str_eqb str_eqb_eq _ Hk) as [Hk1 Hk2].
  unfold wf. cbv zeta. rewrite Hlen, !andb_true_iff. repeat split.
  - apply Nat.leb_le. exact Hn.
  - rewrite Hns. apply forallb_forall. intros s Hs. unfold permute in Hs. apply in_map_iff in Hs.
    destruct Hs as (i & <- & Hi). apply (Permutation_in _ Hperm) in Hi. apply in_seq in Hi.
    unfold wf in Hwf. cbv zeta in Hwf. rewrite !andb_true_iff in Hwf. destruct Hwf as [[[_ H2] _] _].
    rewrite forallb_forall in H2. apply H2. apply nth_In. destruct Hi as [_ Hi]. exact Hi.
  - apply forallb_forall. intros c' Hc'. destruct (Forall2_in_r _ _ _ c' HF Hc') as (c & Hc & Hrel).
    apply (wf_class_reordered _ p _ c c' Hl (Hcls c Hc) Hrel).
    destruct Hk as [Hk _]. rewrite Forall_forall in Hk. exact (Hk c' Hc').
  - exact Hk2.
Qed.
