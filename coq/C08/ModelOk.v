(* C08 — decidable description of WHEN `Mappings::reorder` succeeds (definitions only; the proofs
   are in Theory5.v: is_ok (reorder M (t0 :: tr)) = reorder_okb M t0, and reorder fails exactly
   for one of four causes).  Kept apart from Model.v because it is specification vocabulary, not
   a transcription of code. *)
From FB Require Export C08.Model.

(* the key a field / method gets in the result: its name in the new first namespace [t0] together
   with the rewritten descriptor; None when it has no name there or the descriptor does not scan *)
Definition new_key2 (f : str -> str) (t0 : nat) (nm : names) (d : str) : option (str * str) :=
  match map_desc f d with
  | Ok d' => match nth_name nm t0 with Some n => Some (n, d') | None => None end
  | Err => None
  end.

(* two positions of a list of keys hold the same PRESENT key *)
Fixpoint dup_some {K} (eqb : K -> K -> bool) (l : list (option K)) : bool :=
  match l with
  | [] => false
  | Some k :: r => existsb (opt_eqb eqb (Some k)) r || dup_some eqb r
  | None :: r => dup_some eqb r
  end.

Definition new_class_keys (M : mappings) (t0 : nat) : list (option str) :=
  map (fun c => nth_name (c_names c) t0) (ms_classes M).
Definition new_field_keys (f : str -> str) (t0 : nat) (c : class) : list (option (str * str)) :=
  map (fun x => new_key2 f t0 (f_names x) (f_desc x)) (c_fields c).
Definition new_meth_keys (f : str -> str) (t0 : nat) (c : class) : list (option (str * str)) :=
  map (fun x => new_key2 f t0 (m_names x) (m_desc x)) (c_methods c).

(* COLLISION: two classes with the same name in the new first namespace, or two fields (two
   methods) of one class with the same name there and the same rewritten descriptor *)
Definition key_collision (M : mappings) (t0 : nat) : bool :=
  let f := map_class (remapper_a M 0 t0) in
  dup_some str_eqb (new_class_keys M t0)
  || existsb (fun c => dup_some key2_eqb (new_field_keys f t0 c) || dup_some key2_eqb (new_meth_keys f t0 c))
             (ms_classes M).

(* a method with two parameters of the same index (excluded by wf; IndexMap keys are unique) *)
Definition params_nodup (m : meth) : bool := nodupb N.eqb (map p_index (m_params m)).
Definition dup_param_index (M : mappings) : bool :=
  existsb (fun c => existsb (fun m => negb (params_nodup m)) (c_methods c)) (ms_classes M).

(* the success condition, level by level: all new keys present and pairwise distinct *)
Definition keys_okb {K} (eqb : K -> K -> bool) (l : list (option K)) : bool :=
  forallb is_some l && negb (dup_some eqb l).
Definition class_okb (f : str -> str) (t0 : nat) (c : class) : bool :=
  keys_okb key2_eqb (new_field_keys f t0 c) && keys_okb key2_eqb (new_meth_keys f t0 c)
  && forallb params_nodup (c_methods c).
Definition reorder_okb (M : mappings) (t0 : nat) : bool :=
  keys_okb str_eqb (new_class_keys M t0)
  && forallb (class_okb (map_class (remapper_a M 0 t0)) t0) (ms_classes M).
