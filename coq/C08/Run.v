(* C08 correspondence cases: what the implementation answered, to be compared with the model *)
From FB Require Export C08.Model C08.ModelOk Base.Run.

Inductive case :=
| CReorder (M : mappings) (names : list str) (r : res mappings)
    (* Mappings::reorder(names), result read back in IndexMap order *)
| CPerms (M : mappings) (rs : list (res mappings))
    (* Mappings::reorder for every permutation of the namespace names of M, enumerated by the
       model itself ([perms (ms_ns M)]); rs are the implementation's answers in that order *)
| CMapDesc (M : mappings) (from to : N) (d : str) (r : res str)
    (* M.remapper_a(from, to).map_field_desc(d) *)
| CHyp (M : mappings) (t0 : N) (wfb nocoll clean noname coll : bool).
    (* the harness' own evaluation of the theorems' decidable hypotheses / failure causes on an input it
       judged with them: wf M, no_collision M t0, class_names_clean M, entry_without_name M t0,
       key_collision M t0 (t0 = old index of the new first namespace) *)

Definition check (c : case) : bool :=
  match c with
  | CReorder M names r => res_eqb mappings_eqb (reorder_by_names M names) r
  | CPerms M rs => list_eqb (res_eqb mappings_eqb) (map (reorder_by_names M) (perms (ms_ns M))) rs
  | CMapDesc M from to d r =>
      res_eqb str_eqb (map_desc (map_class (remapper_a M (N.to_nat from) (N.to_nat to))) d) r
  | CHyp M t0 wfb nocoll clean noname coll =>
      let i := N.to_nat t0 in
      Bool.eqb (wf M) wfb && Bool.eqb (no_collision M i) nocoll && Bool.eqb (class_names_clean M) clean
      && Bool.eqb (entry_without_name M i) noname && Bool.eqb (key_collision M i) coll
  end.
