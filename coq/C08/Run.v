(* C08 correspondence cases: what the implementation answered, to be compared with the model *)
From FB Require Export C08.Model Base.Run.

Inductive case :=
| CReorder (M : mappings) (names : list str) (r : res mappings)
    (* Mappings::reorder(names), result read back in IndexMap order *)
| CPerms (M : mappings) (rs : list (res mappings))
    (* Mappings::reorder for every permutation of the namespace names of M, enumerated by the
       model itself ([perms (ms_ns M)]); rs are the implementation's answers in that order *)
| CMapDesc (M : mappings) (from to : N) (d : str) (r : res str).
    (* M.remapper_a(from, to).map_field_desc(d) *)

Definition check (c : case) : bool :=
  match c with
  | CReorder M names r => res_eqb mappings_eqb (reorder_by_names M names) r
  | CPerms M rs => list_eqb (res_eqb mappings_eqb) (map (reorder_by_names M) (perms (ms_ns M))) rs
  | CMapDesc M from to d r =>
      res_eqb str_eqb (map_desc (map_class (remapper_a M (N.to_nat from) (N.to_nat to))) d) r
  end.
