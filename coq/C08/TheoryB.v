(* C08 theory, part B: the descriptor scanner `map_desc` and the class table of `remapper_a`. *)
From FB Require Import C08.Model C08.TheoryA.
From Coq Require Import Arith Lia.

(* ---------- the grammar the scanner accepts ---------- *)
(* a plain character other than `L`, or `L name ;` with a non-empty name without semicolon *)
Definition tok_wf (t : tok) : Prop :=
  match t with TCh c => c <> cL | TCls n => n <> [] /\ ~ In cSEMI n end.
Definition toks_wf (l : list tok) : Prop := Forall tok_wf l.

Lemma bind_ok {A B} (r : res A) (f : A -> res B) b : bind r f = Ok b <-> exists a, r = Ok a /\ f a = Ok b.
Proof.
  destruct r as [a|]; cbn [bind].
  - split; [intros H; exists a; auto|intros (a' & [= <-] & H); exact H].
  - split; [discriminate|intros (a' & E & _); discriminate].
Qed.

(* map_desc is the token scanner followed by renaming and printing *)
Lemma map_desc_go_tokens f d : forall st,
  match st with
  | SCopy => map_desc_go f st d = do t <- tokens_go st d; Ok (print_toks (map (map_tok f) t))
  | _ => (do r <- map_desc_go f st d; Ok (cL :: r)) = do t <- tokens_go st d; Ok (print_toks (map (map_tok f) t))
  end.
Proof.
  induction d as [|c d IH]; intros st.
  - destruct st; reflexivity.
  - destruct st as [| |acc]; cbn [map_desc_go tokens_go].
    + destruct (N.eqb_spec c cL) as [->|Hc].
      * exact (IH SFirst).
      * rewrite (IH SCopy). destruct (tokens_go SCopy d); reflexivity.
    + destruct (N.eqb c cSEMI); [reflexivity|]. exact (IH (SName [c])).
    + destruct (N.eqb c cSEMI).
      * rewrite (IH SCopy). destruct (tokens_go SCopy d) as [t|]; cbn [bind]; [|reflexivity].
        cbn [map map_tok print_toks flat_map print_tok app]. rewrite <- app_assoc. reflexivity.
      * exact (IH (SName (acc ++ [c]))).
Qed.

Lemma map_desc_tokens f d :
  map_desc f d = do t <- tokens d; Ok (print_toks (map (map_tok f) t)).
Proof. exact (map_desc_go_tokens f d SCopy). Qed.

(* soundness of the scanner: what it returns prints back to the input and is well-formed *)
Lemma tokens_go_sound d : forall st t, tokens_go st d = Ok t ->
  match st with
  | SCopy => print_toks t = d /\ toks_wf t
  | SFirst => exists nm t', t = TCls nm :: t' /\ d = nm ++ cSEMI :: print_toks t' /\ nm <> [] /\ ~ In cSEMI nm /\ toks_wf t'
  | SName acc => exists nm t', t = TCls (acc ++ nm) :: t' /\ d = nm ++ cSEMI :: print_toks t' /\ ~ In cSEMI nm /\ toks_wf t'
  end.
Proof.
  induction d as [|c d IH]; intros st t H.
  - destruct st; cbn [tokens_go] in H; try discriminate. injection H as <-. split; [reflexivity|constructor].
  - destruct st as [| |acc]; cbn [tokens_go] in H.
    + destruct (N.eqb_spec c cL) as [->|Hc].
      * destruct (IH SFirst t H) as (nm & t' & -> & -> & Hne & Hns & Hwf). split.
        -- cbn [print_toks flat_map print_tok app]. rewrite <- app_assoc. reflexivity.
        -- constructor; [split; assumption|exact Hwf].
      * apply bind_ok in H. destruct H as (t' & Ht & [= <-]).
        destruct (IH SCopy t' Ht) as [Hp Hwf]. split.
        -- cbn [print_toks flat_map print_tok app]. f_equal. exact Hp.
        -- constructor; [exact Hc|exact Hwf].
    + destruct (N.eqb_spec c cSEMI) as [->|Hc]; [discriminate|].
      destruct (IH (SName [c]) t H) as (nm & t' & -> & -> & Hns & Hwf).
      exists (c :: nm), t'. repeat split; auto; [discriminate|].
      intros [E|E]; [congruence|contradiction].
    + destruct (N.eqb_spec c cSEMI) as [->|Hc].
      * apply bind_ok in H. destruct H as (t' & Ht & [= <-]).
        destruct (IH SCopy t' Ht) as [Hp Hwf]. exists [], t'. rewrite app_nil_r.
        repeat split; auto. cbn [app]. f_equal. symmetry. exact Hp.
      * destruct (IH (SName (acc ++ [c])) t H) as (nm & t' & -> & -> & Hns & Hwf).
        exists (c :: nm), t'. rewrite <- app_assoc. repeat split; auto.
        intros [E|E]; [congruence|contradiction].
Qed.

Lemma tokens_sound d t : tokens d = Ok t -> print_toks t = d /\ toks_wf t.
Proof. exact (tokens_go_sound d SCopy t). Qed.

(* completeness: every well-formed token list is recovered from its printed form *)
Lemma tokens_go_name nm : forall acc rest, ~ In cSEMI nm ->
  tokens_go (SName acc) (nm ++ cSEMI :: rest) = do r <- tokens_go SCopy rest; Ok (TCls (acc ++ nm) :: r).
Proof.
  induction nm as [|c nm IH]; intros acc rest Hns; cbn [app tokens_go].
  - rewrite N.eqb_refl, app_nil_r. reflexivity.
  - destruct (N.eqb_spec c cSEMI) as [->|Hc]; [exfalso; apply Hns; left; reflexivity|].
    rewrite IH by (intros Hin; apply Hns; right; exact Hin). rewrite <- app_assoc. reflexivity.
Qed.

Lemma tokens_complete t : toks_wf t -> tokens (print_toks t) = Ok t.
Proof.
  unfold tokens. induction t as [|x t IH]; intros Hwf; [reflexivity|].
  inversion Hwf as [|? ? Hx Ht]; subst. specialize (IH Ht).
  destruct x as [c|nm]; cbn [print_toks flat_map print_tok app tok_wf] in *.
  - cbn [tokens_go]. destruct (N.eqb_spec c cL) as [E|_]; [contradiction|].
    fold (print_toks t). rewrite IH. reflexivity.
  - destruct Hx as [Hne Hns]. cbn [tokens_go]. rewrite N.eqb_refl.
    destruct nm as [|c nm]; [congruence|]. cbn [app tokens_go].
    destruct (N.eqb_spec c cSEMI) as [->|Hc]; [exfalso; apply Hns; left; reflexivity|].
    rewrite <- app_assoc. cbn [app]. fold (print_toks t).
    rewrite tokens_go_name by (intros Hin; apply Hns; right; exact Hin).
    rewrite IH. reflexivity.
Qed.

(* declarative description of map_desc: the descriptor is a sequence of plain characters and
   `L name ;` groups; exactly the names are replaced, everything else is copied *)
Theorem map_desc_spec f d d' :
  map_desc f d = Ok d' <->
  exists t, toks_wf t /\ d = print_toks t /\ d' = print_toks (map (map_tok f) t).
Proof.
  rewrite map_desc_tokens. split.
  - intros H. apply bind_ok in H. destruct H as (t & Ht & [= <-]).
    destruct (tokens_sound d t Ht) as [Hp Hwf]. exists t. auto.
  - intros (t & Hwf & -> & ->). rewrite (tokens_complete t Hwf). reflexivity.
Qed.

Lemma map_desc_ok_iff f d : is_ok (map_desc f d) = is_ok (tokens d).
Proof. rewrite map_desc_tokens. destruct (tokens d); reflexivity. Qed.

Lemma desc_classes_wf d x : In x (desc_classes d) -> x <> [] /\ ~ In cSEMI x.
Proof.
  unfold desc_classes. destruct (tokens d) as [t|] eqn:Ht; [|intros []].
  destruct (tokens_sound d t Ht) as [_ Hwf]. unfold tok_classes. rewrite in_flat_map.
  intros (tk & Hin & Hx). unfold toks_wf in Hwf. rewrite Forall_forall in Hwf. specialize (Hwf tk Hin).
  destruct tk as [c|n]; [destruct Hx|]. destruct Hx as [<-|[]]. exact Hwf.
Qed.

Lemma map_tok_ext f g t :
  (forall x, In x (tok_classes t) -> f x = g x) -> map (map_tok f) t = map (map_tok g) t.
Proof.
  intros H. apply map_ext_in. intros tk Hin. destruct tk as [c|n]; [reflexivity|].
  cbn [map_tok]. f_equal. apply H. unfold tok_classes. apply in_flat_map. exists (TCls n).
  split; [exact Hin|left; reflexivity].
Qed.

Lemma map_tok_id t : map (map_tok (fun x => x)) t = t.
Proof. induction t as [|[c|n] t IH]; cbn [map map_tok]; congruence. Qed.

(* a renaming that fixes every mentioned class leaves the descriptor alone *)
Lemma map_desc_fixed f d :
  is_ok (tokens d) = true -> (forall x, In x (desc_classes d) -> f x = x) -> map_desc f d = Ok d.
Proof.
  intros Hok Hf. rewrite map_desc_tokens. unfold desc_classes in Hf.
  destruct (tokens d) as [t|] eqn:Ht; [|discriminate]. cbn [bind].
  rewrite (map_tok_ext f (fun x => x) t Hf), map_tok_id.
  destruct (tokens_sound d t Ht) as [-> _]. reflexivity.
Qed.

(* renaming back: if g undoes f on the mentioned classes (and f produces usable names),
   mapping with g after f gives the original descriptor *)
Lemma map_desc_roundtrip f g d d' :
  map_desc f d = Ok d' ->
  (forall x, In x (desc_classes d) -> f x <> [] /\ ~ In cSEMI (f x) /\ g (f x) = x) ->
  map_desc g d' = Ok d.
Proof.
  intros H Hfg. rewrite map_desc_tokens in H. apply bind_ok in H. destruct H as (t & Ht & [= <-]).
  unfold desc_classes in Hfg. rewrite Ht in Hfg.
  destruct (tokens_sound d t Ht) as [Hp Hwf].
  assert (Hwf' : toks_wf (map (map_tok f) t)).
  { unfold toks_wf in *. rewrite Forall_forall in *. intros tk Hin. apply in_map_iff in Hin.
    destruct Hin as (tk0 & <- & Hin0). specialize (Hwf tk0 Hin0).
    destruct tk0 as [c|n]; cbn [map_tok tok_wf] in *; [exact Hwf|].
    assert (Hn : In n (tok_classes t)).
    { unfold tok_classes. apply in_flat_map. exists (TCls n). split; [exact Hin0|left; reflexivity]. }
    destruct (Hfg n Hn) as (H1 & H2 & _). split; assumption. }
  rewrite map_desc_tokens, (tokens_complete _ Hwf'). cbn [bind]. rewrite map_map.
  assert (E : map (fun x => map_tok g (map_tok f x)) t = t).
  { rewrite <- (map_id t) at 2. apply map_ext_in. intros tk Hin. destruct tk as [c|n]; [reflexivity|].
    cbn [map_tok]. f_equal. apply Hfg. unfold tok_classes. apply in_flat_map. exists (TCls n).
    split; [exact Hin|left; reflexivity]. }
  rewrite E, Hp. reflexivity.
Qed.

(* ---------- the class table ---------- *)
Lemma tbl_get_insert k v t x :
  tbl_get x (tbl_insert k v t) = if str_eqb x k then Some v else tbl_get x t.
Proof.
  induction t as [|[k' v'] t IH]; cbn [tbl_insert tbl_get].
  - reflexivity.
  - destruct (str_eqb_spec k k') as [->|Hk]; cbn [tbl_get].
    + destruct (str_eqb x k'); reflexivity.
    + rewrite IH. destruct (str_eqb_spec x k') as [->|Hx]; [|reflexivity].
      destruct (str_eqb_spec k' k) as [E|_]; [congruence|reflexivity].
Qed.

(* `insert` replaces: the last class with from-name x and a to-name decides *)
Fixpoint lookup_last (from to : nat) (x : str) (cls : list class) (dflt : option str) : option str :=
  match cls with
  | [] => dflt
  | c :: r =>
      lookup_last from to x r
        (match nth_name (c_names c) from, nth_name (c_names c) to with
         | Some a, Some b => if str_eqb x a then Some b else dflt
         | _, _ => dflt
         end)
  end.

Lemma tbl_get_fold from to x cls : forall t,
  tbl_get x (fold_left (remapper_step from to) cls t) = lookup_last from to x cls (tbl_get x t).
Proof.
  induction cls as [|c cls IH]; intros t; cbn [fold_left lookup_last]; [reflexivity|].
  rewrite IH. f_equal. unfold remapper_step.
  destruct (nth_name (c_names c) from) as [a|]; [|reflexivity].
  destruct (nth_name (c_names c) to) as [b|]; [|reflexivity].
  apply tbl_get_insert.
Qed.

Lemma lookup_last_cases from to x cls : forall dflt,
  lookup_last from to x cls dflt = dflt \/
  exists c b, In c cls /\ nth_name (c_names c) from = Some x /\ nth_name (c_names c) to = Some b
              /\ lookup_last from to x cls dflt = Some b.
Proof.
  induction cls as [|c cls IH]; intros dflt; cbn [lookup_last]; [left; reflexivity|].
  match goal with |- context [lookup_last from to x cls ?d] => destruct (IH d) as [E|(c' & b & Hin & H1 & H2 & E)] end.
  - rewrite E. destruct (nth_name (c_names c) from) as [a|] eqn:Ea; [|left; reflexivity].
    destruct (nth_name (c_names c) to) as [b|] eqn:Eb; [|left; reflexivity].
    destruct (str_eqb_spec x a) as [->|Hx]; [|left; reflexivity].
    right. exists c, b. repeat split; auto. left. reflexivity.
  - right. exists c', b. repeat split; auto. right. exact Hin.
Qed.

Lemma lookup_last_found from to x cls c b : forall dflt,
  In c cls -> nth_name (c_names c) from = Some x -> nth_name (c_names c) to = Some b ->
  exists c' b', In c' cls /\ nth_name (c_names c') from = Some x /\ nth_name (c_names c') to = Some b'
                /\ lookup_last from to x cls dflt = Some b'.
Proof.
  induction cls as [|c0 cls IH]; intros dflt Hin Ha Hb; [destruct Hin|].
  cbn [lookup_last]. destruct Hin as [->|Hin].
  - rewrite Ha, Hb, str_eqb_refl.
    destruct (lookup_last_cases from to x cls (Some b)) as [E|(c' & b' & Hin' & H1 & H2 & E)].
    + exists c, b. rewrite E. repeat split; auto. left. reflexivity.
    + exists c', b'. repeat split; auto. right. exact Hin'.
  - destruct (IH (match nth_name (c_names c0) from, nth_name (c_names c0) to with
                  | Some a, Some b0 => if str_eqb x a then Some b0 else dflt | _, _ => dflt end) Hin Ha Hb)
      as (c' & b' & Hin' & H1 & H2 & E).
    exists c', b'. repeat split; auto. right. exact Hin'.
Qed.

Definition col_name (i : nat) (c : class) : option str := nth_name (c_names c) i.

(* what `map_class` over `remapper_a M from to` computes *)
Lemma map_class_mapped M from to c x b :
  NoDup (map (col_name from) (ms_classes M)) ->
  In c (ms_classes M) -> col_name from c = Some x -> col_name to c = Some b ->
  map_class (remapper_a M from to) x = b.
Proof.
  intros Hnd Hin Ha Hb. unfold map_class, remapper_a. rewrite tbl_get_fold. cbn [tbl_get].
  destruct (lookup_last_found from to x (ms_classes M) c b None Hin Ha Hb) as (c' & b' & Hin' & H1 & H2 & E).
  rewrite E. assert (Ec : c' = c).
  { apply (NoDup_map_inj (col_name from) (ms_classes M)); auto. unfold col_name in *. congruence. }
  subst c'. unfold col_name in Hb. congruence.
Qed.

Lemma map_class_unmapped M from to x :
  (forall c, In c (ms_classes M) -> col_name from c <> Some x) ->
  map_class (remapper_a M from to) x = x.
Proof.
  intros Hno. unfold map_class, remapper_a. rewrite tbl_get_fold. cbn [tbl_get].
  destruct (lookup_last_cases from to x (ms_classes M) None) as [E|(c & b & Hin & H1 & _ & _)].
  - rewrite E. reflexivity.
  - exfalso. exact (Hno c Hin H1).
Qed.

Lemma map_class_same M i x : map_class (remapper_a M i i) x = x.
Proof.
  unfold map_class, remapper_a. rewrite tbl_get_fold. cbn [tbl_get].
  destruct (lookup_last_cases i i x (ms_classes M) None) as [E|(c & b & Hin & H1 & H2 & E)]; rewrite E.
  - reflexivity.
  - congruence.
Qed.

(* the same as a specification: the to-name of the class whose from-name is x, else x itself *)
Theorem map_class_spec M from to x y :
  NoDup (map (col_name from) (ms_classes M)) ->
  (map_class (remapper_a M from to) x = y <->
   (exists c, In c (ms_classes M) /\ col_name from c = Some x /\ col_name to c = Some y)
   \/ ((forall c, In c (ms_classes M) -> col_name from c = Some x -> col_name to c = None) /\ y = x)).
Proof.
  intros Hnd. split.
  - intros <-. unfold map_class, remapper_a. rewrite tbl_get_fold. cbn [tbl_get].
    destruct (lookup_last_cases from to x (ms_classes M) None) as [E|(c & b & Hin & H1 & H2 & E)]; rewrite E.
    + right. split; [|reflexivity]. intros c Hin Ha.
      destruct (col_name to c) as [b|] eqn:Eb; [|reflexivity]. exfalso.
      destruct (lookup_last_found from to x (ms_classes M) c b None Hin Ha Eb) as (c' & b' & _ & _ & _ & E').
      congruence.
    + left. exists c. auto.
  - intros [(c & Hin & Ha & Hb)|[Hno ->]].
    + apply (map_class_mapped M from to c x y); assumption.
    + unfold map_class, remapper_a. rewrite tbl_get_fold. cbn [tbl_get].
      destruct (lookup_last_cases from to x (ms_classes M) None) as [E|(c & b & Hin & H1 & H2 & E)]; rewrite E.
      * reflexivity.
      * specialize (Hno c Hin H1). unfold col_name in Hno. congruence.
Qed.
