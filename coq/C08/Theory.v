(* C08 theory: the declarative description of `reorder`, the identity, inverse and failure laws. *)
From FB Require Import C08.Model C08.TheoryA C08.TheoryB.
From Coq Require Import Arith Lia Permutation.

(* ---------- what "reordered" means, level by level ---------- *)
(* parameters: index and comment untouched, names row permuted (a name may be absent) *)
Definition param_rel (t : list nat) (x x' : param) : Prop :=
  p_index x' = p_index x /\ p_names x' = permute None t (p_names x) /\ p_doc x' = p_doc x.
(* fields: descriptor re-expressed by the class renaming f, row permuted, comment untouched *)
Definition field_rel (f : str -> str) (t : list nat) (x x' : field) : Prop :=
  map_desc f (f_desc x) = Ok (f_desc x') /\ f_names x' = permute None t (f_names x) /\ f_doc x' = f_doc x.
Definition meth_rel (f : str -> str) (t : list nat) (x x' : meth) : Prop :=
  map_desc f (m_desc x) = Ok (m_desc x') /\ m_names x' = permute None t (m_names x) /\ m_doc x' = m_doc x
  /\ Forall2 (param_rel t) (m_params x) (m_params x') /\ NoDup (map p_index (m_params x')).
(* classes: same members in the same order, each reordered; the new keys (name in the new
   first namespace [+ descriptor]) all exist and are pairwise distinct *)
Definition class_rel (f : str -> str) (t : list nat) (c c' : class) : Prop :=
  c_names c' = permute None t (c_names c) /\ c_doc c' = c_doc c
  /\ Forall2 (field_rel f t) (c_fields c) (c_fields c') /\ keys_good field_key (c_fields c')
  /\ Forall2 (meth_rel f t) (c_methods c) (c_methods c') /\ keys_good meth_key (c_methods c').
Definition reordered (M : mappings) (t : list nat) (M' : mappings) : Prop :=
  t <> [] /\ ms_ns M' = permute [] t (ms_ns M) /\ ms_doc M' = ms_doc M
  /\ Forall2 (class_rel (map_class (remapper_a M 0 (hd O t))) t) (ms_classes M) (ms_classes M')
  /\ keys_good class_key (ms_classes M').

(* ---------- the code computes exactly that ---------- *)
Lemma reorder_param_spec t x x' : reorder_param t x = Ok x' <-> param_rel t x x'.
Proof.
  unfold reorder_param, param_rel. split.
  - intros [= <-]. cbn [p_index p_names p_doc]. auto.
  - destruct x' as [i n d]. cbn [p_index p_names p_doc]. intros (-> & -> & ->). reflexivity.
Qed.

Lemma reorder_field_spec T t x x' : reorder_field T t x = Ok x' <-> field_rel (map_class T) t x x'.
Proof.
  unfold reorder_field, field_rel. destruct (map_desc (map_class T) (f_desc x)) as [d|]; cbn [bind].
  - split.
    + intros [= <-]. cbn [f_desc f_names f_doc]. auto.
    + destruct x' as [d' n' c']. cbn [f_desc f_names f_doc]. intros (E & -> & ->).
      injection E as ->. reflexivity.
  - split; [discriminate|intros (E & _); discriminate].
Qed.

Lemma params_iter t ps ps' :
  from_result_iter (fun x => Some (param_key x)) N.eqb (map (reorder_param t) ps) = Ok ps'
  <-> Forall2 (param_rel t) ps ps' /\ NoDup (map p_index ps').
Proof.
  rewrite (from_result_iter_spec (fun x => Some (param_key x)) N.eqb N.eqb_eq).
  rewrite (map_res_rel (reorder_param t) (param_rel t) ps ps') by (intros a b _; apply reorder_param_spec).
  unfold keys_good. rewrite (NoDup_map_Some param_key ps'). split.
  - intros (H1 & _ & H3). split; assumption.
  - intros (H1 & H3). split; [exact H1|]. split; [|exact H3].
    apply Forall_forall. intros; discriminate.
Qed.

Lemma reorder_meth_spec T t x x' : reorder_meth T t x = Ok x' <-> meth_rel (map_class T) t x x'.
Proof.
  unfold reorder_meth, meth_rel. destruct (map_desc (map_class T) (m_desc x)) as [d|]; cbn [bind].
  - split.
    + intros H. apply bind_ok in H. destruct H as (ps & Hps & E). injection E as <-.
      cbn [m_desc m_names m_doc m_params]. apply params_iter in Hps. destruct Hps as [H1 H2]. auto.
    + destruct x' as [d' n' c' ps']. cbn [m_desc m_names m_doc m_params]. intros (E & -> & -> & H1 & H2).
      injection E as ->. rewrite (proj2 (params_iter t (m_params x) ps') (conj H1 H2)). reflexivity.
  - split; [discriminate|intros (E & _); discriminate].
Qed.

Lemma reorder_class_spec T t c c' : reorder_class T t c = Ok c' <-> class_rel (map_class T) t c c'.
Proof.
  unfold reorder_class, class_rel.
  assert (Hf : forall fs, from_result_iter field_key key2_eqb (map (reorder_field T t) (c_fields c)) = Ok fs
                          <-> Forall2 (field_rel (map_class T) t) (c_fields c) fs /\ keys_good field_key fs).
  { intros fs. rewrite (from_result_iter_spec field_key key2_eqb key2_eqb_eq).
    rewrite (map_res_rel (reorder_field T t) (field_rel (map_class T) t)) by (intros a b _; apply reorder_field_spec).
    reflexivity. }
  assert (Hm : forall ms, from_result_iter meth_key key2_eqb (map (reorder_meth T t) (c_methods c)) = Ok ms
                          <-> Forall2 (meth_rel (map_class T) t) (c_methods c) ms /\ keys_good meth_key ms).
  { intros ms. rewrite (from_result_iter_spec meth_key key2_eqb key2_eqb_eq).
    rewrite (map_res_rel (reorder_meth T t) (meth_rel (map_class T) t)) by (intros a b _; apply reorder_meth_spec).
    reflexivity. }
  split.
  - intros H. apply bind_ok in H. destruct H as (fs & Hfs & H). apply bind_ok in H.
    destruct H as (ms & Hms & E). injection E as <-. cbn [c_names c_doc c_fields c_methods].
    apply Hf in Hfs. apply Hm in Hms. destruct Hfs as [F1 F2]. destruct Hms as [M1 M2].
    exact (conj eq_refl (conj eq_refl (conj F1 (conj F2 (conj M1 M2))))).
  - destruct c' as [n' d' fs ms]. cbn [c_names c_doc c_fields c_methods].
    intros (-> & -> & F1 & F2 & M1 & M2).
    rewrite (proj2 (Hf fs) (conj F1 F2)). cbn [bind].
    rewrite (proj2 (Hm ms) (conj M1 M2)). reflexivity.
Qed.

(* Th 1: declarative description of the result *)
Theorem reorder_spec M t M' : reorder M t = Ok M' <-> reordered M t M'.
Proof.
  unfold reorder, reordered. destruct t as [|t0 tr].
  - split; [discriminate|intros [H _]; congruence].
  - cbv zeta. cbn [hd].
    assert (Hc : forall cs,
      from_result_iter class_key str_eqb (map (reorder_class (remapper_a M 0 t0) (t0 :: tr)) (ms_classes M)) = Ok cs
      <-> Forall2 (class_rel (map_class (remapper_a M 0 t0)) (t0 :: tr)) (ms_classes M) cs /\ keys_good class_key cs).
    { intros cs. rewrite (from_result_iter_spec class_key str_eqb str_eqb_eq).
      rewrite (map_res_rel (reorder_class (remapper_a M 0 t0) (t0 :: tr)) (class_rel (map_class (remapper_a M 0 t0)) (t0 :: tr)))
        by (intros a b _; apply reorder_class_spec).
      reflexivity. }
    split.
    + intros H. apply bind_ok in H. destruct H as (cs & Hcs & E). injection E as <-.
      cbn [ms_ns ms_doc ms_classes]. apply Hc in Hcs. destruct Hcs as [H1 H2].
      split; [discriminate|]. auto.
    + destruct M' as [ns' doc' cs]. cbn [ms_ns ms_doc ms_classes]. intros (_ & -> & -> & H1 & H2).
      rewrite (proj2 (Hc cs) (conj H1 H2)). reflexivity.
Qed.

Lemma Forall2_impl {A B} (R R' : A -> B -> Prop) l l' :
  (forall x y, R x y -> R' x y) -> Forall2 R l l' -> Forall2 R' l l'.
Proof. intros H HF. induction HF; constructor; auto. Qed.

Lemma Forall2_length {A B} (R : A -> B -> Prop) l l' : Forall2 R l l' -> length l = length l'.
Proof. intros HF. induction HF; cbn [length]; congruence. Qed.

(* the key of a reordered entry is its name in the new first namespace *)
Lemma first_name_nth l : first_name l = nth_name l 0.
Proof. destruct l as [|[x|] l]; reflexivity. Qed.

Lemma first_name_permute t0 tr l : first_name (permute None (t0 :: tr) l) = nth_name l t0.
Proof. unfold permute, nth_name. cbn [map first_name]. destruct (nth t0 l None); reflexivity. Qed.

Theorem reordered_keys f t0 tr c c' :
  class_rel f (t0 :: tr) c c' ->
  class_key c' = nth_name (c_names c) t0
  /\ Forall2 (fun x x' => exists d', map_desc f (f_desc x) = Ok d' /\
                          field_key x' = match nth_name (f_names x) t0 with Some n => Some (n, d') | None => None end)
             (c_fields c) (c_fields c')
  /\ Forall2 (fun x x' => exists d', map_desc f (m_desc x) = Ok d' /\
                          meth_key x' = match nth_name (m_names x) t0 with Some n => Some (n, d') | None => None end)
             (c_methods c) (c_methods c').
Proof.
  intros (Hn & _ & HF & _ & HM & _). split; [|split].
  - unfold class_key. rewrite Hn. apply first_name_permute.
  - eapply Forall2_impl; [|exact HF]. intros x x' (H1 & H2 & _). exists (f_desc x'). split; [exact H1|].
    unfold field_key. rewrite H2, first_name_permute. reflexivity.
  - eapply Forall2_impl; [|exact HM]. intros x x' (H1 & H2 & _). exists (m_desc x'). split; [exact H1|].
    unfold meth_key. rewrite H2, first_name_permute. reflexivity.
Qed.

(* ---------- reading [wf] ---------- *)
Lemma names_ok_length n l : names_ok n l = true -> length l = n.
Proof. unfold names_ok. rewrite andb_true_iff, Nat.eqb_eq. tauto. Qed.

Lemma names_ok_nonempty n l i s : names_ok n l = true -> nth_name l i = Some s -> s <> [].
Proof.
  unfold names_ok, nth_name. rewrite andb_true_iff. intros [_ H] Hi.
  destruct (lt_dec i (length l)) as [Hlt|Hge].
  - rewrite forallb_forall in H. specialize (H (nth i l None) (nth_In l None Hlt)). rewrite Hi in H.
    destruct s; [discriminate|discriminate].
  - rewrite nth_overflow in Hi by lia. discriminate.
Qed.

Lemma wf_parts M : wf M = true ->
  (2 <= length (ms_ns M))%nat
  /\ (forall c, In c (ms_classes M) -> wf_class (length (ms_ns M)) c = true)
  /\ keys_good class_key (ms_classes M).
Proof.
  unfold wf. cbv zeta. rewrite !andb_true_iff. intros [[[H1 H2] H3] H4].
  split; [apply Nat.leb_le; exact H1|]. split; [apply forallb_forall; exact H3|].
  apply (keys_good_bool class_key str_eqb str_eqb_eq); [|exact H4].
  apply forallb_forall. intros c Hc. rewrite forallb_forall in H3. specialize (H3 c Hc).
  unfold wf_class in H3. rewrite !andb_true_iff in H3. tauto.
Qed.

Lemma wf_meth_parts n m : wf_meth n m = true ->
  names_ok n (m_names m) = true
  /\ (forall p, In p (m_params m) -> names_ok n (p_names p) = true)
  /\ NoDup (map p_index (m_params m)).
Proof.
  unfold wf_meth. rewrite !andb_true_iff. intros [[[H1 _] H3] H4]. split; [exact H1|]. split.
  - intros p Hp. rewrite forallb_forall in H3. exact (H3 p Hp).
  - apply (nodupb_NoDup N.eqb N.eqb_eq). exact H4.
Qed.

Lemma wf_class_parts n c : wf_class n c = true ->
  names_ok n (c_names c) = true
  /\ (forall f, In f (c_fields c) -> names_ok n (f_names f) = true)
  /\ keys_good field_key (c_fields c)
  /\ (forall m, In m (c_methods c) -> wf_meth n m = true)
  /\ keys_good meth_key (c_methods c).
Proof.
  unfold wf_class. rewrite !andb_true_iff. intros [[[[[H1 _] H3] H4] H5] H6].
  split; [exact H1|]. split; [|split; [|split]].
  - intros f Hf. rewrite forallb_forall in H3. specialize (H3 f Hf). unfold wf_field in H3.
    rewrite andb_true_iff in H3. tauto.
  - apply (keys_good_bool field_key key2_eqb key2_eqb_eq); [|exact H4].
    apply forallb_forall. intros f Hf. rewrite forallb_forall in H3. specialize (H3 f Hf).
    unfold wf_field in H3. rewrite andb_true_iff in H3. tauto.
  - intros m Hm. rewrite forallb_forall in H5. exact (H5 m Hm).
  - apply (keys_good_bool meth_key key2_eqb key2_eqb_eq); [|exact H6].
    apply forallb_forall. intros m Hm. rewrite forallb_forall in H5. specialize (H5 m Hm).
    unfold wf_meth in H5. rewrite !andb_true_iff in H5. tauto.
Qed.

Definition class_descs (c : class) : list str := map f_desc (c_fields c) ++ map m_desc (c_methods c).

Lemma in_all_descs M c d : In c (ms_classes M) -> In d (class_descs c) -> In d (all_descs M).
Proof. intros Hc Hd. unfold all_descs. apply in_flat_map. exists c. split; [exact Hc|exact Hd]. Qed.

(* ---------- Th 2: the identity order changes nothing ---------- *)
Lemma class_rel_id M n c :
  wf_class n c = true -> (forall d, In d (class_descs c) -> is_ok (tokens d) = true) ->
  class_rel (map_class (remapper_a M 0 0)) (seq 0 n) c c.
Proof.
  intros Hwf Hds. destruct (wf_class_parts n c Hwf) as (Hn & Hfn & Hfk & Hmw & Hmk).
  assert (Hrow : forall l, names_ok n l = true -> l = permute None (seq 0 n) l).
  { intros l Hl. rewrite <- (names_ok_length n l Hl). symmetry. apply permute_id. }
  assert (Hdesc : forall d, In d (class_descs c) -> map_desc (map_class (remapper_a M 0 0)) d = Ok d).
  { intros d Hd. apply map_desc_fixed; [exact (Hds d Hd)|]. intros x _. apply map_class_same. }
  refine (conj (Hrow _ Hn) (conj eq_refl (conj _ (conj Hfk (conj _ Hmk))))).
  - apply Forall2_refl_in. intros x Hx. split; [|split; [|reflexivity]].
    + apply Hdesc. apply in_or_app. left. apply in_map. exact Hx.
    + apply Hrow. exact (Hfn x Hx).
  - apply Forall2_refl_in. intros x Hx. destruct (wf_meth_parts n x (Hmw x Hx)) as (Hxn & Hpn & Hpk).
    split; [|split; [|split; [reflexivity|split; [|exact Hpk]]]].
    + apply Hdesc. apply in_or_app. right. apply in_map. exact Hx.
    + apply Hrow. exact Hxn.
    + apply Forall2_refl_in. intros p Hp. split; [reflexivity|]. split; [|reflexivity].
      apply Hrow. exact (Hpn p Hp).
Qed.

Theorem reorder_id M :
  wf M = true -> descs_scan M = true -> reorder M (seq 0 (length (ms_ns M))) = Ok M.
Proof.
  intros Hwf Hds. apply reorder_spec. destruct (wf_parts M Hwf) as (Hn & Hcls & Hkeys).
  unfold reordered.
  assert (Hhd : hd O (seq 0 (length (ms_ns M))) = O) by (destruct (length (ms_ns M)); reflexivity).
  rewrite Hhd. split; [destruct (length (ms_ns M)); [lia|discriminate]|].
  split; [symmetry; apply permute_id|]. split; [reflexivity|]. split; [|exact Hkeys].
  apply Forall2_refl_in. intros c Hc. apply class_rel_id; [exact (Hcls c Hc)|].
  intros d Hd. unfold descs_scan in Hds. rewrite forallb_forall in Hds. apply Hds.
  exact (in_all_descs M c d Hc Hd).
Qed.

(* ---------- Th 3: reordering back ---------- *)
Lemma class_rel_inv n p f g c c' :
  is_permb n p = true -> wf_class n c = true ->
  (forall d x, In d (class_descs c) -> In x (desc_classes d) -> f x <> [] /\ ~ In cSEMI (f x) /\ g (f x) = x) ->
  class_rel f p c c' -> class_rel g (inv_perm p) c' c.
Proof.
  intros Hp Hwf Hfg (Hn & Hd & HFf & _ & HFm & _).
  destruct (wf_class_parts n c Hwf) as (Hcn & Hfn & Hfk & Hmw & Hmk).
  assert (Hrow : forall l l', names_ok n l = true -> l' = permute None p l -> l = permute None (inv_perm p) l').
  { intros l l' Hl ->. symmetry. apply (permute_inv None n); [exact Hp|exact (names_ok_length n l Hl)]. }
  refine (conj (Hrow _ _ Hcn Hn) (conj (eq_sym Hd) (conj _ (conj Hfk (conj _ Hmk))))).
  - apply (Forall2_flip_in _ _ _ _ HFf). intros x x' Hx _ (H1 & H2 & H3). split; [|split].
    + apply (map_desc_roundtrip f g _ _ H1). intros y Hy. apply (Hfg (f_desc x)); [|exact Hy].
      apply in_or_app. left. apply in_map. exact Hx.
    + exact (Hrow _ _ (Hfn x Hx) H2).
    + symmetry. exact H3.
  - apply (Forall2_flip_in _ _ _ _ HFm). intros x x' Hx _ (H1 & H2 & H3 & H4 & _).
    destruct (wf_meth_parts n x (Hmw x Hx)) as (Hxn & Hpn & Hpk).
    split; [|split; [|split; [|split]]].
    + apply (map_desc_roundtrip f g _ _ H1). intros y Hy. apply (Hfg (m_desc x)); [|exact Hy].
      apply in_or_app. right. apply in_map. exact Hx.
    + exact (Hrow _ _ Hxn H2).
    + symmetry. exact H3.
    + apply (Forall2_flip_in _ _ _ _ H4). intros q q' Hq _ (Q1 & Q2 & Q3). split; [|split].
      * symmetry. exact Q1.
      * exact (Hrow _ _ (Hpn q Hq) Q2).
      * symmetry. exact Q3.
    + exact Hpk.
Qed.

Lemma in_column_spec x col : in_column x col = true <-> In (Some x) col.
Proof.
  unfold in_column. apply (existsb_eqb_In (opt_eqb str_eqb)).
  intros a b. apply opt_eqb_eq. exact str_eqb_eq.
Qed.

Lemma clean_name M c i s :
  class_names_clean M = true -> In c (ms_classes M) -> nth_name (c_names c) i = Some s -> ~ In cSEMI s.
Proof.
  unfold class_names_clean, nth_name. intros H Hc Hi. rewrite forallb_forall in H. specialize (H c Hc).
  rewrite forallb_forall in H.
  destruct (lt_dec i (length (c_names c))) as [Hlt|Hge].
  - specialize (H (nth i (c_names c) None) (nth_In _ None Hlt)). rewrite Hi in H.
    rewrite negb_true_iff in H. intros Hin. apply mem_N_In in Hin. congruence.
  - rewrite nth_overflow in Hi by lia. discriminate.
Qed.

Lemma keys_cols cls : map class_key cls = map (col_name 0) cls.
Proof. apply map_ext. intros c. unfold class_key, col_name. apply first_name_nth. Qed.

(* the two class renamings undo each other on every class name mentioned by a descriptor of M *)
Lemma class_maps_inverse M p0 pr M' d x :
  wf M = true -> is_permb (length (ms_ns M)) (p0 :: pr) = true ->
  no_collision M p0 = true -> class_names_clean M = true ->
  Forall2 (class_rel (map_class (remapper_a M 0 p0)) (p0 :: pr)) (ms_classes M) (ms_classes M') ->
  keys_good class_key (ms_classes M') ->
  In d (all_descs M) -> In x (desc_classes d) ->
  map_class (remapper_a M 0 p0) x <> []
  /\ ~ In cSEMI (map_class (remapper_a M 0 p0) x)
  /\ map_class (remapper_a M' 0 (index_of 0 (p0 :: pr))) (map_class (remapper_a M 0 p0) x) = x.
Proof.
  intros Hwf Hp Hnc Hcl HF Hk' Hd Hx.
  destruct (wf_parts M Hwf) as (Hn & Hcls & Hkeys).
  apply is_permb_spec in Hp. destruct Hp as [Hlen Hin].
  destruct (index_of_spec 0 (p0 :: pr)) as [Hq1 Hq2]; [apply Hin; lia|].
  set (q0 := index_of 0 (p0 :: pr)) in *.
  assert (Hnd : NoDup (map (col_name 0) (ms_classes M))) by (rewrite <- keys_cols; exact (proj2 Hkeys)).
  assert (Hnd' : NoDup (map (col_name 0) (ms_classes M'))) by (rewrite <- keys_cols; exact (proj2 Hk')).
  (* the first name of a reordered class is the p0-name of the original *)
  assert (Hfirst : forall c c', class_rel (map_class (remapper_a M 0 p0)) (p0 :: pr) c c' ->
                                col_name 0 c' = col_name p0 c).
  { intros c c' (Hcn & _). unfold col_name. rewrite <- first_name_nth, Hcn. apply first_name_permute. }
  destruct (in_column x (column M 0)) eqn:Ecol.
  - (* x is a key of M *)
    apply in_column_spec in Ecol. unfold column in Ecol. apply in_map_iff in Ecol.
    destruct Ecol as (c & Hc0 & Hc). destruct (Forall2_in_l _ _ _ c HF Hc) as (c' & Hc' & Hrel).
    assert (Hb : exists b, col_name p0 c = Some b).
    { destruct Hk' as [Hk' _]. rewrite Forall_forall in Hk'. specialize (Hk' c' Hc').
      unfold class_key in Hk'. rewrite first_name_nth in Hk'. fold (col_name 0 c') in Hk'.
      rewrite (Hfirst c c' Hrel) in Hk'. destruct (col_name p0 c) as [b|]; [exists b; reflexivity|congruence]. }
    destruct Hb as (b & Hb).
    rewrite (map_class_mapped M 0 p0 c x b Hnd Hc Hc0 Hb).
    destruct (wf_class_parts _ c (Hcls c Hc)) as (Hcn & _).
    split; [exact (names_ok_nonempty _ _ p0 b Hcn Hb)|]. split; [exact (clean_name M c p0 b Hcl Hc Hb)|].
    apply (map_class_mapped M' 0 q0 c' b x Hnd' Hc').
    + rewrite (Hfirst c c' Hrel). exact Hb.
    + destruct Hrel as (Hcn' & _). unfold col_name, nth_name. rewrite Hcn'.
      rewrite nth_permute by exact Hq1. rewrite Hq2. exact Hc0.
  - (* x is not a key of M: it stays, and by no_collision nothing maps back onto it *)
    assert (Hno : forall c, In c (ms_classes M) -> col_name 0 c <> Some x).
    { intros c Hc E. assert (Hi : In (Some x) (column M 0)).
      { unfold column. apply in_map_iff. exists c. split; [exact E|exact Hc]. }
      apply in_column_spec in Hi. congruence. }
    rewrite (map_class_unmapped M 0 p0 x Hno).
    destruct (desc_classes_wf d x Hx) as [Hne Hns]. split; [exact Hne|]. split; [exact Hns|].
    unfold no_collision in Hnc. rewrite forallb_forall in Hnc. specialize (Hnc d Hd).
    rewrite forallb_forall in Hnc. specialize (Hnc x Hx). rewrite Ecol in Hnc. cbn [orb] in Hnc.
    rewrite negb_true_iff in Hnc.
    apply map_class_unmapped. intros c' Hc' E.
    destruct (Forall2_in_r _ _ _ c' HF Hc') as (c & Hc & Hrel).
    rewrite (Hfirst c c' Hrel) in E.
    assert (Hi : In (Some x) (column M p0)).
    { unfold column. apply in_map_iff. exists c. split; [exact E|exact Hc]. }
    apply in_column_spec in Hi. congruence.
Qed.

Theorem reorder_inv M p M' :
  wf M = true -> is_permb (length (ms_ns M)) p = true ->
  no_collision M (hd O p) = true -> class_names_clean M = true ->
  reorder M p = Ok M' -> reorder M' (inv_perm p) = Ok M.
Proof.
  intros Hwf Hp Hnc Hcl H. apply reorder_spec in H. apply reorder_spec.
  destruct H as (Hne & Hns & Hdoc & HF & Hk').
  destruct p as [|p0 pr]; [congruence|]. cbn [hd] in *.
  destruct (wf_parts M Hwf) as (Hn & Hcls & Hkeys).
  unfold reordered. rewrite inv_perm_cons. cbn [hd]. rewrite <- inv_perm_cons.
  split; [rewrite inv_perm_cons; discriminate|].
  split; [rewrite Hns; symmetry; apply (permute_inv [] (length (ms_ns M))); [exact Hp|reflexivity]|].
  split; [symmetry; exact Hdoc|]. split; [|exact Hkeys].
  apply (Forall2_flip_in _ _ _ _ HF). intros c c' Hc _ Hrel.
  apply (class_rel_inv (length (ms_ns M)) (p0 :: pr) (map_class (remapper_a M 0 p0))); auto.
  intros d x Hd Hx.
  exact (class_maps_inverse M p0 pr M' d x Hwf Hp Hnc Hcl HF Hk' (in_all_descs M c d Hc Hd) Hx).
Qed.

(* ---------- Th 4: an entry without a name in the new first namespace makes reorder fail ---------- *)
Theorem reorder_fails M t0 tr : entry_without_name M t0 = true -> reorder M (t0 :: tr) = Err.
Proof.
  intros H. destruct (reorder M (t0 :: tr)) as [M'|] eqn:E; [|reflexivity]. exfalso.
  apply reorder_spec in E. destruct E as (_ & _ & _ & HF & Hk). cbn [hd] in HF.
  unfold entry_without_name in H. apply existsb_exists in H. destruct H as (c & Hc & H).
  destruct (Forall2_in_l _ _ _ c HF Hc) as (c' & Hc' & (Hn & _ & HFf & Hkf & HFm & Hkm)).
  rewrite !orb_true_iff in H. unfold no_name in H. destruct H as [[H|H]|H].
  - destruct Hk as [Hk _]. rewrite Forall_forall in Hk. apply (Hk c' Hc').
    unfold class_key. rewrite Hn, first_name_permute.
    destruct (nth_name (c_names c) t0); [discriminate H|reflexivity].
  - apply existsb_exists in H. destruct H as (x & Hx & H).
    destruct (Forall2_in_l _ _ _ x HFf Hx) as (x' & Hx' & (_ & Hn' & _)).
    destruct Hkf as [Hkf _]. rewrite Forall_forall in Hkf. apply (Hkf x' Hx').
    unfold field_key. rewrite Hn', first_name_permute.
    destruct (nth_name (f_names x) t0); [discriminate H|reflexivity].
  - apply existsb_exists in H. destruct H as (x & Hx & H).
    destruct (Forall2_in_l _ _ _ x HFm Hx) as (x' & Hx' & (_ & Hn' & _)).
    destruct Hkm as [Hkm _]. rewrite Forall_forall in Hkm. apply (Hkm x' Hx').
    unfold meth_key. rewrite Hn', first_name_permute.
    destruct (nth_name (m_names x) t0); [discriminate H|reflexivity].
Qed.

(* and conversely: reorder fails only for one of three reasons *)
Theorem reorder_ok_entries_named M t0 tr M' :
  reorder M (t0 :: tr) = Ok M' -> entry_without_name M t0 = false.
Proof.
  intros H. destruct (entry_without_name M t0) eqn:E; [|reflexivity].
  rewrite (reorder_fails M t0 tr E) in H. discriminate.
Qed.

(* nothing is dropped or added *)
Theorem reorder_same_shape M t M' :
  reorder M t = Ok M' ->
  length (ms_classes M') = length (ms_classes M)
  /\ Forall2 (fun c c' => length (c_fields c') = length (c_fields c) /\ length (c_methods c') = length (c_methods c)
                          /\ Forall2 (fun m m' => length (m_params m') = length (m_params m)) (c_methods c) (c_methods c'))
             (ms_classes M) (ms_classes M').
Proof.
  intros H. apply reorder_spec in H. destruct H as (_ & _ & _ & HF & _). split.
  - symmetry. exact (Forall2_length _ _ _ HF).
  - eapply Forall2_impl; [|exact HF]. intros c c' (_ & _ & HFf & _ & HFm & _).
    split; [symmetry; exact (Forall2_length _ _ _ HFf)|]. split; [symmetry; exact (Forall2_length _ _ _ HFm)|].
    eapply Forall2_impl; [|exact HFm]. intros m m' (_ & _ & _ & HP & _). symmetry. exact (Forall2_length _ _ _ HP).
Qed.
