(* C08 theory, round 5: WHEN reorder succeeds.  [reorder_ok_eq]: success is decided by [reorder_okb]
   (every new key present, new keys pairwise distinct at every level); [reorder_collision_err]: two
   entries that get the same key make reorder fail; [reorder_err_iff]: reorder fails for exactly four
   causes. *)
From FB Require Import C08.Model C08.ModelOk C08.TheoryA C08.TheoryB C08.Theory C08.Theory2.
From Coq Require Import Arith Lia.

(* ---------- generic: success of map_with_key_from_result_iter over `map g l` ---------- *)
(* the key the i-th element ends up with (None: the element failed, or has no key) *)
Definition okey {A B K} (g : A -> res B) (key : B -> option K) (x : A) : option K :=
  match g x with Ok y => key y | Err => None end.

Lemma map_ok_keys {A B K} (g : A -> res B) (key : B -> option K) l : forall r,
  map g l = map Ok r -> map (okey g key) l = map key r.
Proof.
  induction l as [|x l IH]; intros [|y r] E; try discriminate; [reflexivity|].
  cbn [map] in *. injection E as Ex E. unfold okey at 1. rewrite Ex. f_equal. apply IH. exact E.
Qed.

Lemma all_ok_list {A B K} (g : A -> res B) (key : B -> option K) l :
  Forall (fun o => o <> None) (map (okey g key) l) -> exists r, map g l = map Ok r.
Proof.
  induction l as [|x l IH]; intros H.
  - exists []. reflexivity.
  - cbn [map] in H. inversion H as [|? ? Hx Hl]; subst. destruct (IH Hl) as (r & Hr).
    unfold okey in Hx. destruct (g x) as [y|] eqn:E; [|congruence].
    exists (y :: r). cbn [map]. rewrite E, Hr. reflexivity.
Qed.

Definition good_keys {K} (eqb : K -> K -> bool) (l : list (option K)) : bool :=
  forallb is_some l && nodupb (okey_eqb eqb) l.

Lemma good_keys_spec {K} (eqb : K -> K -> bool) (Heq : forall a b, eqb a b = true <-> a = b) (l : list (option K)) :
  good_keys eqb l = true <-> Forall (fun o => o <> None) l /\ NoDup l.
Proof.
  unfold good_keys. rewrite andb_true_iff, forallb_forall, Forall_forall.
  rewrite (nodupb_NoDup (okey_eqb eqb)) by (intros a b; apply opt_eqb_eq; exact Heq).
  split; intros [H1 H2]; (split; [|exact H2]); intros x Hx; specialize (H1 x Hx);
    destruct x; cbn [is_some] in *; congruence.
Qed.

Lemma iter_ok {A B K} (g : A -> res B) (key : B -> option K) (eqb : K -> K -> bool)
  (Heq : forall a b, eqb a b = true <-> a = b) l :
  is_ok (from_result_iter key eqb (map g l)) = good_keys eqb (map (okey g key) l).
Proof.
  apply eq_true_iff_eq. rewrite (good_keys_spec eqb Heq). split.
  - intros H. destruct (from_result_iter key eqb (map g l)) as [r|] eqn:E; [|discriminate].
    apply (from_result_iter_spec key eqb Heq) in E. destruct E as [E [H1 H2]].
    rewrite (map_ok_keys g key l r E). split; [|exact H2].
    apply Forall_forall. intros o Ho. apply in_map_iff in Ho. destruct Ho as (y & <- & Hy).
    rewrite Forall_forall in H1. exact (H1 y Hy).
  - intros [H1 H2]. destruct (all_ok_list g key l H1) as (r & E).
    rewrite (map_ok_keys g key l r E) in H1, H2.
    assert (Hk : keys_good key r).
    { split; [|exact H2]. apply Forall_forall. intros y Hy. rewrite Forall_forall in H1.
      apply H1. apply in_map. exact Hy. }
    rewrite (proj2 (from_result_iter_spec key eqb Heq (map g l) r) (conj E Hk)). reflexivity.
Qed.

Lemma good_keys_okb {K} (eqb : K -> K -> bool) (l : list (option K)) : good_keys eqb l = keys_okb eqb l.
Proof.
  unfold good_keys, keys_okb. destruct (forallb is_some l) eqn:F; [|reflexivity]. cbn [andb].
  induction l as [|[k|] l IH]; cbn [nodupb dup_some forallb is_some andb] in *; [reflexivity| |discriminate].
  rewrite negb_orb, (IH F). reflexivity.
Qed.

(* an element that fails for another reason contributes the key None *)
Lemma good_keys_mask {A K} (eqb : K -> K -> bool) (ok : A -> bool) (key : A -> option K) l :
  good_keys eqb (map (fun x => if ok x then key x else None) l) = forallb ok l && good_keys eqb (map key l).
Proof.
  destruct (forallb ok l) eqn:F; cbn [andb].
  - f_equal. apply map_ext_in. intros x Hx. rewrite forallb_forall in F. rewrite (F x Hx). reflexivity.
  - unfold good_keys.
    assert (forallb is_some (map (fun x => if ok x then key x else None) l) = false) as ->; [|reflexivity].
    induction l as [|x l IH]; cbn [forallb map] in *; [discriminate|].
    destruct (ok x); cbn [andb is_some] in *; [|reflexivity]. rewrite (IH F). apply andb_false_r.
Qed.

Lemma existsb_map_Some {K} (eqb : K -> K -> bool) x l :
  existsb (okey_eqb eqb (Some x)) (map Some l) = existsb (eqb x) l.
Proof. induction l as [|y l IH]; cbn [map existsb]; [reflexivity|]. rewrite IH. reflexivity. Qed.

Lemma nodupb_map_Some {K} (eqb : K -> K -> bool) l : nodupb (okey_eqb eqb) (map Some l) = nodupb eqb l.
Proof.
  induction l as [|x l IH]; cbn [map nodupb]; [reflexivity|]. rewrite IH, existsb_map_Some. reflexivity.
Qed.

(* ---------- level by level ---------- *)
Lemma params_ok t ps :
  is_ok (from_result_iter (fun x => Some (param_key x)) N.eqb (map (reorder_param t) ps))
  = nodupb N.eqb (map p_index ps).
Proof.
  rewrite (iter_ok (reorder_param t) (fun x => Some (param_key x)) N.eqb N.eqb_eq).
  replace (map (okey (reorder_param t) (fun x => Some (param_key x))) ps) with (map Some (map p_index ps))
    by (rewrite map_map; reflexivity).
  unfold good_keys. rewrite nodupb_map_Some.
  assert (forallb is_some (map Some (map p_index ps)) = true) as ->; [|reflexivity].
  apply forallb_forall. intros o Ho. apply in_map_iff in Ho. destruct Ho as (? & <- & _). reflexivity.
Qed.

Lemma okey_field T t0 tr x :
  okey (reorder_field T (t0 :: tr)) field_key x = new_key2 (map_class T) t0 (f_names x) (f_desc x).
Proof.
  unfold okey, reorder_field, new_key2.
  destruct (map_desc (map_class T) (f_desc x)) as [d|]; cbn [bind]; [|reflexivity].
  unfold field_key. cbn [f_names f_desc]. rewrite first_name_permute. reflexivity.
Qed.

Lemma fields_ok T t0 tr c :
  is_ok (from_result_iter field_key key2_eqb (map (reorder_field T (t0 :: tr)) (c_fields c)))
  = keys_okb key2_eqb (new_field_keys (map_class T) t0 c).
Proof.
  rewrite (iter_ok _ field_key key2_eqb key2_eqb_eq), good_keys_okb. unfold new_field_keys. f_equal.
  apply map_ext. intros x. apply okey_field.
Qed.

Lemma okey_meth T t0 tr m :
  okey (reorder_meth T (t0 :: tr)) meth_key m
  = if params_nodup m then new_key2 (map_class T) t0 (m_names m) (m_desc m) else None.
Proof.
  unfold okey, reorder_meth, new_key2, params_nodup. rewrite <- (params_ok (t0 :: tr) (m_params m)).
  destruct (map_desc (map_class T) (m_desc m)) as [d|]; cbn [bind].
  - destruct (from_result_iter (fun x => Some (param_key x)) N.eqb (map (reorder_param (t0 :: tr)) (m_params m))) as [ps|];
      cbn [bind is_ok]; [|reflexivity].
    unfold meth_key. cbn [m_names m_desc]. rewrite first_name_permute. reflexivity.
  - destruct (is_ok _); reflexivity.
Qed.

Lemma meths_ok T t0 tr c :
  is_ok (from_result_iter meth_key key2_eqb (map (reorder_meth T (t0 :: tr)) (c_methods c)))
  = forallb params_nodup (c_methods c) && keys_okb key2_eqb (new_meth_keys (map_class T) t0 c).
Proof.
  rewrite (iter_ok _ meth_key key2_eqb key2_eqb_eq).
  rewrite (map_ext _ _ (okey_meth T t0 tr)).
  rewrite (good_keys_mask key2_eqb params_nodup (fun m => new_key2 (map_class T) t0 (m_names m) (m_desc m))).
  rewrite good_keys_okb. reflexivity.
Qed.

Lemma class_ok T t0 tr c : is_ok (reorder_class T (t0 :: tr) c) = class_okb (map_class T) t0 c.
Proof.
  unfold reorder_class, class_okb.
  rewrite <- andb_assoc, (andb_comm (keys_okb key2_eqb (new_meth_keys (map_class T) t0 c))).
  rewrite <- (fields_ok T t0 tr c), <- (meths_ok T t0 tr c).
  destruct (from_result_iter field_key key2_eqb (map (reorder_field T (t0 :: tr)) (c_fields c))) as [fs|];
    cbn [bind is_ok andb]; [|reflexivity].
  destruct (from_result_iter meth_key key2_eqb (map (reorder_meth T (t0 :: tr)) (c_methods c))) as [ms|]; reflexivity.
Qed.

Lemma okey_class T t0 tr c :
  okey (reorder_class T (t0 :: tr)) class_key c
  = if class_okb (map_class T) t0 c then nth_name (c_names c) t0 else None.
Proof.
  rewrite <- (class_ok T t0 tr c). unfold okey.
  destruct (reorder_class T (t0 :: tr) c) as [c'|] eqn:E; cbn [is_ok]; [|reflexivity].
  apply reorder_class_spec in E. destruct E as (Hn & _). unfold class_key. rewrite Hn. apply first_name_permute.
Qed.

(* success is decided by [reorder_okb]: the rest of the table beyond its first entry plays no role *)
Theorem reorder_ok_eq M t0 tr : is_ok (reorder M (t0 :: tr)) = reorder_okb M t0.
Proof.
  unfold reorder, reorder_okb, new_class_keys. cbv zeta.
  set (T := remapper_a M 0 t0).
  transitivity (is_ok (from_result_iter class_key str_eqb (map (reorder_class T (t0 :: tr)) (ms_classes M)))).
  { destruct (from_result_iter class_key str_eqb (map (reorder_class T (t0 :: tr)) (ms_classes M))); reflexivity. }
  rewrite (iter_ok _ class_key str_eqb str_eqb_eq).
  rewrite (map_ext _ _ (okey_class T t0 tr)).
  rewrite (good_keys_mask str_eqb (class_okb (map_class T) t0) (fun c => nth_name (c_names c) t0)).
  rewrite good_keys_okb. apply andb_comm.
Qed.

Lemma is_ok_false {A} (r : res A) : is_ok r = false <-> r = Err.
Proof. destruct r; cbn [is_ok]; split; congruence. Qed.

(* ---------- collisions ---------- *)
Lemma dup_some_not_ok {K} (eqb : K -> K -> bool) l : dup_some eqb l = true -> keys_okb eqb l = false.
Proof. intros H. unfold keys_okb. rewrite H. apply andb_false_r. Qed.

(* what [dup_some] says: two different positions hold the same present key *)
Lemma dup_some_spec {K} (eqb : K -> K -> bool) (Heq : forall a b, eqb a b = true <-> a = b) l :
  dup_some eqb l = true <->
  exists i j k, (i < j)%nat /\ nth_error l i = Some (Some k) /\ nth_error l j = Some (Some k).
Proof.
  induction l as [|o l IH]; cbn [dup_some].
  - split; [discriminate|]. intros (i & j & k & _ & H & _). destruct i; discriminate.
  - assert (Htail : (exists i j k, (i < j)%nat /\ nth_error l i = Some (Some k) /\ nth_error l j = Some (Some k)) ->
                    exists i j k, (i < j)%nat /\ nth_error (o :: l) i = Some (Some k) /\ nth_error (o :: l) j = Some (Some k)).
    { intros (i & j & k & Hij & Hi & Hj). exists (S i), (S j), k. cbn [nth_error]. repeat split; auto. lia. }
    destruct o as [k0|].
    + rewrite orb_true_iff, IH. split.
      * intros [H|H]; [|exact (Htail H)].
        apply existsb_exists in H. destruct H as (o & Ho & E). apply (opt_eqb_eq eqb Heq) in E. subst o.
        apply In_nth_error in Ho. destruct Ho as (j & Hj).
        exists O, (S j), k0. cbn [nth_error]. repeat split; auto. lia.
      * intros (i & j & k & Hij & Hi & Hj). destruct j as [|j]; [lia|]. cbn [nth_error] in Hj.
        destruct i as [|i]; cbn [nth_error] in Hi.
        -- injection Hi as ->. left. apply existsb_exists. exists (Some k). split.
           ++ eapply nth_error_In. exact Hj.
           ++ apply (opt_eqb_eq eqb Heq). reflexivity.
        -- right. exists i, j, k. repeat split; auto. lia.
    + rewrite IH. split; [exact Htail|].
      intros (i & j & k & Hij & Hi & Hj). destruct j as [|j]; [lia|]. cbn [nth_error] in Hj.
      destruct i as [|i]; cbn [nth_error] in Hi; [discriminate|].
      exists i, j, k. repeat split; auto. lia.
Qed.

(* two entries that would get the same key in the new first namespace: reorder fails (it neither
   drops one of them nor overwrites the other) — no hypothesis at all *)
Theorem reorder_collision_err M t0 tr : key_collision M t0 = true -> reorder M (t0 :: tr) = Err.
Proof.
  intros H. apply is_ok_false. rewrite reorder_ok_eq. unfold reorder_okb.
  unfold key_collision in H. cbv zeta in H. apply orb_true_iff in H. destruct H as [H|H].
  - rewrite (dup_some_not_ok _ _ H). reflexivity.
  - apply andb_false_iff. right. apply existsb_exists in H. destruct H as (c & Hc & H).
    destruct (forallb (class_okb (map_class (remapper_a M 0 t0)) t0) (ms_classes M)) eqn:F; [|reflexivity].
    rewrite forallb_forall in F. specialize (F c Hc). unfold class_okb in F.
    rewrite !andb_true_iff in F. destruct F as [[F1 F2] _].
    apply orb_true_iff in H. destruct H as [H|H]; rewrite (dup_some_not_ok _ _ H) in *; discriminate.
Qed.

(* [key_collision] spelled out: two classes at different positions have the same name in the new first
   namespace, or in some class two fields (two methods) at different positions get the same new key
   (name in the new first namespace, rewritten descriptor) *)
Definition same_key_twice {K} (l : list (option K)) : Prop :=
  exists i j k, (i < j)%nat /\ nth_error l i = Some (Some k) /\ nth_error l j = Some (Some k).
Theorem key_collision_meaning M t0 :
  key_collision M t0 = true <->
  same_key_twice (new_class_keys M t0)
  \/ exists c, In c (ms_classes M) /\
       (same_key_twice (new_field_keys (map_class (remapper_a M 0 t0)) t0 c)
        \/ same_key_twice (new_meth_keys (map_class (remapper_a M 0 t0)) t0 c)).
Proof.
  unfold key_collision, same_key_twice. cbv zeta.
  rewrite orb_true_iff, existsb_exists, (dup_some_spec str_eqb str_eqb_eq). split.
  - intros [H|(c & Hc & H)]; [left; exact H|]. right. exists c. split; [exact Hc|].
    apply orb_true_iff in H. destruct H as [H|H]; apply (dup_some_spec key2_eqb key2_eqb_eq) in H; auto.
  - intros [H|(c & Hc & H)]; [left; exact H|]. right. exists c. split; [exact Hc|].
    apply orb_true_iff. destruct H as [H|H]; apply (dup_some_spec key2_eqb key2_eqb_eq) in H; auto.
Qed.

(* ---------- the four causes of failure ---------- *)
Lemma existsb_false {A} (p : A -> bool) l : existsb p l = false <-> forall x, In x l -> p x = false.
Proof.
  split.
  - intros H x Hx. destruct (p x) eqn:E; [|reflexivity]. rewrite <- H. symmetry.
    apply existsb_exists. exists x. auto.
  - intros H. destruct (existsb p l) eqn:E; [|reflexivity].
    apply existsb_exists in E. destruct E as (x & Hx & E). rewrite (H x Hx) in E. discriminate.
Qed.

Lemma is_some_new_key2 f t0 nm d :
  is_some (new_key2 f t0 nm d) = is_ok (tokens d) && is_some (nth_name nm t0).
Proof.
  unfold new_key2. rewrite <- (map_desc_ok_iff f d).
  destruct (map_desc f d); cbn [is_ok andb]; [|reflexivity]. destruct (nth_name nm t0); reflexivity.
Qed.

Lemma forallb_map {A B} (p : B -> bool) (g : A -> B) l : forallb p (map g l) = forallb (fun x => p (g x)) l.
Proof. induction l as [|x l IH]; cbn [map forallb]; [reflexivity|]. rewrite IH. reflexivity. Qed.

Lemma in_all_descs_iff M d :
  In d (all_descs M) <->
  exists c, In c (ms_classes M) /\ ((exists x, In x (c_fields c) /\ f_desc x = d) \/ (exists x, In x (c_methods c) /\ m_desc x = d)).
Proof.
  unfold all_descs. rewrite in_flat_map. split.
  - intros (c & Hc & H). exists c. split; [exact Hc|]. apply in_app_or in H.
    destruct H as [H|H]; apply in_map_iff in H; destruct H as (x & E & Hx); [left|right]; exists x; auto.
  - intros (c & Hc & [(x & Hx & E)|(x & Hx & E)]); exists c; (split; [exact Hc|]); apply in_or_app;
      [left|right]; apply in_map_iff; exists x; auto.
Qed.

Lemma class_okb_true f t0 c :
  class_okb f t0 c = true <->
  (forall x, In x (c_fields c) -> is_ok (tokens (f_desc x)) = true /\ is_some (nth_name (f_names x) t0) = true)
  /\ dup_some key2_eqb (new_field_keys f t0 c) = false
  /\ (forall x, In x (c_methods c) -> is_ok (tokens (m_desc x)) = true /\ is_some (nth_name (m_names x) t0) = true)
  /\ dup_some key2_eqb (new_meth_keys f t0 c) = false
  /\ (forall m, In m (c_methods c) -> params_nodup m = true).
Proof.
  unfold class_okb, keys_okb, new_field_keys, new_meth_keys.
  rewrite !andb_true_iff, !negb_true_iff, !forallb_map, !forallb_forall.
  split.
  - intros [[[F1 F2] [M1 M2]] P]. repeat split; try assumption.
    + specialize (F1 x H). rewrite is_some_new_key2, andb_true_iff in F1. exact (proj1 F1).
    + specialize (F1 x H). rewrite is_some_new_key2, andb_true_iff in F1. exact (proj2 F1).
    + specialize (M1 x H). rewrite is_some_new_key2, andb_true_iff in M1. exact (proj1 M1).
    + specialize (M1 x H). rewrite is_some_new_key2, andb_true_iff in M1. exact (proj2 M1).
  - intros (F1 & F2 & M1 & M2 & P). repeat split; try assumption.
    + intros x Hx. rewrite is_some_new_key2, andb_true_iff. exact (F1 x Hx).
    + intros x Hx. rewrite is_some_new_key2, andb_true_iff. exact (M1 x Hx).
Qed.

Lemma reorder_okb_true M t0 :
  reorder_okb M t0 = true <->
  entry_without_name M t0 = false /\ descs_scan M = true /\ key_collision M t0 = false /\ dup_param_index M = false.
Proof.
  unfold reorder_okb, keys_okb, key_collision, dup_param_index, entry_without_name, descs_scan, new_class_keys, no_name.
  cbv zeta. set (f := map_class (remapper_a M 0 t0)).
  rewrite !andb_true_iff, !negb_true_iff, orb_false_iff, !forallb_map, !forallb_forall, !existsb_false.
  split.
  - intros [[C1 C2] HC]. repeat split.
    + intros c Hc. specialize (C1 c Hc). specialize (HC c Hc). cbv beta in *.
      apply class_okb_true in HC. destruct HC as (F1 & _ & M1 & _).
      rewrite !orb_false_iff, C1. split; [split; [reflexivity|]|]; apply existsb_false; intros x Hx.
      * rewrite (proj2 (F1 x Hx)). reflexivity.
      * rewrite (proj2 (M1 x Hx)). reflexivity.
    + intros d Hd. apply in_all_descs_iff in Hd. destruct Hd as (c & Hc & Hd). specialize (HC c Hc). cbv beta in *.
      apply class_okb_true in HC. destruct HC as (F1 & _ & M1 & _).
      destruct Hd as [(x & Hx & <-)|(x & Hx & <-)].
      * exact (proj1 (F1 x Hx)).
      * exact (proj1 (M1 x Hx)).
    + exact C2.
    + intros c Hc. specialize (HC c Hc). cbv beta in *. apply class_okb_true in HC.
      destruct HC as (_ & F2 & _ & M2 & _). rewrite F2, M2. reflexivity.
    + intros c Hc. specialize (HC c Hc). cbv beta in *. apply class_okb_true in HC. destruct HC as (_ & _ & _ & _ & P).
      apply existsb_false. intros m Hm. rewrite (P m Hm). reflexivity.
  - intros (E & D & [K1 K2] & P). split; [split|].
    + intros c Hc. specialize (E c Hc). cbv beta in E. rewrite !orb_false_iff, negb_false_iff in E. exact (proj1 (proj1 E)).
    + exact K1.
    + intros c Hc. specialize (E c Hc). specialize (K2 c Hc). specialize (P c Hc). cbv beta in *.
      rewrite !orb_false_iff, negb_false_iff, !existsb_false in E. destruct E as [[_ E1] E2].
      rewrite orb_false_iff in K2. destruct K2 as [K2 K3]. rewrite existsb_false in P.
      apply class_okb_true. repeat split; try assumption.
      * apply D. apply in_all_descs_iff. exists c. split; [exact Hc|]. left. exists x. auto.
      * specialize (E1 x H). apply negb_false_iff in E1. exact E1.
      * apply D. apply in_all_descs_iff. exists c. split; [exact Hc|]. right. exists x. auto.
      * specialize (E2 x H). apply negb_false_iff in E2. exact E2.
      * intros m Hm. specialize (P m Hm). apply negb_false_iff in P. exact P.
Qed.

(* reorder fails for exactly four causes: an entry without a name in the new first namespace, a
   member descriptor that does not scan, two entries that get the same key, two parameters of one
   method with the same index (the last is excluded by wf) *)
Theorem reorder_err_iff M t0 tr :
  reorder M (t0 :: tr) = Err <->
  entry_without_name M t0 = true \/ descs_scan M = false \/ key_collision M t0 = true \/ dup_param_index M = true.
Proof.
  rewrite <- is_ok_false, reorder_ok_eq.
  pose proof (reorder_okb_true M t0) as H.
  destruct (reorder_okb M t0).
  - destruct (proj1 H eq_refl) as (-> & -> & -> & ->). split; [discriminate|].
    intros [E|[E|[E|E]]]; discriminate.
  - split; [intros _|reflexivity].
    destruct (entry_without_name M t0); [left; reflexivity|].
    destruct (descs_scan M); [|right; left; reflexivity].
    destruct (key_collision M t0); [right; right; left; reflexivity|].
    destruct (dup_param_index M); [right; right; right; reflexivity|].
    exfalso. assert (false = true) by (apply H; auto). discriminate.
Qed.

(* on well-formed sets the fourth cause cannot occur *)
Lemma wf_no_dup_param M : wf M = true -> dup_param_index M = false.
Proof.
  intros Hwf. unfold dup_param_index. apply existsb_false. intros c Hc. apply existsb_false. intros m Hm.
  apply negb_false_iff.
  destruct (wf_parts M Hwf) as (_ & HC & _). specialize (HC c Hc).
  destruct (wf_class_parts _ c HC) as (_ & _ & _ & HM & _). specialize (HM m Hm).
  destruct (wf_meth_parts _ m HM) as (_ & _ & HP). unfold params_nodup.
  apply (nodupb_NoDup N.eqb N.eqb_eq). exact HP.
Qed.

Theorem reorder_err_iff_wf M t0 tr :
  wf M = true ->
  (reorder M (t0 :: tr) = Err <->
   entry_without_name M t0 = true \/ descs_scan M = false \/ key_collision M t0 = true).
Proof.
  intros Hwf. rewrite reorder_err_iff, (wf_no_dup_param M Hwf). split.
  - intros [H|[H|[H|H]]]; auto. discriminate.
  - intros [H|[H|H]]; auto.
Qed.

(* ---------- examples: every kind of collision, and the full characterisation at work ---------- *)
(* two classes A -> X, B -> X *)
Definition M_dup_field : mappings :=
  (* fields f : I -> x and g : I -> x in one class *)
  mkMappings [[111]; [110]] None
    [mkClass [Some [65]; Some [88]] None
       [mkField [73] [Some [102]; Some [120]] None; mkField [73] [Some [103]; Some [120]] None] []].
Definition M_same_name_other_desc : mappings :=
  (* fields f : I -> x and g : J -> x: same new name, different descriptors - no collision *)
  mkMappings [[111]; [110]] None
    [mkClass [Some [65]; Some [88]] None
       [mkField [73] [Some [102]; Some [120]] None; mkField [74] [Some [103]; Some [120]] None] []].
Definition M_dup_meth : mappings :=
  mkMappings [[111]; [110]] None
    [mkClass [Some [65]; Some [88]] None []
       [mkMeth [40;41;86] [Some [109]; Some [114]] None []; mkMeth [40;41;86] [Some [107]; Some [114]] None []]].
Definition M_dup_after_rewrite : mappings :=
  (* fields u : LA; -> s and v : LX; -> s ; A -> X: the descriptors differ before the rewrite and coincide after it *)
  mkMappings [[111]; [110]] None
    [mkClass [Some [65]; Some [88]] None
       [mkField [76;65;59] [Some [117]; Some [115]] None; mkField [76;88;59] [Some [118]; Some [115]] None] []].

Definition collision_examples : Prop :=
  (wf M_dup = true /\ key_collision M_dup 1 = true /\ reorder M_dup [1%nat; 0%nat] = Err)
  /\ (wf M_dup_field = true /\ key_collision M_dup_field 1 = true /\ entry_without_name M_dup_field 1 = false
      /\ reorder M_dup_field [1%nat; 0%nat] = Err)
  /\ (wf M_same_name_other_desc = true /\ key_collision M_same_name_other_desc 1 = false
      /\ is_ok (reorder M_same_name_other_desc [1%nat; 0%nat]) = true)
  /\ (wf M_dup_meth = true /\ key_collision M_dup_meth 1 = true /\ reorder M_dup_meth [1%nat; 0%nat] = Err)
  /\ (wf M_dup_after_rewrite = true /\ key_collision M_dup_after_rewrite 1 = true
      /\ reorder M_dup_after_rewrite [1%nat; 0%nat] = Err)
  /\ (key_collision M_ex 0 = false /\ key_collision M_ex 1 = false /\ key_collision M_ex 2 = false
      /\ reorder_okb M_ex 2 = true).
Lemma collision_examples_hold : collision_examples.
Proof. unfold collision_examples. repeat split; vm_compute; reflexivity. Qed.
