(* C08 theory, part 2: the public entry point (namespaces given by name), the examples showing
   that the hypotheses are satisfiable and needed. *)
From FB Require Import C08.Model C08.TheoryA C08.TheoryB C08.Theory.
From Coq Require Import Arith Lia Permutation.

(* ---------- namespaces by name ---------- *)
Lemma get_namespace_spec ns name : forall i,
  get_namespace ns name = Ok i -> (i < length ns)%nat /\ nth i ns [] = name.
Proof.
  induction ns as [|x ns IH]; intros i H; cbn [get_namespace] in H; [discriminate|].
  destruct (str_eqb_spec x name) as [->|Hx].
  - injection H as <-. cbn [length nth]. split; [lia|reflexivity].
  - apply bind_ok in H. destruct H as (j & Hj & E). injection E as <-.
    destruct (IH j Hj) as [H1 H2]. cbn [length nth]. split; [lia|exact H2].
Qed.

Lemma get_namespace_nth ns : forall j,
  NoDup ns -> (j < length ns)%nat -> get_namespace ns (nth j ns []) = Ok j.
Proof.
  induction ns as [|x ns IH]; intros j Hnd Hj; cbn [length] in Hj; [lia|].
  inversion Hnd as [|? ? Hx Hns]; subst. destruct j as [|j]; cbn [nth get_namespace].
  - rewrite str_eqb_refl. reflexivity.
  - destruct (str_eqb_spec x (nth j ns [])) as [E|_].
    + exfalso. apply Hx. rewrite E. apply nth_In. lia.
    + rewrite IH; [reflexivity|exact Hns|lia].
Qed.

Lemma map_res_Forall2 {A B} (f : A -> res B) l : forall r,
  map_res f l = Ok r <-> Forall2 (fun x y => f x = Ok y) l r.
Proof.
  induction l as [|x l IH]; intros r; cbn [map_res].
  - split; [intros [= <-]; constructor|intros H; inversion H; reflexivity].
  - split.
    + intros H. apply bind_ok in H. destruct H as (y & Hy & H). apply bind_ok in H.
      destruct H as (r' & Hr & E). injection E as <-. constructor; [exact Hy|]. apply IH. exact Hr.
    + intros H. inversion H as [|? y ? r' Hy Hr]; subst. rewrite Hy. cbn [bind].
      rewrite (proj2 (IH r') Hr). reflexivity.
Qed.

Lemma Forall2_seq {A} (R : A -> nat -> Prop) (d : A) l : forall k,
  (forall j, (j < length l)%nat -> R (nth j l d) (k + j)%nat) -> Forall2 R l (seq k (length l)).
Proof.
  induction l as [|x l IH]; intros k H; cbn [length seq]; constructor.
  - specialize (H O). cbn [length nth] in H. rewrite Nat.add_0_r in H. apply H. lia.
  - apply IH. intros j Hj. specialize (H (S j)). cbn [length nth] in H.
    rewrite Nat.add_succ_r in H. apply H. lia.
Qed.

(* naming the namespaces in their own order gives the identity table *)
Lemma reorder_table_id M : NoDup (ms_ns M) -> reorder_table M (ms_ns M) = Ok (seq 0 (length (ms_ns M))).
Proof.
  intros Hnd. unfold reorder_table. apply map_res_Forall2.
  apply (Forall2_seq _ []). intros j Hj. cbv beta. cbn [Nat.add]. apply get_namespace_nth; assumption.
Qed.

(* naming them in any other order gives a permutation table *)
Lemma reorder_table_perm M nms :
  NoDup (ms_ns M) -> Permutation nms (ms_ns M) ->
  exists t, reorder_table M nms = Ok t /\ is_permb (length (ms_ns M)) t = true
            /\ permute [] t (ms_ns M) = nms.
Proof.
  intros Hnd Hperm. set (ns := ms_ns M) in *.
  assert (Hex : exists t, Forall2 (fun x y => get_namespace ns x = Ok y) nms t).
  { assert (Hin : forall x, In x nms -> In x ns) by (intros x; apply Permutation_in; exact Hperm).
    clear Hperm. induction nms as [|x nms IH]; [exists []; constructor|].
    destruct IH as (t & Ht); [intros y Hy; apply Hin; right; exact Hy|].
    destruct (In_nth ns x [] (Hin x (or_introl eq_refl))) as (j & Hj & E).
    exists (j :: t). constructor; [|exact Ht]. rewrite <- E. apply get_namespace_nth; assumption. }
  destruct Hex as (t & Ht). exists t. split; [apply map_res_Forall2; exact Ht|]. split.
  - apply is_permb_spec. split.
    + rewrite <- (Forall2_length _ _ _ Ht). apply Permutation_length. exact Hperm.
    + intros j Hj. assert (Hi : In (nth j ns []) nms).
      { apply (Permutation_in _ (Permutation_sym Hperm)). apply nth_In. exact Hj. }
      destruct (Forall2_in_l _ _ _ _ Ht Hi) as (i & Hi' & E).
      rewrite (get_namespace_nth ns j Hnd Hj) in E. injection E as ->. exact Hi'.
  - unfold permute. clear Hperm. induction Ht as [|x i nms' t' Hx Ht IH]; [reflexivity|].
    cbn [map]. f_equal; [exact (proj2 (get_namespace_spec ns x i Hx))|exact IH].
Qed.

Lemma nodup_ns_spec M : nodup_ns M = true <-> NoDup (ms_ns M).
Proof. unfold nodup_ns. apply nodupb_NoDup. exact str_eqb_eq. Qed.

Theorem reorder_by_names_id M :
  wf M = true -> nodup_ns M = true -> descs_scan M = true -> reorder_by_names M (ms_ns M) = Ok M.
Proof.
  intros Hwf Hnd Hds. unfold reorder_by_names.
  rewrite (reorder_table_id M (proj1 (nodup_ns_spec M) Hnd)). cbn [bind]. apply reorder_id; assumption.
Qed.

(* hypothesis of the inverse law for the entry point by names *)
Definition no_collision_names (M : mappings) (nms : list str) : bool :=
  match reorder_table M nms with Ok (t0 :: _) => no_collision M t0 | _ => true end.

Theorem reorder_by_names_inv M nms M' :
  wf M = true -> nodup_ns M = true -> Permutation nms (ms_ns M) ->
  no_collision_names M nms = true -> class_names_clean M = true ->
  reorder_by_names M nms = Ok M' -> reorder_by_names M' (ms_ns M) = Ok M.
Proof.
  intros Hwf Hnd Hperm Hnc Hcl H. apply nodup_ns_spec in Hnd.
  destruct (reorder_table_perm M nms Hnd Hperm) as (t & Ht & Hp & Hnms).
  unfold reorder_by_names in H. unfold no_collision_names in Hnc. rewrite Ht in H, Hnc. cbn [bind] in H.
  assert (Hns' : ms_ns M' = nms).
  { apply reorder_spec in H. destruct H as (_ & Hns & _). rewrite Hns. exact Hnms. }
  assert (Hnc' : no_collision M (hd O t) = true) by (destruct t; [cbn [reorder] in H; discriminate H|exact Hnc]).
  unfold reorder_by_names.
  assert (Htab : reorder_table M' (ms_ns M) = Ok (inv_perm t)).
  { unfold reorder_table. rewrite Hns'. apply map_res_Forall2. unfold inv_perm.
    assert (Hlen : length t = length (ms_ns M)) by (apply is_permb_spec in Hp; tauto).
    rewrite Hlen.
    assert (Hndn : NoDup nms) by (apply (Permutation_NoDup (Permutation_sym Hperm)); exact Hnd).
    assert (HF : Forall2 (fun x j => get_namespace nms x = Ok (index_of j t)) (ms_ns M) (seq 0 (length (ms_ns M)))).
    { apply (Forall2_seq _ []). intros j Hj. cbv beta. cbn [Nat.add].
      destruct (index_of_spec j t) as [H1 H2]; [apply is_permb_spec in Hp; apply Hp; exact Hj|].
      assert (E : nth j (ms_ns M) [] = nth (index_of j t) nms []).
      { rewrite <- Hnms. rewrite nth_permute by exact H1. rewrite H2. reflexivity. }
      assert (Hk : (index_of j t < length nms)%nat) by (rewrite <- Hnms, permute_length; exact H1).
      pose proof (get_namespace_nth nms (index_of j t) Hndn Hk) as G. rewrite <- E in G. exact G. }
    clear -HF. induction HF; cbn [map]; constructor; auto. }
  rewrite Htab. cbn [bind]. apply reorder_inv; assumption.
Qed.

(* ---------- examples ---------- *)
Definition M_ex : mappings :=
  (mkMappings [[111;102;102;105;99;105;97;108]; [105;110;116;101;114;109;101;100;105;97;114;121]; [110;97;109;101;100]] None [(mkClass [(Some [97]); (Some [110;101;116;47;67;95;49]); (Some [110;101;116;47;70;111;111])] (Some [99;108;97;115;115;32;99;111;109;109;101;110;116]) [(mkField [91;76;97;59] [(Some [102]); (Some [102;95;49]); (Some [99;111;117;110;116])] (Some [102;105;101;108;100;32;99;111;109;109;101;110;116])); (mkField [76;106;97;118;97;47;108;97;110;103;47;79;98;106;101;99;116;59] [(Some [103]); (Some [102;95;50]); (Some [108;111;99;107])] None)] [(mkMeth [40;76;97;59;76;98;36;99;59;91;91;76;106;97;118;97;47;117;116;105;108;47;76;105;115;116;59;73;41;76;98;59] [(Some [109]); (Some [109;95;49]); (Some [114;117;110])] (Some [109;101;116;104;111;100;32;99;111;109;109;101;110;116]) [(mkParam 1 [None; (Some [112;95;49]); (Some [102;105;114;115;116])] (Some [112;97;114;97;109;101;116;101;114;32;99;111;109;109;101;110;116])); (mkParam 2 [None; None; None] None)])]);
   (mkClass [(Some [98]); (Some [110;101;116;47;67;95;50]); (Some [110;101;116;47;66;97;114])] None [] [(mkMeth [40;41;86] [(Some [60;105;110;105;116;62]); (Some [60;105;110;105;116;62]); (Some [60;105;110;105;116;62])] None [])]);
   (mkClass [(Some [98;36;99]); (Some [110;101;116;47;67;95;50;36;67;95;51]); (Some [110;101;116;47;66;97;114;36;73;110;110;101;114])] None [(mkField [73] [(Some [120]); (Some [102;95;51]); (Some [120])] None)] [])]).
Definition M_ex_201 : mappings :=
  (mkMappings [[110;97;109;101;100]; [111;102;102;105;99;105;97;108]; [105;110;116;101;114;109;101;100;105;97;114;121]] None [(mkClass [(Some [110;101;116;47;70;111;111]); (Some [97]); (Some [110;101;116;47;67;95;49])] (Some [99;108;97;115;115;32;99;111;109;109;101;110;116]) [(mkField [91;76;110;101;116;47;70;111;111;59] [(Some [99;111;117;110;116]); (Some [102]); (Some [102;95;49])] (Some [102;105;101;108;100;32;99;111;109;109;101;110;116])); (mkField [76;106;97;118;97;47;108;97;110;103;47;79;98;106;101;99;116;59] [(Some [108;111;99;107]); (Some [103]); (Some [102;95;50])] None)] [(mkMeth [40;76;110;101;116;47;70;111;111;59;76;110;101;116;47;66;97;114;36;73;110;110;101;114;59;91;91;76;106;97;118;97;47;117;116;105;108;47;76;105;115;116;59;73;41;76;110;101;116;47;66;97;114;59] [(Some [114;117;110]); (Some [109]); (Some [109;95;49])] (Some [109;101;116;104;111;100;32;99;111;109;109;101;110;116]) [(mkParam 1 [(Some [102;105;114;115;116]); None; (Some [112;95;49])] (Some [112;97;114;97;109;101;116;101;114;32;99;111;109;109;101;110;116])); (mkParam 2 [None; None; None] None)])]);
   (mkClass [(Some [110;101;116;47;66;97;114]); (Some [98]); (Some [110;101;116;47;67;95;50])] None [] [(mkMeth [40;41;86] [(Some [60;105;110;105;116;62]); (Some [60;105;110;105;116;62]); (Some [60;105;110;105;116;62])] None [])]);
   (mkClass [(Some [110;101;116;47;66;97;114;36;73;110;110;101;114]); (Some [98;36;99]); (Some [110;101;116;47;67;95;50;36;67;95;51])] None [(mkField [73] [(Some [120]); (Some [120]); (Some [102;95;51])] None)] [])]).
Definition M_partial : mappings :=
  (mkMappings [[111;102;102;105;99;105;97;108]; [110;97;109;101;100]] None [(mkClass [(Some [97]); (Some [70;111;111])] None [(mkField [73] [(Some [102]); None] None)] [(mkMeth [40;41;86] [(Some [109]); (Some [114;117;110])] None [(mkParam 0 [None; None] None)])])]).
Definition M_coll : mappings :=
  (mkMappings [[111;102;102;105;99;105;97;108]; [110;97;109;101;100]] None [(mkClass [(Some [65]); (Some [66])] None [(mkField [76;66;59] [(Some [102]); (Some [103])] None)] [])]).
Definition M_semi : mappings :=
  (mkMappings [[111;102;102;105;99;105;97;108]; [110;97;109;101;100]] None [(mkClass [(Some [65]); (Some [66;59;67])] None [(mkField [76;65;59] [(Some [102]); (Some [103])] None)] [])]).
Definition M_dup : mappings :=
  (mkMappings [[111;102;102;105;99;105;97;108]; [110;97;109;101;100]] None [(mkClass [(Some [65]); (Some [88])] None [] []);
   (mkClass [(Some [66]); (Some [88])] None [] [])]).

(* The hypotheses are satisfiable by a non-trivial mapping set (three namespaces; descriptors
   mentioning mapped classes, an inner class, unmapped classes and arrays; a parameter without
   names): every one of the 3! orders succeeds, and one result is spelled out. *)
Definition nonvacuous : Prop :=
  wf M_ex = true /\ descs_scan M_ex = true /\ class_names_clean M_ex = true /\ nodup_ns M_ex = true
  /\ forallb (fun p => is_permb 3 p && no_collision M_ex (hd O p) && is_ok (reorder M_ex p))
             (perms [0%nat; 1%nat; 2%nat]) = true
  /\ reorder M_ex [2%nat; 0%nat; 1%nat] = Ok M_ex_201
  /\ reorder_by_names M_ex (ms_ns M_ex_201) = Ok M_ex_201
  /\ inv_perm [2%nat; 0%nat; 1%nat] = [1%nat; 2%nat; 0%nat]
  /\ reorder M_ex_201 [1%nat; 2%nat; 0%nat] = Ok M_ex
  (* failure: a field without a name in the new first namespace; the parameter without any name is fine *)
  /\ wf M_partial = true /\ entry_without_name M_partial 1 = true /\ reorder M_partial [1%nat; 0%nat] = Err
  (* failure: two classes with the same name in the new first namespace *)
  /\ wf M_dup = true /\ entry_without_name M_dup 1 = false /\ reorder M_dup [1%nat; 0%nat] = Err.
Lemma nonvacuous_holds : nonvacuous.
Proof. unfold nonvacuous. repeat split; vm_compute; reflexivity. Qed.

(* [no_collision] is needed: official A -> named B with a field of the unmapped type B.  After
   swapping the namespaces the descriptor still says B, which now is the key of the class; swapping
   back turns it into A. *)
Lemma reorder_inv_needs_no_collision :
  exists M p M' M'',
    wf M = true /\ is_permb (length (ms_ns M)) p = true /\ class_names_clean M = true
    /\ descs_scan M = true /\ no_collision M (hd O p) = false
    /\ reorder M p = Ok M' /\ reorder M' (inv_perm p) = Ok M'' /\ equivb M'' M = false.
Proof.
  exists M_coll, [1%nat; 0%nat]. eexists. eexists.
  split; [vm_compute; reflexivity|]. split; [vm_compute; reflexivity|]. split; [vm_compute; reflexivity|].
  split; [vm_compute; reflexivity|]. split; [vm_compute; reflexivity|].
  split; [vm_compute; reflexivity|]. split; vm_compute; reflexivity.
Qed.

(* [class_names_clean] is needed as well (names handed over unchecked may contain `;`) *)
Lemma reorder_inv_needs_clean :
  exists M p M' M'',
    wf M = true /\ is_permb (length (ms_ns M)) p = true /\ no_collision M (hd O p) = true
    /\ class_names_clean M = false
    /\ reorder M p = Ok M' /\ reorder M' (inv_perm p) = Ok M'' /\ equivb M'' M = false.
Proof.
  exists M_semi, [1%nat; 0%nat]. eexists. eexists.
  split; [vm_compute; reflexivity|]. split; [vm_compute; reflexivity|]. split; [vm_compute; reflexivity|].
  split; [vm_compute; reflexivity|].
  split; [vm_compute; reflexivity|]. split; vm_compute; reflexivity.
Qed.
